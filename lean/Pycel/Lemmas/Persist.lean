/-
  Lemmas for Model/Persist.lean: stable insertion sort, the order on sort keys, lookups in ordered mappings,
  cell codec round trip, the cell map of a loaded model.
-/
import Pycel.Model.Persist
import Pycel.Lemmas.Engine
namespace Pycel.Persist
open Pycel List

/-! ### insertion sort -/

section Sorting
variable {β : Type} {le : β → β → Bool}

theorem ins_perm (x : β) : ∀ l : List β, ins le x l ~ x :: l
  | [] => Perm.refl _
  | y :: ys => by
    unfold ins
    split
    · exact Perm.refl _
    · exact ((ins_perm x ys).cons y).trans (Perm.swap x y ys)

theorem isort_perm : ∀ l : List β, isort le l ~ l
  | [] => Perm.refl _
  | x :: xs => (ins_perm x (isort le xs)).trans ((isort_perm xs).cons x)

theorem mem_ins {x a : β} {l : List β} : a ∈ ins le x l ↔ a = x ∨ a ∈ l := by
  rw [(ins_perm (le := le) x l).mem_iff]; simp

theorem ins_sorted (total : ∀ a b, le a b = true ∨ le b a = true)
    (trans : ∀ a b c, le a b = true → le b c = true → le a c = true) (x : β) :
    ∀ l : List β, Pairwise (fun a b => le a b = true) l → Pairwise (fun a b => le a b = true) (ins le x l)
  | [], _ => by simp [ins]
  | y :: ys, h => by
    unfold ins
    rw [pairwise_cons] at h
    split
    · rename_i hxy
      refine pairwise_cons.mpr ⟨fun a ha => ?_, pairwise_cons.mpr h⟩
      rcases mem_cons.mp ha with rfl | ha
      · exact hxy
      · exact trans _ _ _ hxy (h.1 a ha)
    · rename_i hxy
      have hyx : le y x = true := (total x y).resolve_left hxy
      refine pairwise_cons.mpr ⟨fun a ha => ?_, ins_sorted total trans x ys h.2⟩
      rcases mem_ins.mp ha with rfl | ha
      · exact hyx
      · exact h.1 a ha

theorem isort_sorted (total : ∀ a b, le a b = true ∨ le b a = true)
    (trans : ∀ a b c, le a b = true → le b c = true → le a c = true) :
    ∀ l : List β, Pairwise (fun a b => le a b = true) (isort le l)
  | [] => Pairwise.nil
  | x :: xs => ins_sorted total trans x _ (isort_sorted total trans xs)

/-- two sorted lists with the same elements are equal when `le` is antisymmetric on them -/
theorem sorted_perm_eq :
    ∀ (l₁ l₂ : List β), Pairwise (fun a b => le a b = true) l₁ → Pairwise (fun a b => le a b = true) l₂ → l₁ ~ l₂ →
      (∀ a b, a ∈ l₁ → b ∈ l₁ → le a b = true → le b a = true → a = b) → l₁ = l₂
  | [], l₂, _, _, p, _ => by have := p.length_eq; cases l₂ <;> simp_all
  | a :: t₁, [], _, _, p, _ => by have := p.length_eq; simp at this
  | a :: t₁, b :: t₂, h₁, h₂, p, anti => by
    rw [pairwise_cons] at h₁ h₂
    have hb : b ∈ a :: t₁ := p.symm.subset (mem_cons_self)
    have ha : a ∈ b :: t₂ := p.subset (mem_cons_self)
    have hab : a = b := by
      rcases mem_cons.mp hb with h | hb'
      · exact h.symm
      · rcases mem_cons.mp ha with h | ha'
        · exact h
        · exact anti a b mem_cons_self hb (h₁.1 b hb') (h₂.1 a ha')
    subst hab
    have pt : t₁ ~ t₂ := (perm_cons a).mp p
    rw [sorted_perm_eq t₁ t₂ h₁.2 h₂.2 pt
      (fun x y hx hy => anti x y (mem_cons_of_mem _ hx) (mem_cons_of_mem _ hy))]

theorem isort_perm_eq (total : ∀ a b, le a b = true ∨ le b a = true)
    (trans : ∀ a b c, le a b = true → le b c = true → le a c = true) {l l' : List β} (p : l ~ l')
    (anti : ∀ a b, a ∈ l → b ∈ l → le a b = true → le b a = true → a = b) :
    isort le l = isort le l' :=
  sorted_perm_eq _ _ (isort_sorted total trans l) (isort_sorted total trans l')
    ((isort_perm l).trans (p.trans (isort_perm l').symm))
    (fun a b ha hb => anti a b ((isort_perm l).subset ha) ((isort_perm l).subset hb))

/-- a sorted list is left alone -/
theorem isort_of_sorted : ∀ l : List β, Pairwise (fun a b => le a b = true) l → isort le l = l
  | [], _ => rfl
  | x :: xs, h => by
    rw [pairwise_cons] at h
    simp only [isort]
    rw [isort_of_sorted xs h.2]
    cases xs with
    | nil => rfl
    | cons y ys => simp [ins, h.1 y mem_cons_self]

end Sorting

/-! ### the order on sort keys -/

theorem strLe_total : ∀ a b : List Char, strLe a b = true ∨ strLe b a = true
  | [], _ => Or.inl rfl
  | _ :: _, [] => Or.inr rfl
  | a :: as, b :: bs => by
    unfold strLe
    by_cases h1 : a.toNat < b.toNat
    · simp [h1]
    · by_cases h2 : b.toNat < a.toNat
      · simp [h2]
      · simp only [h1, h2, if_false]
        exact strLe_total as bs

theorem strLe_antisymm : ∀ a b : List Char, strLe a b = true → strLe b a = true → a = b
  | [], [], _, _ => rfl
  | [], _ :: _, _, h => by simp [strLe] at h
  | _ :: _, [], h, _ => by simp [strLe] at h
  | a :: as, b :: bs, h1, h2 => by
    unfold strLe at h1 h2
    by_cases l1 : a.toNat < b.toNat
    · have : ¬ b.toNat < a.toNat := by omega
      simp [l1, this] at h2
    · by_cases l2 : b.toNat < a.toNat
      · simp [l1, l2] at h1
      · simp only [l1, l2, if_false] at h1 h2
        have hab : a = b := Char.toNat_inj.mp (by omega)
        rw [hab, strLe_antisymm as bs h1 h2]

theorem strLe_trans : ∀ a b c : List Char, strLe a b = true → strLe b c = true → strLe a c = true
  | [], _, _, _, _ => by simp [strLe]
  | _ :: _, [], _, h, _ => by simp [strLe] at h
  | _ :: _, _ :: _, [], _, h => by simp [strLe] at h
  | a :: as, b :: bs, c :: cs, h1, h2 => by
    unfold strLe at h1 h2 ⊢
    by_cases l1 : a.toNat < b.toNat
    · by_cases l2 : b.toNat < c.toNat
      · have : a.toNat < c.toNat := by omega
        simp [this]
      · by_cases l3 : c.toNat < b.toNat
        · simp [l2, l3] at h2
        · have : a.toNat < c.toNat := by omega
          simp [this]
    · by_cases l1' : b.toNat < a.toNat
      · simp [l1, l1'] at h1
      · simp only [l1, l1', if_false] at h1
        by_cases l2 : b.toNat < c.toNat
        · have : a.toNat < c.toNat := by omega
          simp [this]
        · by_cases l3 : c.toNat < b.toNat
          · simp [l2, l3] at h2
          · simp only [l2, l3, if_false] at h2
            have e1 : ¬ a.toNat < c.toNat := by omega
            have e2 : ¬ c.toNat < a.toNat := by omega
            simp only [e1, e2, if_false]
            exact strLe_trans as bs cs h1 h2

theorem keyLe_total (a b : Key) : keyLe a b = true ∨ keyLe b a = true := by
  obtain ⟨s1, c1, r1, e1⟩ := a
  obtain ⟨s2, c2, r2, e2⟩ := b
  simp only [keyLe]
  by_cases hs : s1 = s2
  · subst hs
    by_cases hc : c1 = c2
    · subst hc; simp only [if_true, decide_eq_true_eq]; omega
    · have hc' : ¬ c2 = c1 := fun h => hc h.symm
      simp only [hc, hc', if_true, if_false, decide_eq_true_eq]; omega
  · have hs' : ¬ s2 = s1 := fun h => hs h.symm
    simp only [hs, hs', if_false]
    exact strLe_total _ _

theorem keyLe_antisymm (a b : Key) (h1 : keyLe a b = true) (h2 : keyLe b a = true) : a.sortKey = b.sortKey := by
  obtain ⟨s1, c1, r1, e1⟩ := a
  obtain ⟨s2, c2, r2, e2⟩ := b
  simp only [keyLe] at h1 h2
  simp only [Key.sortKey]
  by_cases hs : s1 = s2
  · subst hs
    by_cases hc : c1 = c2
    · subst hc
      simp only [if_true, decide_eq_true_eq] at h1 h2
      have : r1 = r2 := by omega
      rw [this]
    · have hc' : ¬ c2 = c1 := fun h => hc h.symm
      simp only [hc, hc', if_true, if_false, decide_eq_true_eq] at h1 h2
      omega
  · have hs' : ¬ s2 = s1 := fun h => hs h.symm
    simp only [hs, hs', if_false] at h1 h2
    exact absurd (strLe_antisymm _ _ h1 h2) hs

theorem keyLe_trans (a b c : Key) (h1 : keyLe a b = true) (h2 : keyLe b c = true) : keyLe a c = true := by
  obtain ⟨s1, c1, r1, e1⟩ := a
  obtain ⟨s2, c2, r2, e2⟩ := b
  obtain ⟨s3, c3, r3, e3⟩ := c
  simp only [keyLe] at h1 h2 ⊢
  by_cases hab : s1 = s2
  · subst hab
    by_cases hbc : s1 = s3
    · subst hbc
      simp only [if_true] at h1 h2 ⊢
      by_cases d1 : c1 = c2
      · subst d1
        by_cases d2 : c1 = c3
        · subst d2
          simp only [if_true, decide_eq_true_eq] at h1 h2 ⊢; omega
        · simp only [d2, if_true, if_false, decide_eq_true_eq] at h1 h2 ⊢; omega
      · by_cases d2 : c2 = c3
        · subst d2
          simp only [d1, if_true, if_false, decide_eq_true_eq] at h1 h2 ⊢; omega
        · simp only [d1, d2, if_false, decide_eq_true_eq] at h1 h2
          have d3 : ¬ c1 = c3 := by omega
          simp only [d3, if_false, decide_eq_true_eq]; omega
    · simp only [hbc, if_true, if_false] at h1 h2 ⊢
      exact h2
  · by_cases hbc : s2 = s3
    · subst hbc
      simp only [hab, if_true, if_false] at h1 h2 ⊢
      exact h1
    · simp only [hab, hbc, if_false] at h1 h2
      have h3 := strLe_trans _ _ _ h1 h2
      by_cases hac : s1 = s3
      · subst hac
        exact absurd (strLe_antisymm _ _ h1 h2) hab
      · simp only [hac, if_false]; exact h3

theorem entryLe_total {τ : Type} (a b : Key × τ) : entryLe a b = true ∨ entryLe b a = true := keyLe_total _ _

theorem entryLe_trans {τ : Type} (a b c : Key × τ) : entryLe a b = true → entryLe b c = true → entryLe a c = true :=
  keyLe_trans _ _ _

/-! ### lookups in ordered mappings -/

section Find
variable {β : Type}

theorem find_none_iff {k : Key} : ∀ {l : List (Key × β)}, find k l = none ↔ k ∉ l.map (·.1)
  | [] => by simp [find]
  | (k', v) :: l => by
    simp only [find, map_cons, mem_cons, not_or]
    by_cases h : k = k'
    · simp [h]
    · simp [h, find_none_iff (l := l)]

theorem find_some_of_mem {k : Key} {v : β} : ∀ {l : List (Key × β)}, (l.map (·.1)).Nodup → (k, v) ∈ l → find k l = some v
  | [], _, h => by simp at h
  | (k', v') :: l, nd, h => by
    simp only [map_cons, nodup_cons] at nd
    simp only [find]
    rcases mem_cons.mp h with h | h
    · cases h; simp
    · have : k ≠ k' := fun e => nd.1 (e ▸ mem_map_of_mem (f := (·.1)) h)
      simp [this, find_some_of_mem nd.2 h]

theorem mem_of_find_some {k : Key} {v : β} : ∀ {l : List (Key × β)}, find k l = some v → (k, v) ∈ l
  | [], h => by simp [find] at h
  | (k', v') :: l, h => by
    simp only [find] at h
    by_cases e : k = k'
    · simp only [e, if_true, Option.some.injEq] at h; simp [e, h]
    · simp only [e, if_false] at h; exact mem_cons_of_mem _ (mem_of_find_some h)

/-- a mapping with distinct keys does not depend on the order of its entries -/
theorem find_perm {k : Key} {l l' : List (Key × β)} (nd : (l.map (·.1)).Nodup) (p : l ~ l') : find k l = find k l' := by
  have nd' : (l'.map (·.1)).Nodup := (p.map _).nodup_iff.mp nd
  cases h : find k l with
  | none =>
    have := find_none_iff.mp h
    exact (find_none_iff.mpr fun hk => this ((p.map _).mem_iff.mpr hk)).symm
  | some v => exact (find_some_of_mem nd' (p.subset (mem_of_find_some h))).symm

theorem find_append {k : Key} (l l' : List (Key × β)) : find k (l ++ l') = (find k l).orElse fun _ => find k l' := by
  induction l with
  | nil => simp [find]
  | cons a l ih =>
    obtain ⟨k', v⟩ := a
    simp only [cons_append, find]
    by_cases e : k = k' <;> simp [e, ih]

theorem find_map_val {γ : Type} (g : β → γ) {k : Key} : ∀ l : List (Key × β),
    find k (l.map fun kv => (kv.1, g kv.2)) = (find k l).map g
  | [] => rfl
  | (k', v) :: l => by
    simp only [map_cons, find]
    by_cases e : k = k' <;> simp [e, find_map_val g l]

end Find

/-! ### cell codec -/

/-- the hypothesis the round trip needs: a value cell sits at a cell address and its text does not start with '=';
    a plain range sits at a range address -/
def EntryOK (e : Entry) : Prop :=
  match e.content with
  | .const v => e.key.isRange = false ∧ startsWithEq v = false
  | .code _ => True
  | .plain => e.key.isRange = true

instance (e : Entry) : Decidable (EntryOK e) := by
  unfold EntryOK; split <;> infer_instance

theorem decodeCell_code (py : List Char) : decodeCell (encodeCell (.code py)) = .code py := rfl

theorem decodeCell_const {v : Val} (h : startsWithEq v = false) : decodeCell (encodeCell (.const v)) = .const v := by
  unfold encodeCell decodeCell
  split
  · rename_i py heq; simp [heq, startsWithEq] at h
  · rfl

theorem decodeEntry_encode {e : Entry} (ok : EntryOK e) (hs : e.serialized = true) :
    decodeEntry (e.key, encodeCell e.content) = e := by
  obtain ⟨k, c⟩ := e
  cases c with
  | code py => rfl
  | plain => simp [Entry.serialized] at hs
  | const v =>
    simp only [EntryOK] at ok
    simp only [decodeEntry, decodeCell_const ok.2, ok.1]
    simp

def pairOf (e : Entry) : Key × Val := (e.key, encodeCell e.content)

/-- the pairs written to the file, before sorting -/
def rawPairs (cells : List Entry) : List (Key × Val) := (cells.filter Entry.serialized).map pairOf

theorem serialize_eq (cells : List Entry) : serialize cells = isort entryLe (rawPairs cells) := rfl

theorem serialize_perm (cells : List Entry) : serialize cells ~ rawPairs cells := isort_perm _

def NodupKeys (cells : List Entry) : Prop := (cells.map (·.key)).Nodup

instance (cells : List Entry) : Decidable (NodupKeys cells) := inferInstanceAs (Decidable (List.Nodup _))

theorem rawPairs_keys_nodup {cells : List Entry} (nd : NodupKeys cells) : ((rawPairs cells).map (·.1)).Nodup := by
  unfold rawPairs
  rw [map_map]
  have : ((·.1) ∘ pairOf : Entry → Key) = (·.key) := rfl
  rw [this]
  exact nd.sublist ((filter_sublist (l := cells)).map _)

theorem serialize_keys_nodup {cells : List Entry} (nd : NodupKeys cells) : ((serialize cells).map (·.1)).Nodup :=
  ((serialize_perm cells).map _).nodup_iff.mpr (rawPairs_keys_nodup nd)

/-- the cell map the loader builds from the (decoded) file entries -/
def rebuild (entries : List Entry) (rebuilt : List Key) : List Entry :=
  entries.filter (fun e => !e.key.isRange) ++ entries.filter (fun e => e.key.isRange) ++
    rebuilt.map (fun k => ⟨k, .plain⟩)

theorem filter_not_append_filter_perm (p : β → Bool) (l : List β) :
    l.filter (fun x => !p x) ++ l.filter p ~ l := by
  induction l with
  | nil => simp
  | cons a l ih =>
    by_cases h : p a
    · simp only [filter_cons, h, Bool.not_true, Bool.false_eq_true, if_false, if_true]
      exact perm_middle.trans (ih.cons a)
    · simp only [filter_cons, h, Bool.not_false, if_true, Bool.false_eq_true, if_false, cons_append]
      exact ih.cons a

theorem rebuild_filter_perm (entries : List Entry) (rebuilt : List Key) (hs : ∀ e, e ∈ entries → e.serialized = true) :
    (rebuild entries rebuilt).filter Entry.serialized ~ entries := by
  unfold rebuild
  rw [filter_append, filter_append]
  have h3 : (rebuilt.map fun k => (⟨k, .plain⟩ : Entry)).filter Entry.serialized = [] := by
    rw [filter_eq_nil_iff]; intro e he; rcases mem_map.mp he with ⟨k, _, rfl⟩; simp [Entry.serialized]
  have h1 : (entries.filter fun e => !e.key.isRange).filter Entry.serialized = entries.filter fun e => !e.key.isRange :=
    filter_eq_self.mpr fun e he => hs e (mem_filter.mp he).1
  have h2 : (entries.filter fun e => e.key.isRange).filter Entry.serialized = entries.filter fun e => e.key.isRange :=
    filter_eq_self.mpr fun e he => hs e (mem_filter.mp he).1
  rw [h1, h2, h3, append_nil]
  exact filter_not_append_filter_perm _ _

/-- decoding what was encoded gives back the serialized entries, in file order -/
theorem decode_serialize (c : Codec τ) {cells : List Entry} (ok : ∀ e, e ∈ cells → EntryOK e)
    (hc : ∀ e, e ∈ cells → e.serialized = true → c.dec (c.enc (encodeCell e.content)) = encodeCell e.content) :
    (((serialize cells).map fun kv => (kv.1, c.enc kv.2)).map fun kv => decodeEntry (kv.1, c.dec kv.2)) ~
      cells.filter Entry.serialized := by
  rw [map_map]
  have p := (serialize_perm cells).map ((fun kv => decodeEntry (kv.1, c.dec kv.2)) ∘ fun kv : Key × Val => (kv.1, c.enc kv.2))
  refine p.trans ?_
  unfold rawPairs
  rw [map_map]
  have : ∀ e, e ∈ cells.filter Entry.serialized →
      (((fun kv => decodeEntry (kv.1, c.dec kv.2)) ∘ fun kv : Key × Val => (kv.1, c.enc kv.2)) ∘ pairOf) e = e := by
    intro e he
    have hm := mem_filter.mp he
    simp only [Function.comp, pairOf]
    rw [hc e hm.1 hm.2]
    exact decodeEntry_encode (ok e hm.1) hm.2
  rw [map_congr_left this, map_id']

/-! ### reading the document back -/

section DocLemmas
variable {δ τ : Type}

def userItems (l : List (List Char × δ)) : Doc δ τ := l.map fun kv => (kv.1, Item.user kv.2)

theorem docCellMap_user (l : List (List Char × δ)) (r : Doc δ τ) : docCellMap (userItems l ++ r) = docCellMap r := by
  induction l with
  | nil => rfl
  | cons a l ih => simpa [userItems, docCellMap] using ih

theorem docCycles_user (l : List (List Char × δ)) (r : Doc δ τ) : docCycles (userItems l ++ r) = docCycles r := by
  induction l with
  | nil => rfl
  | cons a l ih => simpa [userItems, docCycles] using ih

theorem docHash_user (l : List (List Char × δ)) (r : Doc δ τ) : docHash (userItems l ++ r) = docHash r := by
  induction l with
  | nil => rfl
  | cons a l ih => simpa [userItems, docHash] using ih

theorem docFilename_user (stem : List Char) (l : List (List Char × δ)) (r : Doc δ τ) :
    docFilename stem (userItems l ++ r) = docFilename stem r := by
  induction l with
  | nil => rfl
  | cons a l ih => simpa [userItems, docFilename] using ih

theorem docExtra_user (emb : Emb δ) (l : List (List Char × δ)) (r : Doc δ τ) :
    docExtra emb (userItems l ++ r) = l ++ docExtra emb r := by
  induction l with
  | nil => rfl
  | cons a l ih => simpa [userItems, docExtra] using ih

theorem toDoc_eq (c : Codec τ) (m : Model δ) : toDoc c m = userItems (userPart m.extraList) ++
    [(kCycles, .cycles m.cycles), (kHash, .hash m.hash),
     (kCellMap, .cellMap ((serialize m.cells).map fun kv => (kv.1, c.enc kv.2))), (kFilename, .filename m.filename)] := rfl

theorem userPart_idem (l : List (List Char × δ)) : userPart (userPart l) = userPart l := by
  unfold userPart; rw [filter_filter]; simp

theorem userPart_append (l l' : List (List Char × δ)) : userPart (l ++ l') = userPart l ++ userPart l' := by
  unfold userPart; rw [filter_append]

theorem reserved_kCycles : reserved kCycles = true := by decide
theorem reserved_kHash : reserved kHash = true := by decide
theorem reserved_kCellMap : reserved kCellMap = true := by decide
theorem reserved_kFilename : reserved kFilename = true := by decide

end DocLemmas

/-! ### the cell map of a reloaded model, as a lookup -/

theorem strip_orElse_plain (x y : Option Content) (hy : y = none ∨ y = some .plain) :
    strip (x.orElse fun _ => y) = strip x := by
  cases x with
  | some c => rfl
  | none => rcases hy with rfl | rfl <;> rfl

def contentPair (e : Entry) : Key × Content := (e.key, e.content)

theorem findEntry_eq (k : Key) (l : List Entry) : findEntry k l = find k (l.map contentPair) := rfl

theorem find_plain (k : Key) (ks : List Key) :
    find k ((ks.map fun k => (⟨k, .plain⟩ : Entry)).map contentPair) = none ∨
    find k ((ks.map fun k => (⟨k, .plain⟩ : Entry)).map contentPair) = some .plain := by
  induction ks with
  | nil => exact Or.inl rfl
  | cons a ks ih =>
    simp only [map_cons, contentPair, find]
    by_cases e : k = a
    · simp [e]
    · simpa [e, contentPair] using ih

theorem contentPair_keys (l : List Entry) : (l.map contentPair).map (·.1) = l.map (·.key) := by
  rw [map_map]; rfl

theorem strip_find_filter {k : Key} : ∀ {cells : List Entry}, NodupKeys cells →
    strip (findEntry k (cells.filter Entry.serialized)) = strip (findEntry k cells)
  | [], _ => rfl
  | e :: l, nd => by
    have nd' : NodupKeys l := (nodup_cons.mp nd).2
    have hk : e.key ∉ l.map (·.key) := (nodup_cons.mp nd).1
    by_cases hs : e.serialized = true
    · simp only [filter_cons, hs, if_true, findEntry_eq, map_cons, contentPair, find]
      by_cases ek : k = e.key
      · simp [ek]
      · simpa [ek, findEntry_eq, contentPair] using strip_find_filter (k := k) nd'
    · simp only [filter_cons, hs, Bool.false_eq_true, if_false]
      rw [strip_find_filter nd']
      simp only [findEntry_eq, map_cons, contentPair, find]
      by_cases ek : k = e.key
      · have hp : e.content = .plain := by
          obtain ⟨k', c⟩ := e
          cases c <;> simp_all [Entry.serialized]
        have hnone : find k (l.map contentPair) = none := by
          apply find_none_iff.mpr
          rw [contentPair_keys]; rw [ek]; exact hk
        rw [hnone, if_pos ek, hp]; rfl
      · simp [ek]

/-- the lookup view of the cell map built from entries that are, up to order, the serialized cells -/
theorem strip_find_rebuild {k : Key} {cells entries : List Entry} (rebuilt : List Key) (nd : NodupKeys cells)
    (p : entries ~ cells.filter Entry.serialized) :
    strip (findEntry k (rebuild entries rebuilt)) = strip (findEntry k cells) := by
  rw [← strip_find_filter nd]
  unfold rebuild
  rw [findEntry_eq, map_append, find_append]
  rw [strip_orElse_plain _ _ (find_plain k rebuilt)]
  have pp : (entries.filter (fun e => !e.key.isRange) ++ entries.filter (fun e => e.key.isRange)) ~
      cells.filter Entry.serialized := (filter_not_append_filter_perm _ _).trans p
  have ndS : (((entries.filter (fun e => !e.key.isRange) ++ entries.filter (fun e => e.key.isRange)).map
      contentPair).map (·.1)).Nodup := by
    rw [contentPair_keys]
    refine ((pp.map _).nodup_iff).mpr ?_
    exact nd.sublist ((filter_sublist (l := cells)).map _)
  rw [find_perm ndS (pp.map contentPair)]
  rfl

/-! ### the engine view only sees the stripped lookup -/

section ViewLemmas
variable {α : Type}

def codeOfOpt : Option Content → Option (List Char)
  | some (.code py) => some py
  | _ => none

theorem codeOfOpt_strip (o : Option Content) : codeOfOpt (strip o) = codeOfOpt o := by
  cases o with
  | none => rfl
  | some c => cases c <;> rfl

theorem codeAt_eq (V : View α) (cm : Key → Option Content) (i : Nat) :
    codeAt V cm i = if i < V.n then codeOfOpt (strip (cm (V.keyOf i))) else none := by
  unfold codeAt
  split
  · rw [codeOfOpt_strip]
    cases cm (V.keyOf i) with
    | none => rfl
    | some c => cases c <;> rfl
  · rfl

theorem codeAt_congr (V : View α) {cm cm' : Key → Option Content} (h : ∀ k, strip (cm k) = strip (cm' k)) :
    codeAt V cm = codeAt V cm' := by
  funext i; rw [codeAt_eq, codeAt_eq, h]

theorem wbOf_congr (V : View α) {cm cm' : Key → Option Content} (h : ∀ k, strip (cm k) = strip (cm' k)) :
    wbOf V cm = wbOf V cm' := by
  unfold wbOf; rw [codeAt_congr V h]

theorem semOf_congr (V : View α) {cm cm' : Key → Option Content} (h : ∀ k, strip (cm k) = strip (cm' k)) :
    semOf V cm = semOf V cm' := by
  unfold semOf; rw [codeAt_congr V h]

theorem inpOf_congr (V : View α) {cm cm' : Key → Option Content} (h : ∀ k, strip (cm k) = strip (cm' k)) :
    inpOf V cm = inpOf V cm' := by
  funext i
  unfold inpOf
  have := h (V.keyOf i)
  cases h1 : cm (V.keyOf i) with
  | none =>
    cases h2 : cm' (V.keyOf i) with
    | none => rfl
    | some c' => cases c' <;> simp_all [strip]
  | some c =>
    cases h2 : cm' (V.keyOf i) with
    | none => cases c <;> simp_all [strip]
    | some c' => cases c <;> cases c' <;> simp_all [strip]

end ViewLemmas

/-! ### histories on two states with the same inputs and the same cell map -/

section Histories
open Pycel.Engine
variable {α : Type} {wb : Workbook} {f : Nat → (Nat → α) → α}

/-- what `setValue` does to the inputs, for ANY equality test -/
theorem setValue_inp_any (hwf : WF wb) (hl : Local wb f) (eqv : α → α → Bool) {s : State α} (hinv : Inv wb f s)
    (i : Nat) (v : α) :
    (setValue wb eqv i v s).inp =
      if i < wb.n ∧ wb.kind i = .input ∧ s.built i = true then
        (if eqv (s.inp i) v = true then s.inp else update s.inp i v) else s.inp := by
  unfold setValue
  split
  · split
    · rfl
    · exact (setWalk_spec hwf hl hinv i v).2.1
  · rfl

/-- two states that satisfy the invariant, have the same current inputs and both hold every cell in the cell map keep
    the same inputs (and the full cell map) under every history -/
theorem run_same_inputs (hwf : WF wb) (hl : Local wb f) (eqv : α → α → Bool) :
    ∀ (h : List (Op α)) (s t : State α), Inv wb f s → Inv wb f t → s.inp = t.inp →
      (∀ k, k < wb.n → s.built k = true) → (∀ k, k < wb.n → t.built k = true) →
      (run wb f eqv s h).inp = (run wb f eqv t h).inp := by
  intro h
  induction h with
  | nil => intro s t _ _ e _ _; exact e
  | cons op h ih =>
    intro s t hs ht e bs bt
    simp only [run, foldl_cons]
    cases op with
    | set i v =>
      simp only [step]
      refine ih _ _ (setValue_inv hwf hl eqv hs i v) (setValue_inv hwf hl eqv ht i v) ?_ ?_ ?_
      · rw [setValue_inp_any hwf hl eqv hs, setValue_inp_any hwf hl eqv ht, e]
        by_cases hi : i < wb.n
        · simp [hi, bs i hi, bt i hi]
        · simp [hi]
      · rw [setValue_built hwf hl eqv hs]; exact bs
      · rw [setValue_built hwf hl eqv ht]; exact bt
    | eval a =>
      simp only [step]
      have es := evaluate_spec hwf hl hs a
      have et := evaluate_spec hwf hl ht a
      refine ih _ _ es.inv et.inv ?_ (fun k hk => es.mono k (bs k hk)) (fun k hk => et.mono k (bt k hk))
      rw [es.inp, et.inp, e]

/-- "same inputs, whole cell map built, invariant" — what two models that answer alike have in common -/
structure Alike (wb : Workbook) (f : Nat → (Nat → α) → α) (s t : State α) : Prop where
  invS : Inv wb f s
  invT : Inv wb f t
  inp : s.inp = t.inp
  builtS : ∀ k, k < wb.n → s.built k = true
  builtT : ∀ k, k < wb.n → t.built k = true

theorem Alike.stepSet (hwf : WF wb) (hl : Local wb f) (eqv : α → α → Bool) {s t : State α} (h : Alike wb f s t)
    (i : Nat) (v : α) : Alike wb f (setValue wb eqv i v s) (setValue wb eqv i v t) := by
  refine ⟨setValue_inv hwf hl eqv h.invS i v, setValue_inv hwf hl eqv h.invT i v, ?_, ?_, ?_⟩
  · rw [setValue_inp_any hwf hl eqv h.invS, setValue_inp_any hwf hl eqv h.invT, h.inp]
    by_cases hi : i < wb.n
    · simp [hi, h.builtS i hi, h.builtT i hi]
    · simp [hi]
  · rw [setValue_built hwf hl eqv h.invS]; exact h.builtS
  · rw [setValue_built hwf hl eqv h.invT]; exact h.builtT

theorem Alike.stepEval (hwf : WF wb) (hl : Local wb f) {s t : State α} (h : Alike wb f s t) (a : Nat) :
    Alike wb f (evaluate wb f a s).2 (evaluate wb f a t).2 := by
  have es := evaluate_spec hwf hl h.invS a
  have et := evaluate_spec hwf hl h.invT a
  exact ⟨es.inv, et.inv, by rw [es.inp, et.inp, h.inp], fun k hk => es.mono k (h.builtS k hk),
    fun k hk => et.mono k (h.builtT k hk)⟩

theorem Alike.evalVal (hwf : WF wb) (hl : Local wb f) {s t : State α} (h : Alike wb f s t) (a : Nat)
    (ha : a < wb.n) : (evaluate wb f a s).1 = (evaluate wb f a t).1 := by
  rw [(evaluate_spec hwf hl h.invS a).val ha, (evaluate_spec hwf hl h.invT a).val ha, h.inp]

theorem Alike.stepSetL (hwf : WF wb) (hl : Local wb f) (eqv : α → α → Bool) (l : List (Nat × α)) :
    ∀ {s t : State α}, Alike wb f s t → Alike wb f (setMany wb eqv l s) (setMany wb eqv l t) := by
  induction l with
  | nil => intro s t h; exact h
  | cons p r ih =>
    intro s t h
    obtain ⟨i, v⟩ := p
    unfold setMany
    by_cases hi : i < wb.n
    · by_cases hk : wb.kind i = .input
      · simp only [hi, hk, h.builtS i hi, h.builtT i hi, and_self, if_true]
        exact ih (h.stepSet hwf hl eqv i v)
      · simp only [hk, false_and, and_false, if_false]; exact h
    · simp only [hi, false_and, if_false]; exact h

theorem Alike.stepEvalL (hwf : WF wb) (hl : Local wb f) (l : List Nat) :
    ∀ {s t : State α}, Alike wb f s t → Alike wb f (evalMany wb f l s).2 (evalMany wb f l t).2 := by
  induction l with
  | nil => intro s t h; exact h
  | cons a r ih => intro s t h; exact ih (h.stepEval hwf hl a)

theorem Alike.evalLVal (hwf : WF wb) (hl : Local wb f) (l : List Nat) (hl' : ∀ a, a ∈ l → a < wb.n)
    {s t : State α} (h : Alike wb f s t) : (evalMany wb f l s).1 = (evalMany wb f l t).1 := by
  rw [(evalMany_spec hwf hl l h.invS hl').1, (evalMany_spec hwf hl l h.invT hl').1, h.inp]

theorem Alike.runs (hwf : WF wb) (hl : Local wb f) (eqv : α → α → Bool) (h : List (OpX α)) :
    ∀ {s t : State α}, Alike wb f s t → Alike wb f (runX wb f eqv s h) (runX wb f eqv t h) := by
  induction h with
  | nil => intro s t a; exact a
  | cons o h ih =>
    intro s t a
    simp only [runX, foldl_cons]
    apply ih
    cases o with
    | op o =>
      cases o with
      | set i v => exact a.stepSet hwf hl eqv i v
      | eval x => exact a.stepEval hwf hl x
    | setMany l => exact a.stepSetL hwf hl eqv l
    | evalMany l => exact a.stepEvalL hwf hl l

end Histories

end Pycel.Persist

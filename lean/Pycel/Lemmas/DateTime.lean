/-
  Helper lemmas for C17 (Excel's 1900 calendar on top of the calendar round trip of Lemmas/DateCal.lean, and the
  rational arithmetic of time_from_serialnumber).  Property theorems are in Props/C17.lean.
-/
import Pycel.Lemmas.DateCal
namespace Pycel.DateTime
open Pycel

theorem month_cases (m : Int) (h1 : 1 ≤ m) (h2 : m ≤ 12) :
    m = 1 ∨ m = 2 ∨ m = 3 ∨ m = 4 ∨ m = 5 ∨ m = 6 ∨ m = 7 ∨ m = 8 ∨ m = 9 ∨ m = 10 ∨ m = 11 ∨ m = 12 := by omega

theorem dby_1900 : daysBeforeYear 1900 = 693595 := by decide
theorem dby_1901 : daysBeforeYear 1901 = 693960 := by decide
theorem dby_9999 : daysBeforeYear 9999 = 3651694 := by decide
theorem isLeap_1900 : isLeap 1900 = false := by decide

theorem ord_day (y m d : Int) : ord y m d = ord y m 1 + (d - 1) := by
  unfold ord; omega

/-- a valid date on or after 1900-03-01 -/
def afterFeb1900 (y m : Int) : Prop := 1900 < y ∨ (y = 1900 ∧ 3 ≤ m)

theorem ord_after {y m d : Int} (h : validYmd y m d) (ha : afterFeb1900 y m) : zeroOrd + 61 ≤ ord y m 1 := by
  have hz : zeroOrd = 693594 := by decide
  rcases ha with hy | ⟨hy, hm⟩
  · have := daysBeforeYear_mono (y := 1901) (y' := y) (by omega)
    rw [dby_1901] at this
    unfold ord; omega
  · subst hy
    obtain ⟨h1, h2, _, _⟩ := h
    rcases month_cases m h1 h2 with h | h | h | h | h | h | h | h | h | h | h | h <;> subst h <;>
      first | omega | (rw [hz]; decide)

theorem before_or_after {y m d : Int} (h : validYmd y m d) (n : Int) (hn : 61 ≤ n) (ho : ord y m d = zeroOrd + n) :
    afterFeb1900 y m := by
  have hz : zeroOrd = 693594 := by decide
  unfold afterFeb1900
  by_cases hy : 1900 < y
  · exact Or.inl hy
  · right
    by_cases hy2 : y = 1900
    · subst hy2
      refine ⟨rfl, ?_⟩
      obtain ⟨h1, h2, h3, h4⟩ := h
      rcases month_cases m h1 h2 with h | h | h | h | h | h | h | h | h | h | h | h <;> subst h <;>
        first | omega | (exfalso; revert ho h4; unfold ord; rw [hz, dby_1900, isLeap_1900]; simp [dbm, dim, Gen.daysBeforeMonth, Gen.daysInMonth]; omega)
    · exfalso
      have hlt : y < 1900 := by omega
      have hv : validYmd 1900 1 1 := by unfold validYmd; decide
      have := ord_lt_of_year_lt h hv hlt
      have h11 : ord 1900 1 1 = 693596 := by decide
      omega


/-! ### DATE on legal dates -/

theorem serialArg_int (n : Int) (h0 : 0 ≤ n) (h1 : n < maxInt) : serialArg (n : Rat) = some n := by
  unfold serialArg
  have a : ¬ ((n : Rat) < 0) := by
    rw [← Rat.intCast_zero, Rat.intCast_lt_intCast]; omega
  have b : ¬ ((maxInt : Rat) ≤ (n : Rat)) := by
    rw [Rat.intCast_le_intCast]; omega
  rw [if_neg (by simp [a, b]), Rat.floor_intCast]

theorem valid_first {y m d : Int} (h : validYmd y m d) : validYmd y m 1 := by
  obtain ⟨h1, h2, h3, h4⟩ := h
  exact ⟨h1, h2, by omega, by omega⟩

theorem carryMonth_id (y m : Int) (h1 : 1 ≤ m) (h2 : m ≤ 12) : carryMonth y m = (y, m) := by
  unfold carryMonth
  have : (m - 1) / 12 = 0 := by omega
  have : (m - 1) % 12 + 1 = m := by omega
  simp [*]

theorem dateSerial_eq (y m d : Int) : dateSerial y m d =
    xlSerial (carryMonth (if y < 1900 then y + 1900 else y) m).1
      (carryMonth (if y < 1900 then y + 1900 else y) m).2 1 + (d - 1) := rfl

theorem dateSerial_std (y m d : Int) (hy : 1900 ≤ y) (h1 : 1 ≤ m) (h2 : m ≤ 12) :
    dateSerial y m d = xlSerial y m 1 + (d - 1) := by
  rw [dateSerial_eq, if_neg (by omega), carryMonth_id y m h1 h2]

theorem dateSerial_after {y m d : Int} (h : validYmd y m 1) (ha : afterFeb1900 y m) :
    dateSerial y m d = ord y m d - zeroOrd := by
  have hy : 1900 ≤ y := by rcases ha with h | ⟨h, _⟩ <;> omega
  have := ord_after h ha
  rw [dateSerial_std y m d hy h.1 h.2.1]
  simp only [xlSerial]
  rw [if_neg (by omega), ord_day y m d]
  omega

theorem year_le_9999 {y m d : Int} (h : validYmd y m d) (ho : ord y m d < zeroOrd + maxInt) : y ≤ 9999 := by
  by_cases hy : y ≤ 9999
  · exact hy
  · exfalso
    have := daysBeforeYear_mono (y := 10000) (y' := y) (by omega)
    have h10 : daysBeforeYear 10000 = 3652059 := by decide
    have := (valid_doy h).1
    have hz : zeroOrd + maxInt = 3652060 := by decide
    unfold ord at ho
    omega

theorem dateFn_after {y m d : Int} (h : validYmd y m d) (ha : afterFeb1900 y m) (n : Int)
    (ho : ord y m d = zeroOrd + n) (h1 : n < maxInt) : dateFn y m d = .num (n : Rat) := by
  have hy : 1900 ≤ y := by rcases ha with h | ⟨h, _⟩ <;> omega
  have h9 := year_le_9999 h (by omega)
  have h61 := ord_after (valid_first h) ha
  have hd := ord_day y m d
  have hd1 := h.2.2.1
  unfold dateFn
  rw [if_neg (by omega), dateSerial_after (valid_first h) ha, inRange, if_pos (by omega)]
  congr 2; omega

theorem carryMonth_range (y m : Int) :
    1 ≤ (carryMonth y m).2 ∧ (carryMonth y m).2 ≤ 12 ∧ 12 * (carryMonth y m).1 + (carryMonth y m).2 = 12 * y + m := by
  unfold carryMonth; simp only []; omega

theorem ord_le_max {y m d : Int} (h : validYmd y m d) (hy : y ≤ 9999) : ord y m d < zeroOrd + maxInt := by
  have hz : zeroOrd + maxInt = 3652060 := by decide
  by_cases h9 : y = 9999
  · subst h9
    have := (valid_doy h).2
    have hl : isLeap 9999 = false := by decide
    rw [hl] at this
    unfold ord
    rw [dby_9999, hl]
    simp at this
    omega
  · have hv : validYmd 9999 12 31 := by unfold validYmd; decide
    have := ord_lt_of_year_lt h hv (by omega)
    have : ord 9999 12 31 = 3652059 := by decide
    omega

theorem dimXl_eq {y m : Int} (ha : afterFeb1900 y m) : dimXl y m = dim (isLeap y) m.toNat := by
  unfold dimXl isLeapXl
  rcases ha with h | ⟨h, hm⟩
  · have : decide (y = 1900) = false := by simp; omega
    rw [this]; simp
  · subst h
    have h2 : ¬ (m.toNat = 2) := by omega
    simp [dim, h2]

theorem dim_pos (leap : Bool) (m : Int) (h1 : 1 ≤ m) (h2 : m ≤ 12) : 1 ≤ (dim leap m.toNat : Int) := by
  rcases month_cases m h1 h2 with h | h | h | h | h | h | h | h | h | h | h | h <;> subst h <;>
    cases leap <;> decide

theorem monthsInc_eq (n k : Int) (eom : Bool) (h0 : 0 ≤ n) (h1 : n < maxInt) (ym : Int × Int)
    (hym : carryMonth (dateFromInt n).1 ((dateFromInt n).2.1 + k) = ym) (hlo : 1900 ≤ ym.1) (hhi : ym.1 ≤ 9999) :
    monthsInc n k eom =
      dateFn ym.1 ym.2 (if eom then dimXl ym.1 ym.2 else min (dateFromInt n).2.2 (dimXl ym.1 ym.2)) := by
  subst hym
  have hzy : (Gen.dateZeroY : Int) = 1899 := by decide
  unfold monthsInc
  rw [if_neg (by omega)]
  simp only []
  rw [hzy, if_neg (Classical.not_not.mpr ⟨by omega, by omega⟩)]

theorem dimXl_pos (y m : Int) (h1 : 1 ≤ m) (h2 : m ≤ 12) : 1 ≤ dimXl y m := dim_pos _ _ h1 h2

/-! ### rational arithmetic of `time_from_serialnumber` -/

theorem floor_eq (q : Rat) (n : Int) (h1 : (n : Rat) ≤ q) (h2 : q < (n : Rat) + 1) : q.floor = n := by
  have a : n ≤ q.floor := Rat.le_floor_iff.mpr h1
  have b : q.floor < n + 1 := by
    apply Rat.floor_lt_iff.mpr
    rw [Rat.intCast_add]; exact h2
  omega

theorem micro_pos : 0 < micro := by decide +kernel
theorem micro_small : 86400 * micro < guard := by decide +kernel
theorem guard_small : guard < 1 / 2 := by decide +kernel

theorem round_below (s : Int) (δ : Rat) (h0 : 0 < δ) (h1 : δ < 1 / 2) : roundHalfEven ((s : Rat) - δ) = s := by
  have hf : ((s : Rat) - δ).floor = s - 1 := by
    apply floor_eq
    · rw [Rat.intCast_sub]; grind
    · rw [Rat.intCast_sub]; grind
  unfold roundHalfEven
  simp only [hf]
  rw [Rat.intCast_sub]
  have e : (((1 : Int) : Rat)) = 1 := rfl
  rw [e]
  have a : ¬ ((s : Rat) - δ - ((s : Rat) - 1) < 1 / 2) := by grind
  have b : (1 / 2 : Rat) < (s : Rat) - δ - ((s : Rat) - 1) := by grind
  rw [if_neg a, if_pos b]; omega


/-- "HOUR/MINUTE/SECOND decompose the fraction of a day to the nearest second", on whole seconds of any day -/
theorem hmsRaw_whole (D k : Int) :
    hmsRaw ((D : Rat) + (k : Rat) / 86400) = (24 * D + k / 3600, k / 60 % 60, k % 60) := by
  have mp := micro_pos
  have ms := micro_small
  have gs := guard_small
  have eH : (k : Rat) = 3600 * ((k / 3600 : Int) : Rat) + ((k % 3600 : Int) : Rat) := by
    rw [← Rat.intCast_ofNat, ← Rat.intCast_mul, ← Rat.intCast_add, Rat.intCast_inj]; omega
  have eM : ((k % 3600 : Int) : Rat) = 60 * ((k / 60 % 60 : Int) : Rat) + ((k % 60 : Int) : Rat) := by
    rw [← Rat.intCast_ofNat, ← Rat.intCast_mul, ← Rat.intCast_add, Rat.intCast_inj]; omega
  have r0 : (0 : Rat) ≤ ((k % 3600 : Int) : Rat) := by rw [← Rat.intCast_zero, Rat.intCast_le_intCast]; omega
  have r1 : ((k % 3600 : Int) : Rat) ≤ 3599 := by rw [← Rat.intCast_ofNat, Rat.intCast_le_intCast]; omega
  have s0 : (0 : Rat) ≤ ((k % 60 : Int) : Rat) := by rw [← Rat.intCast_zero, Rat.intCast_le_intCast]; omega
  have s1 : ((k % 60 : Int) : Rat) ≤ 59 := by rw [← Rat.intCast_ofNat, Rat.intCast_le_intCast]; omega
  have hH : (((D : Rat) + (k : Rat) / 86400 + micro) * 24).floor = 24 * D + k / 3600 := by
    apply floor_eq
    · rw [Rat.intCast_add, Rat.intCast_mul]; grind
    · rw [Rat.intCast_add, Rat.intCast_mul]; grind
  have hM : ((((D : Rat) + (k : Rat) / 86400 + micro) * 24 - ((24 * D + k / 3600 : Int) : Rat)) * 60).floor
      = k / 60 % 60 := by
    apply floor_eq
    · rw [Rat.intCast_add, Rat.intCast_mul]; grind
    · rw [Rat.intCast_add, Rat.intCast_mul]; grind
  have hS : ((((D : Rat) + (k : Rat) / 86400 + micro) * 24 - ((24 * D + k / 3600 : Int) : Rat)) * 60
      - ((k / 60 % 60 : Int) : Rat)) * 60 - guard = ((k % 60 : Int) : Rat) - (guard - 86400 * micro) := by
    rw [Rat.intCast_add, Rat.intCast_mul]; grind
  unfold hmsRaw
  simp only [hH, hM, hS]
  rw [round_below _ _ (by grind) (by grind)]


theorem floor_frac (q : Rat) : 0 ≤ q - (q.floor : Rat) ∧ q - (q.floor : Rat) < 1 := by
  have a := Rat.floor_le q
  have b := Rat.lt_floor_add_one q
  rw [Rat.intCast_add] at b
  have e : (((1 : Int) : Rat)) = 1 := rfl
  rw [e] at b
  constructor <;> grind

theorem floor_bounds (q : Rat) (lo hi : Int) (h1 : (lo : Rat) ≤ q) (h2 : q < (hi : Rat)) :
    lo ≤ q.floor ∧ q.floor < hi :=
  ⟨Rat.le_floor_iff.mpr h1, Rat.floor_lt_iff.mpr h2⟩

theorem round_bounds (q : Rat) (h1 : -(1 / 2 : Rat) < q) (h2 : q < 60) :
    0 ≤ roundHalfEven q ∧ roundHalfEven q ≤ 60 := by
  have fb := floor_bounds q (-1) 60 (by
    have e : (((-1 : Int)) : Rat) = -1 := rfl
    rw [e]; grind) (by
    have e : (((60 : Int)) : Rat) = 60 := rfl
    rw [e]; exact h2)
  have ff := floor_frac q
  unfold roundHalfEven
  simp only []
  by_cases hf : q.floor = -1
  · have e : (((-1 : Int)) : Rat) = -1 := rfl
    have hr : (1 / 2 : Rat) < q - (q.floor : Rat) := by rw [hf, e]; grind
    have hn : ¬ (q - (q.floor : Rat) < 1 / 2) := by grind
    rw [if_neg hn, if_pos hr]; omega
  · split
    · omega
    · split
      · omega
      · split <;> omega


end Pycel.DateTime

/-
  Lemmas for C04: the scanner pattern survives any context, `refify` and the `_REF_(str(` strip; the geometry of the
  computed intersection; the graph construction invariant.
-/
import Pycel.Model.Needed
namespace Pycel.Needed
open Pycel Pycel.Formula

/-! ## the scanner -/

theorem mem_scan_cons {a : Str} {t : PyTok} {ts : List PyTok} :
    a ∈ scan (t :: ts) ↔ matchAt (t :: ts) = some a ∨ a ∈ scan ts := by
  simp only [scan]
  cases h : matchAt (t :: ts) with
  | none => simp
  | some s => simp [eq_comm]

/-- a match inside `xs` is a match inside `pre ++ xs` -/
theorem scan_prefix (pre xs : List PyTok) (a : Str) (h : a ∈ scan xs) : a ∈ scan (pre ++ xs) := by
  induction pre with
  | nil => exact h
  | cons t ts ih => rw [List.cons_append, mem_scan_cons]; exact Or.inr ih

theorem matchAt_append (xs post : List PyTok) (a : Str) (h : matchAt xs = some a) :
    matchAt (xs ++ post) = some a := by
  match xs, h with
  | .name n :: t1 :: t2 :: t3 :: rest, h => simpa [matchAt] using h

/-- a match inside `xs` is a match inside `xs ++ post` -/
theorem scan_suffix (xs post : List PyTok) (a : Str) (h : a ∈ scan xs) : a ∈ scan (xs ++ post) := by
  induction xs with
  | nil => simp [scan] at h
  | cons t ts ih =>
    rw [mem_scan_cons] at h
    rw [List.cons_append, mem_scan_cons]
    rcases h with h | h
    · left; have := matchAt_append (t :: ts) post a h; simpa using this
    · right; exact ih h

/-- the emitted call shape `NAME ( "a" )` with NAME one of `_R_`, `_C_`, `_REF_` somewhere in the token list -/
def Hit (ts : List PyTok) (a : Str) : Prop :=
  ∃ pre post n, n ∈ Gen.scanNames ∧ ts = pre ++ .name n :: .lpar :: .str a :: .rpar :: post

theorem Hit.scan {ts : List PyTok} {a : Str} (h : Hit ts a) : a ∈ scan ts := by
  obtain ⟨pre, post, n, hn, rfl⟩ := h
  apply scan_prefix
  rw [mem_scan_cons]; left
  simp [matchAt, hn, tokText]

theorem Hit.ctx {ts : List PyTok} {a : Str} (h : Hit ts a) (pre post : List PyTok) : Hit (pre ++ ts ++ post) a := by
  obtain ⟨p, q, n, hn, rfl⟩ := h
  exact ⟨pre ++ p, q ++ post, n, hn, by simp⟩

theorem Hit.pre {ts : List PyTok} {a : Str} (h : Hit ts a) (pre : List PyTok) : Hit (pre ++ ts) a := by
  simpa using h.ctx pre []

theorem Hit.post {ts : List PyTok} {a : Str} (h : Hit ts a) (post : List PyTok) : Hit (ts ++ post) a := by
  simpa using h.ctx [] post

theorem Hit.cons {ts : List PyTok} {a : Str} (h : Hit ts a) (t : PyTok) : Hit (t :: ts) a := h.pre [t]

theorem refify_append (xs ys : List PyTok) : refify (xs ++ ys) = refify xs ++ refify ys := by
  simp [refify]

theorem Hit.refify {ts : List PyTok} {a : Str} (h : Hit ts a) : Hit (refify ts) a := by
  obtain ⟨p, q, n, hn, rfl⟩ := h
  refine ⟨Formula.refify p, Formula.refify q, if n = nmR ∨ n = nmC then nmREF else n, ?_, ?_⟩
  · split
    · decide
    · exact hn
  · simp only [Formula.refify, List.map_append, List.map_cons]
    split <;> rfl

theorem Hit.wrap {ts : List PyTok} {a : Str} (h : Hit ts a) (ctx : Ctx) : Hit (wrap ctx ts) a := by
  unfold Formula.wrap
  split
  · exact (h.ctx [.lpar] [.rpar])
  · exact h

theorem hit_emitAddr (a : Addr.Addr) : Hit (emitAddr a) a.address := by
  refine ⟨[], [], if a.isRange then nmR else nmC, ?_, by simp [emitAddr]⟩
  split <;> decide

theorem hit_emitAreas (as : List Addr.Addr) (a : Addr.Addr) (h : a ∈ as) : Hit (emitAreas as) a.address := by
  induction as with
  | nil => simp at h
  | cons x xs ih =>
    cases xs with
    | nil =>
      simp only [List.mem_singleton] at h
      subst h; exact hit_emitAddr _
    | cons y ys =>
      simp only [emitAreas]
      rcases List.mem_cons.mp h with h | h
      · subst h; exact (hit_emitAddr _).post _
      · exact ((ih h).cons _).pre _

/-! ## emission: every written reference is emitted as a call the scanner matches -/

theorem dropLast2 {α} (xs : List α) (a b : α) : (xs ++ [a, b]).dropLast.dropLast = xs := by
  have : xs ++ [a, b] = (xs ++ [a]) ++ [b] := by simp
  rw [this, List.dropLast_concat, List.dropLast_concat]

theorem strip_refify_inter (X : List PyTok) :
    stripRefStr (refify (.name nmR :: .lpar :: .name nmStr :: .lpar :: (X ++ [.rpar, .rpar]))) = refify X := by
  have h1 : refify (.name nmR :: .lpar :: .name nmStr :: .lpar :: (X ++ [.rpar, .rpar]))
      = .name nmREF :: .lpar :: .name nmStr :: .lpar :: (refify X ++ [.rpar, .rpar]) := by
    simp only [refify, List.map_cons, List.map_append, List.map_nil]
    have a2 : ¬ (nmStr = nmR ∨ nmStr = nmC) := by decide
    simp [a2]
  rw [h1]
  simp only [stripRefStr, if_true, dropLast2, and_self]

theorem strip_refify_addr (x : Addr.Addr) : stripRefStr (refify (emitAddr x)) = refify (emitAddr x) := by
  simp [emitAddr, refify, stripRefStr]

theorem refOperand_written (cx : RefCtx) : ∀ e, refOperand cx e = true → written cx e = true
  | .operand (.range t), h => by
    simp only [refOperand] at h
    simp only [written]
    cases hr : resolve cx t <;> simp_all
  | .bin .space l r, h => by
    simpa [refOperand, written] using h
  | .operand (.number _), h | .operand (.text _), h | .operand (.logical _), h | .operand (.error _), h
  | .operand .empty, h | .neg _, h | .pct _, h | .func _ _, h => by simp [refOperand] at h
  | .bin .colon _ _, h | .bin .comma _ _, h | .bin .pow _ _, h | .bin .mul _ _, h | .bin .div _ _, h
  | .bin .add _ _, h | .bin .sub _ _, h | .bin .concat _ _, h | .bin .eq _ _, h | .bin .lt _ _, h
  | .bin .gt _ _, h | .bin .le _ _, h | .bin .ge _ _, h | .bin .ne _ _, h => by simp [refOperand] at h

theorem hit_range (cx : RefCtx) (ctx : Ctx) (t : Str) (a : Str) (h : a ∈ refsEmitted cx (.operand (.range t))) :
    Hit (emitN cx ctx (.operand (.range t))) a := by
  simp only [refsEmitted] at h
  simp only [emitN]
  cases hr : resolve cx t with
  | one x => rw [hr] at h; simp only [List.mem_singleton] at h; subst h; exact hit_emitAddr x
  | multi xs =>
    rw [hr] at h
    simp only [List.mem_map] at h
    obtain ⟨x, hx, rfl⟩ := h
    exact hit_emitAreas xs x hx
  | nameErr => rw [hr] at h; simp at h
  | raise => rw [hr] at h; simp at h

/-- what the emission lemma needs of a node: a range operand (whatever it resolves to) or a written formula -/
def Emittable (cx : RefCtx) (e : Expr) : Prop := (∃ t, e = .operand (.range t)) ∨ written cx e = true

/-- the statement proved by simultaneous recursion: the reference is found in the emission in every parent context,
    and in the stripped `_build_reference` form when the node is a reference operand -/
def HitE (cx : RefCtx) (e : Expr) (a : Str) : Prop :=
  (∀ ctx, Hit (emitN cx ctx e) a) ∧ (refOperand cx e = true → Hit (stripRefStr (refify (emitN cx .funcArg e))) a)

def HitL (cx : RefCtx) (es : List Expr) (a : Str) : Prop :=
  Hit (emitArgsN cx es) a ∧ Hit (emitRestN cx es) a ∧ Hit (emitRowsN cx es) a ∧ Hit (emitRowsRestN cx es) a

theorem writtenArgs_cons (cx : RefCtx) (e : Expr) (es : List Expr) (h : writtenArgs cx (e :: es) = true) :
    Emittable cx e ∧ writtenArgs cx es = true := by
  simp only [writtenArgs, Bool.and_eq_true] at h
  refine ⟨?_, h.2⟩
  match e, h.1 with
  | .operand (.range t), _ => exact Or.inl ⟨t, rfl⟩
  | .operand (.number _), h | .operand (.text _), h | .operand (.logical _), h | .operand (.error _), h
  | .operand .empty, h | .neg _, h | .pct _, h | .func _ _, h | .bin _ _ _, h => exact Or.inr h

mutual
theorem hitE (cx : RefCtx) (a : Str) : ∀ e, Emittable cx e → a ∈ refsEmitted cx e → HitE cx e a
  | .operand (.range t), _, h => by
    refine ⟨fun ctx => hit_range cx ctx t a h, fun hr => ?_⟩
    simp only [refOperand] at hr
    have h0 := hit_range cx .funcArg t a h
    cases hres : resolve cx t with
    | one x =>
      have : emitN cx .funcArg (.operand (.range t)) = emitAddr x := by simp [emitN, hres, emitResolved]
      rw [this] at h0 ⊢
      rw [strip_refify_addr]; exact h0.refify
    | multi _ => rw [hres] at hr; simp at hr
    | nameErr => rw [hres] at hr; simp at hr
    | raise => rw [hres] at hr; simp at hr
  | .operand (.number _), _, h | .operand (.text _), _, h | .operand (.logical _), _, h
  | .operand (.error _), _, h | .operand .empty, _, h => by simp [refsEmitted] at h
  | .neg e, hw, h => by
    have hw' : Emittable cx e := Or.inr (by rcases hw with ⟨t, ht⟩ | hw <;> simp_all [written])
    have ih := (hitE cx a e hw' (by simpa [refsEmitted] using h)).1
    refine ⟨fun ctx => ?_, fun hr => by simp [refOperand] at hr⟩
    simp only [emitN]
    split
    · exact ((ih _).cons _).ctx [.lpar] [.rpar]
    · exact (ih _).cons _
  | .pct e, hw, h => by
    have hw' : Emittable cx e := Or.inr (by rcases hw with ⟨t, ht⟩ | hw <;> simp_all [written])
    have ih := (hitE cx a e hw' (by simpa [refsEmitted] using h)).1
    refine ⟨fun ctx => ?_, fun hr => by simp [refOperand] at hr⟩
    simp only [emitN]
    exact ((ih _).post _).wrap ctx
  | .bin op l r, hw, h => by
    have hw0 : written cx (.bin op l r) = true := by rcases hw with ⟨t, ht⟩ | hw <;> simp_all
    have hwl : Emittable cx l ∧ Emittable cx r := by
      cases op <;> simp only [written, Bool.and_eq_true] at hw0
      all_goals first
        | exact ⟨Or.inr hw0.1, Or.inr hw0.2⟩
        | exact ⟨Or.inr (refOperand_written cx _ hw0.1), Or.inr (refOperand_written cx _ hw0.2)⟩
        | exact absurd hw0 (by simp)
    simp only [refsEmitted, List.mem_append] at h
    have hmid : ∀ (c1 c2 : Ctx) (o : PyTok), Hit (emitN cx c1 l ++ o :: emitN cx c2 r) a := by
      intro c1 c2 o
      rcases h with h | h
      · exact ((hitE cx a l hwl.1 h).1 c1).post _
      · exact (((hitE cx a r hwl.2 h).1 c2).cons o).pre _
    refine ⟨fun ctx => ?_, fun hr => ?_⟩
    · cases op <;> simp only [emitN]
      all_goals first
        | exact (hmid _ _ _).wrap ctx
        | exact (((hmid _ _ _).refify.ctx [.name nmR, .lpar, .name nmStr, .lpar] [.rpar, .rpar])).wrap ctx
    · by_cases hop : op = .space
      · subst hop
        have e1 : emitN cx .funcArg (.bin .space l r) =
            .name nmR :: .lpar :: .name nmStr :: .lpar ::
              (refify (emitN cx (.opChild false) l ++ .op .bitand :: emitN cx (.opChild false) r) ++ [.rpar, .rpar]) := by
          simp [emitN, Formula.wrap, Ctx.isOp, InOp.pyOp]
        rw [e1, strip_refify_inter]
        exact (hmid _ _ _).refify.refify
      · cases op <;> first | exact absurd rfl hop | (simp [refOperand] at hr)
  | .func name args, hw, h => by
    have hw0 : written cx (.func name args) = true := by rcases hw with ⟨t, ht⟩ | hw <;> simp_all
    refine ⟨fun ctx => ?_, fun hr => by simp [refOperand] at hr⟩
    simp only [written] at hw0
    simp only [refsEmitted] at h
    simp only [emitN]
    by_cases hbad : pyFuncBase name = nmOffset ∨ pyFuncBase name = nmIndirect ∨ pyFuncBase name = nmSubtotal ∨
        pyFuncBase name = nmPi ∨ pyFuncBase name = ['t', 'r', 'u', 'e'] ∨ pyFuncBase name = ['f', 'a', 'l', 's', 'e']
    · rw [if_pos hbad] at hw0; exact absurd hw0 (by simp)
    rw [if_neg hbad] at hw0
    simp only [not_or] at hbad
    obtain ⟨n1, n2, n3, n4, n5, n6⟩ := hbad
    rw [if_neg n4, if_neg n5, if_neg n6]
    by_cases hrc : pyFuncBase name = nmRow ∨ pyFuncBase name = nmColumn
    · rw [if_pos hrc] at hw0 h
      have na : pyFuncBase name ≠ nmArray := by rcases hrc with e | e <;> rw [e] <;> decide
      have nb : pyFuncBase name ≠ nmArrayRow := by rcases hrc with e | e <;> rw [e] <;> decide
      rw [if_neg na, if_neg nb, if_pos hrc]
      simp only [Bool.and_eq_true, decide_eq_true_eq, List.all_eq_true] at hw0
      match args, hw0, h with
      | [], _, h =>
        simp only [refsEmittedHead, List.mem_singleton] at h
        subst h
        simp only [buildRefN]
        exact ((hit_emitAddr (ownAddr cx)).refify.ctx [.name _, .lpar] [.rpar])
      | [e], hw0, h =>
        simp only [refsEmittedHead] at h
        have hro : refOperand cx e = true := hw0.2 e (by simp)
        have ih := (hitE cx a e (Or.inr (refOperand_written cx e hro)) h).2 hro
        simp only [buildRefN]
        exact ih.ctx [.name _, .lpar] [.rpar]
      | _ :: _ :: _, hw0, _ => simp at hw0
    · rw [if_neg hrc] at hw0 h
      rw [if_neg hrc, if_neg n1, if_neg n2, if_neg n3]
      obtain ⟨h1, _, h3, _⟩ := hitL cx a args hw0 h
      split
      · exact h3.ctx [.lpar] [.comma, .rpar]
      · split
        · exact h1
        · exact h1.ctx [.name _, .lpar] [.rpar]
theorem hitL (cx : RefCtx) (a : Str) : ∀ es, writtenArgs cx es = true → a ∈ refsEmittedArgs cx es → HitL cx es a
  | [], _, h => by simp [refsEmittedArgs] at h
  | e :: es, hw, h => by
    obtain ⟨hwe, hwes⟩ := writtenArgs_cons cx e es hw
    simp only [refsEmittedArgs, List.mem_append] at h
    unfold HitL
    simp only [emitArgsN, emitRestN, emitRowsN, emitRowsRestN]
    rcases h with h | h
    · have ih := (hitE cx a e hwe h).1 .funcArg
      have r3 := ih.ctx [.lpar] ([.comma, .rpar] ++ emitRowsRestN cx es)
      have r4 := ih.ctx [.comma, .lpar] ([.comma, .rpar] ++ emitRowsRestN cx es)
      exact ⟨ih.post _, (ih.cons _).post _, by simpa using r3, by simpa using r4⟩
    · obtain ⟨_, h2, _, h4⟩ := hitL cx a es hwes h
      have r3 := h4.pre (.lpar :: emitN cx .funcArg e ++ [.comma, .rpar])
      have r4 := h4.pre (.comma :: .lpar :: emitN cx .funcArg e ++ [.comma, .rpar])
      exact ⟨h2.pre _, (h2.pre _).cons _, by simpa using r3, by simpa using r4⟩
end

end Pycel.Needed

/-
  Lemmas for C04: the scanner pattern survives any context, `refify` and the `_REF_(str(` strip; the geometry of the
  computed intersection; the graph construction invariant.
-/
import Pycel.Model.Needed
import Pycel.Lemmas.Addr
namespace Pycel.Needed
open Pycel Pycel.Formula

/-! ## the scanner -/

theorem mem_scan_cons {a : Str} {t : PyTok} {ts : List PyTok} :
    a ∈ scan (t :: ts) ↔ matchAt (t :: ts) = some a ∨ a ∈ scan ts := by
  simp only [scan]
  cases h : matchAt (t :: ts) with
  | none => simp
  | some s => simp [eq_comm]

/-- a match inside `xs` is a match inside `pre ++ xs` -/
theorem scan_prefix (pre xs : List PyTok) (a : Str) (h : a ∈ scan xs) : a ∈ scan (pre ++ xs) := by
  induction pre with
  | nil => exact h
  | cons t ts ih => rw [List.cons_append, mem_scan_cons]; exact Or.inr ih

theorem matchAt_append (xs post : List PyTok) (a : Str) (h : matchAt xs = some a) :
    matchAt (xs ++ post) = some a := by
  match xs, h with
  | .name n :: t1 :: t2 :: t3 :: rest, h => simpa [matchAt] using h

/-- a match inside `xs` is a match inside `xs ++ post` -/
theorem scan_suffix (xs post : List PyTok) (a : Str) (h : a ∈ scan xs) : a ∈ scan (xs ++ post) := by
  induction xs with
  | nil => simp [scan] at h
  | cons t ts ih =>
    rw [mem_scan_cons] at h
    rw [List.cons_append, mem_scan_cons]
    rcases h with h | h
    · left; have := matchAt_append (t :: ts) post a h; simpa using this
    · right; exact ih h

/-- the emitted call shape `NAME ( "a" )` with NAME one of `_R_`, `_C_`, `_REF_` somewhere in the token list -/
def Hit (ts : List PyTok) (a : Str) : Prop :=
  ∃ pre post n, n ∈ Gen.scanNames ∧ ts = pre ++ .name n :: .lpar :: .str a :: .rpar :: post

theorem Hit.scan {ts : List PyTok} {a : Str} (h : Hit ts a) : a ∈ scan ts := by
  obtain ⟨pre, post, n, hn, rfl⟩ := h
  apply scan_prefix
  rw [mem_scan_cons]; left
  simp [matchAt, hn, tokText]

theorem Hit.ctx {ts : List PyTok} {a : Str} (h : Hit ts a) (pre post : List PyTok) : Hit (pre ++ ts ++ post) a := by
  obtain ⟨p, q, n, hn, rfl⟩ := h
  exact ⟨pre ++ p, q ++ post, n, hn, by simp⟩

theorem Hit.pre {ts : List PyTok} {a : Str} (h : Hit ts a) (pre : List PyTok) : Hit (pre ++ ts) a := by
  simpa using h.ctx pre []

theorem Hit.post {ts : List PyTok} {a : Str} (h : Hit ts a) (post : List PyTok) : Hit (ts ++ post) a := by
  simpa using h.ctx [] post

theorem Hit.cons {ts : List PyTok} {a : Str} (h : Hit ts a) (t : PyTok) : Hit (t :: ts) a := h.pre [t]

theorem refify_append (xs ys : List PyTok) : refify (xs ++ ys) = refify xs ++ refify ys := by
  simp [refify]

/-- the textual replacement sends each scanned call name to a scanned call name -/
theorem replaceRC_scanName {n : Str} (hn : n ∈ Gen.scanNames) : replaceRC n ∈ Gen.scanNames := by
  have h : n = nmR ∨ n = nmC ∨ n = nmREF := by simpa [Gen.scanNames, nmR, nmC, nmREF] using hn
  rcases h with rfl | rfl | rfl <;> decide

/-- the call shape survives `refify` when the textual replacement leaves the address text alone -/
theorem Hit.refify {ts : List PyTok} {a : Str} (h : Hit ts a) (ha : replaceRC a = a) : Hit (refify ts) a := by
  obtain ⟨p, q, n, hn, rfl⟩ := h
  refine ⟨Formula.refify p, Formula.refify q, replaceRC n, replaceRC_scanName hn, ?_⟩
  simp only [Formula.refify, List.map_append, List.map_cons, ha]

theorem Hit.wrap {ts : List PyTok} {a : Str} (h : Hit ts a) (ctx : Ctx) : Hit (wrap ctx ts) a := by
  unfold Formula.wrap
  split
  · exact (h.ctx [.lpar] [.rpar])
  · exact h

theorem hit_emitAddr (a : Addr.Addr) : Hit (emitAddr a) a.address := by
  refine ⟨[], [], if a.isRange then nmR else nmC, ?_, by simp [emitAddr]⟩
  split <;> decide

theorem hit_emitAreas (as : List Addr.Addr) (a : Addr.Addr) (h : a ∈ as) : Hit (emitAreas as) a.address := by
  induction as with
  | nil => simp at h
  | cons x xs ih =>
    cases xs with
    | nil =>
      simp only [List.mem_singleton] at h
      subst h; exact hit_emitAddr _
    | cons y ys =>
      simp only [emitAreas]
      rcases List.mem_cons.mp h with h | h
      · subst h; exact (hit_emitAddr _).post _
      · exact ((ih h).cons _).pre _

/-! ## emission: every written reference is emitted as a call the scanner matches -/

theorem dropLast2 {α} (xs : List α) (a b : α) : (xs ++ [a, b]).dropLast.dropLast = xs := by
  have : xs ++ [a, b] = (xs ++ [a]) ++ [b] := by simp
  rw [this, List.dropLast_concat, List.dropLast_concat]

theorem strip_refify_inter (X : List PyTok) :
    stripRefStr (refify (.name nmR :: .lpar :: .name nmStr :: .lpar :: (X ++ [.rpar, .rpar]))) = refify X := by
  have h1 : refify (.name nmR :: .lpar :: .name nmStr :: .lpar :: (X ++ [.rpar, .rpar]))
      = .name nmREF :: .lpar :: .name nmStr :: .lpar :: (refify X ++ [.rpar, .rpar]) := by
    have a1 : replaceRC nmR = nmREF := by decide
    have a2 : replaceRC nmStr = nmStr := by decide
    simp only [refify, List.map_cons, List.map_append, List.map_nil, a1, a2]
  rw [h1]
  simp only [stripRefStr, if_true, dropLast2, and_self]

theorem strip_refify_addr (x : Addr.Addr) : stripRefStr (refify (emitAddr x)) = refify (emitAddr x) := by
  simp [emitAddr, refify, stripRefStr]

theorem refOperand_written (cx : RefCtx) : ∀ e, refOperand cx e = true → written cx e = true
  | .operand (.range t), h => by
    simp only [refOperand] at h
    simp only [written]
    cases hr : resolve cx t <;> simp_all
  | .bin .space l r, h => by
    simpa [refOperand, written] using h
  | .operand (.number _), h | .operand (.text _), h | .operand (.logical _), h | .operand (.error _), h
  | .operand .empty, h | .neg _, h | .pct _, h | .func _ _, h => by simp [refOperand] at h
  | .bin .colon _ _, h | .bin .comma _ _, h | .bin .pow _ _, h | .bin .mul _ _, h | .bin .div _ _, h
  | .bin .add _ _, h | .bin .sub _ _, h | .bin .concat _ _, h | .bin .eq _ _, h | .bin .lt _ _, h
  | .bin .gt _ _, h | .bin .le _ _, h | .bin .ge _ _, h | .bin .ne _ _, h => by simp [refOperand] at h

/-- every address written in a reference operand is left alone by the textual replacement -/
theorem refOperand_fixed (cx : RefCtx) : ∀ e, refOperand cx e = true → ∀ a ∈ refsEmitted cx e, replaceRC a = a
  | .operand (.range t), h, a, ha => by
    simp only [refOperand] at h
    simp only [refsEmitted] at ha
    cases hr : resolve cx t with
    | one x =>
      rw [hr] at h ha
      simp only [List.mem_singleton] at ha
      subst ha
      simp only [Bool.and_eq_true, refixed, decide_eq_true_eq] at h
      exact h.1
    | multi _ => rw [hr] at h; simp at h
    | nameErr => rw [hr] at h; simp at h
    | raise => rw [hr] at h; simp at h
  | .bin .space l r, h, a, ha => by
    simp only [refOperand, Bool.and_eq_true] at h
    simp only [refsEmitted, List.mem_append] at ha
    rcases ha with ha | ha
    · exact refOperand_fixed cx l h.1 a ha
    · exact refOperand_fixed cx r h.2 a ha
  | .operand (.number _), h, _, _ | .operand (.text _), h, _, _ | .operand (.logical _), h, _, _
  | .operand (.error _), h, _, _
  | .operand .empty, h, _, _ | .neg _, h, _, _ | .pct _, h, _, _ | .func _ _, h, _, _ => by simp [refOperand] at h
  | .bin .colon _ _, h, _, _ | .bin .comma _ _, h, _, _ | .bin .pow _ _, h, _, _ | .bin .mul _ _, h, _, _
  | .bin .div _ _, h, _, _
  | .bin .add _ _, h, _, _ | .bin .sub _ _, h, _, _ | .bin .concat _ _, h, _, _ | .bin .eq _ _, h, _, _
  | .bin .lt _ _, h, _, _
  | .bin .gt _ _, h, _, _ | .bin .le _ _, h, _, _ | .bin .ge _ _, h, _, _ | .bin .ne _ _, h, _, _ => by
    simp [refOperand] at h

theorem hit_range (cx : RefCtx) (ctx : Ctx) (t : Str) (a : Str) (h : a ∈ refsEmitted cx (.operand (.range t))) :
    Hit (emitN cx ctx (.operand (.range t))) a := by
  simp only [refsEmitted] at h
  simp only [emitN]
  cases hr : resolve cx t with
  | one x => rw [hr] at h; simp only [List.mem_singleton] at h; subst h; exact hit_emitAddr x
  | multi xs =>
    rw [hr] at h
    simp only [List.mem_map] at h
    obtain ⟨x, hx, rfl⟩ := h
    exact hit_emitAreas xs x hx
  | nameErr => rw [hr] at h; simp at h
  | raise => rw [hr] at h; simp at h

/-- what the emission lemma needs of a node: a range operand (whatever it resolves to) or a written formula -/
def Emittable (cx : RefCtx) (e : Expr) : Prop := (∃ t, e = .operand (.range t)) ∨ written cx e = true

/-- the statement proved by simultaneous recursion: the reference is found in the emission in every parent context,
    and in the stripped `_build_reference` form when the node is a reference operand -/
def HitE (cx : RefCtx) (e : Expr) (a : Str) : Prop :=
  (∀ ctx, Hit (emitN cx ctx e) a) ∧ (refOperand cx e = true → Hit (stripRefStr (refify (emitN cx .funcArg e))) a)

def HitL (cx : RefCtx) (es : List Expr) (a : Str) : Prop :=
  Hit (emitArgsN cx es) a ∧ Hit (emitRestN cx es) a ∧ Hit (emitRowsN cx es) a ∧ Hit (emitRowsRestN cx es) a

theorem writtenArgs_cons (cx : RefCtx) (e : Expr) (es : List Expr) (h : writtenArgs cx (e :: es) = true) :
    Emittable cx e ∧ writtenArgs cx es = true := by
  simp only [writtenArgs, Bool.and_eq_true] at h
  refine ⟨?_, h.2⟩
  match e, h.1 with
  | .operand (.range t), _ => exact Or.inl ⟨t, rfl⟩
  | .operand (.number _), h | .operand (.text _), h | .operand (.logical _), h | .operand (.error _), h
  | .operand .empty, h | .neg _, h | .pct _, h | .func _ _, h | .bin _ _ _, h => exact Or.inr h

mutual
theorem hitE (cx : RefCtx) (a : Str) : ∀ e, Emittable cx e → a ∈ refsEmitted cx e → HitE cx e a
  | .operand (.range t), _, h => by
    refine ⟨fun ctx => hit_range cx ctx t a h, fun hr => ?_⟩
    simp only [refOperand] at hr
    have h0 := hit_range cx .funcArg t a h
    cases hres : resolve cx t with
    | one x =>
      have : emitN cx .funcArg (.operand (.range t)) = emitAddr x := by simp [emitN, hres, emitResolved]
      rw [this] at h0 ⊢
      have hfix : replaceRC a = a :=
        refOperand_fixed cx (.operand (.range t)) (by simpa [refOperand] using hr) a h
      rw [strip_refify_addr]; exact h0.refify hfix
    | multi _ => rw [hres] at hr; simp at hr
    | nameErr => rw [hres] at hr; simp at hr
    | raise => rw [hres] at hr; simp at hr
  | .operand (.number _), _, h | .operand (.text _), _, h | .operand (.logical _), _, h
  | .operand (.error _), _, h | .operand .empty, _, h => by simp [refsEmitted] at h
  | .neg e, hw, h => by
    have hw' : Emittable cx e := Or.inr (by rcases hw with ⟨t, ht⟩ | hw <;> simp_all [written])
    have ih := (hitE cx a e hw' (by simpa [refsEmitted] using h)).1
    refine ⟨fun ctx => ?_, fun hr => by simp [refOperand] at hr⟩
    simp only [emitN]
    split
    · exact ((ih _).cons _).ctx [.lpar] [.rpar]
    · exact (ih _).cons _
  | .pct e, hw, h => by
    have hw' : Emittable cx e := Or.inr (by rcases hw with ⟨t, ht⟩ | hw <;> simp_all [written])
    have ih := (hitE cx a e hw' (by simpa [refsEmitted] using h)).1
    refine ⟨fun ctx => ?_, fun hr => by simp [refOperand] at hr⟩
    simp only [emitN]
    exact ((ih _).post _).wrap ctx
  | .bin op l r, hw, h => by
    have hw0 : written cx (.bin op l r) = true := by rcases hw with ⟨t, ht⟩ | hw <;> simp_all
    have hwl : Emittable cx l ∧ Emittable cx r := by
      cases op <;> simp only [written, Bool.and_eq_true] at hw0
      all_goals first
        | exact ⟨Or.inr hw0.1, Or.inr hw0.2⟩
        | exact ⟨Or.inr (refOperand_written cx _ hw0.1), Or.inr (refOperand_written cx _ hw0.2)⟩
        | exact absurd hw0 (by simp)
    simp only [refsEmitted, List.mem_append] at h
    have hmid : ∀ (c1 c2 : Ctx) (o : PyTok), Hit (emitN cx c1 l ++ o :: emitN cx c2 r) a := by
      intro c1 c2 o
      rcases h with h | h
      · exact ((hitE cx a l hwl.1 h).1 c1).post _
      · exact (((hitE cx a r hwl.2 h).1 c2).cons o).pre _
    refine ⟨fun ctx => ?_, fun hr => ?_⟩
    · cases op
      case colon => simp [written] at hw0
      case space =>
        have hro : refOperand cx (.bin .space l r) = true := by simpa [written, refOperand] using hw0
        have hfix : replaceRC a = a :=
          refOperand_fixed cx _ hro a (by simpa [refsEmitted, List.mem_append] using h)
        simp only [emitN]
        exact (((hmid _ _ _).refify hfix).ctx [.name nmR, .lpar, .name nmStr, .lpar] [.rpar, .rpar]).wrap ctx
      all_goals
        simp only [emitN]
        exact (hmid _ _ _).wrap ctx
    · by_cases hop : op = .space
      · subst hop
        have e1 : emitN cx .funcArg (.bin .space l r) =
            .name nmR :: .lpar :: .name nmStr :: .lpar ::
              (refify (emitN cx (.opChild false) l ++ .op .bitand :: emitN cx (.opChild false) r) ++ [.rpar, .rpar]) := by
          simp [emitN, Formula.wrap, Ctx.isOp, InOp.pyOp]
        have hfix : replaceRC a = a :=
          refOperand_fixed cx _ hr a (by simpa [refsEmitted, List.mem_append] using h)
        rw [e1, strip_refify_inter]
        exact ((hmid _ _ _).refify hfix).refify hfix
      · cases op <;> first | exact absurd rfl hop | (simp [refOperand] at hr)
  | .func name args, hw, h => by
    have hw0 : written cx (.func name args) = true := by rcases hw with ⟨t, ht⟩ | hw <;> simp_all
    refine ⟨fun ctx => ?_, fun hr => by simp [refOperand] at hr⟩
    simp only [written] at hw0
    simp only [refsEmitted] at h
    simp only [emitN]
    by_cases hbad : pyFuncBase name = nmOffset ∨ pyFuncBase name = nmIndirect ∨ pyFuncBase name = nmSubtotal ∨
        pyFuncBase name = nmPi ∨ pyFuncBase name = ['t', 'r', 'u', 'e'] ∨ pyFuncBase name = ['f', 'a', 'l', 's', 'e']
    · rw [if_pos hbad] at hw0; exact absurd hw0 (by simp)
    rw [if_neg hbad] at hw0
    simp only [not_or] at hbad
    obtain ⟨n1, n2, n3, n4, n5, n6⟩ := hbad
    rw [if_neg n4, if_neg n5, if_neg n6]
    by_cases hrc : pyFuncBase name = nmRow ∨ pyFuncBase name = nmColumn
    · rw [if_pos hrc] at hw0 h
      have na : pyFuncBase name ≠ nmArray := by rcases hrc with e | e <;> rw [e] <;> decide
      have nb : pyFuncBase name ≠ nmArrayRow := by rcases hrc with e | e <;> rw [e] <;> decide
      rw [if_neg na, if_neg nb, if_pos hrc]
      simp only [Bool.and_eq_true, decide_eq_true_eq, List.all_eq_true, Bool.or_eq_true] at hw0
      match args, hw0, h with
      | [], hw0, h =>
        simp only [refsEmittedHead, List.mem_singleton] at h
        subst h
        simp only [buildRefN]
        have hfix : replaceRC (ownAddr cx).address = (ownAddr cx).address := by
          simpa [refixed] using hw0.2
        exact (((hit_emitAddr (ownAddr cx)).refify hfix).ctx [.name _, .lpar] [.rpar])
      | [e], hw0, h =>
        simp only [refsEmittedHead] at h
        have hro : refOperand cx e = true := hw0.1.2 e (by simp)
        have ih := (hitE cx a e (Or.inr (refOperand_written cx e hro)) h).2 hro
        simp only [buildRefN]
        exact ih.ctx [.name _, .lpar] [.rpar]
      | _ :: _ :: _, hw0, _ => simp at hw0
    · rw [if_neg hrc] at hw0 h
      rw [if_neg hrc, if_neg n1, if_neg n2, if_neg n3]
      obtain ⟨h1, _, h3, _⟩ := hitL cx a args hw0 h
      split
      · exact h3.ctx [.lpar] [.comma, .rpar]
      · split
        · exact h1
        · exact h1.ctx [.name _, .lpar] [.rpar]
theorem hitL (cx : RefCtx) (a : Str) : ∀ es, writtenArgs cx es = true → a ∈ refsEmittedArgs cx es → HitL cx es a
  | [], _, h => by simp [refsEmittedArgs] at h
  | e :: es, hw, h => by
    obtain ⟨hwe, hwes⟩ := writtenArgs_cons cx e es hw
    simp only [refsEmittedArgs, List.mem_append] at h
    unfold HitL
    simp only [emitArgsN, emitRestN, emitRowsN, emitRowsRestN]
    rcases h with h | h
    · have ih := (hitE cx a e hwe h).1 .funcArg
      have r3 := ih.ctx [.lpar] ([.comma, .rpar] ++ emitRowsRestN cx es)
      have r4 := ih.ctx [.comma, .lpar] ([.comma, .rpar] ++ emitRowsRestN cx es)
      exact ⟨ih.post _, (ih.cons _).post _, by simpa using r3, by simpa using r4⟩
    · obtain ⟨_, h2, _, h4⟩ := hitL cx a es hwes h
      have r3 := h4.pre (.lpar :: emitN cx .funcArg e ++ [.comma, .rpar])
      have r4 := h4.pre (.comma :: .lpar :: emitN cx .funcArg e ++ [.comma, .rpar])
      exact ⟨h2.pre _, (h2.pre _).cons _, by simpa using r3, by simpa using r4⟩
end

/-! ## geometry of the computed intersection -/

/-- an address object as the constructors make it: on a named sheet, and a cell has coinciding corners -/
def AddrOK (a : Addr.Addr) : Prop :=
  a.rect.sheet ≠ [] ∧ (a.isRange = true ∨ (a.rect.c1 = a.rect.c2 ∧ a.rect.r1 = a.rect.r2))

theorem dim_cover (isR : Bool) (a1 a2 r1 r2 x : Nat) (M e : Int)
    (he : e = if isR = true then (if a1 = 0 ∨ a2 = 0 then M else (a2 : Int) - a1 + 1) else 1)
    (hok : isR = true ∨ a1 = a2)
    (h1 : Addr.or1 a1 ≤ r1) (h2 : (r2 : Int) ≤ Addr.or1 a1 + e - 1) (h3 : (r1 : Int) ≤ r2)
    (hx : r1 = 0 ∨ r2 = 0 ∨ (r1 ≤ x ∧ x ≤ r2)) : a1 = 0 ∨ a2 = 0 ∨ (a1 ≤ x ∧ x ≤ a2) := by
  subst he
  cases isR with
  | true =>
    simp only [if_true] at h2
    by_cases hz : a1 = 0 ∨ a2 = 0
    · rcases hz with hz | hz
      · exact Or.inl hz
      · exact Or.inr (Or.inl hz)
    · rw [if_neg hz] at h2; unfold Addr.or1 at h1 h2; rw [if_neg (by omega)] at h1 h2; omega
  | false =>
    simp only [Bool.false_eq_true, if_false] at h2
    rcases hok with hok | hok
    · cases hok
    · unfold Addr.or1 at h1 h2
      by_cases h0 : a1 = 0
      · exact Or.inl h0
      · rw [if_neg h0] at h1 h2; omega

/-- C11's intersection geometry for the address objects of the emitted code, unbounded rows / columns included:
    every cell of the computed intersection is a cell of both operands -/
theorem combine_covers (a b : Addr.Addr) (r : Addr.Rect) (ha : AddrOK a) (hb : AddrOK b)
    (h : Addr.Addr.combine true a b = .ok (.rect r)) :
    AddrOK r.toAddr ∧ ∀ c, Covers r c → Covers a.rect c ∧ Covers b.rect c := by
  obtain ⟨has, hac⟩ := ha
  obtain ⟨hbs, hbc⟩ := hb
  have hcore : Addr.combineCore true a.rect b.rect a.height a.width b.height b.width = .rect r := by
    unfold Addr.Addr.combine at h
    cases hc : Addr.combineCore true a.rect b.rect a.height a.width b.height b.width with
    | rect r' =>
      rw [hc] at h
      simp only at h
      split at h
      · cases h
      · simp only [Except.ok.injEq, Addr.Res.rect.injEq] at h; rw [h]
    | null => rw [hc] at h; simp at h
    | value => rw [hc] at h; simp at h
  obtain ⟨hs, hsh, hcol, hrow⟩ := Addr.combineCore_inter_bounds _ _ _ _ _ _ _ hcore
  have hsame : a.rect.sheet = b.rect.sheet := by
    apply Classical.byContradiction; intro hne; exact hs ⟨has, hbs, hne⟩
  rw [if_pos has] at hsh
  refine ⟨⟨by simp [Addr.Rect.toAddr, hsh, has], ?_⟩, ?_⟩
  · simp only [Addr.Rect.toAddr, Bool.or_eq_true, Bool.not_eq_true', Bool.and_eq_false_iff,
      decide_eq_false_iff_not, decide_eq_true_eq]
    omega
  · intro c ⟨hcs, hcr, hcc⟩
    have rowA : a.rect.r1 = 0 ∨ a.rect.r2 = 0 ∨ (a.rect.r1 ≤ c.row ∧ c.row ≤ a.rect.r2) := by
      rcases hrow with ⟨_, _, ua, _⟩ | ⟨ra1, _, r12, ra2, _⟩
      · omega
      · exact dim_cover a.isRange _ _ _ _ _ Addr.MAX_ROW a.height rfl (hac.imp id (·.2)) ra1 ra2 r12 hcr
    have rowB : b.rect.r1 = 0 ∨ b.rect.r2 = 0 ∨ (b.rect.r1 ≤ c.row ∧ c.row ≤ b.rect.r2) := by
      rcases hrow with ⟨_, _, _, ub⟩ | ⟨_, rb1, r12, _, rb2⟩
      · omega
      · exact dim_cover b.isRange _ _ _ _ _ Addr.MAX_ROW b.height rfl (hbc.imp id (·.2)) rb1 rb2 r12 hcr
    have colA : a.rect.c1 = 0 ∨ a.rect.c2 = 0 ∨ (a.rect.c1 ≤ c.col ∧ c.col ≤ a.rect.c2) := by
      rcases hcol with ⟨_, _, ua, _⟩ | ⟨ca1, _, c12, ca2, _⟩
      · omega
      · exact dim_cover a.isRange _ _ _ _ _ Addr.MAX_COL a.width rfl (hac.imp id (·.1)) ca1 ca2 c12 hcc
    have colB : b.rect.c1 = 0 ∨ b.rect.c2 = 0 ∨ (b.rect.c1 ≤ c.col ∧ c.col ≤ b.rect.c2) := by
      rcases hcol with ⟨_, _, _, ub⟩ | ⟨_, cb1, c12, _, cb2⟩
      · omega
      · exact dim_cover b.isRange _ _ _ _ _ Addr.MAX_COL b.width rfl (hbc.imp id (·.1)) cb1 cb2 c12 hcc
    exact ⟨⟨by rw [hcs, hsh], rowA, colA⟩, ⟨by rw [hcs, hsh, hsame], rowB, colB⟩⟩

/-! ## every run-time read is covered by a written reference -/

/-- the run-time value of a reference operand: if it is an address, the address is well-formed and each of its cells
    is a cell of every reference written in the operand -/
theorem refVal_sub (cx : RefCtx) : ∀ e, refOperand cx e = true → ∀ a, refVal cx e = some (.addr a) →
    AddrOK a ∧ refsEmitted cx e ≠ [] ∧ ∀ d ∈ refsEmitted cx e, ∀ c, Covers a.rect c → CoversStr d c
  | .operand (.range t), hr, a, hv => by
    simp only [refOperand] at hr
    simp only [refVal] at hv
    simp only [refsEmitted]
    cases hres : resolve cx t with
    | one x =>
      rw [hres] at hr hv
      simp only at hr hv
      rw [hv] at hr
      simp only [Bool.and_eq_true, Bool.or_eq_true, decide_eq_true_eq, ne_eq] at hr
      replace hr := hr.2
      refine ⟨⟨by simpa using hr.1, ?_⟩, by simp, ?_⟩
      · rcases hr.2 with h | h
        · exact Or.inl h
        · exact Or.inr h
      · intro d hd c hc
        simp only [List.mem_singleton] at hd
        subst hd
        simp only [CoversStr, hv]
        exact hc
    | multi _ => rw [hres] at hr; simp at hr
    | nameErr => rw [hres] at hr; simp at hr
    | raise => rw [hres] at hr; simp at hr
  | .bin .space l r, hr, a, hv => by
    simp only [refOperand, Bool.and_eq_true] at hr
    simp only [refVal] at hv
    cases hl : refVal cx l with
    | none => rw [hl] at hv; simp at hv
    | some x =>
      cases hr' : refVal cx r with
      | none => rw [hl, hr'] at hv; simp at hv
      | some y =>
        rw [hl, hr'] at hv
        simp only at hv
        cases x with
        | err cx' => cases y <;> simp [Addr.Operand.combine] at hv
        | addr ax =>
          cases y with
          | err _ => simp [Addr.Operand.combine] at hv
          | addr ay =>
            obtain ⟨okx, nel, subl⟩ := refVal_sub cx l hr.1 ax hl
            obtain ⟨oky, ner, subr⟩ := refVal_sub cx r hr.2 ay hr'
            simp only [Addr.Operand.combine] at hv
            cases hcomb : Addr.Addr.combine true ax ay with
            | error e => rw [hcomb] at hv; simp at hv
            | ok res =>
              rw [hcomb] at hv
              simp only [Option.some.injEq] at hv
              cases res with
              | rect rr =>
                simp only [Addr.Res.toOperand, Addr.Operand.addr.injEq] at hv
                subst hv
                obtain ⟨okr, cov⟩ := combine_covers ax ay rr okx oky hcomb
                refine ⟨okr, by simp [refsEmitted, nel], ?_⟩
                intro d hd c hc
                simp only [refsEmitted, List.mem_append] at hd
                have hc' : Covers rr c := by simpa [Addr.Rect.toAddr] using hc
                rcases hd with hd | hd
                · exact subl d hd c (cov c hc').1
                · exact subr d hd c (cov c hc').2
              | null => simp [Addr.Res.toOperand] at hv
              | value => simp [Addr.Res.toOperand] at hv
  | .operand (.number _), h, _, _ | .operand (.text _), h, _, _ | .operand (.logical _), h, _, _
  | .operand (.error _), h, _, _
  | .operand .empty, h, _, _ | .neg _, h, _, _ | .pct _, h, _, _ | .func _ _, h, _, _ => by simp [refOperand] at h
  | .bin .colon _ _, h, _, _ | .bin .comma _ _, h, _, _ | .bin .pow _ _, h, _, _ | .bin .mul _ _, h, _, _
  | .bin .div _ _, h, _, _
  | .bin .add _ _, h, _, _ | .bin .sub _ _, h, _, _ | .bin .concat _ _, h, _, _ | .bin .eq _ _, h, _, _
  | .bin .lt _ _, h, _, _
  | .bin .gt _ _, h, _, _ | .bin .le _ _, h, _, _ | .bin .ge _ _, h, _, _ | .bin .ne _ _, h, _, _ => by
    simp [refOperand] at h


/-- the read `r` is contained, as a set of cells, in one of the address texts `ds` -/
def Cov (r : Read) (ds : List Str) : Prop := ∃ d ∈ ds, ∀ c, r.Covers c → CoversStr d c

theorem Cov.mono {r : Read} {ds es : List Str} (h : Cov r ds) (hs : ∀ d ∈ ds, d ∈ es) : Cov r es := by
  obtain ⟨d, hd, hc⟩ := h; exact ⟨d, hs d hd, hc⟩

theorem cov_readOf (a : Addr.Addr) : Cov (readOf a) [a.address] := by
  refine ⟨a.address, by simp, ?_⟩
  intro c hc
  unfold readOf at hc
  split at hc <;> exact hc

variable {V : Type}

theorem reads_neg (cx : RefCtx) (sem : Sem V) (e : Expr) : (evalT cx sem (.neg e)).2 = (evalT cx sem e).2 := by
  simp only [evalT]
  split <;> simp_all

theorem reads_pct (cx : RefCtx) (sem : Sem V) (e : Expr) : (evalT cx sem (.pct e)).2 = (evalT cx sem e).2 := by
  simp only [evalT]
  split <;> simp_all

theorem reads_args_cons (cx : RefCtx) (sem : Sem V) (e : Expr) (es : List Expr) (r : Read)
    (h : r ∈ (evalArgs cx sem (e :: es)).2) : r ∈ (evalT cx sem e).2 ∨ r ∈ (evalArgs cx sem es).2 := by
  simp only [evalArgs] at h
  split at h
  · rename_i vs t he
    split at h
    · rename_i ws u hes
      simp only [List.mem_append] at h
      rcases h with h | h
      · left; rw [he]; exact h
      · right; rw [hes]; exact h
    · rename_i u hes
      simp only [List.mem_append] at h
      rcases h with h | h
      · left; rw [he]; exact h
      · right; rw [hes]; exact h
  · rename_i t he
    left; rw [he]; exact h

mutual
theorem readsE (cx : RefCtx) (sem : Sem V) : ∀ e, Emittable cx e → ∀ r ∈ (evalT cx sem e).2, Cov r (refsEmitted cx e)
  | .operand (.range t), _, r, hr => by
    simp only [evalT] at hr
    simp only [refsEmitted]
    cases hres : resolve cx t with
    | one x =>
      rw [hres] at hr
      simp only [List.mem_singleton] at hr
      subst hr; exact cov_readOf x
    | multi xs =>
      rw [hres] at hr
      simp only [List.mem_map] at hr
      obtain ⟨x, hx, rfl⟩ := hr
      exact (cov_readOf x).mono (by intro d hd; simp only [List.mem_singleton] at hd; subst hd; exact List.mem_map.mpr ⟨x, hx, rfl⟩)
    | nameErr => rw [hres] at hr; simp at hr
    | raise => rw [hres] at hr; simp at hr
  | .operand (.number _), _, r, hr | .operand (.text _), _, r, hr | .operand (.logical _), _, r, hr
  | .operand (.error _), _, r, hr | .operand .empty, _, r, hr => by simp [evalT] at hr
  | .neg e, hw, r, hr => by
    have hw' : Emittable cx e := Or.inr (by rcases hw with ⟨t, ht⟩ | hw <;> simp_all [written])
    rw [reads_neg] at hr
    simpa [refsEmitted] using readsE cx sem e hw' r hr
  | .pct e, hw, r, hr => by
    have hw' : Emittable cx e := Or.inr (by rcases hw with ⟨t, ht⟩ | hw <;> simp_all [written])
    rw [reads_pct] at hr
    simpa [refsEmitted] using readsE cx sem e hw' r hr
  | .bin op l r', hw, r, hr => by
    have hw0 : written cx (.bin op l r') = true := by rcases hw with ⟨t, ht⟩ | hw <;> simp_all
    by_cases hsp : op = .space
    · subst hsp
      have hro : refOperand cx (.bin .space l r') = true := by simpa [written, refOperand] using hw0
      simp only [evalT] at hr
      cases hv : refVal cx (.bin .space l r') with
      | none => rw [hv] at hr; simp at hr
      | some x =>
        rw [hv] at hr
        cases x with
        | err _ => simp at hr
        | addr a =>
          simp only [List.mem_singleton] at hr
          subst hr
          obtain ⟨_, ne, sub⟩ := refVal_sub cx _ hro a hv
          cases hd : refsEmitted cx (.bin .space l r') with
          | nil => exact absurd hd ne
          | cons d ds => exact ⟨d, by simp, fun c hc => sub d (by rw [hd]; simp) c hc⟩
    · have hwl : Emittable cx l ∧ Emittable cx r' := by
        cases op <;> simp only [written, Bool.and_eq_true] at hw0
        all_goals first
          | exact ⟨Or.inr hw0.1, Or.inr hw0.2⟩
          | exact absurd rfl hsp
          | exact absurd hw0 (by simp)
      have hsplit : r ∈ (evalT cx sem l).2 ∨ r ∈ (evalT cx sem r').2 := by
        cases op
        case space => exact absurd rfl hsp
        case colon => simp [written] at hw0
        all_goals
          simp only [evalT] at hr
          split at hr
          · rename_i a ta hl
            split at hr
            · rename_i b tb hr2
              simp only [List.mem_append] at hr
              rcases hr with h | h
              · left; rw [hl]; exact h
              · right; rw [hr2]; exact h
            · rename_i tb hr2
              simp only [List.mem_append] at hr
              rcases hr with h | h
              · left; rw [hl]; exact h
              · right; rw [hr2]; exact h
          · rename_i ta hl
            left; rw [hl]; exact hr
      simp only [refsEmitted]
      rcases hsplit with h | h
      · exact (readsE cx sem l hwl.1 r h).mono (by intro d hd; exact List.mem_append_left _ hd)
      · exact (readsE cx sem r' hwl.2 r h).mono (by intro d hd; exact List.mem_append_right _ hd)
  | .func name args, hw, r, hr => by
    have hw0 : written cx (.func name args) = true := by rcases hw with ⟨t, ht⟩ | hw <;> simp_all
    simp only [written] at hw0
    simp only [refsEmitted]
    simp only [evalT] at hr
    by_cases hrc : pyFuncBase name = nmRow ∨ pyFuncBase name = nmColumn
    · rw [if_pos hrc] at hr
      split at hr <;> simp at hr
    · rw [if_neg hrc] at hr ⊢
      split at hw0
      · simp at hw0
      · have hmem : r ∈ (evalArgs cx sem args).2 := by
          split at hr
          · rename_i vs t he; rw [he]; exact hr
          · rename_i t he; rw [he]; exact hr
        exact readsL cx sem args hw0 r hmem
theorem readsL (cx : RefCtx) (sem : Sem V) : ∀ es, writtenArgs cx es = true →
    ∀ r ∈ (evalArgs cx sem es).2, Cov r (refsEmittedArgs cx es)
  | [], _, r, hr => by simp [evalArgs] at hr
  | e :: es, hw, r, hr => by
    obtain ⟨hwe, hwes⟩ := writtenArgs_cons cx e es hw
    simp only [refsEmittedArgs]
    rcases reads_args_cons cx sem e es r hr with h | h
    · exact (readsE cx sem e hwe r h).mono (by intro d hd; exact List.mem_append_left _ hd)
    · exact (readsL cx sem es hwes r h).mono (by intro d hd; exact List.mem_append_right _ hd)
end

/-! ## graph construction -/

section graph
variable {N : Type} [DecidableEq N]

/-- every built node with precedents is excused by `X`, still queued, or has all its edges -/
def InvX (bk : Book N) (X : N → Prop) (s : GState N) : Prop :=
  ∀ i ∈ s.cellMap, bk.hasPrec i = true → X i ∨ i ∈ s.todos ∨ ∀ d ∈ bk.needed i, (d, i) ∈ s.edges

theorem foldl_pres {α β} (P : β → Prop) (f : β → α → β) (hf : ∀ b a, P b → P (f b a)) :
    ∀ (l : List α) (b : β), P b → P (l.foldl f b)
  | [], b, h => h
  | a :: l, b, h => foldl_pres P f hf l (f b a) (hf b a h)

theorem makeCells_edges (bk : Book N) : ∀ f a (s : GState N), (makeCells bk f a s).edges = s.edges
  | 0, _, _ => rfl
  | f + 1, a, s => by
    simp only [makeCells]
    split
    · rfl
    · exact foldl_pres (fun st : GState N => st.edges = s.edges) _
        (fun st p h => by rw [makeCells_edges bk f p st]; exact h) _ _ rfl

theorem makeCells_inv (bk : Book N) (X : N → Prop) :
    ∀ f a (s : GState N), InvX bk X s → InvX bk X (makeCells bk f a s)
  | 0, _, _, h => h
  | f + 1, a, s, h => by
    simp only [makeCells]
    split
    · exact h
    · apply foldl_pres (InvX bk X) _ (fun st p hst => makeCells_inv bk X f p st hst)
      intro i hi hp
      simp only [List.mem_cons] at hi
      rcases hi with rfl | hi
      · right; left; simp [hp]
      · rcases h i hi hp with h1 | h1 | h1
        · exact Or.inl h1
        · right; left; split
          · exact List.mem_cons_of_mem _ h1
          · exact h1
        · exact Or.inr (Or.inr h1)

/-- the body of the `for precedent_address in dependant.needed_addresses` loop -/
def edgeStep (bk : Book N) (fuel : Nat) (d : N) (st : GState N) (p : N) : GState N :=
  let st' := makeCells bk fuel p st
  { st' with edges := (p, d) :: st'.edges }

theorem edgeStep_mono (bk : Book N) (fuel : Nat) (d : N) (st : GState N) (p : N) (e : N × N)
    (h : e ∈ st.edges) : e ∈ (edgeStep bk fuel d st p).edges := by
  simp only [edgeStep, makeCells_edges]
  exact List.mem_cons_of_mem _ h

theorem fold_mono (bk : Book N) (fuel : Nat) (d : N) (e : N × N) :
    ∀ (ps : List N) (st : GState N), e ∈ st.edges → e ∈ (ps.foldl (edgeStep bk fuel d) st).edges
  | [], _, h => h
  | p :: ps, st, h => fold_mono bk fuel d e ps _ (edgeStep_mono bk fuel d st p e h)

theorem fold_edges (bk : Book N) (fuel : Nat) (d : N) :
    ∀ (ps : List N) (st : GState N), ∀ p ∈ ps, (p, d) ∈ (ps.foldl (edgeStep bk fuel d) st).edges
  | [], _, p, h => by simp at h
  | q :: ps, st, p, h => by
    simp only [List.foldl_cons]
    rcases List.mem_cons.mp h with rfl | h
    · apply fold_mono
      simp [edgeStep]
    · exact fold_edges bk fuel d ps _ p h

theorem edgeStep_inv (bk : Book N) (X : N → Prop) (fuel : Nat) (d : N) (st : GState N) (p : N)
    (h : InvX bk X st) : InvX bk X (edgeStep bk fuel d st p) := by
  have h2 := makeCells_inv bk X fuel p st h
  intro i hi hp
  rcases h2 i hi hp with h1 | h1 | h1
  · exact Or.inl h1
  · exact Or.inr (Or.inl h1)
  · exact Or.inr (Or.inr fun x hx => List.mem_cons_of_mem _ (h1 x hx))

theorem genStep_eq (bk : Book N) (fuel : Nat) (s : GState N) (d : N) (rest : List N) (h : s.todos = d :: rest) :
    genStep bk fuel s = (bk.needed d).foldl (edgeStep bk fuel d) { s with todos := rest } := by
  simp only [genStep, h]; rfl

/-- the state in the middle of one `while` iteration: `d` popped, a prefix `ps` of its needed addresses connected.
    Everything but `d` keeps the invariant (this is the state a pass leaves behind when building the next precedent
    of `d` raises: the code does not clear `graph_todos`). -/
theorem abort_state_inv (bk : Book N) (X : N → Prop) (fuel : Nat) (s : GState N) (d : N) (rest ps : List N)
    (h : InvX bk X s) (ht : s.todos = d :: rest) :
    InvX bk (fun i => X i ∨ i = d) (ps.foldl (edgeStep bk fuel d) { s with todos := rest }) := by
  have h0 : InvX bk (fun i => X i ∨ i = d) { s with todos := rest } := by
    intro i hi hp
    rcases h i hi hp with h1 | h1 | h1
    · exact Or.inl (Or.inl h1)
    · rw [ht] at h1
      rcases List.mem_cons.mp h1 with rfl | h1
      · exact Or.inl (Or.inr rfl)
      · exact Or.inr (Or.inl h1)
    · exact Or.inr (Or.inr h1)
  exact foldl_pres (InvX bk (fun i => X i ∨ i = d)) (edgeStep bk fuel d)
    (fun st p hst => edgeStep_inv bk _ fuel d st p hst) ps _ h0

theorem genStep_inv (bk : Book N) (X : N → Prop) (fuel : Nat) (s : GState N) (h : InvX bk X s) :
    InvX bk X (genStep bk fuel s) := by
  cases ht : s.todos with
  | nil => simpa [genStep, ht] using h
  | cons d rest =>
    rw [genStep_eq bk fuel s d rest ht]
    have h1 := abort_state_inv bk X fuel s d rest (bk.needed d) h ht
    intro i hi hp
    rcases h1 i hi hp with (hx | rfl) | h2 | h2
    · exact Or.inl hx
    · exact Or.inr (Or.inr fun x hx => fold_edges bk fuel i (bk.needed i) _ x hx)
    · exact Or.inr (Or.inl h2)
    · exact Or.inr (Or.inr h2)

theorem genLoop_inv (bk : Book N) (X : N → Prop) (fuel : Nat) :
    ∀ n (s : GState N), InvX bk X s → InvX bk X (genLoop bk fuel n s)
  | 0, _, h => h
  | n + 1, s, h => by
    simp only [genLoop]
    split
    · exact h
    · exact genLoop_inv bk X fuel n _ (genStep_inv bk X fuel s h)

theorem genGraph_inv (bk : Book N) (fuel n : Nat) (seed : N) : InvX bk (fun _ => False) (genGraph bk fuel n seed) := by
  apply genLoop_inv
  apply makeCells_inv
  intro i hi; simp at hi

omit [DecidableEq N] in
theorem reach_trans {edges : List (N × N)} {a b c : N} (h1 : Reach edges a b) (h2 : Reach edges b c) :
    Reach edges a c := by
  induction h1 with
  | refl => exact h2
  | step e _ ih => exact .step e (ih h2)

end graph
end Pycel.Needed

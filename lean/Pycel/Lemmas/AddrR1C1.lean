/-
  Helper lemmas for C11, part 4: R1C1 notation (absolute and relative) of a cell.
-/
import Pycel.Lemmas.AddrParse
namespace Pycel.Addr

theorem rcItem_abs (tag : Char) (n : Nat) (rest : Str) (hrest : NoHead isDigit rest) :
    rcItem tag (tag :: (natStr n ++ rest)) = (some (.abs n), rest) := by
  have hh : (natStr n ++ rest).head? ≠ some '[' := by
    intro h; exact (natStr_head' n rest _ h).2.2.2.2 rfl
  have s2 : spanP isDigit (natStr n ++ rest) = (natStr n, rest) := spanP_append _ _ _ (natStr_digits n) hrest
  unfold rcItem
  simp only [List.head?_cons, ne_eq, not_true_eq_false, ↓reduceIte, List.tail_cons, hh, s2, natStr_ne_nil,
    decVal_natStr, not_false_eq_true]

theorem intStr_neg (i : Int) (h : i < 0) : intStr i = '-' :: natStr i.natAbs := by simp [intStr, h]
theorem intStr_nonneg (i : Int) (h : ¬ i < 0) : intStr i = natStr i.natAbs := by simp [intStr, h]

theorem rcItem_rel (tag : Char) (i : Int) (rest : Str) :
    rcItem tag (tag :: '[' :: (intStr i ++ ']' :: rest)) = (some (.rel i), rest) := by
  have s2 : spanP isDigit (natStr i.natAbs ++ ']' :: rest) = (natStr i.natAbs, ']' :: rest) :=
    spanP_append _ _ _ (natStr_digits _) (noHead_cons _ _ _ (by decide))
  unfold rcItem
  by_cases h : i < 0
  · rw [intStr_neg i h]
    simp only [List.head?_cons, ne_eq, not_true_eq_false, ↓reduceIte, List.tail_cons, List.cons_append, s2,
      natStr_ne_nil, not_false_eq_true, and_self, decVal_natStr]
    congr 3; omega
  · rw [intStr_nonneg i h]
    have hh : (natStr i.natAbs ++ ']' :: rest).head? ≠ some '-' := by
      intro h'; exact (natStr_head' _ _ _ h').2.2.2.1 rfl
    simp only [List.head?_cons, ne_eq, not_true_eq_false, ↓reduceIte, List.tail_cons, hh, s2,
      natStr_ne_nil, not_false_eq_true, and_self, decVal_natStr]
    congr 3; omega

theorem r1c1Match_abs (c r : Nat) :
    r1c1Match (r1c1Abs c r) = some ⟨some (.abs r), some (.abs c), false, none, none⟩ := by
  have h1 := rcItem_abs 'R' r ('C' :: natStr c) (noHead_cons _ _ _ (by decide))
  have h2 := rcItem_abs 'C' c [] (noHead_nil _)
  simp only [List.append_nil] at h2
  unfold r1c1Match r1c1Abs
  simp only [h1, h2]

theorem r1c1Match_rel (dr dc : Int) :
    r1c1Match (r1c1Rel dr dc) = some ⟨some (.rel dr), some (.rel dc), false, none, none⟩ := by
  have h1 := rcItem_rel 'R' dr ('C' :: '[' :: (intStr dc ++ [']']))
  have h2 := rcItem_rel 'C' dc []
  unfold r1c1Match r1c1Rel
  simp only [h1, h2]

theorem a1Boundaries_r1c1Abs (c r : Nat) : a1Boundaries (r1c1Abs c r) = none := by
  have d1 : dropDollar ('R' :: (natStr r ++ 'C' :: natStr c)) = 'R' :: (natStr r ++ 'C' :: natStr c) := by
    simp [dropDollar]
  have s1 : spanP isLetter (['R'] ++ (natStr r ++ 'C' :: natStr c)) = (['R'], natStr r ++ 'C' :: natStr c) :=
    spanP_append _ _ _ (by decide) (fun x hx => (natStr_head' r _ x hx).2.1)
  have d2 : dropDollar (natStr r ++ 'C' :: natStr c) = natStr r ++ 'C' :: natStr c :=
    dropDollar_id _ (fun x hx => (natStr_head' r _ x hx).2.2.1)
  have s2 : spanP isDigit (natStr r ++ 'C' :: natStr c) = (natStr r, 'C' :: natStr c) :=
    spanP_append _ _ _ (natStr_digits r) (noHead_cons _ _ _ (by decide))
  simp only [List.singleton_append] at s1
  unfold a1Boundaries a1Half r1c1Abs
  simp [d1, s1, d2, s2]

theorem a1Boundaries_r1c1Rel (dr dc : Int) : a1Boundaries (r1c1Rel dr dc) = none := by
  unfold a1Boundaries a1Half r1c1Rel
  simp [dropDollar, spanP, isLetter, isUpper, isLower, isDigit]

theorem mem_intStr (i : Int) : ∀ x ∈ intStr i, x ≠ '!' := by
  intro x hx
  unfold intStr at hx
  split at hx
  · simp only [List.mem_cons] at hx
    rcases hx with hx | hx
    · subst hx; decide
    · exact (natStr_chars _ x hx).2.2.2.2.1
  · exact (natStr_chars _ x hx).2.2.2.2.1

theorem bang_not_mem_r1c1Abs (c r : Nat) : '!' ∉ r1c1Abs c r := by
  intro h
  simp only [r1c1Abs, List.mem_cons, List.mem_append] at h
  rcases h with h | h | h | h
  · cases h
  · exact (natStr_chars _ _ h).2.2.2.2.1 rfl
  · cases h
  · exact (natStr_chars _ _ h).2.2.2.2.1 rfl

theorem bang_not_mem_r1c1Rel (dr dc : Int) : '!' ∉ r1c1Rel dr dc := by
  intro h
  simp only [r1c1Rel, List.mem_cons, List.mem_append, List.mem_nil_iff, or_false] at h
  rcases h with h | h | h | h | h | h | h | h
  · cases h
  · cases h
  · exact mem_intStr _ _ h rfl
  · cases h
  · cases h
  · cases h
  · exact mem_intStr _ _ h rfl
  · cases h

theorem not_errorCode_of_head (s : Str) (c : Char) (h : s.head? = some c) (hc : c ≠ '#') : s ∉ errorCodes := by
  intro hm
  have := errorCodes_head s hm
  rw [h] at this
  exact hc (Option.some.inj this)

theorem incCol_le (c : Nat) (i : Int) : 1 ≤ incCol c i ∧ incCol c i ≤ MAX_COL := by
  unfold incCol MAX_COL Gen.maxCol
  omega

theorem incRow_le (r : Nat) (i : Int) : 1 ≤ incRow r i ∧ incRow r i ≤ MAX_ROW := by
  unfold incRow MAX_ROW Gen.maxRow
  omega

/-- `create` on the absolute R1C1 text of a cell -/
theorem create_r1c1Abs (c r : Nat) (hc : c ≤ COL_LIMIT) (anchor : Option (Nat × Nat)) :
    create (r1c1Abs c r) [] anchor = .ok (.addr ⟨false, ⟨[], c, r, c, r⟩⟩) := by
  have hne : r1c1Abs c r ∉ errorCodes := not_errorCode_of_head _ 'R' rfl (by decide)
  unfold create
  rw [if_neg hne, split_none _ (bang_not_mem_r1c1Abs c r)]
  simp only [rangeBoundaries, boundsSimple, a1Boundaries_r1c1Abs, r1c1Boundaries, r1c1Match_abs, rcResolve?,
    rcResolve]
  have : (Gen.r1c1Combos.contains (true, true, false, false)) = false := by decide
  simp [ofBounds, Bounds.hasNone, mkCell, Nat.not_lt.mpr hc]

/-- `create` on the relative R1C1 text of an offset, read from an anchor cell -/
theorem create_r1c1Rel (ac ar : Nat) (dr dc : Int) :
    create (r1c1Rel dr dc) [] (some (ac, ar)) =
      .ok (.addr ⟨false, ⟨[], incCol ac dc, incRow ar dr, incCol ac dc, incRow ar dr⟩⟩) := by
  have hne : r1c1Rel dr dc ∉ errorCodes := not_errorCode_of_head _ 'R' rfl (by decide)
  have hc : incCol ac dc ≤ COL_LIMIT := Nat.le_trans (incCol_le ac dc).2 maxCol_le_limit
  unfold create
  rw [if_neg hne, split_none _ (bang_not_mem_r1c1Rel dr dc)]
  simp only [rangeBoundaries, boundsSimple, a1Boundaries_r1c1Rel, r1c1Boundaries, r1c1Match_rel, rcResolve?,
    rcResolve]
  simp [ofBounds, Bounds.hasNone, mkCell, Nat.not_lt.mpr hc]

end Pycel.Addr

/-
  Lemmas for property C20 about the text-function models of Pycel/Model/TextFns.lean (core Lean only).
-/
import Pycel.Model.TextFns
namespace Pycel.TextFns
open Pycel Pycel.Ops

/-! ### slicing -/

theorem left_mid (s : Text) (n : Int) (hn : 0 ≤ n) :
    ∃ a b, left s n = some a ∧ mid s (n + 1) s.length = some b ∧ a ++ b = s := by
  refine ⟨s.take n.toNat, s.drop n.toNat, ?_, ?_, List.take_append_drop _ _⟩
  · simp [left]; omega
  · have h1 : ¬ (n + 1 < 1 ∨ (s.length : Int) < 0) := by omega
    have h2 : (n + 1 - 1).toNat = n.toNat := by omega
    simp only [mid, h1, ↓reduceIte, h2, Int.toNat_natCast]
    congr 1
    apply List.take_of_length_le
    simp
    
theorem right_spec (s : Text) (k : Int) (hk : 0 ≤ k) :
    ∃ r, right s k = some r ∧ r <:+ s ∧ r.length = min k.toNat s.length := by
  refine ⟨s.drop (s.length - k.toNat), ?_, List.drop_suffix _ _, ?_⟩
  · simp [right]; omega
  · simp; omega

theorem replace_spec (s t : Text) (n k : Int) (hn : 1 ≤ n) (hk : 0 ≤ k) :
    ∃ a b, left s (n - 1) = some a ∧ mid s (n + k) s.length = some b ∧ replace s n k t = some (a ++ t ++ b) := by
  refine ⟨s.take (n - 1).toNat, s.drop ((n - 1).toNat + k.toNat), ?_, ?_, ?_⟩
  · simp [left]; omega
  · have h1 : ¬ (n + k < 1 ∨ (s.length : Int) < 0) := by omega
    have h2 : (n + k - 1).toNat = (n - 1).toNat + k.toNat := by omega
    simp only [mid, h1, ↓reduceIte, h2, Int.toNat_natCast]
    congr 1
    apply List.take_of_length_le
    simp
  · have h1 : ¬ (n < 1 ∨ k < 0) := by omega
    simp [replace, h1]

/-! ### FIND -/

theorem findIdx_some {f : Text} : ∀ {s : Text} {i : Nat}, findIdx f s = some i →
    i ≤ s.length ∧ f <+: s.drop i ∧ ∀ j, j < i → ¬ f <+: s.drop j := by
  intro s
  induction s with
  | nil =>
    intro i h
    simp only [findIdx] at h
    split at h
    · rename_i hp
      cases h
      exact ⟨Nat.le_refl _, List.isPrefixOf_iff_prefix.mp hp, fun j hj => absurd hj (Nat.not_lt_zero _)⟩
    · cases h
  | cons c cs ih =>
    intro i h
    simp only [findIdx] at h
    split at h
    · rename_i hp
      cases h
      exact ⟨Nat.zero_le _, List.isPrefixOf_iff_prefix.mp hp, fun j hj => absurd hj (Nat.not_lt_zero _)⟩
    · rename_i hp
      cases hq : findIdx f cs with
      | none => rw [hq] at h; cases h
      | some k =>
        rw [hq] at h
        simp only [Option.map_some, Option.some.injEq] at h
        subst h
        obtain ⟨h1, h2, h3⟩ := ih hq
        refine ⟨by simp; omega, by simpa using h2, ?_⟩
        intro j hj
        cases j with
        | zero => simpa [List.isPrefixOf_iff_prefix] using hp
        | succ j => simpa using h3 j (by omega)

theorem findIdx_none {f : Text} : ∀ {s : Text}, findIdx f s = none →
    ∀ j, j ≤ s.length → ¬ f <+: s.drop j := by
  intro s
  induction s with
  | nil =>
    intro h j hj
    simp only [findIdx] at h
    split at h
    · cases h
    · rename_i hp
      have : j = 0 := by simpa using hj
      subst this
      simpa [List.isPrefixOf_iff_prefix] using hp
  | cons c cs ih =>
    intro h j hj
    simp only [findIdx] at h
    split at h
    · cases h
    · rename_i hp
      cases hq : findIdx f cs with
      | some k => rw [hq] at h; cases h
      | none =>
        cases j with
        | zero => simpa [List.isPrefixOf_iff_prefix] using hp
        | succ j => simpa using ih hq j (by simpa using hj)

/-- `f` occurs in `s` at 1-based position `p` -/
theorem mid_eq_iff_prefix (f s : Text) (j : Nat) :
    mid s ((j : Int) + 1) f.length = some f ↔ f <+: s.drop j := by
  have h1 : ¬ ((j : Int) + 1 < 1 ∨ (f.length : Int) < 0) := by omega
  have h2 : ((j : Int) + 1 - 1).toNat = j := by omega
  simp only [mid, h1, ↓reduceIte, h2, Int.toNat_natCast, Option.some.injEq]
  constructor
  · intro h; rw [← h]; exact List.take_prefix _ _
  · intro h; exact (List.prefix_iff_eq_take.mp h).symm

theorem find_first (f s : Text) (start p : Int) (h : find f s start = some p) :
    1 ≤ start ∧ start ≤ p ∧ p + f.length ≤ s.length + 1 ∧ mid s p f.length = some f ∧
      ∀ q, start ≤ q → q < p → mid s q f.length ≠ some f := by
  unfold find at h
  split at h
  · cases h
  · rename_i hc
    have hs : 1 ≤ start := by omega
    have hl : (start - 1).toNat ≤ s.length := by omega
    cases hq : findIdx f (s.drop (start - 1).toNat) with
    | none => rw [hq] at h; cases h
    | some i =>
      rw [hq] at h
      simp only [Option.map_some, Option.some.injEq] at h
      obtain ⟨h1, h2, h3⟩ := findIdx_some hq
      rw [List.drop_drop] at h2
      have hlen := h2.length_le
      simp only [List.length_drop] at hlen h1
      have hp : p = (((start - 1).toNat + i : Nat) : Int) + 1 := by omega
      refine ⟨hs, by omega, by omega, ?_, ?_⟩
      · rw [hp]; exact (mid_eq_iff_prefix f s _).mpr h2
      · intro q hq1 hq2
        have hj : (q - start).toNat < i := by omega
        have := h3 _ hj
        rw [List.drop_drop] at this
        have hq' : q = (((start - 1).toNat + (q - start).toNat : Nat) : Int) + 1 := by omega
        rw [hq']
        exact fun hm => this ((mid_eq_iff_prefix f s _).mp hm)

theorem find_none (f s : Text) (start : Int) (h : find f s start = none) :
    start < 1 ∨ ∀ q, start ≤ q → q + f.length ≤ s.length + 1 → mid s q f.length ≠ some f := by
  unfold find at h
  split at h
  · rename_i hc
    rcases hc with hc | hc
    · exact Or.inl hc
    · right; intro q h1 h2; omega
  · rename_i hc
    by_cases hs : start < 1
    · exact Or.inl hs
    right
    intro q h1 h2
    cases hq : findIdx f (s.drop (start - 1).toNat) with
    | some i => rw [hq] at h; cases h
    | none =>
      have := findIdx_none hq (q - start).toNat (by simp only [List.length_drop]; omega)
      rw [List.drop_drop] at this
      have hq' : q = (((start - 1).toNat + (q - start).toNat : Nat) : Int) + 1 := by omega
      rw [hq']
      exact fun hm => this ((mid_eq_iff_prefix f s _).mp hm)

theorem find_complete (f s : Text) (start : Int) (hs : 1 ≤ start)
    (h : ∃ q, start ≤ q ∧ q + f.length ≤ s.length + 1 ∧ mid s q f.length = some f) :
    ∃ p, find f s start = some p := by
  cases hf : find f s start with
  | some p => exact ⟨p, rfl⟩
  | none =>
    obtain ⟨q, h1, h2, h3⟩ := h
    rcases find_none f s start hf with h' | h'
    · omega
    · exact absurd h3 (h' q h1 h2)

/-! ### SUBSTITUTE -/

theorem findIdx_bound {f s : Text} {i : Nat} (h : findIdx f s = some i) : i + f.length ≤ s.length := by
  obtain ⟨h1, h2, _⟩ := findIdx_some h
  have := h2.length_le
  simp only [List.length_drop] at this
  omega

theorem substAllF_fuel (old new : Text) (ho : old ≠ []) : ∀ (f1 f2 : Nat) (s : Text),
    s.length < f1 → s.length < f2 → substAllF old new f1 s = substAllF old new f2 s := by
  intro f1
  induction f1 with
  | zero => intro f2 s h; omega
  | succ f1 ih =>
    intro f2 s h1 h2
    cases f2 with
    | zero => omega
    | succ f2 =>
      simp only [substAllF]
      cases hq : findIdx old s with
      | none => rfl
      | some i =>
        have hb := findIdx_bound hq
        have hol : 0 < old.length := List.length_pos_iff.mpr ho
        simp only
        congr 1
        apply ih <;> (simp only [List.length_drop]; omega)

theorem substAll_none (old new s : Text) (h : findIdx old s = none) : substAll old new s = s := by
  unfold substAll
  split
  · rfl
  · simp [substAllF, h]

theorem substAll_first (old new s : Text) (ho : old ≠ []) (i : Nat) (h : findIdx old s = some i) :
    substAll old new s = s.take i ++ new ++ substAll old new (s.drop (i + old.length)) := by
  have hb := findIdx_bound h
  have hol : 0 < old.length := List.length_pos_iff.mpr ho
  unfold substAll
  rw [if_neg ho, if_neg ho, substAllF.eq_2, h]
  simp only
  congr 1
  apply substAllF_fuel old new ho <;> (simp only [List.length_drop]; omega)

/-! ### CONCATENATE -/

theorem CONCATENATE_kind (vs : List Val) : (∃ r, CONCATENATE vs = .str r) ∨ (∃ e, CONCATENATE vs = .err e) := by
  induction vs with
  | nil => exact Or.inl ⟨[], rfl⟩
  | cons v vs ih =>
    cases v with
    | err e => exact Or.inr ⟨e, rfl⟩
    | num q => rcases ih with ⟨r, hr⟩ | ⟨e, he⟩ <;> simp [CONCATENATE, *]
    | str s => rcases ih with ⟨r, hr⟩ | ⟨e, he⟩ <;> simp [CONCATENATE, *]
    | bool b => rcases ih with ⟨r, hr⟩ | ⟨e, he⟩ <;> simp [CONCATENATE, *]
    | blank => rcases ih with ⟨r, hr⟩ | ⟨e, he⟩ <;> simp [CONCATENATE, *]

theorem concat_cons (v : Val) (vs : List Val) : CONCATENATE (v :: vs) = AMP v (CONCATENATE vs) := by
  rcases CONCATENATE_kind vs with ⟨r, hr⟩ | ⟨e, he⟩
  · cases v <;> simp [CONCATENATE, AMP, hr, renderVal]
  · cases v <;> simp [CONCATENATE, AMP, he]

/-! ### TRIM -/

theorem split_ne_nil (s : Text) : split s ≠ [] := by
  cases s with
  | nil => simp [split]
  | cons c cs =>
    simp only [split]
    split
    · simp
    · split <;> simp

theorem split_append_space (a r : Text) : split (a ++ ' ' :: r) = split a ++ split r := by
  induction a with
  | nil => simp [split]
  | cons c a ih =>
    by_cases hc : c = ' '
    · simp [split, hc, ih]
    · simp only [List.cons_append, split, hc, ↓reduceIte, ih]
      cases hs : split a with
      | nil => exact absurd hs (split_ne_nil a)
      | cons w ws => simp

theorem split_nospace (w : Text) (h : ' ' ∉ w) : split w = [w] := by
  induction w with
  | nil => rfl
  | cons c w ih =>
    have hc : c ≠ ' ' := fun e => h (by simp [e])
    have hw : ' ' ∉ w := fun e => h (by simp [e])
    simp [split, hc, ih hw]

theorem split_nospace_mem (s : Text) : ∀ w ∈ split s, ' ' ∉ w := by
  induction s with
  | nil => simp [split]
  | cons c cs ih =>
    by_cases hc : c = ' '
    · simp only [split, hc, ↓reduceIte]
      intro w hw
      rcases List.mem_cons.mp hw with h | h
      · simp [h]
      · exact ih w h
    · simp only [split, hc, ↓reduceIte]
      cases hs : split cs with
      | nil => exact absurd hs (split_ne_nil cs)
      | cons w ws =>
        rw [hs] at ih
        intro x hx
        rcases List.mem_cons.mp hx with h | h
        · subst h
          have := ih w (by simp)
          intro hm
          rcases List.mem_cons.mp hm with e | e
          · exact hc e.symm
          · exact this e
        · exact ih x (by simp [h])

/-- a word: non-empty and free of spaces -/
def IsWord (w : Text) : Prop := w ≠ [] ∧ ' ' ∉ w

theorem words_isWord (s : Text) : ∀ w ∈ words s, IsWord w := by
  intro w hw
  simp only [words, List.mem_filter, decide_eq_true_eq] at hw
  exact ⟨hw.2, split_nospace_mem s w hw.1⟩

theorem split_joinSp : ∀ (ws : List Text), (∀ w ∈ ws, IsWord w) → ws ≠ [] → split (joinSp ws) = ws := by
  intro ws
  induction ws with
  | nil => intro _ h; exact absurd rfl h
  | cons w ws ih =>
    intro hw _
    cases ws with
    | nil => simpa [joinSp] using split_nospace w (hw w (by simp)).2
    | cons w2 rest =>
      simp only [joinSp]
      rw [split_append_space, split_nospace w (hw w (by simp)).2,
        ih (fun x hx => hw x (by simp [hx])) (by simp)]
      rfl

theorem words_joinSp (ws : List Text) (h : ∀ w ∈ ws, IsWord w) : words (joinSp ws) = ws := by
  cases ws with
  | nil => simp [joinSp, words, split]
  | cons w rest =>
    unfold words
    rw [split_joinSp _ h (by simp)]
    apply List.filter_eq_self.mpr
    intro x hx
    simpa using (h x hx).1

theorem nil_mem_split_of_head {t : Text} (h : t.head? = some ' ') : [] ∈ split t := by
  cases t with
  | nil => simp at h
  | cons c cs =>
    simp only [List.head?_cons, Option.some.injEq] at h
    simp [split, h]

theorem nil_mem_split_of_last {t : Text} (h : t.getLast? = some ' ') : [] ∈ split t := by
  obtain ⟨ys, rfl⟩ := List.getLast?_eq_some_iff.mp h
  have := split_append_space ys []
  simp only [split] at this
  rw [this]
  simp

theorem nil_mem_split_of_double {t : Text} (h : [' ', ' '] <:+: t) : [] ∈ split t := by
  obtain ⟨a, b, rfl⟩ := h
  have : a ++ [' ', ' '] ++ b = a ++ ' ' :: (' ' :: b) := by simp
  rw [this, split_append_space]
  simp [split]

theorem nil_not_mem_split_trim (s : Text) (h : trim s ≠ []) : [] ∉ split (trim s) := by
  unfold trim at h ⊢
  have hw := words_isWord s
  cases hws : words s with
  | nil => rw [hws] at h; exact absurd rfl h
  | cons w rest =>
    rw [hws] at hw
    rw [split_joinSp _ hw (by simp)]
    intro hm
    exact (hw [] hm).1 rfl

/-! ### UPPER / LOWER -/

theorem toNat_ofNat_small (m : Nat) (h : m < 55296) : (Char.ofNat m).toNat = m := by
  have hv : m.isValidChar := Or.inl h
  simp only [Char.ofNat, hv, ↓reduceDIte]
  simp [Char.ofNatAux, Char.toNat]

theorem upperChar_idem (c : Char) : upperChar (upperChar c) = upperChar c := by
  unfold upperChar
  simp only []
  by_cases h : (97 ≤ c.toNat ∧ c.toNat ≤ 122) ∨ (224 ≤ c.toNat ∧ c.toNat ≤ 254 ∧ c.toNat ≠ 247)
  · simp only [h, ↓reduceIte]
    have hm : c.toNat - 32 < 55296 := by omega
    rw [toNat_ofNat_small _ hm]
    have : ¬ ((97 ≤ c.toNat - 32 ∧ c.toNat - 32 ≤ 122) ∨
        (224 ≤ c.toNat - 32 ∧ c.toNat - 32 ≤ 254 ∧ c.toNat - 32 ≠ 247)) := by omega
    simp only [this, ↓reduceIte]
  · simp only [h, ↓reduceIte]

theorem lowerChar_idem (c : Char) : lowerChar (lowerChar c) = lowerChar c := by
  unfold lowerChar
  simp only []
  by_cases h : (65 ≤ c.toNat ∧ c.toNat ≤ 90) ∨ (192 ≤ c.toNat ∧ c.toNat ≤ 222 ∧ c.toNat ≠ 215)
  · simp only [h, ↓reduceIte]
    have hm : c.toNat + 32 < 55296 := by omega
    rw [toNat_ofNat_small _ hm]
    have : ¬ ((65 ≤ c.toNat + 32 ∧ c.toNat + 32 ≤ 90) ∨
        (192 ≤ c.toNat + 32 ∧ c.toNat + 32 ≤ 222 ∧ c.toNat + 32 ≠ 215)) := by omega
    simp only [this, ↓reduceIte]
  · simp only [h, ↓reduceIte]

end Pycel.TextFns

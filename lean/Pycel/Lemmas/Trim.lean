/-
  Lemmas about Model/Trim.lean: cut workbooks and their from-scratch value, the two closures (`depOn`, `live`),
  the cell map is closed under precedents (`BuiltClosed`), and the core preservation lemma `live_preserved`.
  Core Lean only.
-/
import Pycel.Model.Trim
import Pycel.Lemmas.Engine
namespace Pycel.Trim
open Pycel.Engine

variable {α : Type} {wb : Workbook} {f : Nat → (Nat → α) → α}

theorem any_congr_mem {β : Type} {p q : β → Bool} : ∀ {l : List β}, (∀ a, a ∈ l → p a = q a) → l.any p = l.any q
  | [], _ => rfl
  | a :: l, h => by
    simp only [List.any_cons]
    rw [h a (by simp), any_congr_mem (l := l) (fun b hb => h b (by simp [hb]))]

/-! ### cut workbooks -/

@[simp] theorem cutAt_n (C : Nat → Bool) : (cutAt wb C).n = wb.n := rfl

theorem cutAt_kind_of_not {C : Nat → Bool} {i : Nat} (h : C i = false) : (cutAt wb C).kind i = wb.kind i := by
  simp [cutAt, h]

theorem cutAt_deps_of_not {C : Nat → Bool} {i : Nat} (h : C i = false) : (cutAt wb C).deps i = wb.deps i := by
  simp [cutAt, h]

theorem cutAt_kind_of {C : Nat → Bool} {i : Nat} (h : C i = true) : (cutAt wb C).kind i = .input := by
  simp [cutAt, h]

theorem cutAt_deps_of {C : Nat → Bool} {i : Nat} (h : C i = true) : (cutAt wb C).deps i = [] := by
  simp [cutAt, h]

theorem cutAt_wf (hwf : WF wb) (C : Nat → Bool) : WF (cutAt wb C) := by
  constructor
  · intro i j hj
    cases hc : C i with
    | true => rw [cutAt_deps_of hc] at hj; simp at hj
    | false => rw [cutAt_deps_of_not hc] at hj; exact hwf.lt i j hj
  · intro i hk
    cases hc : C i with
    | true => exact cutAt_deps_of hc
    | false => rw [cutAt_kind_of_not hc] at hk; rw [cutAt_deps_of_not hc]; exact hwf.input i hk

theorem cutAt_cutAt (C D : Nat → Bool) : cutAt (cutAt wb D) C = cutAt wb (fun k => C k || D k) := by
  unfold cutAt
  congr 1
  · funext i
    cases hc : C i <;> cases hd : D i <;> simp [hc, hd]
  · funext i
    cases hc : C i <;> cases hd : D i <;> simp [hc, hd]

/-- cutting at value cells changes nothing -/
theorem cutAt_inputs (hwf : WF wb) (C : Nat → Bool) (h : ∀ k, C k = true → wb.kind k = .input) : cutAt wb C = wb := by
  cases wb with
  | mk n kind deps =>
    unfold cutAt
    congr 1
    · funext i
      cases hc : C i with
      | true => simp; exact (h i hc).symm
      | false => simp
    · funext i
      cases hc : C i with
      | true => simp; exact hwf.input i (h i hc)
      | false => simp

/-- read-locality at formula and range nodes only (what `denote` needs; value cells never apply `f`) -/
def LocalN (wb : Workbook) (f : Nat → (Nat → α) → α) : Prop :=
  ∀ i, wb.kind i ≠ .input → ∀ (e e' : Nat → α), (∀ j, j ∈ wb.deps i → e j = e' j) → f i e = f i e'

theorem localN_of_local (hl : Local wb f) : LocalN wb f := fun i _ e e' h => hl i e e' h

theorem localN_cut (hl : Local wb f) (C : Nat → Bool) : LocalN (cutAt wb C) f := by
  intro i hk e e' h
  cases hc : C i with
  | true => exact absurd (cutAt_kind_of hc) hk
  | false => rw [cutAt_deps_of_not hc] at h; exact hl i e e' h

theorem denoteF_fuelN (hwf : WF wb) (hl : LocalN wb f) (inp : Nat → α) :
    ∀ a b i, i < a → i < b → denoteF wb f inp a i = denoteF wb f inp b i := by
  intro a
  induction a with
  | zero => intro b i h; omega
  | succ a ih =>
    intro b i ha hb
    cases b with
    | zero => omega
    | succ b =>
      cases hk : wb.kind i <;> simp only [denoteF, hk]
      all_goals
        apply hl i (by rw [hk]; simp)
        intro j hj
        have := hwf.lt i j hj
        exact ih b j (by omega) (by omega)

theorem denote_nodeN (hwf : WF wb) (hl : LocalN wb f) (inp : Nat → α) {i : Nat} (h : wb.kind i ≠ .input) :
    denote wb f inp i = f i (fun j => denote wb f inp j) := by
  have key : f i (fun j => denoteF wb f inp i j) = f i (fun j => denote wb f inp j) := by
    apply hl i h
    intro j hj
    have := hwf.lt i j hj
    exact denoteF_fuelN hwf hl inp i (j+1) j this (by omega)
  cases hk : wb.kind i
  · exact absurd hk h
  · simpa [denote, denoteF, hk] using key
  · simpa [denote, denoteF, hk] using key

/-- the from-scratch value does not look at `f` on value cells -/
theorem denote_f_congr (hwf : WF wb) (hl : LocalN wb f) (g : Nat → (Nat → α) → α)
    (hg : ∀ i, wb.kind i ≠ .input → g i = f i) (inp : Nat → α) :
    ∀ m, denote wb g inp m = denote wb f inp m := by
  have hlg : LocalN wb g := fun i hk e e' h => by rw [hg i hk]; exact hl i hk e e' h
  intro m
  induction m using Nat.strongRecOn with
  | _ m ih =>
    by_cases hk : wb.kind m = .input
    · rw [denote_input _ hk, denote_input _ hk]
    · rw [denote_nodeN hwf hlg _ hk, denote_nodeN hwf hl _ hk, hg m hk]
      apply hl m hk
      intro j hj
      exact ih j (hwf.lt m j hj)

/-! ### strict transitive dependence -/

theorem depOnF_fuel (hwf : WF wb) (src : Nat → Bool) :
    ∀ a b k, k < a → k < b → depOnF wb src a k = depOnF wb src b k := by
  intro a
  induction a with
  | zero => intro b k h; omega
  | succ a ih =>
    intro b k ha hb
    cases b with
    | zero => omega
    | succ b =>
      simp only [depOnF]
      apply any_congr_mem
      intro j hj
      have := hwf.lt k j hj
      rw [ih b j (by omega) (by omega)]

theorem depOn_unfold (hwf : WF wb) (src : Nat → Bool) (k : Nat) :
    depOn wb src k = (wb.deps k).any fun j => src j || depOn wb src j := by
  show ((wb.deps k).any fun j => src j || depOnF wb src k j) = _
  apply any_congr_mem
  intro j hj
  have := hwf.lt k j hj
  show (src j || depOnF wb src k j) = (src j || depOnF wb src (j+1) j)
  rw [depOnF_fuel hwf src k (j+1) j this (by omega)]

theorem depOn_false_step (hwf : WF wb) {src : Nat → Bool} {k : Nat} (h : depOn wb src k = false) :
    ∀ j, j ∈ wb.deps k → src j = false ∧ depOn wb src j = false := by
  rw [depOn_unfold hwf] at h
  intro j hj
  have := (List.any_eq_false.mp h) j hj
  simpa using this

theorem depOn_true_of_dep (hwf : WF wb) {src : Nat → Bool} {k j : Nat} (hj : j ∈ wb.deps k)
    (h : src j = true ∨ depOn wb src j = true) : depOn wb src k = true := by
  rw [depOn_unfold hwf]
  apply List.any_eq_true.mpr
  exact ⟨j, hj, by rcases h with h | h <;> simp [h]⟩

/-- `i` is a strict transitive precedent of `k` -/
inductive Prec (wb : Workbook) : Nat → Nat → Prop where
  | direct {j k : Nat} : j ∈ wb.deps k → Prec wb j k
  | step {i j k : Nat} : j ∈ wb.deps k → Prec wb i j → Prec wb i k

theorem depOn_false_iff (hwf : WF wb) (src : Nat → Bool) :
    ∀ k, depOn wb src k = false ↔ ∀ i, Prec wb i k → src i = false := by
  intro k
  induction k using Nat.strongRecOn with
  | _ k ih =>
    constructor
    · intro h i hp
      cases hp with
      | direct hj => exact (depOn_false_step hwf h _ hj).1
      | step hj hp' =>
        rename_i j
        exact (ih j (hwf.lt k j hj)).mp (depOn_false_step hwf h j hj).2 i hp'
    · intro h
      rw [depOn_unfold hwf]
      apply List.any_eq_false.mpr
      intro j hj
      have h1 : src j = false := h j (.direct hj)
      have h2 : depOn wb src j = false :=
        (ih j (hwf.lt k j hj)).mpr (fun i hp => h i (.step hj hp))
      simp [h1, h2]

/-- a cell that reads no cut cell and no changed value cell has the same value -/
theorem denote_cut_indep (hwf : WF wb) (hl : Local wb f) (C src : Nat → Bool)
    (hC : ∀ k, C k = true → src k = true) (σ σ' : Nat → α) (hσ : ∀ k, src k = false → σ k = σ' k) :
    ∀ m, (C m = false ∧ (wb.kind m = .input → σ m = σ' m)) → depOn wb src m = false →
      denote (cutAt wb C) f σ m = denote wb f σ' m := by
  intro m
  induction m using Nat.strongRecOn with
  | _ m ih =>
    intro ⟨hcm, hin⟩ hd
    by_cases hk : wb.kind m = .input
    · have hk' : (cutAt wb C).kind m = .input := by rw [cutAt_kind_of_not hcm]; exact hk
      rw [denote_input _ hk', denote_input _ hk]; exact hin hk
    · have hk' : (cutAt wb C).kind m ≠ .input := by rw [cutAt_kind_of_not hcm]; exact hk
      rw [denote_nodeN (cutAt_wf hwf C) (localN_cut hl C) _ hk', denote_node hwf hl _ hk]
      apply hl
      intro j hj
      obtain ⟨h1, h2⟩ := depOn_false_step hwf hd j hj
      have hcj : C j = false := by
        cases hc : C j with
        | false => rfl
        | true => rw [hC j hc] at h1; exact absurd h1 (by simp)
      exact ih j (hwf.lt m j hj) ⟨hcj, fun _ => hσ j h1⟩ h2

/-! ### the precedent walk -/

section walk
variable (built : Nat → Bool) (I O : List Nat)

theorem succs_bounds (hwf : WF wb) {k m : Nat} (h : m ∈ succs wb k) : k < m ∧ m < wb.n := by
  have := mem_succs.mp h
  exact ⟨hwf.lt m k this.2, this.1⟩

theorem liveF_spec (hwf : WF wb) : ∀ fuel k, wb.n - k ≤ fuel →
    liveF wb built I O fuel k =
      (O.contains k || ((needed wb built I O k || isRange wb k) &&
        (succs wb k).any fun m => liveF wb built I O (wb.n - m) m)) := by
  intro fuel
  induction fuel using Nat.strongRecOn with
  | _ fuel ih =>
    intro k hk
    cases fuel with
    | zero =>
      have hnone : ((succs wb k).any fun m => liveF wb built I O (wb.n - m) m) = false := by
        apply List.any_eq_false.mpr
        intro m hm
        have := succs_bounds hwf hm
        omega
      simp [liveF, hnone]
    | succ fuel =>
      simp only [liveF]
      congr 2
      apply any_congr_mem
      intro m hm
      have hb := succs_bounds hwf hm
      rw [ih fuel (by omega) m (by omega), ih (wb.n - m) (by omega) m (by omega)]

theorem live_unfold (hwf : WF wb) (k : Nat) :
    live wb built I O k =
      (O.contains k || ((needed wb built I O k || isRange wb k) && (succs wb k).any fun m => live wb built I O m)) :=
  liveF_spec built I O hwf (wb.n - k) k (Nat.le_refl _)

theorem live_of_out (hwf : WF wb) {k : Nat} (h : O.contains k = true) : live wb built I O k = true := by
  rw [live_unfold built I O hwf, h]; rfl

theorem needed_of_out {k : Nat} (h : O.contains k = true) : needed wb built I O k = true := by
  unfold needed; rw [h]; simp

theorem live_cases (hwf : WF wb) {k : Nat} (h : live wb built I O k = true) :
    O.contains k = true ∨ ((needed wb built I O k = true ∨ isRange wb k = true) ∧
      ∃ m, m < wb.n ∧ k ∈ wb.deps m ∧ live wb built I O m = true) := by
  rw [live_unfold built I O hwf] at h
  rcases Bool.or_eq_true_iff.mp h with h | h
  · exact Or.inl h
  · right
    obtain ⟨h1, h2⟩ := Bool.and_eq_true_iff.mp h
    obtain ⟨m, hm, hl⟩ := List.any_eq_true.mp h2
    have := mem_succs.mp hm
    exact ⟨Bool.or_eq_true_iff.mp h1, m, this.1, this.2, hl⟩

theorem live_child (hwf : WF wb) {m k : Nat} (hm : live wb built I O m = true) (hmn : m < wb.n) (hk : k ∈ wb.deps m)
    (h : needed wb built I O k = true ∨ isRange wb k = true) : live wb built I O k = true := by
  rw [live_unfold built I O hwf]
  have h1 : (needed wb built I O k || isRange wb k) = true := Bool.or_eq_true_iff.mpr h
  have h2 : ((succs wb k).any fun m => live wb built I O m) = true :=
    List.any_eq_true.mpr ⟨m, mem_succs.mpr ⟨hmn, hk⟩, hm⟩
  simp [h1, h2]

theorem frozen_child {m k : Nat} (hm : live wb built I O m = true) (hmn : m < wb.n) (hk : k ∈ wb.deps m)
    (h1 : needed wb built I O k = false) (h2 : isRange wb k = false) : frozen wb built I O k = true := by
  have : ((succs wb k).any fun m => live wb built I O m) = true :=
    List.any_eq_true.mpr ⟨m, mem_succs.mpr ⟨hmn, hk⟩, hm⟩
  simp [frozen, h1, h2, this]

theorem frozen_cases {k : Nat} (h : frozen wb built I O k = true) :
    needed wb built I O k = false ∧ isRange wb k = false ∧
      ∃ m, m < wb.n ∧ k ∈ wb.deps m ∧ live wb built I O m = true := by
  simp only [frozen, Bool.and_eq_true, Bool.not_eq_true'] at h
  obtain ⟨⟨h1, h2⟩, h3⟩ := h
  obtain ⟨m, hm, hl⟩ := List.any_eq_true.mp h3
  have := mem_succs.mp hm
  exact ⟨h1, h2, m, this.1, this.2, hl⟩

/-- a child of a walked cell is walked or frozen -/
theorem live_step (hwf : WF wb) {m k : Nat} (hm : live wb built I O m = true) (hmn : m < wb.n) (hk : k ∈ wb.deps m) :
    live wb built I O k = true ∨ frozen wb built I O k = true := by
  cases h1 : needed wb built I O k with
  | true => exact Or.inl (live_child built I O hwf hm hmn hk (Or.inl h1))
  | false =>
    cases h2 : isRange wb k with
    | true => exact Or.inl (live_child built I O hwf hm hmn hk (Or.inr h2))
    | false => exact Or.inr (frozen_child built I O hm hmn hk h1 h2)

theorem live_lt (hwf : WF wb) (hO : ∀ o, o ∈ O → o < wb.n) {k : Nat} (h : live wb built I O k = true) : k < wb.n := by
  rcases live_cases built I O hwf h with h | ⟨_, m, hm, hk, _⟩
  · exact hO k (List.contains_iff_mem.mp h)
  · have := hwf.lt m k hk; omega

theorem frozen_lt (hwf : WF wb) {k : Nat} (h : frozen wb built I O k = true) : k < wb.n := by
  obtain ⟨_, _, m, hm, hk, _⟩ := frozen_cases built I O h
  have := hwf.lt m k hk; omega

theorem live_not_frozen (hwf : WF wb) {k : Nat} (h : live wb built I O k = true) : frozen wb built I O k = false := by
  cases hf : frozen wb built I O k with
  | false => rfl
  | true =>
    obtain ⟨h1, h2, _⟩ := frozen_cases built I O hf
    rcases live_cases built I O hwf h with h | ⟨h | h, _⟩
    · rw [needed_of_out built I O h] at h1; exact absurd h1 (by simp)
    · rw [h] at h1; exact absurd h1 (by simp)
    · rw [h] at h2; exact absurd h2 (by simp)

/-- a walked cell stays in the cell map -/
theorem live_keep {k : Nat} (h : live wb built I O k = true) : keep wb built I O k = true := by
  simp [keep, h]

theorem live_keep_or_range {k : Nat} (h : live wb built I O k = true) :
    keep wb built I O k = true ∨ isRange wb k = true := Or.inl (live_keep built I O h)

theorem keep_cases {k : Nat} (h : keep wb built I O k = true) :
    live wb built I O k = true ∨ frozen wb built I O k = true := by
  simpa [keep] using h

theorem frozen_keep {k : Nat} (h : frozen wb built I O k = true) : keep wb built I O k = true := by
  simp [keep, h]

end walk

/-! ### the cell map is closed under precedents -/

/-- every precedent of a cell of the cell map is in the cell map -/
def BuiltClosed (wb : Workbook) (built : Nat → Bool) : Prop :=
  ∀ m, built m = true → ∀ j, j ∈ wb.deps m → built j = true

theorem evalF_built : ∀ fuel i (s : State α), (evalF wb f fuel i s).2.built = s.built := by
  intro fuel
  induction fuel with
  | zero => intro i s; rfl
  | succ fuel ih =>
    intro i s
    have hfold : ∀ (L : List Nat) (st : State α),
        (L.foldl (fun st j => (evalF wb f fuel j st).2) st).built = st.built := by
      intro L
      induction L with
      | nil => intro st; rfl
      | cons a L ihL => intro st; simp only [List.foldl_cons]; rw [ihL, ih]
    cases hk : wb.kind i <;> cases hc : s.cache i <;> simp [evalF, hk, hc, hfold]

structure BCPost (wb : Workbook) (s s' : State α) (i : Nat) : Prop where
  closed : BuiltClosed wb s'.built
  mono : ∀ m, s.built m = true → s'.built m = true
  done : s'.built i = true

theorem buildF_closed (hwf : WF wb) : ∀ fuel i (s : State α), i < fuel → BuiltClosed wb s.built →
    BCPost wb s (buildF wb f fuel i s) i := by
  intro fuel
  induction fuel with
  | zero => intro i s h; omega
  | succ fuel ih =>
    intro i s hi hc
    by_cases hb : s.built i = true
    · have : buildF wb f (fuel+1) i s = s := by simp [buildF, hb]
      rw [this]; exact ⟨hc, fun _ h => h, hb⟩
    · have hfold : ∀ (L : List Nat) (st : State α), (∀ j, j ∈ L → j < fuel) → BuiltClosed wb st.built →
          BuiltClosed wb (L.foldl (fun st j => buildF wb f fuel j st) st).built ∧
          (∀ m, st.built m = true → (L.foldl (fun st j => buildF wb f fuel j st) st).built m = true) ∧
          (∀ j, j ∈ L → (L.foldl (fun st j => buildF wb f fuel j st) st).built j = true) := by
        intro L
        induction L with
        | nil => intro st _ h; exact ⟨h, fun _ h => h, by simp⟩
        | cons a L ihL =>
          intro st hL hst
          have p := ih a st (hL a (by simp)) hst
          have q := ihL (buildF wb f fuel a st) (fun j hj => hL j (by simp [hj])) p.closed
          simp only [List.foldl_cons]
          refine ⟨q.1, fun m hm => q.2.1 m (p.mono m hm), fun j hj => ?_⟩
          rcases List.mem_cons.mp hj with rfl | hj
          · exact q.2.1 j p.done
          · exact q.2.2 j hj
      have fs := hfold (wb.deps i) s (fun j hj => by have := hwf.lt i j hj; omega) hc
      generalize hs1 : (wb.deps i).foldl (fun st j => buildF wb f fuel j st) s = s1 at fs
      obtain ⟨c1, m1, d1⟩ := fs
      have hbuilt : (buildF wb f (fuel+1) i s).built = update s1.built i true := by
        cases hk : wb.kind i with
        | input => simp [buildF, hb, hs1, hk]
        | formula =>
          cases hst : s1.stored i <;> simp [buildF, hb, hs1, hk, hst]
        | range => simp [buildF, hb, hs1, hk, evalF_built]
      refine ⟨?_, ?_, ?_⟩
      · rw [hbuilt]
        intro m hm j hj
        have hjm : j ≠ i ∨ j = i := by omega
        by_cases hmi : m = i
        · subst hmi
          have := d1 j hj
          by_cases hji : j = m
          · subst hji; simp
          · rw [update_ne _ _ hji]; exact this
        · rw [update_ne _ _ hmi] at hm
          have := c1 m hm j hj
          by_cases hji : j = i
          · subst hji; simp
          · rw [update_ne _ _ hji]; exact this
      · rw [hbuilt]
        intro m hm
        by_cases hmi : m = i
        · subst hmi; simp
        · rw [update_ne _ _ hmi]; exact m1 m hm
      · rw [hbuilt]; simp

theorem builtClosed_evaluate (hwf : WF wb) (a : Nat) (s : State α) (hc : BuiltClosed wb s.built) :
    BuiltClosed wb (evaluate wb f a s).2.built := by
  unfold evaluate
  split
  · rw [evalF_built]; exact (buildF_closed hwf (a+1) a s (by omega) hc).closed
  · exact hc

theorem builtClosed_init (inp : Nat → α) : BuiltClosed wb (initNoData inp).built := by
  intro m hm; simp [initNoData] at hm

/-- on a cell of the cell map, dependence on an input and dependence on an input that is in the cell map coincide -/
theorem depOn_sources (hwf : WF wb) (built : Nat → Bool) (hc : BuiltClosed wb built) (ic : Nat → Bool) :
    ∀ k, built k = true → depOn wb (fun j => ic j && built j) k = depOn wb ic k := by
  intro k
  induction k using Nat.strongRecOn with
  | _ k ih =>
    intro hk
    rw [depOn_unfold hwf, depOn_unfold hwf]
    apply any_congr_mem
    intro j hj
    have hbj := hc k hk j hj
    rw [ih j (hwf.lt k j hj) hbj, hbj]; simp

section walk2
variable (built : Nat → Bool) (I O : List Nat)

theorem live_built (hwf : WF wb) (hc : BuiltClosed wb built) (hO : ∀ o, o ∈ O → o < wb.n ∧ built o = true) :
    ∀ d k, wb.n - k ≤ d → live wb built I O k = true → built k = true := by
  intro d
  induction d with
  | zero =>
    intro k hk hl
    have := live_lt built I O hwf (fun o ho => (hO o ho).1) hl
    omega
  | succ d ih =>
    intro k hk hl
    rcases live_cases built I O hwf hl with h | ⟨_, m, hm, hkm, hlm⟩
    · exact (hO k (List.contains_iff_mem.mp h)).2
    · have := hwf.lt m k hkm
      exact hc m (ih m (by omega) hlm) k hkm

theorem frozen_built (hwf : WF wb) (hc : BuiltClosed wb built) (hO : ∀ o, o ∈ O → o < wb.n ∧ built o = true)
    {k : Nat} (h : frozen wb built I O k = true) : built k = true := by
  obtain ⟨_, _, m, _, hk, hl⟩ := frozen_cases built I O h
  exact hc m (live_built built I O hwf hc hO (wb.n - m) m (Nat.le_refl _) hl) k hk

/-- a frozen cell has no input cell among its strict transitive precedents -/
theorem frozen_indep (hwf : WF wb) (hc : BuiltClosed wb built) (hO : ∀ o, o ∈ O → o < wb.n ∧ built o = true)
    {k : Nat} (h : frozen wb built I O k = true) : depOn wb (inputCells wb I) k = false := by
  have hb := frozen_built built I O hwf hc hO h
  obtain ⟨hn, _, _⟩ := frozen_cases built I O h
  have hd : dependants wb built I k = false := by
    simp only [needed, Bool.or_eq_false_iff] at hn; exact hn.1
  simp only [dependants, hb, Bool.true_and] at hd
  rw [← depOn_sources hwf built hc (inputCells wb I) k hb]
  exact hd

/-- core: on every walked cell the workbook cut at `C ∪ cut` with values `inpT` computes what the workbook cut at `C`
    computes, as soon as `cut` spares the walked cells, contains the frozen ones, and `inpT` holds the right values -/
theorem live_preserved (hwf : WF wb) (hl : Local wb f) (hO : ∀ o, o ∈ O → o < wb.n)
    (C : Nat → Bool) (v inp : Nat → α) (cut : Nat → Bool) (inpT : Nat → α)
    (h1 : ∀ k, live wb built I O k = true → cut k = false)
    (h2 : ∀ k, live wb built I O k = true → wb.kind k = .input → inpT k = inp k)
    (h3 : ∀ k, frozen wb built I O k = true → cut k = true ∧
      (C k = false → inpT k = denote (cutAt wb C) f (override inp C v) k)) :
    ∀ m, live wb built I O m = true →
      denote (cutAt wb (fun k => C k || cut k)) f (override inpT C v) m =
        denote (cutAt wb C) f (override inp C v) m := by
  intro m
  induction m using Nat.strongRecOn with
  | _ m ih =>
    intro hm
    cases hcm : C m with
    | true =>
      have hx : (fun k => C k || cut k) m = true := by simp [hcm]
      rw [denote_input _ (cutAt_kind_of hx), denote_input _ (cutAt_kind_of hcm)]
      simp [override, hcm]
    | false =>
      have hx : (fun k => C k || cut k) m = false := by simp [hcm, h1 m hm]
      by_cases hk : wb.kind m = .input
      · have k1 : (cutAt wb (fun k => C k || cut k)).kind m = .input := by rw [cutAt_kind_of_not hx]; exact hk
        have k2 : (cutAt wb C).kind m = .input := by rw [cutAt_kind_of_not hcm]; exact hk
        rw [denote_input _ k1, denote_input _ k2]
        simp [override, hcm, h2 m hm hk]
      · have k1 : (cutAt wb (fun k => C k || cut k)).kind m ≠ .input := by rw [cutAt_kind_of_not hx]; exact hk
        have k2 : (cutAt wb C).kind m ≠ .input := by rw [cutAt_kind_of_not hcm]; exact hk
        rw [denote_nodeN (cutAt_wf hwf _) (localN_cut hl _) _ k1, denote_nodeN (cutAt_wf hwf _) (localN_cut hl _) _ k2]
        apply hl
        intro j hj
        have hmn := live_lt built I O hwf hO hm
        rcases live_step built I O hwf hm hmn hj with hlj | hfj
        · exact ih j (hwf.lt m j hj) hlj
        · obtain ⟨hcut, hval⟩ := h3 j hfj
          have hxj : (fun k => C k || cut k) j = true := by simp [hcut]
          rw [denote_input _ (cutAt_kind_of hxj)]
          cases hcj : C j with
          | true =>
            rw [denote_input _ (cutAt_kind_of hcj)]
            simp [override, hcj]
          | false =>
            rw [← hval hcj]
            simp [override, hcj]

end walk2

/-! ### the steps of `trim` -/

theorem genGraph_spec (hwf : WF wb) (hl : Local wb f) (O : List Nat) (hO : ∀ o, o ∈ O → o < wb.n) :
    ∀ (s : State α), Inv wb f s → BuiltClosed wb s.built →
      Inv wb f (genGraph wb f O s) ∧ BuiltClosed wb (genGraph wb f O s).built ∧
      (genGraph wb f O s).inp = s.inp ∧
      (∀ m, s.built m = true → (genGraph wb f O s).built m = true) ∧
      (∀ o, o ∈ O → (genGraph wb f O s).built o = true) := by
  induction O with
  | nil => intro s hi hc; exact ⟨hi, hc, rfl, fun _ h => h, by simp⟩
  | cons a O ih =>
    intro s hi hc
    have ha := hO a (by simp)
    have p := buildF_spec hwf hl (a+1) a s (by omega) ha hi
    have c := buildF_closed (f := f) hwf (a+1) a s (by omega) hc
    have q := ih (fun o ho => hO o (by simp [ho])) (buildF wb f (a+1) a s) p.inv c.closed
    have hg : genGraph wb f (a :: O) s = genGraph wb f O (buildF wb f (a+1) a s) := by simp [genGraph]
    rw [hg]
    refine ⟨q.1, q.2.1, q.2.2.1.trans p.inp, fun m hm => q.2.2.2.1 m (p.mono m hm), fun o ho => ?_⟩
    rcases List.mem_cons.mp ho with rfl | ho
    · exact q.2.2.2.1 o p.done
    · exact q.2.2.2.2 o ho

theorem evalFrozen_spec (hwf : WF wb) (hl : Local wb f) (I O : List Nat) (s : State α) (hi : Inv wb f s) :
    Grows s (evalFrozen wb f I O s) ∧ I1 wb f (evalFrozen wb f I O s) ∧ Closed wb (evalFrozen wb f I O s) ∧
    ∀ k, frozen wb s.built I O k = true → wb.kind k ≠ .input → (evalFrozen wb f I O s).cache k ≠ none := by
  have hL : ∀ j, j ∈ frozenList wb s.built I O → j < wb.n ∧ j < wb.n := by
    intro j hj
    have := (List.mem_filter.mp hj).1
    exact ⟨List.mem_range.mp this, List.mem_range.mp this⟩
  have fs := evalFold_spec (wb := wb) (f := f) (fuel := wb.n)
    (fun j s hj hjn a b => evalF_spec hwf hl wb.n j s hj hjn a b) (frozenList wb s.built I O) s hL hi.i1 hi.closed
  refine ⟨fs.1, fs.2.1, fs.2.2.1, fun k hk hkind => ?_⟩
  apply fs.2.2.2 k _ hkind
  exact List.mem_filter.mpr ⟨List.mem_range.mpr (frozen_lt s.built I O hwf hk), hk⟩

/-- what the proofs need of the state the precedent walk finds -/
structure FreezeReady (wb : Workbook) (f : Nat → (Nat → α) → α) (I O : List Nat) (s : State α) : Prop where
  i1 : I1 wb f s
  cl : Closed wb s
  closed : BuiltClosed wb s.built
  outs : ∀ o, o ∈ O → o < wb.n ∧ s.built o = true
  /-- `evaluatedAtTrim`: a formula cell that is frozen holds its evaluated value -/
  evaluated : ∀ k, frozen wb s.built I O k = true → wb.kind k ≠ .input → s.cache k ≠ none

theorem valueOf_eq_denote (s : State α) (h1 : I1 wb f s) {k : Nat} (hc : wb.kind k ≠ .input → s.cache k ≠ none) :
    valueOf wb s k = denote wb f s.inp k := by
  cases hk : wb.kind k with
  | input => simp [valueOf, hk, denote_input _ hk]
  | formula =>
    cases hck : s.cache k with
    | none => exact absurd hck (hc (by rw [hk]; simp))
    | some w => simp [valueOf, hk, hck, h1 k w hck]
  | range =>
    cases hck : s.cache k with
    | none => exact absurd hck (hc (by rw [hk]; simp))
    | some w => simp [valueOf, hk, hck, h1 k w hck]

section freeze
variable {I O : List Nat} {s : State α}

theorem frozenVal_eq (hr : FreezeReady wb f I O s) {k : Nat} (hk : frozen wb s.built I O k = true) :
    frozenVal wb s k = denote wb f s.inp k :=
  valueOf_eq_denote s hr.i1 (hr.evaluated k hk)

/-- a frozen cell's trim-time value is its value under every assignment of the inputs -/
theorem frozenVal_indep (hwf : WF wb) (hl : Local wb f) (hr : FreezeReady wb f I O s) (C : Nat → Bool)
    (hC : ∀ k, C k = true → inputCells wb I k = true) (v : Nat → α) {k : Nat}
    (hk : frozen wb s.built I O k = true) (hck : C k = false) :
    frozenVal wb s k = denote (cutAt wb C) f (override s.inp C v) k := by
  rw [frozenVal_eq hr hk]
  symm
  apply denote_cut_indep hwf hl C (inputCells wb I) hC (override s.inp C v) s.inp
  · intro j hj
    cases hcj : C j with
    | false => simp [override, hcj]
    | true => rw [hC j hcj] at hj; exact absurd hj (by simp)
  · exact ⟨hck, fun _ => by simp [override, hck]⟩
  · exact frozen_indep s.built I O hwf hr.closed hr.outs hk

theorem freeze_wb (I O : List Nat) (s : State α) :
    (freeze wb f I O s).wb = cutAt wb (frozen wb s.built I O) := rfl

theorem freeze_inp (I O : List Nat) (s : State α) (k : Nat) :
    (freeze wb f I O s).st.inp k = if frozen wb s.built I O k = true then frozenVal wb s k else s.inp k := rfl

theorem freeze_preserved (hwf : WF wb) (hl : Local wb f) (hr : FreezeReady wb f I O s) (C : Nat → Bool)
    (hC : ∀ k, C k = true → inputCells wb I k = true) (v : Nat → α) {m : Nat}
    (hm : live wb s.built I O m = true) :
    denote (cutAt (freeze wb f I O s).wb C) f (override (freeze wb f I O s).st.inp C v) m =
      denote (cutAt wb C) f (override s.inp C v) m := by
  rw [freeze_wb, cutAt_cutAt]
  apply live_preserved s.built I O hwf hl (fun o ho => (hr.outs o ho).1) C v s.inp
    (frozen wb s.built I O) (freeze wb f I O s).st.inp
  · intro k hk; exact live_not_frozen s.built I O hwf hk
  · intro k hk _
    rw [freeze_inp, live_not_frozen s.built I O hwf hk]; simp
  · intro k hk
    refine ⟨hk, fun hck => ?_⟩
    rw [freeze_inp, hk]; simp only [if_true]
    exact frozenVal_indep hwf hl hr C hC v hk hck
  · exact hm

theorem reload_preserved (hwf : WF wb) (hl : Local wb f) (hr : FreezeReady wb f I O s) (C : Nat → Bool)
    (hC : ∀ k, C k = true → inputCells wb I k = true) (v : Nat → α) (blank : α) {m : Nat}
    (hm : live wb s.built I O m = true) :
    denote (cutAt (reloadWb wb (freeze wb f I O s)) C) f
        (override (reloadInp wb blank (freeze wb f I O s)) C v) m =
      denote (cutAt wb C) f (override s.inp C v) m := by
  have hwb : cutAt (reloadWb wb (freeze wb f I O s)) C =
      cutAt wb (fun k => C k || (missing wb (freeze wb f I O s) k || frozen wb s.built I O k)) := by
    rw [reloadWb, freeze_wb, cutAt_cutAt, cutAt_cutAt]
    congr 1; funext k; exact Bool.or_assoc _ _ _
  rw [hwb]
  have hmiss : ∀ k, keep wb s.built I O k = true ∨ isRange wb k = true →
      missing wb (freeze wb f I O s) k = false := by
    intro k hk
    show (!keep wb s.built I O k && !isRange wb k) = false
    rcases hk with h | h <;> simp [h]
  apply live_preserved s.built I O hwf hl (fun o ho => (hr.outs o ho).1) C v s.inp
    (fun k => missing wb (freeze wb f I O s) k || frozen wb s.built I O k) (reloadInp wb blank (freeze wb f I O s))
  · intro k hk
    simp [hmiss k (live_keep_or_range s.built I O hk), live_not_frozen s.built I O hwf hk]
  · intro k hk _
    simp only [reloadInp, hmiss k (live_keep_or_range s.built I O hk)]
    rw [freeze_inp, live_not_frozen s.built I O hwf hk]; simp
  · intro k hk
    refine ⟨by simp [hk], fun hck => ?_⟩
    simp only [reloadInp, hmiss k (Or.inl (frozen_keep s.built I O hk))]
    rw [freeze_inp, hk]; simp only [if_true]
    exact frozenVal_indep hwf hl hr C hC v hk hck
  · exact hm

/-- with no assignment at all the trimmed workbook computes, at EVERY node, what the workbook computed at trim time -/
theorem freeze_denote_all (hwf : WF wb) (hl : Local wb f) (hr : FreezeReady wb f I O s) :
    ∀ m, denote (freeze wb f I O s).wb (freeze wb f I O s).f (freeze wb f I O s).st.inp m = denote wb f s.inp m := by
  intro m
  induction m using Nat.strongRecOn with
  | _ m ih =>
    cases hf : frozen wb s.built I O m with
    | true =>
      rw [denote_input _ (by rw [freeze_wb]; exact cutAt_kind_of hf), freeze_inp, hf]
      simp only [if_true]
      exact frozenVal_eq hr hf
    | false =>
      by_cases hk : wb.kind m = .input
      · rw [denote_input _ (by rw [freeze_wb, cutAt_kind_of_not hf]; exact hk), denote_input _ hk, freeze_inp, hf]
        simp
      · have hk' : (freeze wb f I O s).wb.kind m ≠ .input := by rw [freeze_wb, cutAt_kind_of_not hf]; exact hk
        have hln : LocalN (freeze wb f I O s).wb (freeze wb f I O s).f := by
          intro i hki e e' h
          cases hfi : frozen wb s.built I O i with
          | true => exact absurd (by rw [freeze_wb]; exact cutAt_kind_of hfi) hki
          | false =>
            show (if frozen wb s.built I O i = true then _ else f i e) = (if frozen wb s.built I O i = true then _ else f i e')
            rw [hfi]; simp only [Bool.false_eq_true, if_false]
            rw [freeze_wb, cutAt_deps_of_not hfi] at h
            exact hl i e e' h
        rw [denote_nodeN (by rw [freeze_wb]; exact cutAt_wf hwf _) hln _ hk', denote_node hwf hl _ hk]
        show (if frozen wb s.built I O m = true then _ else f m _) = _
        rw [hf]; simp only [Bool.false_eq_true, if_false]
        apply hl
        intro j hj
        exact ih j (hwf.lt m j hj)

end freeze

end Pycel.Trim

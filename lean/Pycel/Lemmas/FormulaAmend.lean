/-
  Lemmas for C02, part 4: the amend step of `_parse_to_rpn` (lines 652-694: FUNC OPEN -> function + parenthesis,
  EMPTY operands for missing arguments) maps the tokenizer's stream of a surface expression to the stream the
  shunting-yard induction (FormulaParse.lean) is stated on.
-/
import Pycel.Model.Formula
namespace Pycel.Formula

def isEmptyArg : Surf → Bool
  | .operand .empty => true
  | _ => false

def singleEmpty : List Surf → Bool
  | [a] => isEmptyArg a
  | _ => false

mutual
/-- a surface expression the tokenizer can produce: a missing argument (`Operand.empty`) occurs only as a direct
    argument of a function call, and not as its only argument (`F()` has no argument at all) -/
def Surf.rawOk : Surf → Bool
  | .operand o => o != .empty
  | .paren e => e.rawOk
  | .neg e => e.rawOk
  | .pct e => e.rawOk
  | .bin _ l r => l.rawOk && r.rawOk
  | .func _ args => argsOk args && !singleEmpty args
def argsOk : List Surf → Bool
  | [] => true
  | a :: as => (isEmptyArg a || a.rawOk) && argsOk as
end

def startRaw : RawTok → Bool
  | .operand _ | .funcOpen _ | .parenOpen | .pre => true
  | _ => false

theorem amend_cons (t : RawTok) (rest : List RawTok) : amend (t :: rest) = amend1 t rest.head? ++ amend rest := rfl

theorem toks_start : ∀ (s : Surf), s.rawOk = true → ∃ t r, toks s = t :: r ∧ startRaw t = true
  | .operand o, h => by
    cases o <;> simp_all [Surf.rawOk, toks, startRaw]
  | .paren e, _ => ⟨_, _, by simp [toks]; exact ⟨rfl, rfl⟩, rfl⟩
  | .neg e, _ => ⟨_, _, by simp [toks]; exact ⟨rfl, rfl⟩, rfl⟩
  | .pct e, h => by
    obtain ⟨t, r, h1, h2⟩ := toks_start e (by simpa [Surf.rawOk] using h)
    exact ⟨t, r ++ [.post], by simp [toks, h1], h2⟩
  | .bin op l r, h => by
    obtain ⟨t, r', h1, h2⟩ := toks_start l (by simp [Surf.rawOk] at h; exact h.1)
    exact ⟨t, r' ++ .inf op :: toks r, by simp [toks, h1], h2⟩
  | .func name args, _ => ⟨_, _, by simp [toks]; exact ⟨rfl, rfl⟩, rfl⟩

theorem toks_empty (a : Surf) (h : isEmptyArg a = true) : toks a = [] ∧ atoks a = [.operand .empty] := by
  cases a with
  | operand o => cases o <;> simp_all [isEmptyArg, toks, atoks]
  | _ => simp [isEmptyArg] at h

mutual
theorem amend_toks : ∀ (s : Surf), s.rawOk = true → ∀ rest, amend (toks s ++ rest) = atoks s ++ amend rest
  | .operand o, h, rest => by
    cases o <;> simp_all [Surf.rawOk, toks, atoks, amend_cons, amend1]
  | .paren e, h, rest => by
    have ih := amend_toks e (by simpa [Surf.rawOk] using h)
    simp only [toks, atoks, List.cons_append, List.append_assoc, amend_cons, amend1]
    rw [ih]; simp [amend_cons, amend1]
  | .neg e, h, rest => by
    have ih := amend_toks e (by simpa [Surf.rawOk] using h)
    simp only [toks, atoks, List.cons_append, amend_cons, amend1]
    rw [ih]; simp
  | .pct e, h, rest => by
    have ih := amend_toks e (by simpa [Surf.rawOk] using h)
    simp only [toks, atoks, List.append_assoc]
    rw [ih]; simp [amend_cons, amend1]
  | .bin op l r, h, rest => by
    have h' : l.rawOk = true ∧ r.rawOk = true := by simpa [Surf.rawOk] using h
    have ihl := amend_toks l h'.1
    have ihr := amend_toks r h'.2
    simp only [toks, atoks, List.append_assoc, List.cons_append]
    rw [ihl, amend_cons, ihr]; simp [amend1]
  | .func name args, h, rest => by
    have h' : argsOk args = true ∧ singleEmpty args = false := by
      simpa [Surf.rawOk] using h
    simp only [toks, atoks, List.cons_append, List.append_assoc, amend_cons]
    cases args with
    | nil => simp [toksArgs, atoksArgs, amend_cons, amend1]
    | cons a as =>
      have h'' : (isEmptyArg a = true ∨ a.rawOk = true) ∧ argsOk as = true := by simpa [argsOk] using h'.1
      have hr := amend_rest as h''.2 rest
      simp only [toksArgs, atoksArgs, List.append_assoc]
      by_cases he : isEmptyArg a = true
      · obtain ⟨e1, e2⟩ := toks_empty a he
        rw [e1, e2]
        cases as with
        | nil => exfalso; have := h'.2; simp [singleEmpty, he] at this
        | cons a2 as' =>
          simp only [List.nil_append, List.singleton_append, List.cons_append] at hr ⊢
          simp only [toksRest, List.cons_append, List.head?_cons, amend1, if_true] at hr ⊢
          rw [hr]; simp
      · have hra : a.rawOk = true := by rcases h''.1 with h1 | h1; exact absurd h1 he; exact h1
        obtain ⟨t, r, ht, hs⟩ := toks_start a hra
        have hne : t ≠ .argSep := by intro h0; subst h0; simp [startRaw] at hs
        simp only [List.nil_append]
        rw [amend_toks a hra, hr]
        simp [ht, amend1, hne]
theorem amend_rest : ∀ (as : List Surf), argsOk as = true → ∀ rest,
    amend (toksRest as ++ .funcClose :: rest) = atoksRest as ++ .close :: amend rest
  | [], _, rest => by simp [toksRest, atoksRest, amend_cons, amend1]
  | a :: as, h, rest => by
    have h' : (isEmptyArg a = true ∨ a.rawOk = true) ∧ argsOk as = true := by simpa [argsOk] using h
    have hr := amend_rest as h'.2 rest
    simp only [toksRest, atoksRest, List.cons_append, List.append_assoc, amend_cons]
    by_cases he : isEmptyArg a = true
    · obtain ⟨e1, e2⟩ := toks_empty a he
      rw [e1, e2]
      simp only [List.nil_append, List.singleton_append, List.cons_append]
      rw [hr]
      cases as with
      | nil => simp [toksRest, amend1]
      | cons a2 as' => simp [toksRest, amend1]
    · have hra : a.rawOk = true := by rcases h'.1 with h1 | h1; exact absurd h1 he; exact h1
      obtain ⟨t, r, ht, hs⟩ := toks_start a hra
      rw [amend_toks a hra, hr]
      have hne : t ≠ .argSep ∧ t ≠ .funcClose := by
        constructor <;> (intro h0; subst h0; simp [startRaw] at hs)
      simp [ht, amend1, hne.1, hne.2]
end

/-- the amend step of `_parse_to_rpn` turns the tokenizer's stream of a surface expression into the stream the main
    loop is proved correct on -/
theorem amend_toks_all (s : Surf) (h : s.rawOk = true) : amend (toks s) = atoks s := by
  have := amend_toks s h []
  simpa [amend] using this

end Pycel.Formula

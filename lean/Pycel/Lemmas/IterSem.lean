/- C06: semantic lemmas about the depth-first pass (acyclic workbooks, linear contraction). -/
import Pycel.Lemmas.Iter
namespace Pycel.Iter

/-! ### acyclic workbooks -/

/-- `rank` witnesses acyclicity: every formula reads only cells of strictly smaller rank -/
def Acyclic (wb : Workbook) (rank : Nat → Nat) : Prop :=
  ∀ c f, wb c = some f → ∀ j, j ∈ f.reads → rank j < rank c

/-- the from-scratch value with exactly enough fuel -/
def Dn (wb : Workbook) (rank : Nat → Nat) (inp : Nat → V) (c : Nat) : V := denote wb inp (rank c + 1) c

theorem denote_fuel (wb : Workbook) (rank : Nat → Nat) (inp : Nat → V) (hac : Acyclic wb rank) :
    ∀ k c, rank c < k → denote wb inp k c = Dn wb rank inp c := by
  intro k
  induction k using Nat.strongRecOn with
  | _ k ih =>
    intro c hc
    cases k with
    | zero => omega
    | succ k =>
      unfold Dn
      simp only [denote]
      cases hf : wb c with
      | none => rfl
      | some f =>
        simp only
        congr 1
        apply List.map_congr_left
        intro j hj
        have hr := hac c f hf j hj
        rw [ih k (by omega) j (by omega), ih (rank c) (by omega) j hr]

theorem Dn_formula (wb : Workbook) (rank : Nat → Nat) (inp : Nat → V) (hac : Acyclic wb rank)
    (c : Nat) (f : Formula) (hf : wb c = some f) : Dn wb rank inp c = f.comb (f.reads.map (Dn wb rank inp)) := by
  unfold Dn
  simp only [denote, hf]
  congr 1
  apply List.map_congr_left
  intro j hj
  exact denote_fuel wb rank inp hac (rank c) j (hac c f hf j hj)

theorem Dn_input (wb : Workbook) (rank : Nat → Nat) (inp : Nat → V) (c : Nat) (hf : wb c = none) :
    Dn wb rank inp c = inp c := by
  unfold Dn; simp [denote, hf]

/-- state invariant in an acyclic pass: computed cells hold their from-scratch value, inputs hold the inputs -/
def J (wb : Workbook) (rank : Nat → Nat) (inp : Nat → V) (s : St) : Prop :=
  (∀ d, d ∈ s.computed → (s.cell d).wip = false ∧ (s.cell d).val = Dn wb rank inp d) ∧
  (∀ d, wb d = none → (s.cell d).val = inp d)

theorem evalCell_acyclic (wb : Workbook) (rank : Nat → Nat) (inp : Nat → V) (tol : Rat) (hac : Acyclic wb rank) :
    ∀ k c s, rank c < k → (∀ d, (s.cell d).wip = true → rank c < rank d) → J wb rank inp s →
      (evalCell wb tol k c s).1 = Dn wb rank inp c ∧ J wb rank inp (evalCell wb tol k c s).2 := by
  intro k
  induction k with
  | zero => intro c s h; omega
  | succ k ih =>
    intro c s hk hpre hJ
    have hnw : (s.cell c).wip = false := by
      cases hw : (s.cell c).wip with
      | false => rfl
      | true => have := hpre c hw; omega
    unfold evalCell
    split
    · rename_i hn
      obtain ⟨_, hc⟩ := needsCalc_true hn
      split
      · rename_i hf
        refine ⟨?_, hJ⟩
        simp [curValue, hnw, hJ.2 c hf, Dn_input wb rank inp c hf]
      · rename_i f hf
        -- the reads
        have hreads : ∀ (js : List Nat) (s1 : St), (∀ j, j ∈ js → rank j < rank c) →
            (∀ d, (s1.cell d).wip = true → d = c ∨ rank c < rank d) → J wb rank inp s1 →
            (mapAccum (evalCell wb tol k) js s1).1 = js.map (Dn wb rank inp) ∧
            J wb rank inp (mapAccum (evalCell wb tol k) js s1).2 ∧
            Ext s1 (mapAccum (evalCell wb tol k) js s1).2 := by
          intro js
          induction js with
          | nil => intro s1 _ _ h; exact ⟨rfl, h, Ext.refl s1⟩
          | cons j js ihj =>
            intro s1 hjs hw1 hJ1
            have hj := hjs j (List.mem_cons_self ..)
            have h1 := ih j s1 (by omega)
              (fun d hd => by
                rcases hw1 d hd with h | h
                · rw [h]; exact hj
                · omega) hJ1
            have he1 := (evalCell_good wb tol k j s1).1
            have h2 := ihj (evalCell wb tol k j s1).2 (fun j' hj' => hjs j' (List.mem_cons_of_mem _ hj'))
              (fun d hd => hw1 d (by rw [← he1.wip d]; exact hd)) h1.2
            simp only [mapAccum, List.map_cons]
            exact ⟨by rw [h1.1, h2.1], h2.2.1, he1.trans h2.2.2⟩
        have hJ1 : J wb rank inp (startCalcs s c) := by
          refine ⟨fun d hd => ?_, fun d hd => ?_⟩
          · have hd' : d ∈ s.computed := hd
            have hne : d ≠ c := by intro e; subst e; exact hc hd'
            rw [cell_startCalcs_ne s c d hne]; exact hJ.1 d hd'
          · have hne : d ≠ c := by intro e; subst e; rw [hf] at hd; cases hd
            rw [cell_startCalcs_ne s c d hne]; exact hJ.2 d hd
        have hw1 : ∀ d, ((startCalcs s c).cell d).wip = true → d = c ∨ rank c < rank d := by
          intro d hd
          by_cases hdc : d = c
          · exact Or.inl hdc
          · rw [cell_startCalcs_ne s c d hdc] at hd; exact Or.inr (hpre d hd)
        obtain ⟨hv, hJ2, he⟩ := hreads f.reads (startCalcs s c) (hac c f hf) hw1 hJ1
        generalize (mapAccum (evalCell wb tol k) f.reads (startCalcs s c)) = r at hv hJ2 he
        have hval : f.comb r.1 = Dn wb rank inp c := by rw [hv, Dn_formula wb rank inp hac c f hf]
        refine ⟨hval, fun d hd => ?_, fun d hd => ?_⟩
        · by_cases hdc : d = c
          · subst hdc; simp [hval]
          · rw [cell_setValue_ne _ _ _ _ _ hdc]
            have : d ∈ r.2.computed := by
              simp [setValue] at hd
              rcases hd with h | h
              · exact absurd h hdc
              · exact h
            exact hJ2.1 d this
        · have hne : d ≠ c := by intro e; subst e; rw [hf] at hd; cases hd
          rw [cell_setValue_ne _ _ _ _ _ hne]; exact hJ2.2 d hd
    · rename_i hn
      have hn' : needsCalc s c = false := by simpa using hn
      rcases needsCalc_false hn' with hw | hcm
      · rw [hnw] at hw; cases hw
      · exact ⟨by simp [curValue, hnw, (hJ.1 c hcm).2], hJ⟩

/-! ### linear systems x = A x + b -/

def linSum : List (Rat × Nat) → (Nat → Rat) → Rat
  | [], _ => 0
  | (a, j) :: r, xs => a * xs j + linSum r xs

/-- the ∞-norm of one row of A -/
def rowSum : List (Rat × Nat) → Rat
  | [] => 0
  | (a, _) :: r => rabs a + rowSum r

/-- every formula of the workbook is a row of x = A x + b with ‖row‖₁ ≤ q, and `xs` is a fixed point -/
def LinContr (wb : Workbook) (xs : Nat → Rat) (q : Rat) : Prop :=
  ∀ c f, wb c = some f → ∃ terms b, f = linFormula terms b ∧ rowSum terms ≤ q ∧ xs c = linSum terms xs + b

/-- relative to a set of cells `R`: all values a read can return are within `E` of the fixed point; cells
    computed in this pass within `q·E` -/
def GH (R : Nat → Prop) (xs : Nat → Rat) (q E : Rat) (s : St) : Prop :=
  (∀ d, R d → rabs (num (s.cell d).val - xs d) ≤ E ∧
    ((s.cell d).wip = true → rabs (num (s.cell d).prev - xs d) ≤ E)) ∧
  (∀ d, d ∈ s.computed → R d → rabs (num (s.cell d).val - xs d) ≤ q * E)

/-- `R` is closed under the reads of its formula cells -/
def ReadClosed (wb : Workbook) (R : Nat → Prop) : Prop :=
  ∀ c f, R c → wb c = some f → ∀ j, j ∈ f.reads → R j

theorem curValue_bound {R : Nat → Prop} {xs : Nat → Rat} {q E : Rat} {s : St} (h : GH R xs q E s) (c : Nat)
    (hc : R c) : rabs (num (curValue s c) - xs c) ≤ E := by
  unfold curValue
  cases hw : (s.cell c).wip with
  | false => simpa using (h.1 c hc).1
  | true => simpa using (h.1 c hc).2 hw

theorem evalCell_contr (wb : Workbook) (tol : Rat) (R : Nat → Prop) (xs : Nat → Rat) (q E : Rat)
    (hq1 : q ≤ 1) (hE : 0 ≤ E) (hlin : LinContr wb xs q) (hR : ReadClosed wb R) :
    ∀ k c s, R c → GH R xs q E s →
      GH R xs q E (evalCell wb tol k c s).2 ∧ rabs (num (evalCell wb tol k c s).1 - xs c) ≤ E := by
  have hqE : q * E ≤ E := by
    have := Rat.mul_le_mul_of_nonneg_left hq1 hE; grind
  intro k
  induction k with
  | zero =>
    intro c s hRc h
    unfold evalCell
    split
    · split
      · exact ⟨h, curValue_bound h c hRc⟩
      · exact ⟨h, curValue_bound h c hRc⟩
    · exact ⟨h, curValue_bound h c hRc⟩
  | succ k ih =>
    intro c s hRc h
    unfold evalCell
    split
    · rename_i hn
      obtain ⟨hw, hc⟩ := needsCalc_true hn
      split
      · exact ⟨h, curValue_bound h c hRc⟩
      · rename_i f hf
        obtain ⟨terms, b, hfe, hrow, hfix⟩ := hlin c f hf
        have hRreads : ∀ t, t ∈ terms → R t.2 := by
          intro t ht
          apply hR c f hRc hf
          rw [hfe]; simp only [linFormula]
          exact List.mem_map_of_mem ht
        have hreads : ∀ (ts : List (Rat × Nat)) (s1 : St), (∀ t, t ∈ ts → R t.2) → GH R xs q E s1 →
            GH R xs q E (mapAccum (evalCell wb tol k) (ts.map (·.2)) s1).2 ∧
            rabs (linComb (ts.map (·.1)) (mapAccum (evalCell wb tol k) (ts.map (·.2)) s1).1 - linSum ts xs)
              ≤ rowSum ts * E := by
          intro ts
          induction ts with
          | nil =>
            intro s1 _ h1; refine ⟨h1, ?_⟩
            simp only [List.map_nil, mapAccum, linComb, linSum, rowSum]
            unfold rabs; split <;> grind
          | cons t ts iht =>
            intro s1 hRt h1
            obtain ⟨a, j⟩ := t
            have e1 := ih j s1 (hRt (a, j) (List.mem_cons_self ..)) h1
            have e2 := iht (evalCell wb tol k j s1).2 (fun t ht => hRt t (List.mem_cons_of_mem _ ht)) e1.1
            refine ⟨e2.1, ?_⟩
            simp only [List.map_cons, mapAccum, linComb, linSum, rowSum]
            have m := rabs_mul_le a _ E e1.2
            generalize (evalCell wb tol k j s1).1 = v at m
            generalize linComb (List.map (·.1) ts) _ = L at e2 ⊢
            have e3 := e2.2
            have tri := rabs_triangle (a * num v + L) (a * xs j + L) (a * xs j + linSum ts xs)
            have r1 : a * num v + L - (a * xs j + L) = a * (num v - xs j) := by grind
            have r2 : a * xs j + L - (a * xs j + linSum ts xs) = L - linSum ts xs := by grind
            rw [r1, r2] at tri
            grind
        have h1 : GH R xs q E (startCalcs s c) := by
          refine ⟨fun d hd => ?_, fun d hd hRd => ?_⟩
          · by_cases hdc : d = c
            · subst hdc; simp; exact (h.1 d hd).1
            · rw [cell_startCalcs_ne s c d hdc]; exact h.1 d hd
          · have hd' : d ∈ s.computed := hd
            have hne : d ≠ c := by intro e; subst e; exact hc hd'
            rw [cell_startCalcs_ne s c d hne]; exact h.2 d hd' hRd
        have hr := hreads terms (startCalcs s c) hRreads h1
        subst hfe
        simp only [linFormula] at hr ⊢
        generalize (mapAccum (evalCell wb tol k) (List.map (·.2) terms) (startCalcs s c)) = r at hr
        obtain ⟨h2, hb⟩ := hr
        have hv : rabs (num (some (linComb (List.map (·.1) terms) r.1 + b)) - xs c) ≤ q * E := by
          have e : num (some (linComb (List.map (·.1) terms) r.1 + b)) - xs c
              = linComb (List.map (·.1) terms) r.1 - linSum terms xs := by
            simp [num, hfix]; grind
          rw [e]
          have := Rat.mul_le_mul_of_nonneg_left hrow hE
          grind
        refine ⟨⟨fun d hRd => ?_, fun d hd hRd => ?_⟩, Rat.le_trans hv hqE⟩
        · by_cases hdc : d = c
          · subst hdc; simp; exact Rat.le_trans hv hqE
          · rw [cell_setValue_ne _ _ _ _ _ hdc]; exact h2.1 d hRd
        · by_cases hdc : d = c
          · subst hdc; simp; exact hv
          · rw [cell_setValue_ne _ _ _ _ _ hdc]
            have : d ∈ r.2.computed := by
              simp [setValue] at hd
              rcases hd with h' | h'
              · exact absurd h' hdc
              · exact h'
            exact h2.2 d this hRd
    · exact ⟨h, curValue_bound h c hRc⟩

theorem mapAccum_contr (wb : Workbook) (tol : Rat) (R : Nat → Prop) (xs : Nat → Rat) (q E : Rat)
    (hq1 : q ≤ 1) (hE : 0 ≤ E) (hlin : LinContr wb xs q) (hR : ReadClosed wb R) (k : Nat) :
    ∀ cs s, (∀ c, c ∈ cs → R c) → GH R xs q E s → GH R xs q E (mapAccum (evalCell wb tol k) cs s).2
  | [], _, _, h => h
  | c :: cs, s, hcs, h =>
    mapAccum_contr wb tol R xs q E hq1 hE hlin hR k cs _ (fun c' hc' => hcs c' (List.mem_cons_of_mem _ hc'))
      (evalCell_contr wb tol R xs q E hq1 hE hlin hR k c s (hcs c (List.mem_cons_self ..)) h).1

end Pycel.Iter

/- C06: the two execution invariants needed to join stop_honest, pass_contracts and fixed_point_bound:
   (PV) previous values are the values at the start of the pass; (Clo) the set of computed cells is closed under reads. -/
import Pycel.Lemmas.IterSem
namespace Pycel.Iter

/-! ### previous value = value at the start of the pass -/

structure PV (wb : Workbook) (s0 s : St) : Prop where
  prev : ∀ d, d ∈ s.computed → (s.cell d).prev = (s0.cell d).val
  val : ∀ d, d ∉ s.computed → (s.cell d).val = (s0.cell d).val
  inp : ∀ d, wb d = none → s.cell d = s0.cell d

theorem mapAccum_pv (wb : Workbook) (s0 : St) (step : Nat → St → V × St)
    (h : ∀ c s, PV wb s0 s → PV wb s0 (step c s).2) : ∀ cs s, PV wb s0 s → PV wb s0 (mapAccum step cs s).2
  | [], _, hs => hs
  | c :: cs, s, hs => mapAccum_pv wb s0 step h cs _ (h c s hs)

theorem evalCell_pv (wb : Workbook) (tol : Rat) (s0 : St) :
    ∀ k c s, PV wb s0 s → PV wb s0 (evalCell wb tol k c s).2 := by
  intro k
  induction k with
  | zero =>
    intro c s h
    unfold evalCell
    split
    · split
      · exact h
      · exact ⟨h.prev, h.val, h.inp⟩
    · exact h
  | succ k ih =>
    intro c s h
    unfold evalCell
    split
    · rename_i hn
      obtain ⟨hw, hc⟩ := needsCalc_true hn
      split
      · exact h
      · rename_i f hf
        have h1 : PV wb s0 (startCalcs s c) := by
          refine ⟨fun d hd => ?_, fun d hd => ?_, fun d hd => ?_⟩
          · have hd' : d ∈ s.computed := hd
            have hne : d ≠ c := by intro e; subst e; exact hc hd'
            rw [cell_startCalcs_ne s c d hne]; exact h.prev d hd'
          · have hd' : d ∉ s.computed := hd
            by_cases hdc : d = c
            · subst hdc; simp; exact h.val d hd'
            · rw [cell_startCalcs_ne s c d hdc]; exact h.val d hd'
          · have hne : d ≠ c := by intro e; subst e; rw [hf] at hd; cases hd
            rw [cell_startCalcs_ne s c d hne]; exact h.inp d hd
        have h2 := mapAccum_pv wb s0 _ ih f.reads _ h1
        have he := (mapAccum_good tol _ (evalCell_good wb tol k) f.reads (startCalcs s c)).1
        generalize (mapAccum (evalCell wb tol k) f.reads (startCalcs s c)) = r at h2 he
        have hc2 : r.2.cell c = (startCalcs s c).cell c := he.keep c (by simp [needsCalc])
        refine ⟨fun d hd => ?_, fun d hd => ?_, fun d hd => ?_⟩
        · by_cases hdc : d = c
          · subst hdc
            simp only [cell_setValue_same, hc2, cell_startCalcs_same]
            exact h.val d hc
          · rw [cell_setValue_ne _ _ _ _ _ hdc]
            have : d ∈ r.2.computed := by
              simp [setValue] at hd
              rcases hd with h' | h'
              · exact absurd h' hdc
              · exact h'
            exact h2.prev d this
        · have hd' : d ≠ c ∧ d ∉ r.2.computed := by
            simp [setValue] at hd; exact hd
          rw [cell_setValue_ne _ _ _ _ _ hd'.1]; exact h2.val d hd'.2
        · have hne : d ≠ c := by intro e; subst e; rw [hf] at hd; cases hd
          rw [cell_setValue_ne _ _ _ _ _ hne]; exact h2.inp d hd
    · exact h

/-! ### the computed set is closed under reads (unless fuel ran out) -/

def Clo (wb : Workbook) (s : St) : Prop :=
  s.oof = false → ∀ d, d ∈ s.computed → ∀ f, wb d = some f → ∀ j, j ∈ f.reads →
    j ∈ s.computed ∨ wb j = none ∨ (s.cell j).wip = true

structure CloStep (wb : Workbook) (cs : List Nat) (s s' : St) : Prop where
  mono : s.oof = true → s'.oof = true
  clo : Clo wb s → Clo wb s'
  post : s'.oof = false → ∀ c, c ∈ cs → c ∈ s'.computed ∨ wb c = none ∨ (s.cell c).wip = true

theorem mapAccum_clo (wb : Workbook) (tol : Rat) (k : Nat)
    (hstep : ∀ c s, CloStep wb [c] s (evalCell wb tol k c s).2) :
    ∀ cs s, CloStep wb cs s (mapAccum (evalCell wb tol k) cs s).2 := by
  intro cs
  induction cs with
  | nil => intro s; exact ⟨id, id, fun _ c hc => by cases hc⟩
  | cons c cs ih =>
    intro s
    have h1 := hstep c s
    have h2 := ih (evalCell wb tol k c s).2
    have e1 := (evalCell_good wb tol k c s).1
    have e2 := (mapAccum_good tol _ (evalCell_good wb tol k) cs (evalCell wb tol k c s).2).1
    simp only [mapAccum]
    refine ⟨fun h => h2.mono (h1.mono h), fun h => h2.clo (h1.clo h), fun hoof c' hc' => ?_⟩
    have hmid : (evalCell wb tol k c s).2.oof = false := by
      cases hm : (evalCell wb tol k c s).2.oof with
      | false => rfl
      | true => rw [h2.mono hm] at hoof; cases hoof
    rcases List.mem_cons.mp hc' with h | h
    · subst h
      rcases h1.post hmid c' (List.mem_cons_self ..) with p | p | p
      · exact Or.inl (e2.comp _ p)
      · exact Or.inr (Or.inl p)
      · exact Or.inr (Or.inr p)
    · rcases h2.post hoof c' h with p | p | p
      · exact Or.inl p
      · exact Or.inr (Or.inl p)
      · exact Or.inr (Or.inr (by rw [← e1.wip c']; exact p))

theorem evalCell_clo (wb : Workbook) (tol : Rat) : ∀ k c s, CloStep wb [c] s (evalCell wb tol k c s).2 := by
  intro k
  induction k with
  | zero =>
    intro c s
    unfold evalCell
    split
    · split
      · rename_i hf
        exact ⟨id, id, fun _ c' hc' => by simp at hc'; subst hc'; exact Or.inr (Or.inl hf)⟩
      · exact ⟨fun _ => rfl, fun _ ho => by simp at ho, fun ho => by simp at ho⟩
    · rename_i hn
      have hn' : needsCalc s c = false := by simpa using hn
      refine ⟨id, id, fun _ c' hc' => ?_⟩
      simp at hc'; subst hc'
      rcases needsCalc_false hn' with p | p
      · exact Or.inr (Or.inr p)
      · exact Or.inl p
  | succ k ih =>
    intro c s
    unfold evalCell
    split
    · rename_i hn
      obtain ⟨hw, hc⟩ := needsCalc_true hn
      split
      · rename_i hf
        exact ⟨id, id, fun _ c' hc' => by simp at hc'; subst hc'; exact Or.inr (Or.inl hf)⟩
      · rename_i f hf
        have hm := mapAccum_clo wb tol k ih f.reads (startCalcs s c)
        have he := (mapAccum_good tol _ (evalCell_good wb tol k) f.reads (startCalcs s c)).1
        generalize (mapAccum (evalCell wb tol k) f.reads (startCalcs s c)) = r at hm he
        have hwip1 : ∀ j, ((startCalcs s c).cell j).wip = true → j = c ∨ (s.cell j).wip = true := by
          intro j hj
          by_cases hjc : j = c
          · exact Or.inl hjc
          · rw [cell_startCalcs_ne s c j hjc] at hj; exact Or.inr hj
        have hwip3 : ∀ j, j ≠ c → ((setValue tol r.2 c (f.comb r.1)).cell j).wip = (s.cell j).wip := by
          intro j hjc
          rw [cell_setValue_ne _ _ _ _ _ hjc, he.wip j, cell_startCalcs_ne s c j hjc]
        have hmem : ∀ j, j ∈ r.2.computed → j ∈ (setValue tol r.2 c (f.comb r.1)).computed := by
          intro j hj; simp [setValue, hj]
        have hcmem : c ∈ (setValue tol r.2 c (f.comb r.1)).computed := by simp [setValue]
        -- a read that was computed / input / on the stack after the reads is so after the store
        have lift : ∀ j, (j ∈ r.2.computed ∨ wb j = none ∨ j = c ∨ (s.cell j).wip = true) →
            j ∈ (setValue tol r.2 c (f.comb r.1)).computed ∨ wb j = none ∨
              ((setValue tol r.2 c (f.comb r.1)).cell j).wip = true := by
          intro j hj
          rcases hj with p | p | p | p
          · exact Or.inl (hmem j p)
          · exact Or.inr (Or.inl p)
          · subst p; exact Or.inl hcmem
          · by_cases hjc : j = c
            · subst hjc; exact Or.inl hcmem
            · exact Or.inr (Or.inr (by rw [hwip3 j hjc]; exact p))
        refine ⟨fun h => hm.mono h, fun hclo hoof d hd f' hf' j hj => ?_, fun _ c' hc' => ?_⟩
        · have hoof2 : r.2.oof = false := hoof
          have hclo1 : Clo wb (startCalcs s c) := by
            intro ho d' hd' f'' hf'' j' hj'
            rcases hclo ho d' hd' f'' hf'' j' hj' with p | p | p
            · exact Or.inl p
            · exact Or.inr (Or.inl p)
            · by_cases hjc : j' = c
              · subst hjc; exact Or.inr (Or.inr (by simp))
              · exact Or.inr (Or.inr (by rw [cell_startCalcs_ne s c j' hjc]; exact p))
          by_cases hdc : d = c
          · subst hdc
            have : f' = f := by rw [hf] at hf'; cases hf'; rfl
            subst this
            apply lift
            rcases hm.post hoof2 j hj with p | p | p
            · exact Or.inl p
            · exact Or.inr (Or.inl p)
            · exact Or.inr (Or.inr (hwip1 j p))
          · have hd2 : d ∈ r.2.computed := by
              simp [setValue] at hd
              rcases hd with h' | h'
              · exact absurd h' hdc
              · exact h'
            apply lift
            rcases hm.clo hclo1 hoof2 d hd2 f' hf' j hj with p | p | p
            · exact Or.inl p
            · exact Or.inr (Or.inl p)
            · exact Or.inr (Or.inr (hwip1 j (by rw [← he.wip j]; exact p)))
        · simp at hc'; subst hc'; exact Or.inl hcmem
    · rename_i hn
      have hn' : needsCalc s c = false := by simpa using hn
      refine ⟨id, id, fun _ c' hc' => ?_⟩
      simp at hc'; subst hc'
      rcases needsCalc_false hn' with p | p
      · exact Or.inr (Or.inr p)
      · exact Or.inl p

/-! ### fuel adequacy: with fuel ≥ number of formula cells the evaluation never runs out of fuel -/

/-- formula cells of the universe `U` that still need their calculation in this pass -/
def pending (wb : Workbook) (U : List Nat) (s : St) : Nat :=
  U.countP (fun c => needsCalc s c && (wb c).isSome)

theorem countP_lt {p q : Nat → Bool} : ∀ (l : List Nat) (c : Nat), (∀ x, p x = true → q x = true) → c ∈ l →
    q c = true → p c = false → l.countP p < l.countP q := by
  intro l
  induction l with
  | nil => intro c _ hc; cases hc
  | cons a l ih =>
    intro c himp hc hq hp
    have hmono : l.countP p ≤ l.countP q := List.countP_mono_left (fun x _ h => himp x h)
    rcases List.mem_cons.mp hc with h | h
    · subst h
      simp only [List.countP_cons, hq, hp]
      simp; omega
    · have := ih c himp h hq hp
      simp only [List.countP_cons]
      cases hpa : p a with
      | false => simp; split <;> omega
      | true => simp [himp a hpa]; omega

theorem pending_le_of_ext (wb : Workbook) (U : List Nat) {s s' : St} (h : Ext s s') :
    pending wb U s' ≤ pending wb U s := by
  apply List.countP_mono_left
  intro x _ hx
  simp only [Bool.and_eq_true] at hx ⊢
  refine ⟨?_, hx.2⟩
  cases hn : needsCalc s x with
  | true => rfl
  | false => rw [h.needs hn] at hx; exact absurd hx.1 (by simp)

theorem evalCell_fuel (wb : Workbook) (tol : Rat) (U : List Nat) (hU : ∀ c f, wb c = some f → c ∈ U) :
    ∀ k c s, pending wb U s ≤ k → s.oof = false → (evalCell wb tol k c s).2.oof = false := by
  intro k
  induction k with
  | zero =>
    intro c s hp ho
    unfold evalCell
    split
    · rename_i hn
      split
      · exact ho
      · rename_i f hf
        have : 0 < pending wb U s := by
          unfold pending
          apply List.countP_pos_iff.mpr
          exact ⟨c, hU c f hf, by simp [hn, hf]⟩
        omega
    · exact ho
  | succ k ih =>
    intro c s hp ho
    unfold evalCell
    split
    · rename_i hn
      split
      · exact ho
      · rename_i f hf
        have hlt : pending wb U (startCalcs s c) < pending wb U s := by
          unfold pending
          apply countP_lt U c _ (hU c f hf) (by simp [hn, hf]) (by simp [needsCalc])
          intro x hx
          simp only [Bool.and_eq_true] at hx ⊢
          refine ⟨?_, hx.2⟩
          by_cases hxc : x = c
          · subst hxc; exact hn
          · have h1 := hx.1
            simp only [needsCalc, cell_startCalcs_ne s c x hxc] at h1
            exact h1
        have hreads : ∀ (js : List Nat) (t : St), pending wb U t ≤ k → t.oof = false →
            (mapAccum (evalCell wb tol k) js t).2.oof = false := by
          intro js
          induction js with
          | nil => intro t _ h; exact h
          | cons j js ihj =>
            intro t hpt hot
            simp only [mapAccum]
            apply ihj
            · exact Nat.le_trans (pending_le_of_ext wb U (evalCell_good wb tol k j t).1) hpt
            · exact ih j t hpt hot
        exact hreads f.reads (startCalcs s c) (by omega) ho
    · exact ho

theorem mapAccum_fuel (wb : Workbook) (tol : Rat) (U : List Nat) (hU : ∀ c f, wb c = some f → c ∈ U) (k : Nat) :
    ∀ cs s, pending wb U s ≤ k → s.oof = false →
      (mapAccum (evalCell wb tol k) cs s).2.oof = false ∧ pending wb U (mapAccum (evalCell wb tol k) cs s).2 ≤ k := by
  intro cs
  induction cs with
  | nil => intro s hp ho; exact ⟨ho, hp⟩
  | cons c cs ih =>
    intro s hp ho
    simp only [mapAccum]
    exact ih _ (Nat.le_trans (pending_le_of_ext wb U (evalCell_good wb tol k c s).1) hp)
      (evalCell_fuel wb tol U hU k c s hp ho)

theorem passWith_fuel (wb : Workbook) (tol : Rat) (U : List Nat) (hU : ∀ c f, wb c = some f → c ∈ U)
    (fuel : Nat) (hlen : U.length ≤ fuel) (pre targets : List Nat) (s : St) (ho : s.oof = false) :
    (passWith wb tol fuel pre targets s).2.oof = false := by
  unfold passWith
  have h0 : pending wb U (clear s) ≤ fuel := Nat.le_trans (List.countP_le_length) hlen
  have h1 := mapAccum_fuel wb tol U hU fuel pre (clear s) h0 ho
  exact (mapAccum_fuel wb tol U hU fuel targets _ h1.2 h1.1).1

end Pycel.Iter

/-
  Helper lemmas for C11 (address algebra), part 1: geometry of rectangles.
  Model: Pycel/Model/Addr.lean.
-/
import Pycel.Model.Addr
namespace Pycel.Addr

/-- a rectangle as the property quantifies over it: 1-based corners in order -/
def Rect.WF (a : Rect) : Prop := 1 ≤ a.c1 ∧ a.c1 ≤ a.c2 ∧ 1 ≤ a.r1 ∧ a.r1 ≤ a.r2

instance (a : Rect) : Decidable a.WF := by unfold Rect.WF; infer_instance

theorem height_wf (a : Rect) (h : a.WF) : a.height = (a.r2 : Int) - a.r1 + 1 := by
  obtain ⟨h1, h2, h3, h4⟩ := h
  unfold Rect.height
  have : ¬ (a.r1 = 0 ∨ a.r2 = 0) := by omega
  simp [this]

theorem width_wf (a : Rect) (h : a.WF) : a.width = (a.c2 : Int) - a.c1 + 1 := by
  obtain ⟨h1, h2, h3, h4⟩ := h
  unfold Rect.width
  have : ¬ (a.c1 = 0 ∨ a.c2 = 0) := by omega
  simp [this]

/-- one axis, both operands bounded -/
theorem axis_bounded (i : Bool) (a1 a2 b1 b2 : Nat) (ha1 : 1 ≤ a1) (ha : a1 ≤ a2) (hb1 : 1 ≤ b1) (hb : b1 ≤ b2) :
    combineAxis i a1 b1 ((a2 : Int) - a1 + 1) ((b2 : Int) - b1 + 1) false =
      if i then (if max a1 b1 ≤ min a2 b2 then some (max a1 b1, min a2 b2) else none)
      else some (min a1 b1, max a2 b2) := by
  have e1 : ¬ a1 = 0 := by omega
  have e2 : ¬ b1 = 0 := by omega
  unfold combineAxis
  cases i
  · simp only [Bool.false_eq_true, ↓reduceIte, e1, e2]
    rw [if_neg (by omega)]
    congr 2 <;> omega
  · simp only [↓reduceIte, e1, e2]
    by_cases h : max a1 b1 ≤ min a2 b2
    · rw [if_neg (by omega), if_pos h]
      simp only [Bool.false_eq_true, ↓reduceIte]
      congr 2 <;> omega
    · rw [if_pos (by omega), if_neg h]

/-- closed form of `&` on well-formed rectangles of one sheet -/
theorem inter_eq (a b : Rect) (ha : a.WF) (hb : b.WF) (hs : a.sheet = b.sheet) :
    a.inter b =
      if max a.c1 b.c1 ≤ min a.c2 b.c2 ∧ max a.r1 b.r1 ≤ min a.r2 b.r2 then
        .rect ⟨a.sheet, max a.c1 b.c1, max a.r1 b.r1, min a.c2 b.c2, min a.r2 b.r2⟩
      else .null := by
  unfold Rect.inter combineCore
  rw [height_wf a ha, width_wf a ha, height_wf b hb, width_wf b hb]
  obtain ⟨h1, h2, h3, h4⟩ := ha
  obtain ⟨g1, g2, g3, g4⟩ := hb
  have e1 : ¬ a.c1 = 0 := by omega
  have e2 : ¬ a.r1 = 0 := by omega
  have e3 : ¬ b.c1 = 0 := by omega
  have e4 : ¬ b.r1 = 0 := by omega
  have e5 : ¬ a.c2 = 0 := by omega
  have e6 : ¬ a.r2 = 0 := by omega
  simp only [hs, ↓reduceIte, ne_eq, not_true_eq_false, and_false, e1, e2, e3, e4, e5, e6, decide_false,
    Bool.or_self, Bool.and_false, Bool.false_and, Bool.not_false, Bool.and_self,
    axis_bounded true a.c1 a.c2 b.c1 b.c2 h1 h2 g1 g2, axis_bounded true a.r1 a.r2 b.r1 b.r2 h3 h4 g3 g4]
  by_cases p : max a.c1 b.c1 ≤ min a.c2 b.c2 <;> by_cases q : max a.r1 b.r1 ≤ min a.r2 b.r2 <;> simp [p, q]

/-- closed form of `**` on well-formed rectangles of one sheet -/
theorem union_eq (a b : Rect) (ha : a.WF) (hb : b.WF) (hs : a.sheet = b.sheet) :
    a.union b = .rect ⟨a.sheet, min a.c1 b.c1, min a.r1 b.r1, max a.c2 b.c2, max a.r2 b.r2⟩ := by
  unfold Rect.union combineCore
  rw [height_wf a ha, width_wf a ha, height_wf b hb, width_wf b hb]
  obtain ⟨h1, h2, h3, h4⟩ := ha
  obtain ⟨g1, g2, g3, g4⟩ := hb
  have e1 : ¬ a.c1 = 0 := by omega
  have e2 : ¬ a.r1 = 0 := by omega
  have e3 : ¬ b.c1 = 0 := by omega
  have e4 : ¬ b.r1 = 0 := by omega
  have e5 : ¬ a.c2 = 0 := by omega
  have e6 : ¬ a.r2 = 0 := by omega
  have e7 : ¬ b.c2 = 0 := by omega
  have e8 : ¬ b.r2 = 0 := by omega
  simp only [hs, ↓reduceIte, ne_eq, not_true_eq_false, and_false, e1, e2, e3, e4, e5, e6, e7, e8, decide_false,
    Bool.or_self, Bool.false_eq_true, Bool.not_false, Bool.and_false, ite_self,
    axis_bounded false a.c1 a.c2 b.c1 b.c2 h1 h2 g1 g2, axis_bounded false a.r1 a.r2 b.r1 b.r2 h3 h4 g3 g4]

/-! ### whole rows / columns: an unbounded side (both corners 0) reads as 1..MAX -/

/-- `v` lies on a side with corners `x1`, `x2` (0 = unbounded: the whole extent 1..M) -/
def cov (M x1 x2 v : Nat) : Prop := if x1 = 0 ∨ x2 = 0 then 1 ≤ v ∧ v ≤ M else x1 ≤ v ∧ v ≤ x2

/-- size of a side as `AddressRange.size` computes it -/
def sideSize (M a1 a2 : Nat) : Int := if a1 = 0 ∨ a2 = 0 then (M : Int) else (a2 : Int) - a1 + 1

def Side (a1 a2 : Nat) : Prop := (1 ≤ a1 ∧ a1 ≤ a2) ∨ (a1 = 0 ∧ a2 = 0)

theorem axis_inter_spec (a1 a2 b1 b2 M : Nat) (hM : 1 ≤ M) (ga : Side a1 a2) (gb : Side b1 b2)
    (ub : Bool) (hub : ub = true → a1 = 0 ∧ b1 = 0) :
    (combineAxis true a1 b1 (sideSize M a1 a2) (sideSize M b1 b2) ub = none →
      ∀ v, ¬ (cov M a1 a2 v ∧ cov M b1 b2 v)) ∧
    (∀ p, combineAxis true a1 b1 (sideSize M a1 a2) (sideSize M b1 b2) ub = some p →
      Side p.1 p.2 ∧ (ub = false → 1 ≤ p.1 ∧ p.1 ≤ p.2) ∧
      ∀ v, cov M p.1 p.2 v ↔ (cov M a1 a2 v ∧ cov M b1 b2 v)) := by
  unfold Side at ga gb
  cases ub
  · clear hub
    rcases ga with ⟨g1, g2⟩ | ⟨g1, g2⟩ <;> rcases gb with ⟨k1, k2⟩ | ⟨k1, k2⟩
    · have e1 : ¬ a1 = 0 := by omega
      have e2 : ¬ a2 = 0 := by omega
      have e3 : ¬ b1 = 0 := by omega
      have e4 : ¬ b2 = 0 := by omega
      simp only [combineAxis, sideSize, cov, e1, e2, e3, e4, or_self, ↓reduceIte, Bool.false_eq_true]
      split
      · exact ⟨fun _ v => (by omega), fun p hp => (by cases hp)⟩
      · refine ⟨fun hp => (by cases hp), fun p hp => ?_⟩
        simp only [Option.some.injEq] at hp; subst hp
        refine ⟨Or.inl (by simp only; omega), fun _ => (by simp only; omega), fun v => ?_⟩
        simp only; rw [if_neg (by omega)]; omega
    · subst k1; subst k2
      have e1 : ¬ a1 = 0 := by omega
      have e2 : ¬ a2 = 0 := by omega
      simp only [combineAxis, sideSize, cov, e1, e2, or_self, ↓reduceIte, Bool.false_eq_true]
      split
      · exact ⟨fun _ v => (by omega), fun p hp => (by cases hp)⟩
      · refine ⟨fun hp => (by cases hp), fun p hp => ?_⟩
        simp only [Option.some.injEq] at hp; subst hp
        refine ⟨Or.inl (by simp only; omega), fun _ => (by simp only; omega), fun v => ?_⟩
        simp only; rw [if_neg (by omega)]; omega
    · subst g1; subst g2
      have e3 : ¬ b1 = 0 := by omega
      have e4 : ¬ b2 = 0 := by omega
      simp only [combineAxis, sideSize, cov, e3, e4, or_self, ↓reduceIte, Bool.false_eq_true]
      split
      · exact ⟨fun _ v => (by omega), fun p hp => (by cases hp)⟩
      · refine ⟨fun hp => (by cases hp), fun p hp => ?_⟩
        simp only [Option.some.injEq] at hp; subst hp
        refine ⟨Or.inl (by simp only; omega), fun _ => (by simp only; omega), fun v => ?_⟩
        simp only; rw [if_neg (by omega)]; omega
    · subst g1; subst g2; subst k1; subst k2
      simp only [combineAxis, sideSize, cov, or_self, ↓reduceIte, Bool.false_eq_true]
      split
      · exact ⟨fun _ v => (by omega), fun p hp => (by cases hp)⟩
      · refine ⟨fun hp => (by cases hp), fun p hp => ?_⟩
        simp only [Option.some.injEq] at hp; subst hp
        refine ⟨Or.inl (by simp only; omega), fun _ => (by simp only; omega), fun v => ?_⟩
        simp only; rw [if_neg (by omega)]; omega
  · obtain ⟨g1, k1⟩ := hub rfl
    have g2 : a2 = 0 := by omega
    have k2 : b2 = 0 := by omega
    subst g1; subst g2; subst k1; subst k2
    simp only [combineAxis, sideSize, cov, or_self, ↓reduceIte]
    split
    · exact ⟨fun _ v => (by omega), fun p hp => (by cases hp)⟩
    · refine ⟨fun hp => (by cases hp), fun p hp => ?_⟩
      simp only [Option.some.injEq] at hp; subst hp
      exact ⟨Or.inr ⟨rfl, rfl⟩, fun h => (by cases h), fun v => by simp⟩

instance (a1 a2 : Nat) : Decidable (Side a1 a2) := by unfold Side; infer_instance

/-- a rectangle whose sides are each bounded (1 ≤ lo ≤ hi) or unbounded (both corners 0): `A1:B2`, `A:C`, `1:3` -/
def Rect.GWF (a : Rect) : Prop := Side a.c1 a.c2 ∧ Side a.r1 a.r2

instance (a : Rect) : Decidable a.GWF := by unfold Rect.GWF; infer_instance

theorem wf_gwf (a : Rect) (h : a.WF) : a.GWF := ⟨Or.inl ⟨h.1, h.2.1⟩, Or.inl ⟨h.2.2.1, h.2.2.2⟩⟩

/-- the cells an address denotes on the sheet: an unbounded side spans 1..MAX_COL / 1..MAX_ROW -/
def Rect.covers (a : Rect) (c : Cell) : Prop := cov MAX_COL a.c1 a.c2 c.col ∧ cov MAX_ROW a.r1 a.r2 c.row

theorem side_zero {x1 x2 : Nat} (h : Side x1 x2) : (x1 = 0 ∨ x2 = 0) ↔ x1 = 0 := by
  unfold Side at h; omega

theorem inter_spec_gwf (a b : Rect) (ha : a.GWF) (hb : b.GWF) (hs : a.sheet = b.sheet) :
    a.inter b ≠ .value ∧
    (a.inter b = .null → ∀ c, ¬ (a.covers c ∧ b.covers c)) ∧
    (∀ r, a.inter b = .rect r → r.GWF ∧ r.sheet = a.sheet ∧ (∀ c, r.covers c ↔ (a.covers c ∧ b.covers c)) ∧
      ((a.c1 ≠ 0 ∨ b.c1 ≠ 0) → 1 ≤ r.c1 ∧ r.c1 ≤ r.c2) ∧ ((a.r1 ≠ 0 ∨ b.r1 ≠ 0) → 1 ≤ r.r1 ∧ r.r1 ≤ r.r2)) := by
  obtain ⟨hac, har⟩ := ha
  obtain ⟨hbc, hbr⟩ := hb
  have hMC : 1 ≤ MAX_COL := by decide
  have hMR : 1 ≤ MAX_ROW := by decide
  have key : ∀ (uc ur : Bool) (res : Res), (match combineAxis true a.c1 b.c1 a.width b.width uc, combineAxis true a.r1 b.r1 a.height b.height ur with
        | some (c1, c2), some (r1, r2) => Res.rect ⟨a.sheet, c1, r1, c2, r2⟩
        | _, _ => Res.null) = res →
      (uc = true → a.c1 = 0 ∧ b.c1 = 0) → (ur = true → a.r1 = 0 ∧ b.r1 = 0) →
      res ≠ .value ∧ (res = .null → ∀ c, ¬ (a.covers c ∧ b.covers c)) ∧
      (∀ r, res = .rect r → r.GWF ∧ r.sheet = a.sheet ∧ (∀ c, r.covers c ↔ (a.covers c ∧ b.covers c)) ∧
        (uc = false → 1 ≤ r.c1 ∧ r.c1 ≤ r.c2) ∧ (ur = false → 1 ≤ r.r1 ∧ r.r1 ≤ r.r2)) := by
    intro uc ur res hres huc hur
    have sc := axis_inter_spec a.c1 a.c2 b.c1 b.c2 MAX_COL hMC hac hbc uc huc
    have sr := axis_inter_spec a.r1 a.r2 b.r1 b.r2 MAX_ROW hMR har hbr ur hur
    have ew : sideSize MAX_COL a.c1 a.c2 = a.width := rfl
    have ew' : sideSize MAX_COL b.c1 b.c2 = b.width := rfl
    have eh : sideSize MAX_ROW a.r1 a.r2 = a.height := rfl
    have eh' : sideSize MAX_ROW b.r1 b.r2 = b.height := rfl
    rw [ew, ew'] at sc
    rw [eh, eh'] at sr
    cases hc : combineAxis true a.c1 b.c1 a.width b.width uc with
    | none =>
      rw [hc] at hres; simp only at hres; subst hres
      refine ⟨by simp, fun _ c h => sc.1 hc c.col ⟨h.1.1, h.2.1⟩, fun r hr => (by cases hr)⟩
    | some pc =>
      cases hr : combineAxis true a.r1 b.r1 a.height b.height ur with
      | none =>
        rw [hc, hr] at hres; simp only at hres; subst hres
        refine ⟨by simp, fun _ c h => sr.1 hr c.row ⟨h.1.2, h.2.2⟩, fun r hr => (by cases hr)⟩
      | some pr =>
        rw [hc, hr] at hres; simp only at hres; subst hres
        obtain ⟨gc, bc, vc⟩ := sc.2 pc hc
        obtain ⟨gr, br, vr⟩ := sr.2 pr hr
        refine ⟨by simp, fun h => (by cases h), fun r hr => ?_⟩
        injection hr with hr; subst hr
        refine ⟨⟨gc, gr⟩, rfl, fun c => ?_, bc, br⟩
        simp only [Rect.covers]
        rw [vc c.col, vr c.row]
        constructor
        · rintro ⟨⟨x1, x2⟩, ⟨y1, y2⟩⟩; exact ⟨⟨x1, y1⟩, ⟨x2, y2⟩⟩
        · rintro ⟨⟨x1, y1⟩, ⟨x2, y2⟩⟩; exact ⟨⟨x1, x2⟩, ⟨y1, y2⟩⟩
  have hsheet : ¬ (a.sheet ≠ [] ∧ b.sheet ≠ [] ∧ a.sheet ≠ b.sheet) := fun h => h.2.2 hs
  have hsh2 : (if a.sheet ≠ [] then a.sheet else b.sheet) = a.sheet := by split <;> simp [hs]
  unfold Rect.inter combineCore
  rw [if_neg hsheet]
  simp only [hsh2, ↓reduceIte]
  have za := side_zero hac
  have zb := side_zero hbc
  have ya := side_zero har
  have yb := side_zero hbr
  have kk := key ((decide (a.c1 = 0) || decide (a.c2 = 0)) && (decide (b.c1 = 0) || decide (b.c2 = 0)))
    (!((decide (a.c1 = 0) || decide (a.c2 = 0)) && (decide (b.c1 = 0) || decide (b.c2 = 0))) &&
      ((decide (a.r1 = 0) || decide (a.r2 = 0)) && (decide (b.r1 = 0) || decide (b.r2 = 0)))) _ rfl
  obtain ⟨k1, k2, k3⟩ := kk
    (by intro h
        simp only [Bool.and_eq_true, Bool.or_eq_true, decide_eq_true_eq] at h
        exact ⟨za.mp h.1, zb.mp h.2⟩)
    (by intro h
        simp only [Bool.and_eq_true, Bool.or_eq_true, decide_eq_true_eq, Bool.not_eq_true'] at h
        exact ⟨ya.mp h.2.1, yb.mp h.2.2⟩)
  refine ⟨k1, k2, fun r hr => ?_⟩
  obtain ⟨x1, x2, x3, x4, x5⟩ := k3 r hr
  refine ⟨x1, x2, x3, fun h => x4 ?_, fun h => x5 ?_⟩
  · rw [Bool.eq_false_iff]; intro hc
    simp only [Bool.and_eq_true, Bool.or_eq_true, decide_eq_true_eq] at hc
    omega
  · rw [Bool.eq_false_iff]; intro hc
    simp only [Bool.and_eq_true, Bool.or_eq_true, decide_eq_true_eq, Bool.not_eq_true'] at hc
    omega


/-- for a bounded rectangle `covers` is `contains` -/
theorem covers_wf (a : Rect) (h : a.WF) (c : Cell) : a.covers c ↔ a.contains c = true := by
  obtain ⟨h1, h2, h3, h4⟩ := h
  have e1 : ¬ (a.c1 = 0 ∨ a.c2 = 0) := by omega
  have e2 : ¬ (a.r1 = 0 ∨ a.r2 = 0) := by omega
  simp only [Rect.covers, cov, e1, e2, ↓reduceIte, Rect.contains, Bool.and_eq_true, decide_eq_true_eq]
  omega

/-- whole columns `c1:c2` against the used area (1,1,mc,mr) of a sheet (for C05's `clip`): no edge condition -/
theorem inter_unbounded_cols (s : List Char) (c1 c2 mc mr : Nat) (h1 : 1 ≤ c1) (h2 : c1 ≤ c2) (hmc : 1 ≤ mc)
    (hmr : 1 ≤ mr) (hr : mr ≤ MAX_ROW) :
    (⟨s, c1, 0, c2, 0⟩ : Rect).inter ⟨s, 1, 1, mc, mr⟩ =
      if c1 ≤ mc then .rect ⟨s, c1, 1, min c2 mc, mr⟩ else .null := by
  have e1 : ¬ c1 = 0 := by omega
  have e2 : ¬ c2 = 0 := by omega
  have e3 : ¬ mc = 0 := by omega
  have e4 : ¬ mr = 0 := by omega
  unfold MAX_ROW Gen.maxRow at hr
  simp only [Rect.inter, combineCore, combineAxis, Rect.height, Rect.width, MAX_ROW, Gen.maxRow, e1, e2, e3, e4,
    ne_eq, not_true_eq_false, and_false, ↓reduceIte, or_self, or_true, true_or, Nat.one_ne_zero, decide_false,
    decide_true, Bool.or_self, Bool.false_and, Bool.and_false, Bool.not_false, Bool.false_eq_true, ite_self,
    Bool.true_and, Bool.and_self]
  by_cases h : c1 ≤ mc
  · rw [if_neg (by omega), if_neg (by omega), if_pos h]
    simp only [Res.rect.injEq, Rect.mk.injEq, true_and]; omega
  · rw [if_pos (by omega), if_neg h]

/-- whole rows `r1:r2` against the used area (1,1,mc,mr) of a sheet (for C05's `clip`): no edge condition -/
theorem inter_unbounded_rows (s : List Char) (r1 r2 mc mr : Nat) (h1 : 1 ≤ r1) (h2 : r1 ≤ r2) (hmc : 1 ≤ mc)
    (hmr : 1 ≤ mr) (hc : mc ≤ MAX_COL) :
    (⟨s, 0, r1, 0, r2⟩ : Rect).inter ⟨s, 1, 1, mc, mr⟩ =
      if r1 ≤ mr then .rect ⟨s, 1, r1, mc, min r2 mr⟩ else .null := by
  have e1 : ¬ r1 = 0 := by omega
  have e2 : ¬ r2 = 0 := by omega
  have e3 : ¬ mc = 0 := by omega
  have e4 : ¬ mr = 0 := by omega
  unfold MAX_COL Gen.maxCol at hc
  simp only [Rect.inter, combineCore, combineAxis, Rect.height, Rect.width, MAX_COL, Gen.maxCol, e1, e2, e3, e4,
    ne_eq, not_true_eq_false, and_false, ↓reduceIte, or_self, or_true, true_or, Nat.one_ne_zero, decide_false,
    decide_true, Bool.or_self, Bool.false_and, Bool.and_false, Bool.not_false, Bool.false_eq_true, ite_self,
    Bool.true_and, Bool.and_self]
  by_cases h : r1 ≤ mr
  · rw [if_neg (by omega), if_neg (by omega), if_pos h]
    simp only [Res.rect.injEq, Rect.mk.injEq, true_and]; omega
  · rw [if_neg (by omega), if_pos (by omega), if_neg h]

/-- lower corner as `&` / `**` read it: an unbounded side (0) starts at 1 -/
def or1 (x : Nat) : Int := if x = 0 then 1 else (x : Int)

/-- one axis of `&` with arbitrary sizes: the result side is unbounded (flag set), or lies inside both operands -/
theorem axis_inter_bounds (a1 b1 : Nat) (wa wb : Int) (ub : Bool) (p : Nat × Nat)
    (h : combineAxis true a1 b1 wa wb ub = some p) :
    (ub = true ∧ p.1 = 0 ∧ p.2 = 0) ∨
    (ub = false ∧ or1 a1 ≤ p.1 ∧ or1 b1 ≤ p.1 ∧ (p.1 : Int) ≤ p.2 ∧ (p.2 : Int) ≤ or1 a1 + wa - 1 ∧
      (p.2 : Int) ≤ or1 b1 + wb - 1) := by
  have hdef : combineAxis true a1 b1 wa wb ub =
      if min (or1 a1 + wa) (or1 b1 + wb) - 1 < max (or1 a1) (or1 b1) then none
      else if ub = true then some (0, 0)
      else some ((max (or1 a1) (or1 b1)).toNat, (min (or1 a1 + wa) (or1 b1 + wb) - 1).toNat) := rfl
  rw [hdef] at h
  by_cases hn : min (or1 a1 + wa) (or1 b1 + wb) - 1 < max (or1 a1) (or1 b1)
  · rw [if_pos hn] at h; cases h
  · rw [if_neg hn] at h
    have p1 : 1 ≤ or1 a1 := by unfold or1; split <;> omega
    have p2 : 1 ≤ or1 b1 := by unfold or1; split <;> omega
    cases ub
    · simp only [Bool.false_eq_true, ↓reduceIte, Option.some.injEq] at h
      subst h
      refine Or.inr ⟨rfl, ?_⟩
      simp only; omega
    · simp only [↓reduceIte, Option.some.injEq] at h
      subst h
      exact Or.inl ⟨rfl, rfl, rfl⟩

/-- `&` on arbitrary address objects (for C04): sheets agree, and each side of the result is unbounded — then that
    side of both operands is — or lies inside that side of both operands -/
theorem combineCore_inter_bounds (a b : Rect) (ha wa hb wb : Int) (r : Rect)
    (h : combineCore true a b ha wa hb wb = .rect r) :
    ¬ (a.sheet ≠ [] ∧ b.sheet ≠ [] ∧ a.sheet ≠ b.sheet) ∧
    r.sheet = (if a.sheet ≠ [] then a.sheet else b.sheet) ∧
    ((r.c1 = 0 ∧ r.c2 = 0 ∧ (a.c1 = 0 ∨ a.c2 = 0) ∧ (b.c1 = 0 ∨ b.c2 = 0)) ∨
      (or1 a.c1 ≤ r.c1 ∧ or1 b.c1 ≤ r.c1 ∧ (r.c1 : Int) ≤ r.c2 ∧ (r.c2 : Int) ≤ or1 a.c1 + wa - 1 ∧
        (r.c2 : Int) ≤ or1 b.c1 + wb - 1)) ∧
    ((r.r1 = 0 ∧ r.r2 = 0 ∧ (a.r1 = 0 ∨ a.r2 = 0) ∧ (b.r1 = 0 ∨ b.r2 = 0)) ∨
      (or1 a.r1 ≤ r.r1 ∧ or1 b.r1 ≤ r.r1 ∧ (r.r1 : Int) ≤ r.r2 ∧ (r.r2 : Int) ≤ or1 a.r1 + ha - 1 ∧
        (r.r2 : Int) ≤ or1 b.r1 + hb - 1)) := by
  unfold combineCore at h
  by_cases hs : a.sheet ≠ [] ∧ b.sheet ≠ [] ∧ a.sheet ≠ b.sheet
  · rw [if_pos hs] at h; cases h
  · rw [if_neg hs] at h
    simp only [↓reduceIte] at h
    split at h
    · rename_i c1 c2 r1 r2 hc hr
      injection h with h; subst h
      refine ⟨hs, rfl, ?_, ?_⟩
      · rcases axis_inter_bounds _ _ _ _ _ _ hc with ⟨hu, e1, e2⟩ | ⟨_, hb⟩
        · simp only [Bool.and_eq_true, Bool.or_eq_true, decide_eq_true_eq] at hu
          exact Or.inl ⟨e1, e2, hu.1, hu.2⟩
        · exact Or.inr hb
      · rcases axis_inter_bounds _ _ _ _ _ _ hr with ⟨hu, e1, e2⟩ | ⟨_, hb⟩
        · simp only [Bool.and_eq_true, Bool.or_eq_true, decide_eq_true_eq, Bool.not_eq_true'] at hu
          exact Or.inl ⟨e1, e2, hu.2.1, hu.2.2⟩
        · exact Or.inr hb
    · cases h

theorem contains_iff (a : Rect) (c : Cell) :
    a.contains c = true ↔ a.r1 ≤ c.row ∧ c.row ≤ a.r2 ∧ a.c1 ≤ c.col ∧ c.col ≤ a.c2 := by
  simp [Rect.contains, and_assoc]

theorem length_flatten_const {α : Type} (L : List (List α)) (k : Nat) (h : ∀ l ∈ L, l.length = k) :
    L.flatten.length = L.length * k := by
  induction L with
  | nil => simp
  | cons x xs ih =>
    simp only [List.flatten_cons, List.length_append, List.length_cons]
    rw [ih (fun l hl => h l (List.mem_cons_of_mem _ hl)), h x (List.mem_cons_self ..)]
    rw [Nat.add_mul]; omega

theorem mem_cells (a : Rect) (c : Cell) : c ∈ a.cells ↔ (a.contains c = true ∧ c.sheet = a.sheet) := by
  rw [contains_iff]
  simp only [Rect.cells, Rect.rows, Rect.rowIdxs, Rect.colIdxs, List.mem_flatten, List.mem_map,
    List.mem_range'_1]
  constructor
  · rintro ⟨l, ⟨r, hr, rfl⟩, hc⟩
    simp only [List.mem_map, List.mem_range'_1] at hc
    obtain ⟨col, hcol, rfl⟩ := hc
    simp only [and_true]
    omega
  · rintro ⟨⟨h1, h2, h3, h4⟩, hs⟩
    refine ⟨_, ⟨c.row, by omega, rfl⟩, ?_⟩
    simp only [List.mem_map, List.mem_range'_1]
    refine ⟨c.col, by omega, ?_⟩
    cases c; simp_all

theorem mem_cols (a : Rect) (c : Cell) : c ∈ a.cols.flatten ↔ (a.contains c = true ∧ c.sheet = a.sheet) := by
  rw [contains_iff]
  simp only [Rect.cols, Rect.rowIdxs, Rect.colIdxs, List.mem_flatten, List.mem_map,
    List.mem_range'_1]
  constructor
  · rintro ⟨l, ⟨r, hr, rfl⟩, hc⟩
    simp only [List.mem_map, List.mem_range'_1] at hc
    obtain ⟨col, hcol, rfl⟩ := hc
    simp only [and_true]
    omega
  · rintro ⟨⟨h1, h2, h3, h4⟩, hs⟩
    refine ⟨_, ⟨c.col, by omega, rfl⟩, ?_⟩
    simp only [List.mem_map, List.mem_range'_1]
    refine ⟨c.row, by omega, ?_⟩
    cases c; simp_all

theorem length_cells (a : Rect) : a.cells.length = (a.r2 + 1 - a.r1) * (a.c2 + 1 - a.c1) := by
  unfold Rect.cells Rect.rows
  rw [length_flatten_const _ (a.c2 + 1 - a.c1)]
  · simp [Rect.rowIdxs]
  · intro l hl
    simp only [List.mem_map] at hl
    obtain ⟨r, _, rfl⟩ := hl
    simp [Rect.colIdxs]

theorem nodup_cells (a : Rect) : a.cells.Nodup := by
  rw [List.nodup_iff_pairwise_ne]
  unfold Rect.cells Rect.rows
  rw [List.pairwise_flatten]
  constructor
  · intro l hl
    simp only [List.mem_map] at hl
    obtain ⟨r, _, rfl⟩ := hl
    rw [List.pairwise_map]
    exact (List.pairwise_lt_range' (s := a.c1) (n := a.c2 + 1 - a.c1)).imp (by
      intro x y hxy h; simp only [Cell.mk.injEq] at h; omega)
  · rw [List.pairwise_map]
    exact (List.pairwise_lt_range' (s := a.r1) (n := a.r2 + 1 - a.r1)).imp (by
      intro x y hxy c1 h1 c2 h2 h
      simp only [List.mem_map] at h1 h2
      obtain ⟨_, _, rfl⟩ := h1
      obtain ⟨_, _, rfl⟩ := h2
      simp only [Cell.mk.injEq] at h; omega)

end Pycel.Addr

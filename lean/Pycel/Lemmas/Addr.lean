/-
  Helper lemmas for C11 (address algebra), part 1: geometry of rectangles.
  Model: Pycel/Model/Addr.lean.
-/
import Pycel.Model.Addr
namespace Pycel.Addr

/-- a rectangle as the property quantifies over it: 1-based corners in order -/
def Rect.WF (a : Rect) : Prop := 1 ≤ a.c1 ∧ a.c1 ≤ a.c2 ∧ 1 ≤ a.r1 ∧ a.r1 ≤ a.r2

instance (a : Rect) : Decidable a.WF := by unfold Rect.WF; infer_instance

theorem height_wf (a : Rect) (h : a.WF) : a.height = (a.r2 : Int) - a.r1 + 1 := by
  obtain ⟨h1, h2, h3, h4⟩ := h
  unfold Rect.height
  have : ¬ (a.r1 = 0 ∨ a.r2 = 0) := by omega
  simp [this]

theorem width_wf (a : Rect) (h : a.WF) : a.width = (a.c2 : Int) - a.c1 + 1 := by
  obtain ⟨h1, h2, h3, h4⟩ := h
  unfold Rect.width
  have : ¬ (a.c1 = 0 ∨ a.c2 = 0) := by omega
  simp [this]

/-- one axis, both operands bounded -/
theorem axis_bounded (i : Bool) (a1 a2 b1 b2 : Nat) (ha1 : 1 ≤ a1) (ha : a1 ≤ a2) (hb1 : 1 ≤ b1) (hb : b1 ≤ b2) :
    combineAxis i a1 b1 ((a2 : Int) - a1 + 1) ((b2 : Int) - b1 + 1) false =
      if i then (if max a1 b1 ≤ min a2 b2 then some (max a1 b1, min a2 b2) else none)
      else some (min a1 b1, max a2 b2) := by
  have e1 : ¬ a1 = 0 := by omega
  have e2 : ¬ b1 = 0 := by omega
  unfold combineAxis
  cases i
  · simp only [Bool.false_eq_true, ↓reduceIte, e1, e2]
    rw [if_neg (by omega)]
    congr 2 <;> omega
  · simp only [↓reduceIte, e1, e2]
    by_cases h : max a1 b1 ≤ min a2 b2
    · rw [if_neg (by omega), if_pos h]
      simp only [Bool.false_eq_true, ↓reduceIte]
      congr 2 <;> omega
    · rw [if_pos (by omega), if_neg h]

/-- closed form of `&` on well-formed rectangles of one sheet -/
theorem inter_eq (a b : Rect) (ha : a.WF) (hb : b.WF) (hs : a.sheet = b.sheet) :
    a.inter b =
      if max a.c1 b.c1 ≤ min a.c2 b.c2 ∧ max a.r1 b.r1 ≤ min a.r2 b.r2 then
        .rect ⟨a.sheet, max a.c1 b.c1, max a.r1 b.r1, min a.c2 b.c2, min a.r2 b.r2⟩
      else .null := by
  unfold Rect.inter combineCore
  rw [height_wf a ha, width_wf a ha, height_wf b hb, width_wf b hb]
  obtain ⟨h1, h2, h3, h4⟩ := ha
  obtain ⟨g1, g2, g3, g4⟩ := hb
  have e1 : ¬ a.c1 = 0 := by omega
  have e2 : ¬ a.r1 = 0 := by omega
  have e3 : ¬ b.c1 = 0 := by omega
  have e4 : ¬ b.r1 = 0 := by omega
  have e5 : ¬ a.c2 = 0 := by omega
  have e6 : ¬ a.r2 = 0 := by omega
  simp only [hs, ↓reduceIte, ne_eq, not_true_eq_false, and_false, e1, e2, e3, e4, e5, e6, decide_false,
    Bool.or_self, Bool.and_false, Bool.false_and, Bool.not_false, Bool.and_self,
    axis_bounded true a.c1 a.c2 b.c1 b.c2 h1 h2 g1 g2, axis_bounded true a.r1 a.r2 b.r1 b.r2 h3 h4 g3 g4]
  by_cases p : max a.c1 b.c1 ≤ min a.c2 b.c2 <;> by_cases q : max a.r1 b.r1 ≤ min a.r2 b.r2 <;> simp [p, q]

/-- closed form of `**` on well-formed rectangles of one sheet -/
theorem union_eq (a b : Rect) (ha : a.WF) (hb : b.WF) (hs : a.sheet = b.sheet) :
    a.union b = .rect ⟨a.sheet, min a.c1 b.c1, min a.r1 b.r1, max a.c2 b.c2, max a.r2 b.r2⟩ := by
  unfold Rect.union combineCore
  rw [height_wf a ha, width_wf a ha, height_wf b hb, width_wf b hb]
  obtain ⟨h1, h2, h3, h4⟩ := ha
  obtain ⟨g1, g2, g3, g4⟩ := hb
  have e1 : ¬ a.c1 = 0 := by omega
  have e2 : ¬ a.r1 = 0 := by omega
  have e3 : ¬ b.c1 = 0 := by omega
  have e4 : ¬ b.r1 = 0 := by omega
  have e5 : ¬ a.c2 = 0 := by omega
  have e6 : ¬ a.r2 = 0 := by omega
  have e7 : ¬ b.c2 = 0 := by omega
  have e8 : ¬ b.r2 = 0 := by omega
  simp only [hs, ↓reduceIte, ne_eq, not_true_eq_false, and_false, e1, e2, e3, e4, e5, e6, e7, e8, decide_false,
    Bool.or_self, Bool.false_eq_true, Bool.not_false, Bool.and_false,
    axis_bounded false a.c1 a.c2 b.c1 b.c2 h1 h2 g1 g2, axis_bounded false a.r1 a.r2 b.r1 b.r2 h3 h4 g3 g4]

/-! SPANMARK -/
/-! ### whole rows / columns: an unbounded side (both corners 0) reads as 1..MAX -/

/-- a rectangle whose sides are each bounded (1 ≤ lo ≤ hi) or unbounded (both corners 0): `A1:B2`, `A:C`, `1:3` -/
def Rect.GWF (a : Rect) : Prop :=
  ((1 ≤ a.c1 ∧ a.c1 ≤ a.c2) ∨ (a.c1 = 0 ∧ a.c2 = 0)) ∧ ((1 ≤ a.r1 ∧ a.r1 ≤ a.r2) ∨ (a.r1 = 0 ∧ a.r2 = 0))

instance (a : Rect) : Decidable a.GWF := by unfold Rect.GWF; infer_instance

/-- the bounded rectangle an address denotes on the sheet: an unbounded side becomes 1..MAX_COL / 1..MAX_ROW -/
def Rect.span (a : Rect) : Rect :=
  ⟨a.sheet, if a.c1 = 0 then 1 else a.c1, if a.r1 = 0 then 1 else a.r1,
   if a.c1 = 0 ∨ a.c2 = 0 then MAX_COL else a.c2, if a.r1 = 0 ∨ a.r2 = 0 then MAX_ROW else a.r2⟩

theorem wf_gwf (a : Rect) (h : a.WF) : a.GWF := ⟨Or.inl ⟨h.1, h.2.1⟩, Or.inl ⟨h.2.2.1, h.2.2.2⟩⟩

theorem span_wf (a : Rect) (h : a.GWF) : a.span.WF := by
  obtain ⟨hc, hr⟩ := h
  unfold Rect.WF Rect.span MAX_COL MAX_ROW Gen.maxCol Gen.maxRow
  rcases hc with hc | hc <;> rcases hr with hr | hr <;> simp only <;>
    (have : ¬ a.c1 = 0 ∨ a.c1 = 0 := by omega) <;> (split <;> split <;> split <;> split <;> omega)

theorem span_of_wf (a : Rect) (h : a.WF) : a.span = a := by
  obtain ⟨h1, h2, h3, h4⟩ := h
  obtain ⟨s, c1, r1, c2, r2⟩ := a
  simp only at h1 h2 h3 h4
  have e1 : ¬ c1 = 0 := by omega
  have e2 : ¬ r1 = 0 := by omega
  have e3 : ¬ c2 = 0 := by omega
  have e4 : ¬ r2 = 0 := by omega
  simp [Rect.span, e1, e2, e3, e4]

/-- `&` / `**` see an address only through its span -/
theorem combine_span (i : Bool) (a b : Rect) (ha : a.GWF) (hb : b.GWF) :
    combineCore i a b a.height a.width b.height b.width =
      combineCore i a.span b.span a.span.height a.span.width b.span.height b.span.width := by
  have key : ∀ x : Rect, x.GWF →
      x.span.height = x.height ∧ x.span.width = x.width ∧ x.span.sheet = x.sheet ∧
      (if x.span.c1 = 0 then (1 : Int) else (x.span.c1 : Int)) = (if x.c1 = 0 then (1 : Int) else (x.c1 : Int)) ∧
      (if x.span.r1 = 0 then (1 : Int) else (x.span.r1 : Int)) = (if x.r1 = 0 then (1 : Int) else (x.r1 : Int)) := by
    intro x hx
    obtain ⟨hc, hr⟩ := hx
    unfold Rect.height Rect.width Rect.span MAX_COL MAX_ROW Gen.maxCol Gen.maxRow
    simp only [true_and]
    refine ⟨?_, ?_, ?_, ?_⟩
    · rcases hr with hr | hr
      · have e1 : ¬ x.r1 = 0 := by omega
        have e2 : ¬ x.r2 = 0 := by omega
        simp [e1, e2]
      · simp [hr.1, hr.2]
    · rcases hc with hc | hc
      · have e1 : ¬ x.c1 = 0 := by omega
        have e2 : ¬ x.c2 = 0 := by omega
        simp [e1, e2]
      · simp [hc.1, hc.2]
    · by_cases e : x.c1 = 0 <;> simp [e]
    · by_cases e : x.r1 = 0 <;> simp [e]
  obtain ⟨a1, a2, a3, a4, a5⟩ := key a ha
  obtain ⟨b1, b2, b3, b4, b5⟩ := key b hb
  unfold combineCore
  simp only [a1, a2, a3, a4, a5, b1, b2, b3, b4, b5]

theorem inter_span (a b : Rect) (ha : a.GWF) (hb : b.GWF) : a.inter b = a.span.inter b.span :=
  combine_span true a b ha hb

theorem union_span (a b : Rect) (ha : a.GWF) (hb : b.GWF) : a.union b = a.span.union b.span :=
  combine_span false a b ha hb

/-- whole columns `c1:c2` against the used area (1,1,mc,mr) of a sheet (for C05's `clip`): no edge condition -/
theorem inter_unbounded_cols (s : List Char) (c1 c2 mc mr : Nat) (h1 : 1 ≤ c1) (h2 : c1 ≤ c2) (hmc : 1 ≤ mc)
    (hmr : 1 ≤ mr) (hr : mr ≤ MAX_ROW) :
    (⟨s, c1, 0, c2, 0⟩ : Rect).inter ⟨s, 1, 1, mc, mr⟩ =
      if c1 ≤ mc then .rect ⟨s, c1, 1, min c2 mc, mr⟩ else .null := by
  have ga : (⟨s, c1, 0, c2, 0⟩ : Rect).GWF := ⟨Or.inl ⟨h1, h2⟩, Or.inr ⟨rfl, rfl⟩⟩
  have gb : (⟨s, 1, 1, mc, mr⟩ : Rect).GWF := wf_gwf _ ⟨Nat.le_refl 1, hmc, Nat.le_refl 1, hmr⟩
  rw [inter_span _ _ ga gb,
    inter_eq (Rect.span ⟨s, c1, 0, c2, 0⟩) (Rect.span ⟨s, 1, 1, mc, mr⟩) (span_wf _ ga) (span_wf _ gb) rfl]
  have e1 : ¬ c1 = 0 := by omega
  have e2 : ¬ c2 = 0 := by omega
  have e3 : ¬ mc = 0 := by omega
  have e4 : ¬ mr = 0 := by omega
  unfold MAX_ROW Gen.maxRow at hr
  simp only [Rect.span, e1, e2, e3, e4, ↓reduceIte, or_self, MAX_ROW, Gen.maxRow,
    Nat.one_ne_zero]
  by_cases h : c1 ≤ mc
  · rw [if_pos (by omega), if_pos h]
    simp only [Res.rect.injEq, Rect.mk.injEq, true_and]; omega
  · rw [if_neg (by omega), if_neg h]

/-- whole rows `r1:r2` against the used area (1,1,mc,mr) of a sheet (for C05's `clip`): no edge condition -/
theorem inter_unbounded_rows (s : List Char) (r1 r2 mc mr : Nat) (h1 : 1 ≤ r1) (h2 : r1 ≤ r2) (hmc : 1 ≤ mc)
    (hmr : 1 ≤ mr) (hc : mc ≤ MAX_COL) :
    (⟨s, 0, r1, 0, r2⟩ : Rect).inter ⟨s, 1, 1, mc, mr⟩ =
      if r1 ≤ mr then .rect ⟨s, 1, r1, mc, min r2 mr⟩ else .null := by
  have ga : (⟨s, 0, r1, 0, r2⟩ : Rect).GWF := ⟨Or.inr ⟨rfl, rfl⟩, Or.inl ⟨h1, h2⟩⟩
  have gb : (⟨s, 1, 1, mc, mr⟩ : Rect).GWF := wf_gwf _ ⟨Nat.le_refl 1, hmc, Nat.le_refl 1, hmr⟩
  rw [inter_span _ _ ga gb,
    inter_eq (Rect.span ⟨s, 0, r1, 0, r2⟩) (Rect.span ⟨s, 1, 1, mc, mr⟩) (span_wf _ ga) (span_wf _ gb) rfl]
  have e1 : ¬ r1 = 0 := by omega
  have e2 : ¬ r2 = 0 := by omega
  have e3 : ¬ mc = 0 := by omega
  have e4 : ¬ mr = 0 := by omega
  unfold MAX_COL Gen.maxCol at hc
  simp only [Rect.span, e1, e2, e3, e4, ↓reduceIte, or_self, MAX_COL, Gen.maxCol,
    Nat.one_ne_zero]
  by_cases h : r1 ≤ mr
  · rw [if_pos (by omega), if_pos h]
    simp only [Res.rect.injEq, Rect.mk.injEq, true_and, and_true]; omega
  · rw [if_neg (by omega), if_neg h]

theorem contains_iff (a : Rect) (c : Cell) :
    a.contains c = true ↔ a.r1 ≤ c.row ∧ c.row ≤ a.r2 ∧ a.c1 ≤ c.col ∧ c.col ≤ a.c2 := by
  simp [Rect.contains, and_assoc]

theorem length_flatten_const {α : Type} (L : List (List α)) (k : Nat) (h : ∀ l ∈ L, l.length = k) :
    L.flatten.length = L.length * k := by
  induction L with
  | nil => simp
  | cons x xs ih =>
    simp only [List.flatten_cons, List.length_append, List.length_cons]
    rw [ih (fun l hl => h l (List.mem_cons_of_mem _ hl)), h x (List.mem_cons_self ..)]
    rw [Nat.add_mul]; omega

theorem mem_cells (a : Rect) (c : Cell) : c ∈ a.cells ↔ (a.contains c = true ∧ c.sheet = a.sheet) := by
  rw [contains_iff]
  simp only [Rect.cells, Rect.rows, Rect.rowIdxs, Rect.colIdxs, List.mem_flatten, List.mem_map,
    List.mem_range'_1]
  constructor
  · rintro ⟨l, ⟨r, hr, rfl⟩, hc⟩
    simp only [List.mem_map, List.mem_range'_1] at hc
    obtain ⟨col, hcol, rfl⟩ := hc
    simp only [and_true]
    omega
  · rintro ⟨⟨h1, h2, h3, h4⟩, hs⟩
    refine ⟨_, ⟨c.row, by omega, rfl⟩, ?_⟩
    simp only [List.mem_map, List.mem_range'_1]
    refine ⟨c.col, by omega, ?_⟩
    cases c; simp_all

theorem mem_cols (a : Rect) (c : Cell) : c ∈ a.cols.flatten ↔ (a.contains c = true ∧ c.sheet = a.sheet) := by
  rw [contains_iff]
  simp only [Rect.cols, Rect.rowIdxs, Rect.colIdxs, List.mem_flatten, List.mem_map,
    List.mem_range'_1]
  constructor
  · rintro ⟨l, ⟨r, hr, rfl⟩, hc⟩
    simp only [List.mem_map, List.mem_range'_1] at hc
    obtain ⟨col, hcol, rfl⟩ := hc
    simp only [and_true]
    omega
  · rintro ⟨⟨h1, h2, h3, h4⟩, hs⟩
    refine ⟨_, ⟨c.col, by omega, rfl⟩, ?_⟩
    simp only [List.mem_map, List.mem_range'_1]
    refine ⟨c.row, by omega, ?_⟩
    cases c; simp_all

theorem length_cells (a : Rect) : a.cells.length = (a.r2 + 1 - a.r1) * (a.c2 + 1 - a.c1) := by
  unfold Rect.cells Rect.rows
  rw [length_flatten_const _ (a.c2 + 1 - a.c1)]
  · simp [Rect.rowIdxs]
  · intro l hl
    simp only [List.mem_map] at hl
    obtain ⟨r, _, rfl⟩ := hl
    simp [Rect.colIdxs]

theorem nodup_cells (a : Rect) : a.cells.Nodup := by
  rw [List.nodup_iff_pairwise_ne]
  unfold Rect.cells Rect.rows
  rw [List.pairwise_flatten]
  constructor
  · intro l hl
    simp only [List.mem_map] at hl
    obtain ⟨r, _, rfl⟩ := hl
    rw [List.pairwise_map]
    exact (List.pairwise_lt_range' (s := a.c1) (n := a.c2 + 1 - a.c1)).imp (by
      intro x y hxy h; simp only [Cell.mk.injEq] at h; omega)
  · rw [List.pairwise_map]
    exact (List.pairwise_lt_range' (s := a.r1) (n := a.r2 + 1 - a.r1)).imp (by
      intro x y hxy c1 h1 c2 h2 h
      simp only [List.mem_map] at h1 h2
      obtain ⟨_, _, rfl⟩ := h1
      obtain ⟨_, _, rfl⟩ := h2
      simp only [Cell.mk.injEq] at h; omega)

end Pycel.Addr

/-
  Helper lemmas for C11 (address algebra), part 1: geometry of rectangles.
  Model: Pycel/Model/Addr.lean.
-/
import Pycel.Model.Addr
namespace Pycel.Addr

/-- a rectangle as the property quantifies over it: 1-based corners in order -/
def Rect.WF (a : Rect) : Prop := 1 ≤ a.c1 ∧ a.c1 ≤ a.c2 ∧ 1 ≤ a.r1 ∧ a.r1 ≤ a.r2

instance (a : Rect) : Decidable a.WF := by unfold Rect.WF; infer_instance

theorem height_wf (a : Rect) (h : a.WF) : a.height = (a.r2 : Int) - a.r1 + 1 := by
  obtain ⟨h1, h2, h3, h4⟩ := h
  unfold Rect.height
  have : ¬ (a.r1 = 0 ∨ a.r2 = 0) := by omega
  simp [this]

theorem width_wf (a : Rect) (h : a.WF) : a.width = (a.c2 : Int) - a.c1 + 1 := by
  obtain ⟨h1, h2, h3, h4⟩ := h
  unfold Rect.width
  have : ¬ (a.c1 = 0 ∨ a.c2 = 0) := by omega
  simp [this]

/-- closed form of `&` on well-formed rectangles of one sheet -/
theorem inter_eq (a b : Rect) (ha : a.WF) (hb : b.WF) (hs : a.sheet = b.sheet) :
    a.inter b =
      if max a.c1 b.c1 ≤ min a.c2 b.c2 ∧ max a.r1 b.r1 ≤ min a.r2 b.r2 then
        .rect ⟨a.sheet, max a.c1 b.c1, max a.r1 b.r1, min a.c2 b.c2, min a.r2 b.r2⟩
      else .null := by
  unfold Rect.inter combineCore
  rw [height_wf a ha, width_wf a ha, height_wf b hb, width_wf b hb]
  obtain ⟨h1, h2, h3, h4⟩ := ha
  obtain ⟨g1, g2, g3, g4⟩ := hb
  simp only [hs, ↓reduceIte, ne_eq, not_true_eq_false, and_false, ite_self]
  split
  · rename_i h
    rw [if_neg (by omega)]
  · rename_i h
    rw [if_pos (by omega)]
    congr 2 <;> omega

/-- closed form of `**` on well-formed rectangles of one sheet -/
theorem union_eq (a b : Rect) (ha : a.WF) (hb : b.WF) (hs : a.sheet = b.sheet) :
    a.union b = .rect ⟨a.sheet, min a.c1 b.c1, min a.r1 b.r1, max a.c2 b.c2, max a.r2 b.r2⟩ := by
  unfold Rect.union combineCore
  rw [height_wf a ha, width_wf a ha, height_wf b hb, width_wf b hb]
  obtain ⟨h1, h2, h3, h4⟩ := ha
  obtain ⟨g1, g2, g3, g4⟩ := hb
  simp only [hs, ↓reduceIte, ne_eq, not_true_eq_false, and_false, ite_self, Bool.false_eq_true]
  rw [if_neg (by omega)]
  congr 2 <;> omega

theorem contains_iff (a : Rect) (c : Cell) :
    a.contains c = true ↔ a.r1 ≤ c.row ∧ c.row ≤ a.r2 ∧ a.c1 ≤ c.col ∧ c.col ≤ a.c2 := by
  simp [Rect.contains, and_assoc]

theorem length_flatten_const {α : Type} (L : List (List α)) (k : Nat) (h : ∀ l ∈ L, l.length = k) :
    L.flatten.length = L.length * k := by
  induction L with
  | nil => simp
  | cons x xs ih =>
    simp only [List.flatten_cons, List.length_append, List.length_cons]
    rw [ih (fun l hl => h l (List.mem_cons_of_mem _ hl)), h x (List.mem_cons_self ..)]
    rw [Nat.add_mul]; omega

theorem mem_cells (a : Rect) (c : Cell) : c ∈ a.cells ↔ (a.contains c = true ∧ c.sheet = a.sheet) := by
  rw [contains_iff]
  simp only [Rect.cells, Rect.rows, Rect.rowIdxs, Rect.colIdxs, List.mem_flatten, List.mem_map,
    List.mem_range'_1]
  constructor
  · rintro ⟨l, ⟨r, hr, rfl⟩, hc⟩
    simp only [List.mem_map, List.mem_range'_1] at hc
    obtain ⟨col, hcol, rfl⟩ := hc
    simp only [and_true]
    omega
  · rintro ⟨⟨h1, h2, h3, h4⟩, hs⟩
    refine ⟨_, ⟨c.row, by omega, rfl⟩, ?_⟩
    simp only [List.mem_map, List.mem_range'_1]
    refine ⟨c.col, by omega, ?_⟩
    cases c; simp_all

theorem mem_cols (a : Rect) (c : Cell) : c ∈ a.cols.flatten ↔ (a.contains c = true ∧ c.sheet = a.sheet) := by
  rw [contains_iff]
  simp only [Rect.cols, Rect.rowIdxs, Rect.colIdxs, List.mem_flatten, List.mem_map,
    List.mem_range'_1]
  constructor
  · rintro ⟨l, ⟨r, hr, rfl⟩, hc⟩
    simp only [List.mem_map, List.mem_range'_1] at hc
    obtain ⟨col, hcol, rfl⟩ := hc
    simp only [and_true]
    omega
  · rintro ⟨⟨h1, h2, h3, h4⟩, hs⟩
    refine ⟨_, ⟨c.col, by omega, rfl⟩, ?_⟩
    simp only [List.mem_map, List.mem_range'_1]
    refine ⟨c.row, by omega, ?_⟩
    cases c; simp_all

theorem length_cells (a : Rect) : a.cells.length = (a.r2 + 1 - a.r1) * (a.c2 + 1 - a.c1) := by
  unfold Rect.cells Rect.rows
  rw [length_flatten_const _ (a.c2 + 1 - a.c1)]
  · simp [Rect.rowIdxs]
  · intro l hl
    simp only [List.mem_map] at hl
    obtain ⟨r, _, rfl⟩ := hl
    simp [Rect.colIdxs]

theorem nodup_cells (a : Rect) : a.cells.Nodup := by
  rw [List.nodup_iff_pairwise_ne]
  unfold Rect.cells Rect.rows
  rw [List.pairwise_flatten]
  constructor
  · intro l hl
    simp only [List.mem_map] at hl
    obtain ⟨r, _, rfl⟩ := hl
    rw [List.pairwise_map]
    exact (List.pairwise_lt_range' (s := a.c1) (n := a.c2 + 1 - a.c1)).imp (by
      intro x y hxy h; simp only [Cell.mk.injEq] at h; omega)
  · rw [List.pairwise_map]
    exact (List.pairwise_lt_range' (s := a.r1) (n := a.r2 + 1 - a.r1)).imp (by
      intro x y hxy c1 h1 c2 h2 h
      simp only [List.mem_map] at h1 h2
      obtain ⟨_, _, rfl⟩ := h1
      obtain ⟨_, _, rfl⟩ := h2
      simp only [Cell.mk.injEq] at h; omega)

end Pycel.Addr

/-
  Helper lemmas for C11, part 3: the parser applied to the printer's output.
-/
import Pycel.Lemmas.AddrText
namespace Pycel.Addr

theorem colLimit_eq : COL_LIMIT = colCap 3 := by decide
theorem maxCol_le_limit : MAX_COL ≤ COL_LIMIT := by decide

theorem dropDollar_id (s : Str) (h : ∀ c, s.head? = some c → c ≠ '$') : dropDollar s = s := by
  unfold dropDollar
  split
  · rename_i h'; exact absurd rfl (h _ h')
  · rfl

theorem head?_append_ne_nil (a b : Str) (h : a ≠ []) : (a ++ b).head? = a.head? := by
  cases a with
  | nil => exact absurd rfl h
  | cons c cs => rfl

theorem colLetters_head (c : Nat) (h1 : 1 ≤ c) (rest : Str) :
    ∀ x, (colLetters c ++ rest).head? = some x → isLetter x = true ∧ x ≠ '$' := by
  intro x hx
  rw [head?_append_ne_nil _ _ (colLetters_ne_nil c h1)] at hx
  have hm : x ∈ colLetters c := List.mem_of_mem_head? hx
  have := colLetters_chars c x hm
  exact ⟨this.1, this.2.2.1⟩

theorem natStr_head' (r : Nat) (rest : Str) :
    ∀ x, (natStr r ++ rest).head? = some x → isDigit x = true ∧ isLetter x = false ∧ x ≠ '$' ∧ x ≠ '-' ∧
      x ≠ '[' := by
  intro x hx
  rw [head?_append_ne_nil _ _ (natStr_ne_nil r)] at hx
  have hm : x ∈ natStr r := List.mem_of_mem_head? hx
  have := natStr_chars r x hm
  exact ⟨this.1, this.2.1, this.2.2.1, this.2.2.2.2.2.2.1, this.2.2.2.2.2.2.2.1⟩

/-- the A1 half-parser reads back a printed relative coordinate -/
theorem a1Half_cellCoord (c r : Nat) (hc1 : 1 ≤ c) (hc : c ≤ COL_LIMIT) (hr : 1 ≤ r) (rest : Str)
    (hrest : NoHead isDigit rest) : a1Half (cellCoord c r ++ rest) = some (some c, some r, rest) := by
  have hr0 : r ≠ 0 := by omega
  have hlen := colLetters_length c hc1 (colLimit_eq ▸ hc)
  have e1 : cellCoord c r ++ rest = colLetters c ++ (natStr r ++ rest) := by
    simp [cellCoord, hr0, List.append_assoc]
  have d1 : dropDollar (colLetters c ++ (natStr r ++ rest)) = colLetters c ++ (natStr r ++ rest) :=
    dropDollar_id _ (fun x hx => (colLetters_head c hc1 _ x hx).2)
  have s1 : spanP isLetter (colLetters c ++ (natStr r ++ rest)) = (colLetters c, natStr r ++ rest) :=
    spanP_append _ _ _ (fun x hx => (colLetters_chars c x hx).1) (fun x hx => (natStr_head' r rest x hx).2.1)
  have d2 : dropDollar (natStr r ++ rest) = natStr r ++ rest :=
    dropDollar_id _ (fun x hx => (natStr_head' r rest x hx).2.2.1)
  have s2 : spanP isDigit (natStr r ++ rest) = (natStr r, rest) :=
    spanP_append _ _ _ (natStr_digits r) hrest
  unfold a1Half
  simp only [e1, d1, s1, d2, s2]
  rw [if_neg (by omega), if_neg (colLetters_ne_nil c hc1), if_neg (natStr_ne_nil r), parseCol_colLetters,
    decVal_natStr]

/-- the A1 half-parser reads back a printed absolute (`$`) coordinate -/
theorem a1Half_cellAbsCoord (c r : Nat) (hc1 : 1 ≤ c) (hc : c ≤ COL_LIMIT) (rest : Str)
    (hrest : NoHead isDigit rest) : a1Half (cellAbsCoord c r ++ rest) = some (some c, some r, rest) := by
  have hlen := colLetters_length c hc1 (colLimit_eq ▸ hc)
  have e1 : cellAbsCoord c r ++ rest = '$' :: (colLetters c ++ '$' :: (natStr r ++ rest)) := by
    simp [cellAbsCoord, List.append_assoc]
  have d1 : dropDollar ('$' :: (colLetters c ++ '$' :: (natStr r ++ rest))) =
      colLetters c ++ '$' :: (natStr r ++ rest) := by simp [dropDollar]
  have s1 : spanP isLetter (colLetters c ++ '$' :: (natStr r ++ rest)) = (colLetters c, '$' :: (natStr r ++ rest)) :=
    spanP_append _ _ _ (fun x hx => (colLetters_chars c x hx).1) (noHead_cons _ _ _ (by decide))
  have d2 : dropDollar ('$' :: (natStr r ++ rest)) = natStr r ++ rest := by simp [dropDollar]
  have s2 : spanP isDigit (natStr r ++ rest) = (natStr r, rest) :=
    spanP_append _ _ _ (natStr_digits r) hrest
  unfold a1Half
  simp only [e1, d1, s1, d2, s2]
  rw [if_neg (by omega), if_neg (colLetters_ne_nil c hc1), if_neg (natStr_ne_nil r), parseCol_colLetters,
    decVal_natStr]

/-- what the round trip needs from a coordinate printer (`cellCoord` and `cellAbsCoord` both provide it) -/
structure GoodPrinter (pr : Nat → Nat → Str) : Prop where
  half : ∀ c r rest, 1 ≤ c → c ≤ COL_LIMIT → 1 ≤ r → NoHead isDigit rest →
    a1Half (pr c r ++ rest) = some (some c, some r, rest)
  chars : ∀ c r x, x ∈ pr c r → x ≠ '!' ∧ x ≠ '\''
  last : ∀ c r, 1 ≤ r → ∃ x, (pr c r).getLast? = some x ∧ isDigit x = true

theorem getLast?_natStr (r : Nat) (pre : Str) : ∃ x, (pre ++ natStr r).getLast? = some x ∧ isDigit x = true := by
  rw [List.getLast?_append]
  cases h : (natStr r).getLast? with
  | none => simp [natStr_ne_nil] at h
  | some x => exact ⟨x, rfl, natStr_digits r x (List.mem_of_getLast? h)⟩

theorem goodPrinter_rel : GoodPrinter cellCoord where
  half := fun c r rest h1 h2 h3 h4 => a1Half_cellCoord c r h1 h2 h3 rest h4
  chars := by
    intro c r x hx
    simp only [cellCoord, List.mem_append] at hx
    rcases hx with hx | hx
    · have := colLetters_chars c x hx; exact ⟨this.2.2.2.2.1, this.2.2.2.2.2.1⟩
    · split at hx
      · simp at hx
      · have := natStr_chars r x hx; exact ⟨this.2.2.2.2.1, this.2.2.2.2.2.1⟩
  last := by
    intro c r hr
    have : r ≠ 0 := by omega
    simp only [cellCoord, this, ↓reduceIte]
    exact getLast?_natStr r _

theorem goodPrinter_abs : GoodPrinter cellAbsCoord where
  half := fun c r rest h1 h2 _ h4 => a1Half_cellAbsCoord c r h1 h2 rest h4
  chars := by
    intro c r x hx
    simp only [cellAbsCoord, List.mem_cons, List.mem_append] at hx
    rcases hx with hx | hx | hx | hx
    · subst hx; decide
    · have := colLetters_chars c x hx; exact ⟨this.2.2.2.2.1, this.2.2.2.2.2.1⟩
    · subst hx; decide
    · have := natStr_chars r x hx; exact ⟨this.2.2.2.2.1, this.2.2.2.2.2.1⟩
  last := by
    intro c r _
    have : cellAbsCoord c r = ('$' :: (colLetters c ++ ['$'])) ++ natStr r := by simp [cellAbsCoord]
    rw [this]
    exact getLast?_natStr r _

/-- coordinate text of an address under a cell printer -/
def coordOf (pr : Nat → Nat → Str) (a : Addr) : Str :=
  if a.isRange then pr a.rect.c1 a.rect.r1 ++ ':' :: pr a.rect.c2 a.rect.r2 else pr a.rect.c1 a.rect.r1

/-- an address the printers are specified for: 1-based corners within the column-letter limit, and the
    object kind (`AddressRange` vs `AddressCell`) that `create` chooses for those corners -/
structure Addr.Printable (a : Addr) : Prop where
  c1 : 1 ≤ a.rect.c1 ∧ a.rect.c1 ≤ COL_LIMIT
  c2 : 1 ≤ a.rect.c2 ∧ a.rect.c2 ≤ COL_LIMIT
  r1 : 1 ≤ a.rect.r1
  r2 : 1 ≤ a.rect.r2
  kind : a.isRange = true ↔ (a.rect.c1, a.rect.r1) ≠ (a.rect.c2, a.rect.r2)

theorem a1Boundaries_coordOf (pr : Nat → Nat → Str) (hp : GoodPrinter pr) (a : Addr) (ha : a.Printable) :
    a1Boundaries (coordOf pr a) = some ⟨some a.rect.c1, some a.rect.r1, some a.rect.c2, some a.rect.r2⟩ := by
  unfold coordOf
  cases hk : a.isRange with
  | false =>
    have hk' : ¬ (a.rect.c1, a.rect.r1) ≠ (a.rect.c2, a.rect.r2) := by
      intro h; have := ha.kind.mpr h; rw [hk] at this; cases this
    simp only [ne_eq, Prod.mk.injEq, not_and, Classical.not_imp, Decidable.not_not] at hk'
    have h := hp.half a.rect.c1 a.rect.r1 [] ha.c1.1 ha.c1.2 ha.r1 (noHead_nil _)
    simp only [List.append_nil] at h
    simp only [Bool.false_eq_true, ↓reduceIte, a1Boundaries, h]
    rw [← hk'.1, ← hk'.2]
  | true =>
    have h1 := hp.half a.rect.c1 a.rect.r1 (':' :: pr a.rect.c2 a.rect.r2) ha.c1.1 ha.c1.2 ha.r1
      (noHead_cons _ _ _ (by decide))
    have h2 := hp.half a.rect.c2 a.rect.r2 [] ha.c2.1 ha.c2.2 ha.r2 (noHead_nil _)
    simp only [List.append_nil] at h2
    simp [a1Boundaries, h1, h2]

theorem coordOf_chars (pr : Nat → Nat → Str) (hp : GoodPrinter pr) (a : Addr) :
    '!' ∉ coordOf pr a ∧ '\'' ∉ coordOf pr a := by
  unfold coordOf
  constructor <;> (intro h; split at h)
  · simp only [List.mem_append, List.mem_cons] at h
    rcases h with h | h | h
    · exact (hp.chars _ _ _ h).1 rfl
    · cases h
    · exact (hp.chars _ _ _ h).1 rfl
  · exact (hp.chars _ _ _ h).1 rfl
  · simp only [List.mem_append, List.mem_cons] at h
    rcases h with h | h | h
    · exact (hp.chars _ _ _ h).2 rfl
    · cases h
    · exact (hp.chars _ _ _ h).2 rfl
  · exact (hp.chars _ _ _ h).2 rfl

theorem coordOf_last (pr : Nat → Nat → Str) (hp : GoodPrinter pr) (a : Addr) (ha : a.Printable) (pre : Str) :
    ∃ x, (pre ++ coordOf pr a).getLast? = some x ∧ isDigit x = true := by
  have key : ∀ (p : Str) c r, 1 ≤ r → ∃ x, (p ++ pr c r).getLast? = some x ∧ isDigit x = true := by
    intro p c r hr
    obtain ⟨x, hx, hd⟩ := hp.last c r hr
    exact ⟨x, by rw [List.getLast?_append, hx]; rfl, hd⟩
  unfold coordOf
  split
  · have := key (pre ++ (pr a.rect.c1 a.rect.r1 ++ [':'])) a.rect.c2 a.rect.r2 ha.r2
    simpa [List.append_assoc] using this
  · exact key pre _ _ ha.r1

theorem errorCodes_last : ∀ e ∈ errorCodes, ∀ x, e.getLast? = some x → isDigit x = false := by decide
theorem errorCodes_head : ∀ e ∈ errorCodes, e.head? = some '#' := by decide

theorem not_errorCode_of_last_digit (s : Str) (h : ∃ x, s.getLast? = some x ∧ isDigit x = true) :
    s ∉ errorCodes := by
  intro hm
  obtain ⟨x, hx, hd⟩ := h
  have := errorCodes_last s hm x hx
  rw [this] at hd; cases hd

theorem ofBounds_printable (sheet : Str) (a : Addr) (ha : a.Printable) :
    ofBounds sheet ⟨some a.rect.c1, some a.rect.r1, some a.rect.c2, some a.rect.r2⟩ =
      .ok ⟨a.isRange, ⟨sheet, a.rect.c1, a.rect.r1, a.rect.c2, a.rect.r2⟩⟩ := by
  unfold ofBounds
  simp only [Bounds.hasNone, Option.isNone_some, Bool.or_self, Bool.false_eq_true, ne_eq, Prod.mk.injEq,
    Option.some.injEq, false_or, Option.getD_some]
  cases hk : a.isRange with
  | true =>
    have := ha.kind.mp hk
    simp only [ne_eq, Prod.mk.injEq] at this
    rw [if_pos this]
    unfold mkRange
    rw [if_neg (by have := ha.c1.2; have := ha.c2.2; omega)]
  | false =>
    have hk' : ¬ (a.rect.c1, a.rect.r1) ≠ (a.rect.c2, a.rect.r2) := by
      intro h; have := ha.kind.mpr h; rw [hk] at this; cases this
    simp only [ne_eq, Prod.mk.injEq, Decidable.not_not] at hk'
    rw [if_neg (by simpa using hk')]
    unfold mkCell
    rw [if_neg (by have := ha.c1.2; omega), ← hk'.1, ← hk'.2]

/-- `create` on `pre ++ coordinate`, given that the sheet prefix `pre` is split off as `sheet` -/
theorem create_print (pr : Nat → Nat → Str) (hp : GoodPrinter pr) (a : Addr) (ha : a.Printable)
    (pre sheet : Str)
    (hsplit : ∀ coord : Str, '!' ∉ coord → '\'' ∉ coord → splitSheetname (pre ++ coord) [] = .ok (sheet, coord))
    (anchor : Option (Nat × Nat)) :
    create (pre ++ coordOf pr a) [] anchor =
      .ok (.addr ⟨a.isRange, ⟨sheet, a.rect.c1, a.rect.r1, a.rect.c2, a.rect.r2⟩⟩) := by
  have hne := not_errorCode_of_last_digit _ (coordOf_last pr hp a ha pre)
  have hch := coordOf_chars pr hp a
  have hs := hsplit _ hch.1 hch.2
  have hb := a1Boundaries_coordOf pr hp a ha
  unfold create
  rw [if_neg hne, hs]
  simp only [rangeBoundaries, boundsSimple, hb, Bounds.hasNone, Option.isNone_some, Bool.or_self, Bool.not_false,
    Bool.true_or, ↓reduceIte, ofBounds_printable sheet a ha]

/-! ### sheet prefixes -/

theorem split_generic (sh sheet coord : Str) (h1 : '!' ∉ sh) (h2 : unquoteSheetname sh = sheet)
    (h3 : '!' ∉ coord) (h4 : '\'' ∉ coord) : splitSheetname (sh ++ '!' :: coord) [] = .ok (sheet, coord) := by
  have hmem : '!' ∈ sh ++ '!' :: coord := by simp
  have hspan : spanP (fun x => decide (x ≠ '!')) (sh ++ '!' :: coord) = (sh, '!' :: coord) :=
    spanP_append _ _ _ (by intro c hc; simp only [ne_eq, decide_not, Bool.not_eq_eq_eq_not, Bool.not_true,
                                          decide_eq_false_iff_not]; intro h; subst h; exact h1 hc)
      (noHead_cons _ _ _ (by decide))
  unfold splitSheetname
  rw [if_pos hmem]
  simp only [hspan, List.tail_cons, h2]
  have hrem : removeAll ('\'' :: (esc sheet ++ ['\'', '!'])) coord = coord := removeAllAux_noquote _ _ _ h4
  rw [hrem, if_neg h3]
  simp

theorem split_none (coord : Str) (h3 : '!' ∉ coord) : splitSheetname coord [] = .ok ([], coord) := by
  unfold splitSheetname; rw [if_neg h3]

theorem unquote_plain (s : Str) (h : s.head? ≠ some '\'') : unquoteSheetname s = s := by
  unfold unquoteSheetname; rw [if_neg (fun hh => h hh.1)]

theorem bang_not_mem_quote (s : Str) (h : '!' ∉ s) : '!' ∉ quoteSheetname s := by
  unfold quoteSheetname
  intro hm
  simp only [List.mem_cons, List.mem_append, mem_esc, List.mem_nil_iff, or_false] at hm
  rcases hm with hm | hm | hm
  · cases hm
  · exact h hm
  · cases hm

/-- the sheet prefix printed by `quote_sheet` (quoted or not) is split off again -/
theorem split_quoteSheet (sheet coord : Str) (hb : '!' ∉ sheet) (hq : sheet.head? ≠ some '\'')
    (h3 : '!' ∉ coord) (h4 : '\'' ∉ coord) :
    splitSheetname (quoteSheet sheet ++ '!' :: coord) [] = .ok (sheet, coord) := by
  unfold quoteSheet
  split
  · exact split_generic _ _ _ (bang_not_mem_quote sheet hb) (unquote_quoteSheetname sheet) h3 h4
  · exact split_generic _ _ _ hb (unquote_plain sheet hq) h3 h4

end Pycel.Addr

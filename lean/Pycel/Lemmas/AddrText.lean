/-
  Helper lemmas for C11, part 2: decimal numbers, column letters, spans, sheet quoting.
-/
import Pycel.Model.Addr
namespace Pycel.Addr

/-- `rest` does not start with a character satisfying `p` -/
def NoHead (p : Char → Bool) (rest : Str) : Prop := ∀ c, rest.head? = some c → p c = false

theorem noHead_nil (p : Char → Bool) : NoHead p [] := by intro c h; simp at h
theorem noHead_cons (p : Char → Bool) (c : Char) (cs : Str) (h : p c = false) : NoHead p (c :: cs) := by
  intro d hd; simp at hd; subst hd; exact h

theorem spanP_append (p : Char → Bool) (a b : Str) (ha : ∀ c ∈ a, p c = true) (hb : NoHead p b) :
    spanP p (a ++ b) = (a, b) := by
  induction a with
  | nil =>
    cases b with
    | nil => rfl
    | cons c cs =>
      have := hb c rfl
      simp [spanP, this]
  | cons c cs ih =>
    have hc := ha c (List.mem_cons_self ..)
    have := ih (fun x hx => ha x (List.mem_cons_of_mem _ hx))
    simp [spanP, hc, this]

/-! ### characters -/

theorem digitChar_spec : ∀ d : Fin 10, isDigit (digitChar d.val) = true ∧ digitVal (digitChar d.val) = d.val ∧
    isLetter (digitChar d.val) = false ∧ digitChar d.val ≠ '$' ∧ digitChar d.val ≠ ':' ∧ digitChar d.val ≠ '!' ∧
    digitChar d.val ≠ '\'' ∧ digitChar d.val ≠ '-' ∧ digitChar d.val ≠ '[' ∧ digitChar d.val ≠ ']' := by decide

theorem letterChar_spec : ∀ d : Fin 27, 1 ≤ d.val → isLetter (letterChar d.val) = true ∧
    letterVal (letterChar d.val) = d.val ∧ isDigit (letterChar d.val) = false ∧ letterChar d.val ≠ '$' ∧
    letterChar d.val ≠ ':' ∧ letterChar d.val ≠ '!' ∧ letterChar d.val ≠ '\'' ∧ isUpper (letterChar d.val) = true := by
  decide

/-! ### decimal numbers -/

def valRev : List Nat → Nat
  | [] => 0
  | d :: ds => d + 10 * valRev ds

theorem digitsRev_lt (f n : Nat) : ∀ d ∈ digitsRev f n, d < 10 := by
  induction f generalizing n with
  | zero => simp [digitsRev]
  | succ f ih =>
    intro d hd
    simp only [digitsRev] at hd
    split at hd
    · simp at hd; omega
    · simp only [List.mem_cons] at hd
      rcases hd with h | h
      · omega
      · exact ih _ d h

theorem digitsRev_ne_nil (f n : Nat) : digitsRev (f+1) n ≠ [] := by
  simp only [digitsRev]; split <;> simp

theorem valRev_digitsRev (f n : Nat) (h : n < f) : valRev (digitsRev f n) = n := by
  induction f generalizing n with
  | zero => omega
  | succ f ih =>
    simp only [digitsRev]
    split
    · simp [valRev]
    · simp only [valRev]
      rw [ih (n / 10) (by omega)]; omega

theorem foldl_digits (ds : List Nat) (h : ∀ d ∈ ds, d < 10) (acc : Nat) :
    (ds.map digitChar).foldl (fun a c => a * 10 + digitVal c) acc = ds.foldl (fun a d => a * 10 + d) acc := by
  induction ds generalizing acc with
  | nil => rfl
  | cons d ds ih =>
    have hd := h d (List.mem_cons_self ..)
    have := (digitChar_spec ⟨d, hd⟩).2.1
    simp only [List.map, List.foldl]
    simp only at this
    rw [this]
    exact ih (fun x hx => h x (List.mem_cons_of_mem _ hx)) _

theorem foldl_reverse_valRev (ds : List Nat) : ds.reverse.foldl (fun a d => a * 10 + d) 0 = valRev ds := by
  induction ds with
  | nil => rfl
  | cons d ds ih =>
    simp only [List.reverse_cons, List.foldl_append, List.foldl, ih, valRev]; omega

/-- `int(str(n)) = n` -/
theorem decVal_natStr (n : Nat) : decVal (natStr n) = n := by
  unfold decVal natStr
  rw [foldl_digits _ (by intro d hd; exact digitsRev_lt _ _ d (List.mem_reverse.mp hd)),
    foldl_reverse_valRev, valRev_digitsRev _ _ (by omega)]

theorem natStr_ne_nil (n : Nat) : natStr n ≠ [] := by
  unfold natStr
  simp only [ne_eq, List.map_eq_nil_iff, List.reverse_eq_nil_iff]
  exact digitsRev_ne_nil n n

theorem natStr_mem (n : Nat) : ∀ c ∈ natStr n, ∃ d : Fin 10, c = digitChar d.val := by
  intro c hc
  unfold natStr at hc
  simp only [List.mem_map, List.mem_reverse] at hc
  obtain ⟨d, hd, rfl⟩ := hc
  exact ⟨⟨d, digitsRev_lt _ _ d hd⟩, rfl⟩

theorem natStr_digits (n : Nat) : ∀ c ∈ natStr n, isDigit c = true := by
  intro c hc
  obtain ⟨d, rfl⟩ := natStr_mem n c hc
  exact (digitChar_spec d).1

/-- every character of `str(n)` is a digit, in particular none of the separators -/
theorem natStr_chars (n : Nat) : ∀ c ∈ natStr n, isDigit c = true ∧ isLetter c = false ∧ c ≠ '$' ∧ c ≠ ':' ∧
    c ≠ '!' ∧ c ≠ '\'' ∧ c ≠ '-' ∧ c ≠ '[' ∧ c ≠ ']' := by
  intro c hc
  obtain ⟨d, rfl⟩ := natStr_mem n c hc
  have := digitChar_spec d
  exact ⟨this.1, this.2.2.1, this.2.2.2.1, this.2.2.2.2.1, this.2.2.2.2.2.1, this.2.2.2.2.2.2.1,
    this.2.2.2.2.2.2.2.1, this.2.2.2.2.2.2.2.2.1, this.2.2.2.2.2.2.2.2.2⟩

theorem natStr_head (n : Nat) : ∃ c cs, natStr n = c :: cs ∧ isDigit c = true := by
  cases h : natStr n with
  | nil => exact absurd h (natStr_ne_nil n)
  | cons c cs => exact ⟨c, cs, rfl, natStr_digits n c (by rw [h]; exact List.mem_cons_self ..)⟩

/-! ### column letters (bijective base 26) -/

def colVal : List Nat → Nat
  | [] => 0
  | d :: ds => d + 26 * colVal ds

theorem colDigitsRev_range (f n : Nat) : ∀ d ∈ colDigitsRev f n, 1 ≤ d ∧ d ≤ 26 := by
  induction f generalizing n with
  | zero => simp [colDigitsRev]
  | succ f ih =>
    intro d hd
    cases n with
    | zero => simp [colDigitsRev] at hd
    | succ n =>
      simp only [colDigitsRev, List.mem_cons] at hd
      rcases hd with h | h
      · omega
      · exact ih _ d h

theorem colVal_colDigitsRev (f n : Nat) (h : n ≤ f) : colVal (colDigitsRev f n) = n := by
  induction f generalizing n with
  | zero => have : n = 0 := by omega
            subst this; rfl
  | succ f ih =>
    cases n with
    | zero => rfl
    | succ n =>
      simp only [colDigitsRev, colVal]
      rw [ih (n / 26) (by omega)]; omega

/-- S 0 = 0, S (k+1) = 26 * S k + 26 : the largest index with k letters (26, 702, 18278) -/
def colCap : Nat → Nat
  | 0 => 0
  | k+1 => 26 * colCap k + 26

theorem colDigitsRev_length (k f n : Nat) (h : n ≤ colCap k) : (colDigitsRev f n).length ≤ k := by
  induction k generalizing f n with
  | zero =>
    have : n = 0 := by simp [colCap] at h; exact h
    subst this
    cases f <;> simp [colDigitsRev]
  | succ k ih =>
    cases f with
    | zero => simp [colDigitsRev]
    | succ f =>
      cases n with
      | zero => simp [colDigitsRev]
      | succ n =>
        simp only [colDigitsRev, List.length_cons]
        have := ih f (n / 26) (by simp only [colCap] at h; omega)
        omega

theorem colDigitsRev_ne_nil (f n : Nat) : colDigitsRev (f+1) (n+1) ≠ [] := by simp [colDigitsRev]

theorem foldl_letters (ds : List Nat) (h : ∀ d ∈ ds, 1 ≤ d ∧ d ≤ 26) (acc : Nat) :
    (ds.map letterChar).foldl (fun a c => a * 26 + letterVal c) acc = ds.foldl (fun a d => a * 26 + d) acc := by
  induction ds generalizing acc with
  | nil => rfl
  | cons d ds ih =>
    have hd := h d (List.mem_cons_self ..)
    have := (letterChar_spec ⟨d, by omega⟩ hd.1).2.1
    simp only [List.map, List.foldl]
    simp only at this
    rw [this]
    exact ih (fun x hx => h x (List.mem_cons_of_mem _ hx)) _

theorem foldl_reverse_colVal (ds : List Nat) : ds.reverse.foldl (fun a d => a * 26 + d) 0 = colVal ds := by
  induction ds with
  | nil => rfl
  | cons d ds ih =>
    simp only [List.reverse_cons, List.foldl_append, List.foldl, ih, colVal]; omega

/-- `column_index_from_string(get_column_letter(n)) = n`, for every n -/
theorem parseCol_colLetters (n : Nat) : parseCol (colLetters n) = n := by
  unfold parseCol colLetters
  rw [foldl_letters _ (by intro d hd; exact colDigitsRev_range _ _ d (List.mem_reverse.mp hd)),
    foldl_reverse_colVal, colVal_colDigitsRev _ _ (Nat.le_refl _)]

theorem colLetters_mem (n : Nat) : ∀ c ∈ colLetters n, ∃ d : Fin 27, 1 ≤ d.val ∧ c = letterChar d.val := by
  intro c hc
  unfold colLetters at hc
  simp only [List.mem_map, List.mem_reverse] at hc
  obtain ⟨d, hd, rfl⟩ := hc
  have := colDigitsRev_range _ _ d hd
  exact ⟨⟨d, by omega⟩, this.1, rfl⟩

theorem colLetters_chars (n : Nat) : ∀ c ∈ colLetters n, isLetter c = true ∧ isDigit c = false ∧ c ≠ '$' ∧
    c ≠ ':' ∧ c ≠ '!' ∧ c ≠ '\'' ∧ isUpper c = true := by
  intro c hc
  obtain ⟨d, h1, rfl⟩ := colLetters_mem n c hc
  have := letterChar_spec d h1
  exact ⟨this.1, this.2.2.1, this.2.2.2.1, this.2.2.2.2.1, this.2.2.2.2.2.1, this.2.2.2.2.2.2.1,
    this.2.2.2.2.2.2.2⟩

theorem colLetters_length (n : Nat) (h1 : 1 ≤ n) (h : n ≤ colCap 3) :
    1 ≤ (colLetters n).length ∧ (colLetters n).length ≤ 3 := by
  unfold colLetters
  simp only [List.length_map, List.length_reverse]
  refine ⟨?_, colDigitsRev_length 3 n n h⟩
  cases n with
  | zero => omega
  | succ n => simp [colDigitsRev]

theorem colLetters_ne_nil (n : Nat) (h1 : 1 ≤ n) : colLetters n ≠ [] := by
  cases n with
  | zero => omega
  | succ n => simp [colLetters, colDigitsRev]

/-! ### sheet names -/

theorem unesc_esc (s : Str) : unesc (esc s) = s := by
  induction s with
  | nil => rfl
  | cons c cs ih =>
    simp only [esc]
    split
    · rename_i h; subst h
      simp [unesc, ih]
    · rename_i h
      cases hcs : esc cs with
      | nil =>
        rw [hcs] at ih
        simp [unesc] at ih ⊢
        exact ih
      | cons d ds =>
        rw [hcs] at ih
        simp only [unesc, h, false_and, ↓reduceIte, ih]

theorem mem_esc (s : Str) (x : Char) : x ∈ esc s ↔ x ∈ s := by
  induction s with
  | nil => simp [esc]
  | cons c cs ih =>
    simp only [esc]
    split
    · rename_i h; subst h; simp [ih]
    · simp [ih]

/-- `unquote_sheetname(quote_sheetname(s)) = s` for EVERY name -/
theorem unquote_quoteSheetname (s : Str) : unquoteSheetname (quoteSheetname s) = s := by
  unfold unquoteSheetname quoteSheetname
  have h1 : ('\'' :: (esc s ++ ['\''])).head? = some '\'' := rfl
  have h2 : ('\'' :: (esc s ++ ['\''])).getLast? = some '\'' := by
    rw [show ('\'' :: (esc s ++ ['\''])) = ('\'' :: esc s) ++ ['\''] from rfl, List.getLast?_append]
    simp
  rw [if_pos ⟨h1, h2⟩]
  simp only [List.tail_cons, List.dropLast_concat]
  exact unesc_esc s

theorem removeAllAux_noquote (pat : Str) (f : Nat) (s : Str) (h : '\'' ∉ s) :
    removeAllAux ('\'' :: pat) f s = s := by
  induction f generalizing s with
  | zero => rfl
  | succ f ih =>
    cases s with
    | nil => rfl
    | cons c cs =>
      have hc : c ≠ '\'' := by intro h'; subst h'; simp at h
      have hcs : '\'' ∉ cs := by intro h'; exact h (List.mem_cons_of_mem _ h')
      have hne : ('\'' == c) = false := by simp [Ne.symm hc]
      simp only [removeAllAux, List.isPrefixOf, hne, Bool.false_and, Bool.false_eq_true, ↓reduceIte, ih cs hcs]

end Pycel.Addr

/-
  Lemmas for C05 (Model/Access.lean): idempotence of `evaluate`, the value of every access path depends on the current
  inputs only, dimension trimming, indexing of `Rect.rows`, the clip of an unbounded address.  Core Lean only.
-/
import Pycel.Model.Access
import Pycel.Lemmas.Engine
import Pycel.Lemmas.EngineInst
import Pycel.Lemmas.Addr
namespace Pycel.Access
open Pycel Pycel.Engine Pycel.Addr

variable {α β : Type} {wb : Workbook} {f : Nat → (Nat → α) → α}

/-! ### evaluate: value, idempotence -/

theorem evaluate_value (hwf : WF wb) (hl : Local wb f) {s : State α} (hinv : Inv wb f s) (a : Nat) :
    (evaluate wb f a s).1 = valueAt wb f s.inp a := by
  unfold valueAt
  split
  · rename_i h; exact (evaluate_spec hwf hl hinv a).val h
  · rename_i h; simp [evaluate, h]

/-- evaluating the same node again returns the same value and leaves the WHOLE state (cache, cell map, stored results,
    inputs) as it was -/
theorem evaluate_idem (hwf : WF wb) (hl : Local wb f) {s : State α} (hinv : Inv wb f s) (a : Nat) :
    evaluate wb f a (evaluate wb f a s).2 = evaluate wb f a s := by
  have p := evaluate_spec hwf hl hinv a
  by_cases ha : a < wb.n
  · generalize hr : evaluate wb f a s = r at p
    obtain ⟨v, s'⟩ := r
    have hb : s'.built a = true := p.done ha
    have hbuild : buildF wb f (a+1) a s' = s' := by simp [buildF, hb]
    have hval : v = denote wb f s.inp a := p.val ha
    show evaluate wb f a s' = (v, s')
    unfold evaluate
    rw [if_pos ha, hbuild]
    by_cases hk : wb.kind a = .input
    · have : evalF wb f (a+1) a s' = (s'.inp a, s') := by simp [evalF, hk]
      rw [this, hval, denote_input _ hk]
      have : s'.inp = s.inp := p.inp
      rw [this]
    · have hc := p.cached ha hk
      cases hca : s'.cache a with
      | none => exact absurd hca hc
      | some v' =>
        have : evalF wb f (a+1) a s' = (v', s') := by
          cases hk' : wb.kind a
          · exact absurd hk' hk
          all_goals simp [evalF, hk', hca]
        rw [this]
        have h1 := p.inv.i1 a v' hca
        have : s'.inp = s.inp := p.inp
        rw [this] at h1
        rw [h1, hval]
  · simp [evaluate, ha]

/-! ### every path: value = from-scratch value at the current inputs; invariant and inputs preserved -/

structure PathPost (wb : Workbook) (f : Nat → (Nat → α) → α) (s s' : State α) : Prop where
  inv : Inv wb f s'
  inp : s'.inp = s.inp
  mono : ∀ m, s.built m = true → s'.built m = true
  keeps : ∀ m, s.cache m ≠ none → s'.cache m ≠ none

theorem PathPost.refl {s : State α} (h : Inv wb f s) : PathPost wb f s s := ⟨h, rfl, fun _ h => h, fun _ h => h⟩

theorem PathPost.trans {s s' s'' : State α} (h1 : PathPost wb f s s') (h2 : PathPost wb f s' s'') :
    PathPost wb f s s'' :=
  ⟨h2.inv, h2.inp.trans h1.inp, fun m hm => h2.mono m (h1.mono m hm), fun m hm => h2.keeps m (h1.keeps m hm)⟩

theorem PathPost.of_evaluate (hwf : WF wb) (hl : Local wb f) {s : State α} (hinv : Inv wb f s) (a : Nat) :
    PathPost wb f s (evaluate wb f a s).2 :=
  let p := evaluate_spec hwf hl hinv a
  ⟨p.inv, p.inp, p.mono, p.keeps⟩

variable {L : Layout} {T : Tup α β}

theorem evalRect_spec (hwf : WF wb) (hl : Local wb f) {s : State α} (hinv : Inv wb f s) (R : Rect) :
    (evalRect wb f L T R s).1 = denoteRect wb f L T s.inp R ∧ PathPost wb f s (evalRect wb f L T R s).2 := by
  unfold evalRect denoteRect
  split
  · exact ⟨by simp only [evaluate_value hwf hl hinv], PathPost.of_evaluate hwf hl hinv _⟩
  · cases L.rangeNode R with
    | none => exact ⟨rfl, PathPost.refl hinv⟩
    | some r => exact ⟨by simp only [evaluate_value hwf hl hinv], PathPost.of_evaluate hwf hl hinv _⟩

theorem evalPath_spec (hwf : WF wb) (hl : Local wb f) {s : State α} (hinv : Inv wb f s) (p : Path) :
    (evalPath wb f L T p s).1 = denotePath wb f L T s.inp p ∧ PathPost wb f s (evalPath wb f L T p s).2 := by
  cases p with
  | cell c =>
    exact ⟨by simp only [evalPath, denotePath, evaluate_value hwf hl hinv], PathPost.of_evaluate hwf hl hinv _⟩
  | range R => exact evalRect_spec hwf hl hinv _
  | unbounded u =>
    simp only [evalPath, denotePath]
    cases clip (L.rectAt u) (L.used (L.rectAt u).sheet).1 (L.used (L.rectAt u).sheet).2 with
    | none => exact ⟨rfl, PathPost.refl hinv⟩
    | some R => exact evalRect_spec hwf hl hinv R

theorem evalPaths_spec (hwf : WF wb) (hl : Local wb f) :
    ∀ (ps : List Path) {s : State α}, Inv wb f s →
      (evalPaths wb f L T ps s).1 = ps.map (denotePath wb f L T s.inp) ∧
      PathPost wb f s (evalPaths wb f L T ps s).2 := by
  intro ps
  induction ps with
  | nil => intro s h; exact ⟨rfl, PathPost.refl h⟩
  | cons p ps ih =>
    intro s h
    have a := evalPath_spec (L := L) (T := T) hwf hl h p
    have b := ih (s := (evalPath wb f L T p s).2) a.2.inv
    simp only [evalPaths, List.map_cons]
    refine ⟨?_, a.2.trans b.2⟩
    rw [a.1, b.1, a.2.inp]

theorem evalArg_spec (hwf : WF wb) (hl : Local wb f) {s : State α} (hinv : Inv wb f s) (a : Arg) :
    (evalArg wb f L T a s).1 = denoteArg wb f L T s.inp a ∧ PathPost wb f s (evalArg wb f L T a s).2 := by
  cases a with
  | one p =>
    have := evalPath_spec (L := L) (T := T) hwf hl hinv p
    exact ⟨by simp only [evalArg, denoteArg, this.1], this.2⟩
  | many k ps =>
    have := evalPaths_spec (L := L) (T := T) hwf hl ps hinv
    exact ⟨by simp only [evalArg, denoteArg, this.1], this.2⟩

/-- evaluating a path a second time: same value, state untouched -/
theorem evalRect_idem (hwf : WF wb) (hl : Local wb f) {s : State α} (hinv : Inv wb f s) (R : Rect) :
    evalRect wb f L T R (evalRect wb f L T R s).2 = evalRect wb f L T R s := by
  unfold evalRect
  split
  · simp only [evaluate_idem hwf hl hinv]
  · cases L.rangeNode R with
    | none => rfl
    | some r => simp only [evaluate_idem hwf hl hinv]

theorem evalPath_idem (hwf : WF wb) (hl : Local wb f) {s : State α} (hinv : Inv wb f s) (p : Path) :
    evalPath wb f L T p (evalPath wb f L T p s).2 = evalPath wb f L T p s := by
  cases p with
  | cell c => simp only [evalPath, evaluate_idem hwf hl hinv]
  | range R => exact evalRect_idem hwf hl hinv _
  | unbounded u =>
    simp only [evalPath]
    cases clip (L.rectAt u) (L.used (L.rectAt u).sheet).1 (L.used (L.rectAt u).sheet).2 with
    | none => rfl
    | some R => exact evalRect_idem hwf hl hinv R

/-! ### histories over paths -/

theorem stepP_inv (hwf : WF wb) (hl : Local wb f) (eqv : α → α → Bool) {s : State α} (hinv : Inv wb f s)
    (op : POp α) : Inv wb f (stepP wb f L T eqv s op) := by
  cases op with
  | set i v => exact setValue_inv hwf hl eqv hinv i v
  | eval a => exact (evalArg_spec hwf hl hinv a).2.inv

theorem runP_inv (hwf : WF wb) (hl : Local wb f) (eqv : α → α → Bool) (h : List (POp α)) :
    ∀ {s : State α}, Inv wb f s → Inv wb f (runP wb f L T eqv s h) := by
  induction h with
  | nil => intro s hs; exact hs
  | cons op h ih => intro s hs; exact ih (stepP_inv hwf hl eqv hs op)

theorem runP_append (eqv : α → α → Bool) (s : State α) (h h' : List (POp α)) :
    runP wb f L T eqv s (h ++ h') = runP wb f L T eqv (runP wb f L T eqv s h) h' := by
  simp [runP, List.foldl_append]

theorem outputsP_append (eqv : α → α → Bool) (h h' : List (POp α)) :
    ∀ s : State α, outputsP wb f L T eqv s (h ++ h') =
      outputsP wb f L T eqv s h ++ outputsP wb f L T eqv (runP wb f L T eqv s h) h' := by
  induction h with
  | nil => intro s; simp [outputsP, runP]
  | cons op h ih =>
    intro s
    cases op with
    | set i v => simp [outputsP, runP, stepP, ih]
    | eval a => simp [outputsP, runP, stepP, ih]

/-- a history of evaluations only (any addresses, any paths, any repetitions) never changes an input, never removes a
    cell from the cell map, never empties a cache entry -/
theorem runP_evals (hwf : WF wb) (hl : Local wb f) (eqv : α → α → Bool) :
    ∀ (as : List Arg) {s : State α}, Inv wb f s →
      PathPost wb f s (runP wb f L T eqv s (as.map POp.eval)) := by
  intro as
  induction as with
  | nil => intro s h; exact PathPost.refl h
  | cons a as ih =>
    intro s h
    have p := (evalArg_spec (L := L) (T := T) hwf hl h a).2
    have q := ih (s := (evalArg wb f L T a s).2) p.inv
    have : runP wb f L T eqv s ((a :: as).map POp.eval) =
        runP wb f L T eqv (evalArg wb f L T a s).2 (as.map POp.eval) := by simp [runP, stepP]
    rw [this]
    exact p.trans q

/-- the values returned by a history of evaluations: each is the from-scratch value at the (unchanged) inputs -/
theorem outputsP_evals (hwf : WF wb) (hl : Local wb f) (eqv : α → α → Bool) :
    ∀ (as : List Arg) {s : State α}, Inv wb f s →
      outputsP wb f L T eqv s (as.map POp.eval) = as.map fun a => some (denoteArg wb f L T s.inp a) := by
  intro as
  induction as with
  | nil => intro s _; rfl
  | cons a as ih =>
    intro s h
    have p := evalArg_spec (L := L) (T := T) hwf hl h a
    simp only [List.map_cons, outputsP]
    rw [ih p.2.inv, p.1, p.2.inp]

/-- node level: a history of evaluations never changes an input … -/
theorem run_evals (hwf : WF wb) (hl : Local wb f) (eqv : α → α → Bool) :
    ∀ (as : List Nat) {s : State α}, Inv wb f s → PathPost wb f s (run wb f eqv s (as.map Op.eval)) := by
  intro as
  induction as with
  | nil => intro s h; exact PathPost.refl h
  | cons a as ih =>
    intro s h
    have p := PathPost.of_evaluate hwf hl h a
    have q := ih (s := (evaluate wb f a s).2) p.inv
    have : run wb f eqv s ((a :: as).map Op.eval) = run wb f eqv (evaluate wb f a s).2 (as.map Op.eval) := by
      simp [run, step]
    rw [this]
    exact p.trans q

/-- … and returns, for each address, the from-scratch value at those inputs -/
theorem outputs_evals (hwf : WF wb) (hl : Local wb f) (eqv : α → α → Bool) :
    ∀ (as : List Nat) {s : State α}, Inv wb f s →
      outputs wb f eqv s (as.map Op.eval) = as.map fun a => some (valueAt wb f s.inp a) := by
  intro as
  induction as with
  | nil => intro s _; rfl
  | cons a as ih =>
    intro s h
    have p := PathPost.of_evaluate hwf hl h a
    simp only [List.map_cons, outputs]
    rw [ih p.inv, evaluate_value hwf hl h, p.inp]

/-! ### dimension trimming -/

/-- `rows` is an `h × w` table -/
def IsTable (rows : List (List β)) (h w : Nat) : Prop := rows.length = h ∧ ∀ r ∈ rows, r.length = w

theorem filterMap_head_col (rows : List (List β)) (hw : ∀ r ∈ rows, r.length = 1) :
    rows.filterMap List.head? = rows.flatten := by
  induction rows with
  | nil => rfl
  | cons r rows ih =>
    have h1 := hw r (by simp)
    match r, h1 with
    | [v], _ =>
      simp only [List.filterMap_cons, List.head?_cons, List.flatten_cons, List.singleton_append]
      rw [ih (fun r hr => hw r (by simp [hr]))]

theorem trimDims_1x1 (v : β) : trimDims [[v]] = .sc v := rfl

theorem trimDims_col (rows : List (List β)) (h : Nat) (ht : IsTable rows h 1) (hh : 2 ≤ h) :
    trimDims rows = .vec rows.flatten := by
  obtain ⟨hlen, hw⟩ := ht
  match rows, hlen, hw with
  | r0 :: r1 :: rest, _, hw =>
    have e := filterMap_head_col (r0 :: r1 :: rest) hw
    have h0 := hw r0 (by simp)
    have h1 := hw r1 (by simp)
    unfold trimDims
    simp only [h0, ↓reduceIte]
    rw [e]
    match r0, h0, r1, h1 with
    | [a], _, [b], _ => simp
  | [], hlen, _ => simp at hlen; omega
  | [_], hlen, _ => simp at hlen; omega

theorem trimDims_row (r : List β) (hw : r.length ≠ 1) : trimDims [r] = .vec r := by
  simp [trimDims, hw]

theorem trimDims_grid (rows : List (List β)) (h w : Nat) (ht : IsTable rows h w) (hh : 2 ≤ h) (hw : w ≠ 1) :
    trimDims rows = .grid rows := by
  obtain ⟨hlen, hwid⟩ := ht
  match rows, hlen, hwid with
  | r0 :: r1 :: rest, _, hwid =>
    have h0 := hwid r0 (by simp)
    simp [trimDims, h0, hw]
  | [], hlen, _ => simp at hlen; omega
  | [_], hlen, _ => simp at hlen; omega

theorem flatten_col_getElem? (rows : List (List β)) (hw : ∀ r ∈ rows, r.length = 1) (i : Nat) :
    rows.flatten[i]? = (rows[i]?).bind (·[0]?) := by
  induction rows generalizing i with
  | nil => simp
  | cons r rows ih =>
    have h1 := hw r (by simp)
    match r, h1 with
    | [v], _ =>
      cases i with
      | zero => simp
      | succ i =>
        simp only [List.flatten_cons, List.singleton_append, List.getElem?_cons_succ]
        exact ih (fun r hr => hw r (by simp [hr])) i

/-- reading element (i, j) from the trimmed result gives element (i, j) of the untrimmed table -/
theorem trimDims_elem (rows : List (List β)) (h w i j : Nat) (ht : IsTable rows h w) (hh : 1 ≤ h) (hw : 1 ≤ w)
    (hi : i < h) (hj : j < w) :
    (trimDims rows).elem h w i j = (rows[i]?).bind (·[j]?) := by
  by_cases h1 : h = 1
  · subst h1
    obtain ⟨hlen, hwid⟩ := ht
    match rows, hlen, hwid with
    | [r], _, hwid =>
      have hr := hwid r (by simp)
      have hi0 : i = 0 := by omega
      subst hi0
      by_cases w1 : w = 1
      · subst w1
        have hj0 : j = 0 := by omega
        subst hj0
        match r, hr with
        | [v], _ => simp [trimDims, Out.elem]
      · rw [trimDims_row r (by omega)]
        simp [Out.elem, w1]
  · by_cases w1 : w = 1
    · subst w1
      have hj0 : j = 0 := by omega
      subst hj0
      rw [trimDims_col rows h ht (by omega)]
      simp only [Out.elem, ↓reduceIte]
      exact flatten_col_getElem? rows ht.2 i
    · rw [trimDims_grid rows h w ht (by omega) w1]
      rfl

/-! ### indexing `Rect.rows` -/

theorem rows_isTable (R : Rect) : IsTable R.rows (R.r2 + 1 - R.r1) (R.c2 + 1 - R.c1) := by
  constructor
  · simp [Rect.rows, Rect.rowIdxs]
  · intro r hr
    simp only [Rect.rows, List.mem_map] at hr
    obtain ⟨_, _, rfl⟩ := hr
    simp [Rect.colIdxs]

theorem rows_getElem? (R : Rect) (i j : Nat) (hi : i < R.r2 + 1 - R.r1) (hj : j < R.c2 + 1 - R.c1) :
    (R.rows[i]?).bind (·[j]?) = some ⟨R.sheet, R.c1 + j, R.r1 + i⟩ := by
  simp only [Rect.rows, Rect.rowIdxs, Rect.colIdxs, List.getElem?_map]
  simp [hi, hj]

theorem map_rows_getElem? {γ : Type} (g : Cell → γ) (R : Rect) (i j : Nat) (hi : i < R.r2 + 1 - R.r1)
    (hj : j < R.c2 + 1 - R.c1) :
    ((R.rows.map (·.map g))[i]?).bind (·[j]?) = some (g ⟨R.sheet, R.c1 + j, R.r1 + i⟩) := by
  have := rows_getElem? R i j hi hj
  simp only [List.getElem?_map]
  cases h : R.rows[i]? with
  | none => simp [h] at this
  | some row =>
    simp only [h, Option.bind_some, Option.map_some, List.getElem?_map] at this ⊢
    rw [this]; rfl

theorem map_isTable {γ δ : Type} (g : γ → δ) (rows : List (List γ)) (h w : Nat) (ht : IsTable rows h w) :
    IsTable (rows.map (·.map g)) h w := by
  constructor
  · simp [ht.1]
  · intro r hr
    simp only [List.mem_map] at hr
    obtain ⟨r', hr', rfl⟩ := hr
    simp [ht.2 r' hr']

/-! ### the clip of an unbounded address -/

theorem maxRow_val : (MAX_ROW : Int) = 1048576 := by decide
theorem maxCol_val : (MAX_COL : Int) = 16384 := by decide


/-- the cells an unbounded address denotes: whole columns `c1..c2` (r1 = 0) or whole rows `r1..r2` -/
def inUnbounded (u : Rect) (c : Cell) : Prop :=
  if u.r1 = 0 then u.c1 ≤ c.col ∧ c.col ≤ u.c2 else u.r1 ≤ c.row ∧ c.row ≤ u.r2

/-- the used area of a sheet as openpyxl reports it: `(1, 1, max_column, max_row)` -/
def usedRect (sheet : Str) (mc mr : Nat) : Rect := ⟨sheet, 1, 1, mc, mr⟩

theorem clip_spec (u : Rect) (mc mr : Nat) (hu : if u.r1 = 0 then 1 ≤ u.c1 else True) :
    match clip u mc mr with
    | some R => ∀ c, c ∈ R.cells ↔ (c.sheet = u.sheet ∧ inUnbounded u c ∧ (usedRect u.sheet mc mr).contains c = true)
    | none => ∀ c, ¬ (inUnbounded u c ∧ (usedRect u.sheet mc mr).contains c = true) := by
  unfold clip inUnbounded usedRect
  by_cases h0 : u.r1 = 0
  · simp only [h0, ↓reduceIte] at hu ⊢
    by_cases hc : u.c1 ≤ mc ∧ 1 ≤ mr
    · rw [if_pos hc]
      intro c
      simp only [mem_cells, contains_iff]
      constructor
      · rintro ⟨h, hs⟩; exact ⟨hs, by omega, by omega⟩
      · rintro ⟨hs, h1, h2⟩; exact ⟨by omega, hs⟩
    · rw [if_neg hc]
      intro c
      simp only [contains_iff]
      omega
  · simp only [h0, ↓reduceIte]
    by_cases hc : u.r1 ≤ mr ∧ 1 ≤ mc
    · rw [if_pos hc]
      intro c
      simp only [mem_cells, contains_iff]
      constructor
      · rintro ⟨h, hs⟩; exact ⟨hs, by omega, by omega⟩
      · rintro ⟨hs, h1, h2⟩; exact ⟨by omega, hs⟩
    · rw [if_neg hc]
      intro c
      simp only [contains_iff]
      omega

/-- what the code computes (`address & AddressRange((1, 1, max_col, max_row))`) is the clip, for every used area of the
    sheet (`mr ≤ MAX_ROW` / `mc ≤ MAX_COL` hold for every sheet), the last row / column included -/
theorem inter_used_cols (s : Str) (c1 c2 mc mr : Nat) (h1 : 1 ≤ c1) (h2 : c1 ≤ c2) (hmc : 1 ≤ mc) (hmr : 1 ≤ mr)
    (hr : mr ≤ MAX_ROW) :
    (⟨s, c1, 0, c2, 0⟩ : Rect).inter (usedRect s mc mr) =
      match clip ⟨s, c1, 0, c2, 0⟩ mc mr with
      | some R => .rect R
      | none => .null := by
  have := inter_unbounded_cols s c1 c2 mc mr h1 h2 hmc hmr hr
  unfold usedRect clip
  rw [this]
  by_cases h : c1 ≤ mc <;> simp [h, hmr]

theorem inter_used_rows (s : Str) (r1 r2 mc mr : Nat) (h1 : 1 ≤ r1) (h2 : r1 ≤ r2) (hmc : 1 ≤ mc) (hmr : 1 ≤ mr)
    (hc : mc ≤ MAX_COL) :
    (⟨s, 0, r1, 0, r2⟩ : Rect).inter (usedRect s mc mr) =
      match clip ⟨s, 0, r1, 0, r2⟩ mc mr with
      | some R => .rect R
      | none => .null := by
  have := inter_unbounded_rows s r1 r2 mc mr h1 h2 hmc hmr hc
  have e : ¬ r1 = 0 := by omega
  unfold usedRect clip
  rw [this]
  by_cases h : r1 ≤ mr <;> simp [h, hmc, e]

/-! ### layouts: a range node is the row-major tuple of the nodes of its cells -/

structure LayoutOK (wb : Workbook) (f : Nat → (Nat → α) → α) (L : Layout) (T : Tup α β) : Prop where
  range_node : ∀ R r, L.rangeNode R = some r → r < wb.n ∧ wb.kind r = .range
  range_deps : ∀ R r, L.rangeNode R = some r → ∀ c, c ∈ R.cells → L.cellNode c ∈ wb.deps r
  range_sem : ∀ R r, L.rangeNode R = some r → ∀ env,
    f r env = T.tup (R.rows.map (·.map fun c => env (L.cellNode c)))

theorem denote_range (hwf : WF wb) (hl : Local wb f) (ok : LayoutOK wb f L T) (inp : Nat → α) {R : Rect} {r : Nat}
    (hr : L.rangeNode R = some r) :
    denote wb f inp r = T.tup (R.rows.map (·.map fun c => denote wb f inp (L.cellNode c))) := by
  have hk := (ok.range_node R r hr).2
  rw [denote_node hwf hl inp (by rw [hk]; simp), ok.range_sem R r hr]

theorem member_lt (hwf : WF wb) (ok : LayoutOK wb f L T) {R : Rect} {r : Nat} (hr : L.rangeNode R = some r)
    {c : Cell} (hc : c ∈ R.cells) : L.cellNode c < wb.n := by
  have := hwf.lt r _ (ok.range_deps R r hr c hc)
  have := (ok.range_node R r hr).1
  omega

/-- element (row of c − top row, column of c − left column) of the value of a range path is the value of the cell -/
theorem denoteRect_elem_range (hwf : WF wb) (hl : Local wb f) (ok : LayoutOK wb f L T) (inp : Nat → α) {R : Rect}
    {r : Nat} (hn : isCellRect R = false) (hr : L.rangeNode R = some r) {c : Cell}
    (hc : R.contains c = true) (hs : c.sheet = R.sheet) :
    (denoteRect wb f L T inp R).elem (R.r2 + 1 - R.r1) (R.c2 + 1 - R.c1) (c.row - R.r1) (c.col - R.c1) =
      some (T.scal (denote wb f inp (L.cellNode c))) := by
  have hcc := (contains_iff R c).mp hc
  unfold denoteRect
  rw [hn]
  simp only [Bool.false_eq_true, ↓reduceIte, hr]
  have hrn := (ok.range_node R r hr).1
  have : valueAt wb f inp r = denote wb f inp r := by simp [valueAt, hrn]
  rw [this, denote_range hwf hl ok inp hr, T.untup_tup]
  have ht := map_isTable T.scal _ _ _
    (map_isTable (fun c => denote wb f inp (L.cellNode c)) R.rows _ _ (rows_isTable R))
  rw [trimDims_elem _ _ _ _ _ ht (by omega) (by omega) (by omega) (by omega)]
  simp only [List.map_map]
  have e : ((fun (x : List α) => x.map T.scal) ∘ fun (x : List Cell) => x.map fun c => denote wb f inp (L.cellNode c))
      = fun (x : List Cell) => x.map fun c => T.scal (denote wb f inp (L.cellNode c)) := by
    funext x; simp [List.map_map, Function.comp_def]
  rw [e, map_rows_getElem? (fun c => T.scal (denote wb f inp (L.cellNode c))) R _ _ (by omega) (by omega)]
  have : (⟨R.sheet, R.c1 + (c.col - R.c1), R.r1 + (c.row - R.r1)⟩ : Cell) = c := by
    cases c; simp only [Cell.mk.injEq] at *
    exact ⟨hs.symm, by omega, by omega⟩
  rw [this]

theorem denoteRect_elem_cell (inp : Nat → α) {R : Rect} (hn : isCellRect R = true) {c : Cell}
    (hc : R.contains c = true) (hs : c.sheet = R.sheet) (hlt : L.cellNode c < wb.n) :
    (denoteRect wb f L T inp R).elem (R.r2 + 1 - R.r1) (R.c2 + 1 - R.c1) (c.row - R.r1) (c.col - R.c1) =
      some (T.scal (denote wb f inp (L.cellNode c))) := by
  have hcc := (contains_iff R c).mp hc
  simp only [isCellRect, Bool.and_eq_true, beq_iff_eq] at hn
  have : (⟨R.sheet, R.c1, R.r1⟩ : Cell) = c := by
    cases c; simp only [Cell.mk.injEq] at *
    exact ⟨hs.symm, by omega, by omega⟩
  unfold denoteRect
  simp only [isCellRect, hn.1, hn.2, beq_self_eq_true, Bool.and_self, ↓reduceIte]
  rw [← hn.1, ← hn.2, this]
  have e1 : R.r1 + 1 - R.r1 = 1 := by omega
  have e2 : R.c1 + 1 - R.c1 = 1 := by omega
  have e3 : c.row - R.r1 = 0 := by omega
  have e4 : c.col - R.c1 = 0 := by omega
  simp [Out.elem, e1, e2, e3, e4, valueAt, hlt]

/-! ### the driver's layout satisfies `LayoutOK` whenever its run-time check passes -/

section Inst
open Pycel.EngineInst

theorem lookupRect_mem {tbl : List (Rect × Nat)} {R : Rect} {r : Nat} (h : lookupRect tbl R = some r) :
    (R, r) ∈ tbl := by
  unfold lookupRect at h
  cases hf : tbl.find? (fun e => e.1 = R) with
  | none => simp [hf] at h
  | some e =>
    simp only [hf, Option.map_some, Option.some.injEq] at h
    have hm := List.mem_of_find?_eq_some hf
    have hp := List.find?_some hf
    simp only [decide_eq_true_eq] at hp
    obtain ⟨e1, e2⟩ := e
    simp only at hp h
    subst hp; subst h
    exact hm

theorem layoutOK_of_check (specs : List Spec) (active : Str) (cells : List (Cell × Nat)) (ranges : List (Rect × Nat))
    (used : List (Str × Nat × Nat)) (dflt : Nat) (h : layoutCheck specs cells ranges dflt = true) :
    LayoutOK (mkWb specs) (sem specs) (mkLayout active cells ranges used dflt) evTup := by
  have key : ∀ R r, lookupRect ranges R = some r →
      specs[r]? = some (.rng (R.rows.map fun row => row.map (lookupCell cells dflt))) := by
    intro R r hr
    have hm := lookupRect_mem hr
    have := (List.all_eq_true.mp h) (R, r) hm
    simp only at this
    cases hs : specs[r]? with
    | none => simp [hs] at this
    | some sp =>
      cases sp with
      | inp v => simp [hs] at this
      | fml e => simp [hs] at this
      | rng rows =>
        simp only [hs, decide_eq_true_eq] at this
        rw [this]
  refine ⟨?_, ?_, ?_⟩
  · intro R r hr
    have hs := key R r hr
    have hlt : r < specs.length := by
      rcases Nat.lt_or_ge r specs.length with h | h
      · exact h
      · rw [List.getElem?_eq_none h] at hs; simp at hs
    exact ⟨hlt, by simp [mkWb, hs]⟩
  · intro R r hr c hc
    have hs := key R r hr
    simp only [mkWb, hs, Spec.deps, mkLayout]
    simp only [Rect.cells, List.mem_flatten] at hc
    obtain ⟨row, hrow, hcr⟩ := hc
    exact List.mem_flatten.mpr ⟨row.map (lookupCell cells dflt), List.mem_map.mpr ⟨row, hrow, rfl⟩,
      List.mem_map.mpr ⟨c, hcr, rfl⟩⟩
  · intro R r hr env
    have hs := key R r hr
    simp only [sem, hs, evTup, mkLayout, List.map_map]
    congr 2
    funext row
    simp [List.map_map, Function.comp_def]

end Inst

end Pycel.Access

/-
  Helper lemmas for the array (CSE) model `Pycel/Model/Arrays.lean` (property C13).
  Core Lean only (simp / omega); no Mathlib.
-/
import Pycel.Model.Arrays
namespace Pycel.Arrays
open Pycel

theorem tab_rect (h w : Nat) (g : Nat → Nat → Val) : Rect (tab h w g) h w := by
  constructor
  · simp [tab]
  · intro row hrow
    simp only [tab, List.mem_map, List.mem_range] at hrow
    obtain ⟨i, _, rfl⟩ := hrow
    simp

theorem at2_tab (h w : Nat) (g : Nat → Nat → Val) (i j : Nat) (hi : i < h) (hj : j < w) :
    at2 (tab h w g) i j = g i j := by
  simp [at2, tab, hi, hj]

theorem width_of_rect {a : Arr} {h w : Nat} (hr : Rect a h w) (hpos : 0 < h) : width a = w := by
  obtain ⟨hl, hrow⟩ := hr
  cases a with
  | nil => simp at hl; omega
  | cons x xs => simpa [width] using hrow x (by simp)

theorem height_of_rect {a : Arr} {h w : Nat} (hr : Rect a h w) : height a = h := hr.1

/-- the row `a[i]` of a rectangular array has the array's width -/
theorem row_length {a : Arr} {h w : Nat} (hr : Rect a h w) {i : Nat} (hi : i < h) :
    ∃ row, a[i]? = some row ∧ row.length = w := by
  obtain ⟨hl, hrow⟩ := hr
  have : i < a.length := by omega
  exact ⟨a[i], by simp [this], hrow _ (List.getElem_mem _)⟩

theorem at2?_eq_some {a : Arr} {h w : Nat} (hr : Rect a h w) {i j : Nat} (hi : i < h) (hj : j < w) :
    at2? a i j = some (at2 a i j) := by
  obtain ⟨row, h1, h2⟩ := row_length hr hi
  have : j < row.length := by omega
  simp [at2?, at2, h1, this]

/-! ### fit_to_range -/

theorem repeatRow_singleton (v : Val) (n : Nat) : repeatRow [v] n = List.replicate n v := by
  induction n with
  | zero => rfl
  | succ n ih => simp only [repeatRow] at ih ⊢; simp [List.replicate_succ, ih]

theorem fitWidth_rect {a : Arr} {rh rw : Nat} (hr : Rect a rh rw) (w : Nat) :
    Rect (fitWidth a rw w) rh w := by
  obtain ⟨hl, hrow⟩ := hr
  unfold fitWidth
  split
  · rename_i hc
    refine ⟨by simpa using hl, ?_⟩
    intro row hmem
    simp only [List.mem_map] at hmem
    obtain ⟨r0, hr0, rfl⟩ := hmem
    have := hrow r0 hr0
    match r0, this with
    | [v], _ => simp [repeatRow_singleton]
    | [], h => simp [hc.1] at h
    | _ :: _ :: _, h => simp [hc.1] at h
  · split
    · refine ⟨by simpa using hl, ?_⟩
      intro row hmem
      simp only [List.mem_map] at hmem
      obtain ⟨r0, hr0, rfl⟩ := hmem
      have := hrow r0 hr0
      simp; omega
    · split
      · refine ⟨by simpa using hl, ?_⟩
        intro row hmem
        simp only [List.mem_map] at hmem
        obtain ⟨r0, hr0, rfl⟩ := hmem
        have := hrow r0 hr0
        simp; omega
      · have : rw = w := by omega
        exact ⟨hl, this ▸ hrow⟩

theorem fitWidth_at2 {a : Arr} {rh rw : Nat} (hr : Rect a rh rw) (hrw : 0 < rw) (w : Nat)
    {i j : Nat} (hi : i < rh) (hj : j < w) :
    at2 (fitWidth a rw w) i j = if rw = 1 ∨ j < rw then at2 a i (bidx rw j) else na := by
  obtain ⟨row, h1, h2⟩ := row_length hr hi
  unfold fitWidth
  split
  · rename_i hc
    match row, h2 with
    | [v], _ => simp [at2, h1, hc.1, bidx, repeatRow_singleton, hj]
    | [], h => simp [hc.1] at h
    | _ :: _ :: _, h => simp [hc.1] at h
  · split
    · rename_i hc1 hc2
      have : rw ≠ 1 := by omega
      have hj' : j < rw := by omega
      simp [at2, h1, bidx, this, hj', hj]
    · split
      · rename_i hc1 hc2 hc3
        have : rw ≠ 1 := by omega
        by_cases hj' : j < rw
        · have : j < row.length := by omega
          simp [at2, bidx, *, List.getElem?_append_left]
        · have h3 : row.length ≤ j := by omega
          have h4 : j - row.length < w - rw := by omega
          simp only [at2, List.getElem?_map, h1, Option.map_some, Option.getD_some, hj', this, false_or, ↓reduceIte, na]
          rw [List.getElem?_append_right h3, List.getElem?_replicate]
          simp [h4]
      · have : rw = w := by omega
        subst this
        by_cases h1' : rw = 1
        · subst h1'
          have : j = 0 := by omega
          simp [bidx, this]
        · simp [bidx, h1', hj]

theorem flatten_replicate_singleton {α : Type} (x : α) (n : Nat) :
    (List.replicate n [x]).flatten = List.replicate n x := by
  induction n with
  | zero => rfl
  | succ n ih => simp [List.replicate_succ, ih]

theorem fitHeight_rect {b : Arr} {rh w : Nat} (hr : Rect b rh w) (h : Nat) :
    Rect (fitHeight b rh h w) h w := by
  obtain ⟨hl, hrow⟩ := hr
  unfold fitHeight
  split
  · rename_i hc
    match b, hl with
    | [row], _ =>
      rw [flatten_replicate_singleton]
      refine ⟨by simp, ?_⟩
      intro r hmem
      have := (List.mem_replicate.mp hmem).2
      subst this
      exact hrow _ (by simp)
    | [], hl => simp [hc.1] at hl
    | _ :: _ :: _, hl => simp [hc.1] at hl
  · split
    · refine ⟨by simp; omega, ?_⟩
      intro r hmem
      exact hrow r (List.mem_of_mem_take hmem)
    · split
      · refine ⟨by simp; omega, ?_⟩
        intro r hmem
        rcases List.mem_append.mp hmem with h1 | h1
        · exact hrow r h1
        · have := (List.mem_replicate.mp h1).2
          subst this; simp
      · have : rh = h := by omega
        exact ⟨this ▸ hl, hrow⟩

theorem fitHeight_at2 {b : Arr} {rh w : Nat} (hr : Rect b rh w) (h : Nat)
    {i j : Nat} (hi : i < h) (hj : j < w) :
    at2 (fitHeight b rh h w) i j = if rh = 1 ∨ i < rh then at2 b (bidx rh i) j else na := by
  obtain ⟨hl, hrow⟩ := hr
  unfold fitHeight
  split
  · rename_i hc
    match b, hl with
    | [row], _ =>
      rw [flatten_replicate_singleton]
      simp [at2, hc.1, bidx, hi]
    | [], hl => simp [hc.1] at hl
    | _ :: _ :: _, hl => simp [hc.1] at hl
  · split
    · rename_i hc1 hc2
      have h1 : rh ≠ 1 := by omega
      have h2 : i < rh := by omega
      simp [at2, bidx, h1, h2, hi]
    · split
      · rename_i hc1 hc2 hc3
        have h1 : rh ≠ 1 := by omega
        by_cases h2 : i < rh
        · have : i < b.length := by omega
          simp [at2, bidx, h1, h2, List.getElem?_append_left, this]
        · have h3 : b.length ≤ i := by omega
          have h4 : i - b.length < h - rh := by omega
          simp only [at2, h1, h2, false_or, ↓reduceIte, na]
          rw [List.getElem?_append_right h3, List.getElem?_replicate]
          simp [h4, hj]
      · have : rh = h := by omega
        subst this
        by_cases h1 : rh = 1
        · subst h1
          have : i = 0 := by omega
          simp [bidx, this]
        · simp [bidx, h1, hi]

/-- element law of fit_to_range -/
theorem fitToRange_at2 (r : Opnd) {rh rw : Nat} (hr : Rect (toArr r) rh rw) (hrh : 0 < rh) (hrw : 0 < rw)
    (h w : Nat) {i j : Nat} (hi : i < h) (hj : j < w) :
    at2 (fitToRange r h w) i j =
      if (rh = 1 ∨ i < rh) ∧ (rw = 1 ∨ j < rw) then at2 (toArr r) (bidx rh i) (bidx rw j) else na := by
  unfold fitToRange
  simp only [width_of_rect hr hrh, height_of_rect hr]
  rw [fitHeight_at2 (fitWidth_rect hr w) h hi hj]
  by_cases h1 : rh = 1 ∨ i < rh
  · have hi' : bidx rh i < rh := by
      unfold bidx; split <;> omega
    rw [if_pos h1, fitWidth_at2 hr hrw w hi' hj]
    simp [h1]
  · simp [h1]

theorem fitToRange_rect (r : Opnd) {rh rw : Nat} (hr : Rect (toArr r) rh rw) (hrh : 0 < rh) (h w : Nat) :
    Rect (fitToRange r h w) h w := by
  unfold fitToRange
  simp only [width_of_rect hr hrh, height_of_rect hr]
  exact fitHeight_rect (fitWidth_rect hr w) h

/-! ### operators -/

theorem bdim_pos {m n k : Nat} (h : bdim m n = some k) (hm : 0 < m) (hn : 0 < n) : 0 < k := by
  unfold bdim at h
  split at h
  · simp at h; omega
  · split at h
    · simp at h; omega
    · split at h
      · simp at h; omega
      · simp at h

theorem arrayFixup_spec (f : Val → Val → Val) (l r : Opnd) {hl wl hr wr h w : Nat}
    (hL : Rect (toArr l) hl wl) (hR : Rect (toArr r) hr wr) (hl0 : 0 < hl) (hr0 : 0 < hr)
    (hh : bdim hl hr = some h) (hw : bdim wl wr = some w) :
    ∃ res, arrayFixup f l r = some res ∧ Rect res h w ∧
      ∀ i j, i < h → j < w →
        at2 res i j = f (at2 (toArr l) (bidx hl i) (bidx wl j)) (at2 (toArr r) (bidx hr i) (bidx wr j)) := by
  unfold arrayFixup
  simp only [width_of_rect hL hl0, height_of_rect hL, width_of_rect hR hr0, height_of_rect hR, hh, hw]
  refine ⟨_, rfl, tab_rect _ _ _, ?_⟩
  intro i j hi hj
  rw [at2_tab _ _ _ _ _ hi hj]

theorem arrayFixup_fail (f : Val → Val → Val) (l r : Opnd) {hl wl hr wr : Nat}
    (hL : Rect (toArr l) hl wl) (hR : Rect (toArr r) hr wr) (hl0 : 0 < hl) (hr0 : 0 < hr)
    (hbad : bdim hl hr = none ∨ bdim wl wr = none) : arrayFixup f l r = none := by
  unfold arrayFixup
  simp only [width_of_rect hL hl0, height_of_rect hL, width_of_rect hR hr0, height_of_rect hR]
  rcases hbad with h | h
  · simp [h]
  · rw [h]; cases bdim hl hr <;> rfl

theorem scalar_rect (v : Val) : Rect (toArr (.scalar v)) 1 1 := by
  simp [Rect, toArr]

theorem opFixup_spec (f : Val → Val → Val) (l r : Opnd) {hl wl hr wr h w : Nat}
    (hL : Rect (toArr l) hl wl) (hR : Rect (toArr r) hr wr) (hl0 : 0 < hl) (hr0 : 0 < hr)
    (hh : bdim hl hr = some h) (hw : bdim wl wr = some w) :
    ∃ res, opFixup f l r = some res ∧ Rect (toArr res) h w ∧
      ∀ i j, i < h → j < w →
        at2 (toArr res) i j
          = f (at2 (toArr l) (bidx hl i) (bidx wl j)) (at2 (toArr r) (bidx hr i) (bidx wr j)) := by
  cases l with
  | scalar a =>
    cases r with
    | scalar b =>
      -- two scalars: the scalar operation itself
      have e1 : hl = 1 ∧ wl = 1 := by
        obtain ⟨h1, h2⟩ := hL; simp [toArr] at h1 h2; omega
      have e2 : hr = 1 ∧ wr = 1 := by
        obtain ⟨h1, h2⟩ := hR; simp [toArr] at h1 h2; omega
      obtain ⟨rfl, rfl⟩ := e1
      obtain ⟨rfl, rfl⟩ := e2
      have : h = 1 ∧ w = 1 := by simp [bdim] at hh hw; omega
      obtain ⟨rfl, rfl⟩ := this
      refine ⟨.scalar (f a b), rfl, scalar_rect _, ?_⟩
      intro i j hi hj
      have : i = 0 ∧ j = 0 := by omega
      obtain ⟨rfl, rfl⟩ := this
      simp [at2, toArr, bidx]
    | arr b =>
      obtain ⟨res, h1, h2, h3⟩ := arrayFixup_spec f (.scalar a) (.arr b) hL hR hl0 hr0 hh hw
      exact ⟨.arr res, by simp [opFixup, h1], h2, h3⟩
  | arr a =>
    obtain ⟨res, h1, h2, h3⟩ := arrayFixup_spec f (.arr a) r hL hR hl0 hr0 hh hw
    refine ⟨.arr res, ?_, h2, h3⟩
    cases r <;> simp [opFixup, h1]

/-! ### cse_array_wrapper -/

/-- every array argument at a declared cse position (positions counted from `k`) is h×w -/
def CseShapes (cse : Nat → Bool) (h w : Nat) : Nat → List Opnd → Prop
  | _, [] => True
  | k, .arr x :: rest => (cse k = true → Rect x h w) ∧ CseShapes cse h w (k + 1) rest
  | k, .scalar _ :: rest => CseShapes cse h w (k + 1) rest

theorem pickArgs_ok (cse : Nat → Bool) {h w : Nat} (args : List Opnd) (k : Nat)
    (hs : CseShapes cse h w k args) {i j : Nat} (hi : i < h) (hj : j < w) :
    pickArgs cse k args i j = some (pickTot cse k args i j) := by
  induction args generalizing k with
  | nil => rfl
  | cons a rest ih =>
    cases a with
    | scalar v =>
      simp only [CseShapes] at hs
      simp [pickArgs, pickTot, ih (k + 1) hs]
    | arr x =>
      simp only [CseShapes] at hs
      by_cases hc : cse k = true
      · simp [pickArgs, pickTot, hc, ih (k + 1) hs.2, at2?_eq_some (hs.1 hc) hi hj]
      · simp [pickArgs, pickTot, hc, ih (k + 1) hs.2]

theorem firstCse_rect (cse : Nat → Bool) {h w : Nat} (args : List Opnd) (k : Nat)
    (hs : CseShapes cse h w k args) {x : Arr} (hf : firstCse cse k args = some x) : Rect x h w := by
  induction args generalizing k with
  | nil => simp [firstCse] at hf
  | cons a rest ih =>
    cases a with
    | scalar v => exact ih (k + 1) hs hf
    | arr y =>
      simp only [CseShapes] at hs
      by_cases hc : cse k = true
      · simp [firstCse, hc] at hf
        exact hf ▸ hs.1 hc
      · simp [firstCse, hc] at hf
        exact ih (k + 1) hs.2 hf

theorem cseWrap_spec (g : List Opnd → Val) (cse : Nat → Bool) (args : List Opnd) {h w : Nat} {x : Arr}
    (hf : firstCse cse 0 args = some x) (hs : CseShapes cse h w 0 args) (h0 : 0 < h) :
    ∃ res, cseWrap g cse args = some (.arr res) ∧ Rect res h w ∧
      ∀ i j, i < h → j < w → at2 res i j = g (pickTot cse 0 args i j) := by
  have hx := firstCse_rect cse args 0 hs hf
  refine ⟨tab h w fun i j => g (pickTot cse 0 args i j), ?_, tab_rect _ _ _, ?_⟩
  · unfold cseWrap
    simp only [hf, width_of_rect hx h0, height_of_rect hx]
    rw [if_pos]
    simp only [List.all_eq_true, List.mem_range]
    intro i hi j hj
    rw [pickArgs_ok cse args 0 hs hi hj]; rfl
  · intro i j hi hj
    exact at2_tab _ _ _ _ _ hi hj

theorem cseWrap_scalar (g : List Opnd → Val) (cse : Nat → Bool) (args : List Opnd)
    (hf : firstCse cse 0 args = none) : cseWrap g cse args = some (.scalar (g args)) := by
  simp [cseWrap, hf]

/-! ### members -/

theorem cseRange_member (r0 c0 h w i j : Nat) (hr : 1 ≤ r0) (hc : 1 ≤ c0) (_hi : 1 ≤ i) (_hj : 1 ≤ j) :
    cseRange (r0 + i - 1) (c0 + j - 1) ⟨i, j, h, w⟩ = ⟨c0, r0, c0 + w - 1, r0 + h - 1⟩ := by
  simp only [cseRange, Box.mk.injEq]
  omega

theorem indexRC_in {a : Arr} {h w : Nat} (hr : Rect a h w) {i j : Nat} (hi : i < h) (hj : j < w) :
    indexRC a (i + 1) (j + 1) = at2 a i j := by
  simp [indexRC, at2?_eq_some hr hi hj]

theorem expandCse_entry (h w i j : Nat) (hi : i < h) (hj : j < w) :
    ((expandCse h w)[i]?.bind (·[j]?)) = some ⟨i + 1, j + 1, h, w⟩ := by
  simp [expandCse, hi, hj]

end Pycel.Arrays

/-
  Calendar lemmas for the model in Pycel/Model/DateTime.lean (CPython `_ymd2ord` / `_ord2ymd`), for EVERY integer:
    monthDay_spec        month/day of a 0-based day-of-year (finite table, kernel `decide`)
    daysBeforeYear_succ  year lengths
    ord_ymd, ymd_valid   `ymd n` is a valid triple whose ordinal is `n`        (algebraic: digit decomposition)
    ymd_ord              `ymd (ord y m d) = (y, m, d)` on valid triples         (algebraic: `ord` is injective)
-/
import Pycel.Model.DateTime
namespace Pycel.DateTime

theorem monthDay_spec_fin : ∀ leap : Bool, ∀ n : Fin 366, n.val < (if leap then 366 else 365) →
    1 ≤ (monthDay leap n.val).1 ∧ (monthDay leap n.val).1 ≤ 12 ∧ 1 ≤ (monthDay leap n.val).2 ∧
    (monthDay leap n.val).2 ≤ dim leap (monthDay leap n.val).1 ∧
    dbm leap (monthDay leap n.val).1 + (monthDay leap n.val).2 = n.val + 1 := by
  decide +kernel

theorem monthDay_spec (leap : Bool) (n : Nat) (h : n < (if leap then 366 else 365)) :
    1 ≤ (monthDay leap n).1 ∧ (monthDay leap n).1 ≤ 12 ∧ 1 ≤ (monthDay leap n).2 ∧
    (monthDay leap n).2 ≤ dim leap (monthDay leap n).1 ∧
    dbm leap (monthDay leap n).1 + (monthDay leap n).2 = n + 1 := by
  have hn : n < 366 := by cases leap <;> simp at h <;> omega
  exact monthDay_spec_fin leap ⟨n, hn⟩ h

theorem daysBeforeYear_succ (y : Int) :
    daysBeforeYear (y + 1) = daysBeforeYear y + (if isLeap y then 366 else 365) := by
  simp only [daysBeforeYear, isLeap, decide_eq_true_eq]
  split <;> omega

theorem year_digits (a b c e : Int) (hb0 : 0 ≤ b) (hb : b ≤ 3) (hc0 : 0 ≤ c) (hc : c ≤ 24)
    (he0 : 0 ≤ e) (he : e ≤ 3) :
    daysBeforeYear (400 * a + 100 * b + 4 * c + e + 1) = 146097 * a + 36524 * b + 1461 * c + 365 * e ∧
    isLeap (400 * a + 100 * b + 4 * c + e + 1) = decide (e = 3 ∧ (c ≠ 24 ∨ b = 3)) := by
  constructor
  · simp only [daysBeforeYear]; omega
  · simp only [isLeap, decide_eq_decide]; omega

/-- the digit decomposition of `n - 1` used by `ymd` -/
theorem ymd_digits (n : Int) : ∃ a b c e r : Int,
    n - 1 = 146097 * a + 36524 * b + 1461 * c + 365 * e + r ∧
    0 ≤ b ∧ b ≤ 4 ∧ 0 ≤ c ∧ c ≤ 24 ∧ 0 ≤ e ∧ e ≤ 4 ∧ 0 ≤ r ∧ r < 365 ∧
    (b = 4 → c = 0 ∧ e = 0 ∧ r = 0) ∧ (e = 4 → r = 0 ∧ (b < 4 → c ≤ 23)) ∧ (c = 24 → b < 4 → e ≤ 3) ∧
    ymd n = (if e = 4 ∨ b = 4 then (a * 400 + 1 + b * 100 + c * 4 + e - 1, 12, 31)
      else (a * 400 + 1 + b * 100 + c * 4 + e,
        ((monthDay (decide (e = 3 ∧ (c ≠ 24 ∨ b = 3))) r.toNat).1 : Int),
        ((monthDay (decide (e = 3 ∧ (c ≠ 24 ∨ b = 3))) r.toNat).2 : Int))) := by
  refine ⟨(n - 1) / 146097, (n - 1) % 146097 / 36524, (n - 1) % 146097 % 36524 / 1461,
    (n - 1) % 146097 % 36524 % 1461 / 365, (n - 1) % 146097 % 36524 % 1461 % 365, ?_⟩
  refine ⟨?_, ?_, ?_, ?_, ?_, ?_, ?_, ?_, ?_, ?_, ?_, ?_, rfl⟩ <;> omega

theorem ymd_spec (n : Int) :
    validYmd (ymd n).1 (ymd n).2.1 (ymd n).2.2 ∧ ord (ymd n).1 (ymd n).2.1 (ymd n).2.2 = n := by
  obtain ⟨a, b, c, e, r, hn, hb0, hb, hc0, hc, he0, he, hr0, hr, hb4, he4, hc24, hy⟩ := ymd_digits n
  rw [hy]
  by_cases hbd : e = 4 ∨ b = 4
  · rw [if_pos hbd]
    simp only [validYmd, ord]
    rcases hbd with h | h
    · -- e = 4, b < 4 or b = 4 (then contradiction with e = 0)
      have hb3 : b ≤ 3 := by omega
      have hc23 : c ≤ 23 := by omega
      obtain ⟨h1, h2⟩ := year_digits a b c 3 hb0 hb3 hc0 hc (by omega) (by omega)
      have hyr : a * 400 + 1 + b * 100 + c * 4 + e - 1 = 400 * a + 100 * b + 4 * c + 3 + 1 := by omega
      rw [hyr, h1, h2]
      have hl : decide ((3 : Int) = 3 ∧ (c ≠ 24 ∨ b = 3)) = true := by
        exact decide_eq_true ⟨rfl, Or.inl (by omega)⟩
      rw [hl]
      have hd : dbm true (12 : Int).toNat = 335 := by decide
      have hm : dim true (12 : Int).toNat = 31 := by decide
      rw [hd, hm]
      omega
    · obtain ⟨h1, h2⟩ := year_digits a 3 24 3 (by omega) (by omega) (by omega) (by omega) (by omega) (by omega)
      have hyr : a * 400 + 1 + b * 100 + c * 4 + e - 1 = 400 * a + 100 * 3 + 4 * 24 + 3 + 1 := by omega
      rw [hyr, h1, h2]
      have hd : dbm (decide ((3 : Int) = 3 ∧ ((24 : Int) ≠ 24 ∨ (3 : Int) = 3))) (12 : Int).toNat = 335 := by decide
      have hm : dim (decide ((3 : Int) = 3 ∧ ((24 : Int) ≠ 24 ∨ (3 : Int) = 3))) (12 : Int).toNat = 31 := by decide
      rw [hd, hm]
      omega
  · rw [if_neg hbd]
    have hb3 : b ≤ 3 := by omega
    have he3 : e ≤ 3 := by omega
    obtain ⟨h1, h2⟩ := year_digits a b c e hb0 hb3 hc0 hc he0 he3
    have hyr : a * 400 + 1 + b * 100 + c * 4 + e = 400 * a + 100 * b + 4 * c + e + 1 := by omega
    simp only [validYmd, ord]
    rw [hyr, h1, h2]
    generalize decide (e = 3 ∧ (c ≠ 24 ∨ b = 3)) = leap
    have hlt : r.toNat < (if leap then 366 else 365) := by
      cases leap <;> simp <;> omega
    obtain ⟨m1, m2, d1, d2, hs⟩ := monthDay_spec leap r.toNat hlt
    simp only [Int.toNat_natCast]
    omega

theorem ord_ymd (n : Int) : ord (ymd n).1 (ymd n).2.1 (ymd n).2.2 = n := (ymd_spec n).2

theorem ymd_valid (n : Int) : validYmd (ymd n).1 (ymd n).2.1 (ymd n).2.2 := (ymd_spec n).1

theorem daysBeforeYear_mono {y y' : Int} (h : y ≤ y') : daysBeforeYear y ≤ daysBeforeYear y' := by
  simp only [daysBeforeYear]; omega

theorem month_table : ∀ leap : Bool, ∀ m m' : Fin 13, 1 ≤ m.val →
    dbm leap m.val + dim leap m.val ≤ (if leap then 366 else 365) ∧
    (m.val < m'.val → dbm leap m.val + dim leap m.val ≤ dbm leap m'.val) := by
  decide +kernel

/-- a valid date lies inside its year: day-of-year between 1 and the year length -/
theorem valid_doy {y m d : Int} (h : validYmd y m d) :
    1 ≤ (dbm (isLeap y) m.toNat : Int) + d ∧
    (dbm (isLeap y) m.toNat : Int) + d ≤ (if isLeap y then 366 else 365) := by
  obtain ⟨h1, h2, h3, h4⟩ := h
  have hk : m.toNat < 13 := by omega
  have := (month_table (isLeap y) ⟨m.toNat, hk⟩ ⟨m.toNat, hk⟩ (by simp; omega)).1
  simp only at this
  constructor
  · omega
  · generalize isLeap y = leap at this h4 ⊢
    cases leap <;> simp at this ⊢ <;> omega

theorem ord_lt_of_year_lt {y m d y' m' d' : Int} (h : validYmd y m d) (h' : validYmd y' m' d')
    (hy : y < y') : ord y m d < ord y' m' d' := by
  have h1 := valid_doy h
  have h2 := valid_doy h'
  have h3 := daysBeforeYear_succ y
  have h4 : daysBeforeYear (y + 1) ≤ daysBeforeYear y' := daysBeforeYear_mono (by omega)
  simp only [ord]
  omega

theorem ord_inj {y m d y' m' d' : Int} (h : validYmd y m d) (h' : validYmd y' m' d')
    (ho : ord y m d = ord y' m' d') : y = y' ∧ m = m' ∧ d = d' := by
  have hy : y = y' := by
    rcases Int.lt_trichotomy y y' with hlt | heq | hgt
    · have := ord_lt_of_year_lt h h' hlt; omega
    · exact heq
    · have := ord_lt_of_year_lt h' h hgt; omega
  subst hy
  refine ⟨rfl, ?_⟩
  simp only [ord] at ho
  obtain ⟨a1, a2, a3, a4⟩ := h
  obtain ⟨b1, b2, b3, b4⟩ := h'
  have hk : m.toNat < 13 := by omega
  have hk' : m'.toNat < 13 := by omega
  have t1 := (month_table (isLeap y) ⟨m.toNat, hk⟩ ⟨m'.toNat, hk'⟩ (by simp; omega)).2
  have t2 := (month_table (isLeap y) ⟨m'.toNat, hk'⟩ ⟨m.toNat, hk⟩ (by simp; omega)).2
  simp only at t1 t2
  have hm : m = m' := by
    rcases Int.lt_trichotomy m m' with hlt | heq | hgt
    · have := t1 (by omega); omega
    · exact heq
    · have := t2 (by omega); omega
  subst hm
  exact ⟨rfl, by omega⟩

theorem ymd_ord (y m d : Int) (h : validYmd y m d) : ymd (ord y m d) = (y, m, d) := by
  obtain ⟨e1, e2, e3⟩ := ord_inj (ymd_valid (ord y m d)) h (ord_ymd (ord y m d))
  exact Prod.ext e1 (Prod.ext e2 e3)
end Pycel.DateTime

/-
  The work-list loop of `validate_calcs` (Model/Validate.lean `step`/`iter`): what one iteration does, and the loop
  invariants behind C12_sound / C12_blame / C12_no_skip / C12_complete / C12_terminates.  Core Lean only.
-/
import Pycel.Lemmas.Validate
namespace Pycel.Validate
open Pycel Pycel.Engine

variable {α : Type} {C : Cfg α} {f : Nat → (Nat → α) → α} {Bad : Nat → Prop}

/-- the standing hypotheses: a DAG workbook, formulas that read only their precedents, taint closed upwards, stored
    results consistent outside the tainted nodes, `close_enough` reflexive -/
structure Hyp (C : Cfg α) (f : Nat → (Nat → α) → α) (Bad : Nat → Prop) : Prop where
  wf : WF C.wb
  loc : Local C.wb f
  locg : LocalG C
  agree : Agree C f
  up : ∀ i j, j ∈ C.wb.deps i → Bad j → Bad i
  stored : StoredAgree C f Bad
  crefl : ∀ a, ¬ Bad a → ∀ v, C.close v v = true

/-- the three ways an iteration on address `a` ends -/
inductive Outcome (C : Cfg α) (Bad : Nat → Prop) (st : LS α) (a : Nat) (rest : List Nat) (st' : LS α) : Prop
  | failed (e : Fail)
      (hrep : st'.rep = { st.rep with failed := st.rep.failed ++ [(a, e)] })
      (hver : st'.verified = if C.tree then a :: st.verified else st.verified)
      (htodo : st'.todo = pushDeps C a st'.verified rest)
      (hwhy : Raises C a e)
  | noData
      (hrep : st'.rep = { st.rep with noData := a :: st.rep.noData })
      (hver : st'.verified = st.verified)
      (htodo : st'.todo = rest)
  | verified
      (hver : st'.verified = a :: st.verified)
      (htodo : st'.todo = pushDeps C a (a :: st.verified) rest)
      (hrep : st'.rep = st.rep ∨
        ∃ v0 v, st'.rep = { st.rep with mismatch := (a, v0, v) :: st.rep.mismatch } ∧ Bad a)

/-- what an iteration on `a` does to the other nodes of the cell map: a built node keeps its value, a node that
    enters the cell map starts with its stored result -/
def VSKeep (C : Cfg α) (a : Nat) (s s' : VS α) : Prop :=
  ∀ m, m ≠ a →
    (s.built m = true → s'.built m = true ∧ ∀ v, s.cache m = some v → s'.cache m = some v) ∧
    (s.built m = false → s'.built m = true → C.wb.kind m = .formula →
      ∀ v, C.stored m = some v → s'.cache m = some v)

theorem good_reset {s : VS α} (hg : Good C f Bad s) (a : Nat) :
    Good C f Bad { s with cache := update s.cache a none } := by
  intro m v hv
  simp only [update] at hv
  split at hv
  · cases hv
  · exact hg m v hv

theorem recompute_facts (h : Hyp C f Bad) (st : LS α) (a : Nat) (rest : List Nat) (s1 : VS α)
    (hg : Good C f Bad s1) (orig : Option α) (horig : ∀ v0, orig = some v0 → s1.cache a = some v0)
    (hk : C.wb.kind a = .formula) :
    Good C f Bad (recompute C a orig { st with todo := rest } s1).vs ∧
    Outcome C Bad st a rest (recompute C a orig { st with todo := rest } s1) ∧
    (∀ m, m ≠ a → (recompute C a orig { st with todo := rest } s1).vs.built m = s1.built m ∧
      ∀ v, s1.cache m = some v → (recompute C a orig { st with todo := rest } s1).vs.cache m = some v) := by
  unfold recompute
  have hs := evalX_spec h.wf h.loc h.locg h.agree h.up (a+1) a _ (Nat.lt_succ_self a) (good_reset hg a)
  cases hr : evalX C (a+1) a { s1 with cache := update s1.cache a none } with
  | mk r1 s3 =>
    rw [hr] at hs
    have hkeep : ∀ m, m ≠ a → s3.built m = s1.built m ∧ ∀ v, s1.cache m = some v → s3.cache m = some v := by
      intro m hm
      refine ⟨by rw [hs.mono.1], fun v hv => hs.mono.2 m v ?_⟩
      simp [update, hm, hv]
    cases r1 with
    | some e =>
      exact ⟨hs.good, .failed e rfl rfl rfl (hs.fail e rfl), hkeep⟩
    | none =>
      refine ⟨hs.good, .verified rfl rfl ?_, ?_⟩
      case refine_2 =>
        cases orig with
        | none => exact hkeep
        | some v0 => simp only []; split <;> exact hkeep
      cases orig with
      | none => exact .inl rfl
      | some v0 =>
        simp only []
        by_cases hcl : C.close (valueOf C s3 a) v0 = true
        · simp only [hcl, if_true]; exact .inl rfl
        · simp only [hcl]
          refine .inr ⟨v0, valueOf C s3 a, rfl, ?_⟩
          apply Classical.byContradiction
          intro hb
          have h0 : v0 = D C f a := (hg a v0 (horig v0 rfl)).resolve_right hb
          have h1 : valueOf C s3 a = D C f a := valueOf_eq_D hs.good (hs.done rfl) hb
          rw [h0, h1] at hcl
          exact hcl (h.crefl a hb _)

theorem step_facts (h : Hyp C f Bad) (st : LS α) (a : Nat) (rest : List Nat) (ht : st.todo = a :: rest)
    (hg : Good C f Bad st.vs) :
    Good C f Bad (step C st).vs ∧ Outcome C Bad st a rest (step C st) ∧ VSKeep C a st.vs (step C st).vs := by
  unfold step
  rw [ht]
  simp only []
  have hgs := genGraph_spec h.wf h.loc h.locg h.agree h.up h.stored a st.vs hg
  cases hr : genGraph C a st.vs with
  | mk g1 s1 =>
    rw [hr] at hgs
    have hk1 : VSKeep C a st.vs s1 := fun m _ => ⟨hgs.keep m, hgs.fresh m⟩
    have hk2 : ∀ s3 : VS α, (∀ m, m ≠ a → s3.built m = s1.built m ∧ ∀ v, s1.cache m = some v → s3.cache m = some v) →
        VSKeep C a st.vs s3 := by
      intro s3 h3 m hm
      obtain ⟨hb3, hc3⟩ := h3 m hm
      refine ⟨fun hb => ?_, fun hb hb' hkm v hv => ?_⟩
      · have := hgs.keep m hb
        exact ⟨by rw [hb3]; exact this.1, fun v hv => hc3 v (this.2 v hv)⟩
      · rw [hb3] at hb'
        exact hc3 v (hgs.fresh m hb hb' hkm v hv)
    cases g1 with
    | some e => exact ⟨hgs.good, .failed e rfl rfl rfl (hgs.fail e rfl), hk1⟩
    | none =>
      simp only []
      cases hk : C.wb.kind a with
      | input => exact ⟨hgs.good, .verified rfl rfl (.inl rfl), hk1⟩
      | range => exact ⟨hgs.good, .verified rfl rfl (.inl rfl), hk1⟩
      | formula =>
        simp only []
        cases hc : s1.cache a with
        | none =>
          obtain ⟨h1, h2, h3⟩ := recompute_facts h st a rest s1 hgs.good none (fun _ h => nomatch h) hk
          exact ⟨h1, h2, hk2 _ h3⟩
        | some v0 =>
          simp only []
          by_cases hnd : C.noData a v0 = true
          · simp only [hnd, if_true]
            exact ⟨hgs.good, .noData rfl rfl rfl, hk1⟩
          · simp only [hnd]
            obtain ⟨h1, h2, h3⟩ := recompute_facts h st a rest s1 hgs.good (some v0)
              (fun _ h => by cases h; exact hc) hk
            exact ⟨h1, h2, hk2 _ h3⟩


theorem step_nil (st : LS α) (ht : st.todo = []) : step C st = st := by
  unfold step; rw [ht]

/-! ### safety: blame, and no invented exception -/

structure BInv (C : Cfg α) (f : Nat → (Nat → α) → α) (Bad : Nat → Prop) (st : LS α) : Prop where
  good : Good C f Bad st.vs
  blame : ∀ x o r, (x, o, r) ∈ st.rep.mismatch → Bad x
  why : ∀ x e, (x, e) ∈ st.rep.failed → Raises C x e

theorem BInv.next (h : Hyp C f Bad) {st : LS α} (hi : BInv C f Bad st) : BInv C f Bad (step C st) := by
  cases ht : st.todo with
  | nil => rw [step_nil st ht]; exact hi
  | cons a rest =>
    obtain ⟨hg, ho, _⟩ := step_facts h st a rest ht hi.good
    cases ho with
    | failed e hrep hver htodo hwhy =>
      refine ⟨hg, ?_, ?_⟩
      · rw [hrep]; exact hi.blame
      · rw [hrep]
        intro x e' hx
        rcases List.mem_append.1 hx with hx | hx
        · exact hi.why x e' hx
        · simp only [List.mem_singleton, Prod.mk.injEq] at hx
          rw [hx.1, hx.2]; exact hwhy
    | noData hrep hver htodo =>
      refine ⟨hg, ?_, ?_⟩ <;> rw [hrep]
      · exact hi.blame
      · exact hi.why
    | verified hver htodo hrep =>
      rcases hrep with hrep | ⟨v0, v, hrep, hb⟩
      · refine ⟨hg, ?_, ?_⟩ <;> rw [hrep]
        · exact hi.blame
        · exact hi.why
      · refine ⟨hg, ?_, ?_⟩ <;> rw [hrep]
        · intro x o r hx
          rcases List.mem_cons.1 hx with hx | hx
          · simp only [Prod.mk.injEq] at hx; rw [hx.1]; exact hb
          · exact hi.blame x o r hx
        · exact hi.why

theorem BInv.iter (h : Hyp C f Bad) (k : Nat) {st : LS α} (hi : BInv C f Bad st) : BInv C f Bad (iter C k st) := by
  induction k generalizing st with
  | zero => exact hi
  | succ k ih => exact ih (hi.next h)

theorem BInv.init (outs : List Nat) : BInv C f Bad (initLS outs) :=
  ⟨fun _ _ h => (nomatch h), fun _ _ _ h => (nomatch h), fun _ _ h => (nomatch h)⟩

/-! ### coverage: nothing reachable is silently skipped -/

/-- the address was recomputed-and-compared / reported under exceptions / logged as "No Orig data?" -/
def Handled (st : LS α) (x : Nat) : Prop :=
  x ∈ st.verified ∨ (∃ e, (x, e) ∈ st.rep.failed) ∨ x ∈ st.rep.noData

/-- handled, and its precedents were pushed -/
def Proc (st : LS α) (x : Nat) : Prop := x ∈ st.verified ∨ ∃ e, (x, e) ∈ st.rep.failed

structure Cov (C : Cfg α) (outs : List Nat) (st : LS α) : Prop where
  outs : ∀ o, o ∈ outs → Handled st o ∨ o ∈ st.todo
  deps : C.tree = true → ∀ x, Proc st x → ∀ j, j ∈ C.wb.deps x → Handled st j ∨ j ∈ st.todo

theorem mem_pushDeps_of_mem {a : Nat} {ver todo : List Nat} {j : Nat} (h : j ∈ todo) :
    j ∈ pushDeps C a ver todo := by
  unfold pushDeps; split
  · exact List.mem_append_right _ h
  · exact h

theorem mem_pushDeps_of_dep {a : Nat} {ver todo : List Nat} {j : Nat} (ht : C.tree = true)
    (hj : j ∈ C.wb.deps a) (hv : j ∉ ver) : j ∈ pushDeps C a ver todo := by
  unfold pushDeps; rw [if_pos ht]
  apply List.mem_append_left
  rw [List.mem_reverse, List.mem_filter]
  refine ⟨hj, ?_⟩
  simp [hv]

theorem Cov.next (h : Hyp C f Bad) {outs : List Nat} {st : LS α} (hg : Good C f Bad st.vs)
    (hc : Cov C outs st) : Cov C outs (step C st) := by
  cases ht : st.todo with
  | nil => rw [step_nil st ht]; exact hc
  | cons a rest =>
    obtain ⟨_, ho, _⟩ := step_facts h st a rest ht hg
    -- in every outcome: handled stays handled, `a` is handled, the rest of the stack stays
    have key : (∀ x, Handled st x → Handled (step C st) x) ∧ Handled (step C st) a ∧
        (∀ x, x ∈ rest → x ∈ (step C st).todo) ∧
        (∀ x, Proc (step C st) x → Proc st x ∨
          (x = a ∧ (C.tree = true → ∀ j, j ∈ C.wb.deps a → Handled (step C st) j ∨ j ∈ (step C st).todo))) := by
      cases ho with
      | failed e hrep hver htodo hwhy =>
        refine ⟨?_, ?_, ?_, ?_⟩
        · intro x hx
          unfold Handled at hx ⊢
          rw [hrep, hver]
          rcases hx with hx | ⟨e', hx⟩ | hx
          · left; split
            · exact List.mem_cons_of_mem _ hx
            · exact hx
          · exact .inr (.inl ⟨e', List.mem_append_left _ hx⟩)
          · exact .inr (.inr hx)
        · unfold Handled; rw [hrep]
          exact .inr (.inl ⟨e, List.mem_append_right _ (List.mem_singleton.2 rfl)⟩)
        · intro x hx; rw [htodo]; exact mem_pushDeps_of_mem hx
        · intro x hx
          unfold Proc at hx ⊢
          rw [hrep, hver] at hx
          have hax : x = a → (C.tree = true → ∀ j, j ∈ C.wb.deps a →
              Handled (step C st) j ∨ j ∈ (step C st).todo) := by
            intro _ htree j hj
            by_cases hv : j ∈ (step C st).verified
            · exact .inl (.inl hv)
            · right; rw [htodo]; exact mem_pushDeps_of_dep htree hj hv
          rcases hx with hx | ⟨e', hx⟩
          · split at hx
            · rcases List.mem_cons.1 hx with hx | hx
              · exact .inr ⟨hx, hax hx⟩
              · exact .inl (.inl hx)
            · exact .inl (.inl hx)
          · rcases List.mem_append.1 hx with hx | hx
            · exact .inl (.inr ⟨e', hx⟩)
            · simp only [List.mem_singleton, Prod.mk.injEq] at hx
              exact .inr ⟨hx.1, hax hx.1⟩
      | noData hrep hver htodo =>
        refine ⟨?_, ?_, ?_, ?_⟩
        · intro x hx
          unfold Handled at hx ⊢
          rw [hrep, hver]
          rcases hx with hx | hx | hx
          · exact .inl hx
          · exact .inr (.inl hx)
          · exact .inr (.inr (List.mem_cons_of_mem _ hx))
        · unfold Handled; rw [hrep]; exact .inr (.inr (List.mem_cons_self ..))
        · intro x hx; rw [htodo]; exact hx
        · intro x hx
          unfold Proc at hx ⊢
          rw [hrep, hver] at hx
          exact .inl hx
      | verified hver htodo hrep =>
        have hf : (step C st).rep.failed = st.rep.failed ∧ (step C st).rep.noData = st.rep.noData := by
          rcases hrep with hrep | ⟨_, _, hrep, _⟩ <;> rw [hrep] <;> exact ⟨rfl, rfl⟩
        refine ⟨?_, ?_, ?_, ?_⟩
        · intro x hx
          unfold Handled at hx ⊢
          rw [hf.1, hf.2, hver]
          rcases hx with hx | hx | hx
          · exact .inl (List.mem_cons_of_mem _ hx)
          · exact .inr (.inl hx)
          · exact .inr (.inr hx)
        · unfold Handled; rw [hver]; exact .inl (List.mem_cons_self ..)
        · intro x hx; rw [htodo]; exact mem_pushDeps_of_mem hx
        · intro x hx
          unfold Proc at hx ⊢
          rw [hf.1, hver] at hx
          rcases hx with hx | hx
          · rcases List.mem_cons.1 hx with hx | hx
            · refine .inr ⟨hx, ?_⟩
              intro htree j hj
              by_cases hv : j ∈ (step C st).verified
              · exact .inl (.inl hv)
              · right; rw [htodo]; rw [hver] at hv; exact mem_pushDeps_of_dep htree hj hv
            · exact .inl (.inl hx)
          · exact .inl (.inr hx)
    obtain ⟨kmono, ka, krest, kproc⟩ := key
    have move : ∀ j, Handled st j ∨ j ∈ st.todo → Handled (step C st) j ∨ j ∈ (step C st).todo := by
      intro j hj
      rcases hj with hj | hj
      · exact .inl (kmono j hj)
      · rw [ht] at hj
        rcases List.mem_cons.1 hj with hj | hj
        · rw [hj]; exact .inl ka
        · exact .inr (krest j hj)
    refine ⟨fun o ho => move o (hc.outs o ho), ?_⟩
    intro htree x hx j hj
    rcases kproc x hx with hx | ⟨hxa, hdeps⟩
    · exact move j (hc.deps htree x hx j hj)
    · subst hxa; exact hdeps htree j hj


theorem Cov.iter (h : Hyp C f Bad) {outs : List Nat} (k : Nat) {st : LS α} (hi : BInv C f Bad st)
    (hc : Cov C outs st) : Cov C outs (iter C k st) := by
  induction k generalizing st with
  | zero => exact hc
  | succ k ih => exact ih (hi.next h) (hc.next h hi.good)

theorem Cov.init (outs : List Nat) : Cov C outs (initLS outs : LS α) := by
  refine ⟨fun o ho => .inr (List.mem_reverse.2 ho), ?_⟩
  intro _ x hx
  rcases hx with hx | ⟨e, hx⟩
  · exact nomatch hx
  · exact nomatch hx

/-! ### completeness: the altered cell is reported with its stored and recomputed values -/

/-- hypotheses of C12_complete about the altered cell `c` -/
structure CHyp (C : Cfg α) (f : Nat → (Nat → α) → α) (c : Nat) (v' : α) : Prop where
  hyp : Hyp C f (fun m => Reach C.wb m c)
  formula : C.wb.kind c = .formula
  stored : C.stored c = some v'
  far : ¬ C.close (D C f c) v' = true
  ndata : C.noData c v' = false
  evaluable : ∀ m, Reach C.wb c m → Evaluable C f m
  crefl : C.close (D C f c) (D C f c) = true

theorem reach_lt {wb : Workbook} (hwf : WF wb) {c m : Nat} (h : Reach wb c m) (hne : m ≠ c) : m < c := by
  have := h.le hwf; omega

/-- an iteration on `c` whose value in the cell map is (or will be, when built) `w` -/
theorem step_at (c : Nat) (v' : α) (h : CHyp C f c v') (st : LS α) (rest : List Nat) (ht : st.todo = c :: rest)
    (hg : Good C f (fun m => Reach C.wb m c) st.vs) (w : α)
    (hw1 : st.vs.built c = true → st.vs.cache c = some w)
    (hw2 : st.vs.built c = false → C.stored c = some w) :
    (step C st).vs.built c = true ∧
    ((C.noData c w = true ∧ (step C st).vs.cache c = some w ∧ (step C st).rep.mismatch = st.rep.mismatch) ∨
     (C.noData c w = false ∧ (step C st).vs.cache c = some (D C f c) ∧
       (step C st).rep.mismatch =
         if C.close (D C f c) w = true then st.rep.mismatch else (c, w, D C f c) :: st.rep.mismatch)) := by
  have hwf := h.hyp.wf
  unfold step
  rw [ht]
  simp only []
  have hgs := genGraph_spec hwf h.hyp.loc h.hyp.locg h.hyp.agree h.hyp.up h.hyp.stored c st.vs hg
  have hok := hgs.ok h.evaluable (by
    intro r hr hkr m hm hmc
    have hrc : r ≠ c := fun e => by rw [e, h.formula] at hkr; cases hkr
    have h1 := reach_lt hwf hr hrc
    have h2 := hm.le hwf
    have h3 := hmc.le hwf
    omega)
  cases hr : genGraph C c st.vs with
  | mk g1 s1 =>
    rw [hr] at hgs hok
    simp only at hok
    subst hok
    simp only [h.formula]
    have hc1 : s1.cache c = some w := by
      by_cases hb : st.vs.built c = true
      · exact (hgs.keep c hb).2 w (hw1 hb)
      · have hbf : st.vs.built c = false := by cases hh : st.vs.built c <;> simp_all
        exact hgs.fresh c hbf hgs.built h.formula w (hw2 hbf)
    rw [hc1]
    simp only []
    by_cases hnd : C.noData c w = true
    · rw [if_pos hnd]
      exact ⟨hgs.built, .inl ⟨hnd, hc1, rfl⟩⟩
    · rw [if_neg hnd]
      have hndf : C.noData c w = false := by cases hh : C.noData c w <;> simp_all
      unfold recompute
      have hs := evalX_spec hwf h.hyp.loc h.hyp.locg h.hyp.agree h.hyp.up (c+1) c _ (Nat.lt_succ_self c)
        (good_reset hgs.good c)
      have hnb : ∀ m, Reach C.wb c m → m ≠ c → ¬ Reach C.wb m c := by
        intro m hm hne hmc
        have := reach_lt hwf hm hne
        have := hmc.le hwf
        omega
      have hok2 := hs.ok h.evaluable hnb
      cases hr2 : evalX C (c+1) c { s1 with cache := update s1.cache c none } with
      | mk r1 s3 =>
        rw [hr2] at hs hok2
        simp only at hok2
        subst hok2
        have hki : C.wb.kind c ≠ .input := by rw [h.formula]; simp
        have hex := hs.exact rfl hki (by simp [update])
          (fun j hj => hnb j (.step hj (.refl j)) (by have := hwf.lt c j hj; omega))
        simp only at hex
        have hval : valueOf C s3 c = D C f c := by
          unfold valueOf; rw [h.formula, hex]; rfl
        simp only []
        refine ⟨?_, .inr ⟨hndf, ?_, ?_⟩⟩
        · show s3.built c = true
          rw [hs.mono.1]; exact hgs.built
        · exact hex
        · show (match (some w : Option α) with
              | none => st.rep
              | some v0 => if C.close (valueOf C s3 c) v0 = true then st.rep
                  else { st.rep with mismatch := (c, v0, valueOf C s3 c) :: st.rep.mismatch }).mismatch = _
          simp only [hval]
          split <;> rfl

/-- before / after the first iteration on `c` -/
def Phase (C : Cfg α) (f : Nat → (Nat → α) → α) (c : Nat) (v' : α) (st : LS α) : Prop :=
  (¬ Handled st c ∧ (st.vs.built c = true → st.vs.cache c = some v')) ∨
  (st.vs.built c = true ∧ st.vs.cache c = some (D C f c) ∧ st.rep.lookup c = some (v', D C f c))

theorem handled_back {st st' : LS α} {a : Nat} {rest : List Nat} (ho : Outcome C Bad st a rest st') {x : Nat}
    (hx : Handled st' x) : Handled st x ∨ x = a := by
  unfold Handled at hx ⊢
  cases ho with
  | failed e hrep hver htodo hwhy =>
    rw [hrep, hver] at hx
    rcases hx with hx | ⟨e', hx⟩ | hx
    · split at hx
      · rcases List.mem_cons.1 hx with hx | hx
        · exact .inr hx
        · exact .inl (.inl hx)
      · exact .inl (.inl hx)
    · rcases List.mem_append.1 hx with hx | hx
      · exact .inl (.inr (.inl ⟨e', hx⟩))
      · simp only [List.mem_singleton, Prod.mk.injEq] at hx; exact .inr hx.1
    · exact .inl (.inr (.inr hx))
  | noData hrep hver htodo =>
    rw [hrep, hver] at hx
    rcases hx with hx | hx | hx
    · exact .inl (.inl hx)
    · exact .inl (.inr (.inl hx))
    · rcases List.mem_cons.1 hx with hx | hx
      · exact .inr hx
      · exact .inl (.inr (.inr hx))
  | verified hver htodo hrep =>
    have hf : st'.rep.failed = st.rep.failed ∧ st'.rep.noData = st.rep.noData := by
      rcases hrep with hrep | ⟨_, _, hrep, _⟩ <;> rw [hrep] <;> exact ⟨rfl, rfl⟩
    rw [hf.1, hf.2, hver] at hx
    rcases hx with hx | hx | hx
    · rcases List.mem_cons.1 hx with hx | hx
      · exact .inr hx
      · exact .inl (.inl hx)
    · exact .inl (.inr (.inl hx))
    · exact .inl (.inr (.inr hx))

theorem lookup_other {st st' : LS α} {a : Nat} {rest : List Nat} (ho : Outcome C Bad st a rest st') {x : Nat}
    (hx : x ≠ a) : st'.rep.lookup x = st.rep.lookup x := by
  cases ho with
  | failed e hrep _ _ _ => rw [hrep]; rfl
  | noData hrep _ _ => rw [hrep]; rfl
  | verified _ _ hrep =>
    rcases hrep with hrep | ⟨v0, v, hrep, _⟩
    · rw [hrep]
    · rw [hrep]
      unfold Report.lookup
      simp only [List.find?_cons]
      have : (a == x) = false := by simp; exact fun e => hx e.symm
      simp [this]

theorem Phase.next (c : Nat) (v' : α) (h : CHyp C f c v') {st : LS α}
    (hg : Good C f (fun m => Reach C.wb m c) st.vs) (hp : Phase C f c v' st) : Phase C f c v' (step C st) := by
  cases ht : st.todo with
  | nil => rw [step_nil st ht]; exact hp
  | cons a rest =>
    by_cases hac : a = c
    · subst hac
      rcases hp with ⟨_, hA⟩ | ⟨hb, hcache, hlook⟩
      · obtain ⟨hb', hres⟩ := step_at a v' h st rest ht hg v' hA (fun _ => h.stored)
        rcases hres with ⟨hnd, _, _⟩ | ⟨_, hcache, hmis⟩
        · rw [h.ndata] at hnd; cases hnd
        · right
          refine ⟨hb', hcache, ?_⟩
          unfold Report.lookup
          rw [hmis, if_neg h.far]
          simp
      · obtain ⟨hb', hres⟩ := step_at a v' h st rest ht hg (D C f a) (fun _ => hcache)
          (fun hbf => by rw [hb] at hbf; cases hbf)
        right
        rcases hres with ⟨_, hcache', hmis⟩ | ⟨_, hcache', hmis⟩
        · refine ⟨hb', hcache', ?_⟩
          unfold Report.lookup at hlook ⊢; rw [hmis]; exact hlook
        · refine ⟨hb', hcache', ?_⟩
          rw [if_pos h.crefl] at hmis
          unfold Report.lookup at hlook ⊢; rw [hmis]; exact hlook
    · obtain ⟨_, ho, hkeep⟩ := step_facts h.hyp st a rest ht hg
      have hk := hkeep c (fun e => hac e.symm)
      rcases hp with ⟨hnh, hA⟩ | ⟨hb, hcache, hlook⟩
      · left
        refine ⟨fun hh => ?_, fun hb' => ?_⟩
        · rcases handled_back ho hh with hh | hh
          · exact hnh hh
          · exact hac hh.symm
        · by_cases hb : st.vs.built c = true
          · exact (hk.1 hb).2 v' (hA hb)
          · have hbf : st.vs.built c = false := by cases hh : st.vs.built c <;> simp_all
            exact hk.2 hbf hb' h.formula v' h.stored
      · right
        have := hk.1 hb
        exact ⟨this.1, this.2 _ hcache, by rw [lookup_other ho (fun e => hac e.symm)]; exact hlook⟩

theorem Phase.iter (c : Nat) (v' : α) (h : CHyp C f c v') (k : Nat) {st : LS α}
    (hi : BInv C f (fun m => Reach C.wb m c) st) (hp : Phase C f c v' st) : Phase C f c v' (iter C k st) := by
  induction k generalizing st with
  | zero => exact hp
  | succ k ih => exact ih (hi.next h.hyp) (hp.next c v' h hi.good)

theorem Phase.init (c : Nat) (v' : α) (outs : List Nat) : Phase C f c v' (initLS outs) := by
  left
  refine ⟨fun hh => ?_, fun hb => nomatch hb⟩
  rcases hh with hh | ⟨e, hh⟩ | hh
  · exact nomatch hh
  · exact nomatch hh
  · exact nomatch hh


/-! ### termination -/

theorem step_todo (st : LS α) (a : Nat) (rest : List Nat) (ht : st.todo = a :: rest) :
    (step C st).todo = rest ∨ ∃ ver, (step C st).todo = pushDeps C a ver rest := by
  unfold step
  rw [ht]
  simp only []
  split
  · exact .inr ⟨_, rfl⟩
  · split
    · split
      · split
        · exact .inl rfl
        · unfold recompute; split
          · exact .inr ⟨_, rfl⟩
          · exact .inr ⟨_, rfl⟩
      · unfold recompute; split
        · exact .inr ⟨_, rfl⟩
        · exact .inr ⟨_, rfl⟩
    · exact .inr ⟨_, rfl⟩

theorem weight_fuel (hwf : WF C.wb) : ∀ a b i, i < a → i < b → weight C a i = weight C b i := by
  intro a
  induction a with
  | zero => intro b i h; omega
  | succ a ih =>
    intro b i ha hb
    cases b with
    | zero => omega
    | succ b =>
      simp only [weight]
      congr 2
      apply List.map_congr_left
      intro j hj
      have := hwf.lt i j hj
      exact ih b j (by omega) (by omega)

/-- weight of a node (fuel-independent form) -/
def W (C : Cfg α) (a : Nat) : Nat := weight C (a+1) a

theorem W_eq (hwf : WF C.wb) (a : Nat) : W C a = 1 + ((C.wb.deps a).map (W C)).sum := by
  unfold W
  simp only [weight]
  congr 2
  apply List.map_congr_left
  intro j hj
  have := hwf.lt a j hj
  exact weight_fuel hwf a (j+1) j this (Nat.lt_succ_self j)

def mu (C : Cfg α) (l : List Nat) : Nat := (l.map (W C)).sum

theorem mu_filter_le (p : Nat → Bool) (l : List Nat) : mu C (l.filter p) ≤ mu C l := by
  induction l with
  | nil => exact Nat.le_refl _
  | cons x xs ih =>
    simp only [List.filter_cons]
    split
    · simp only [mu, List.map_cons, List.sum_cons] at ih ⊢; omega
    · simp only [mu, List.map_cons, List.sum_cons] at ih ⊢; omega

theorem mu_append (l1 l2 : List Nat) : mu C (l1 ++ l2) = mu C l1 + mu C l2 := by
  simp [mu, List.map_append, List.sum_append]

theorem mu_reverse (l : List Nat) : mu C l.reverse = mu C l := by
  simp [mu, List.map_reverse, List.sum_reverse]

theorem mu_pushDeps (hwf : WF C.wb) (a : Nat) (ver rest : List Nat) :
    mu C (pushDeps C a ver rest) + 1 ≤ mu C (a :: rest) := by
  have hW := W_eq hwf a
  have hcons : mu C (a :: rest) = W C a + mu C rest := by simp [mu]
  unfold pushDeps
  split
  · rw [mu_append, mu_reverse, hcons]
    have := mu_filter_le (C := C) (fun j => !ver.contains j) (C.wb.deps a)
    unfold mu at this ⊢
    omega
  · rw [hcons]; omega

theorem mu_step (hwf : WF C.wb) (st : LS α) (a : Nat) (rest : List Nat) (ht : st.todo = a :: rest) :
    mu C (step C st).todo + 1 ≤ mu C st.todo := by
  rw [ht]
  rcases step_todo st a rest ht with h | ⟨ver, h⟩
  · rw [h]
    have hW := W_eq hwf a
    simp only [mu, List.map_cons, List.sum_cons]; omega
  · rw [h]; exact mu_pushDeps hwf a ver rest

theorem iter_done (hwf : WF C.wb) : ∀ (k : Nat) (st : LS α), mu C st.todo ≤ k → (iter C k st).todo = [] := by
  intro k
  induction k with
  | zero =>
    intro st h
    cases ht : st.todo with
    | nil => simpa [iter] using ht
    | cons a rest =>
      rw [ht] at h
      have hW := W_eq hwf a
      simp only [mu, List.map_cons, List.sum_cons] at h; omega
  | succ k ih =>
    intro st h
    simp only [iter]
    cases ht : st.todo with
    | nil =>
      rw [step_nil st ht]
      apply ih; rw [ht]; simp [mu]
    | cons a rest =>
      apply ih
      have := mu_step hwf st a rest ht
      omega

theorem validate_done (hwf : WF C.wb) (outs : List Nat) : (validate C outs).todo = [] := by
  unfold validate
  apply iter_done hwf
  show mu C (initLS outs : LS α).todo ≤ fuelFor C outs
  simp only [initLS, mu, fuelFor, List.map_reverse, List.sum_reverse]
  exact Nat.le_refl _

end Pycel.Validate

import Pycel.Model.Radix
namespace Pycel.Radix

/-- most-significant-first value of a digit list -/
def valueOf (base : Nat) : List Nat → Nat → Nat
  | [], acc => acc
  | d :: ds, acc => valueOf base ds (acc * base + d)

theorem valueOf_append (base : Nat) (xs ys : List Nat) (acc : Nat) :
    valueOf base (xs ++ ys) acc = valueOf base ys (valueOf base xs acc) := by
  induction xs generalizing acc with
  | nil => rfl
  | cons x xs ih => simp [valueOf, ih]

theorem digitVal_digitChar (base d : Nat) (hb : base ≤ 16) (hd : d < base) :
    digitVal? base (digitChar d) = some d := by
  have key : ∀ b : Fin 17, ∀ e : Fin 16, e.val < b.val → digitVal? b.val (digitChar e.val) = some e.val := by
    decide
  exact key ⟨base, by omega⟩ ⟨d, by omega⟩ hd

theorem ofDigits_map (base : Nat) (hb : base ≤ 16) (ds : List Nat) (h : ∀ d ∈ ds, d < base) (acc : Nat) :
    ofDigits? base (ds.map digitChar) acc = some (valueOf base ds acc) := by
  induction ds generalizing acc with
  | nil => rfl
  | cons d ds ih =>
    have hd := h d (by simp)
    simp only [List.map, ofDigits?, digitVal_digitChar base d hb hd, valueOf]
    exact ih (fun x hx => h x (by simp [hx])) _

theorem digitsK_lt (base : Nat) (hb : 0 < base) (k n : Nat) : ∀ d ∈ digitsK base k n, d < base := by
  induction k generalizing n with
  | zero => simp [digitsK]
  | succ k ih =>
    intro d hd
    simp only [digitsK, List.mem_append, List.mem_singleton] at hd
    rcases hd with hd | hd
    · exact ih _ d hd
    · subst hd; exact Nat.mod_lt _ hb

theorem digitsK_length (base k n : Nat) : (digitsK base k n).length = k := by
  induction k generalizing n with
  | zero => rfl
  | succ k ih => simp [digitsK, ih]

theorem valueOf_digitsK (base : Nat) (hb : 0 < base) (k n : Nat) :
    valueOf base (digitsK base k n) 0 = n % base ^ k := by
  induction k generalizing n with
  | zero => simp [digitsK, valueOf, Nat.mod_one]
  | succ k ih =>
    simp only [digitsK, valueOf_append, ih, valueOf]
    rw [Nat.pow_succ, Nat.mul_comm (base ^ k) base, Nat.mod_mul, Nat.mul_comm]
    omega

theorem valueOf_stripZeros (base : Nat) (ds : List Nat) : valueOf base (stripZeros ds) 0 = valueOf base ds 0 := by
  induction ds with
  | nil => rfl
  | cons d ds ih =>
    cases ds with
    | nil => cases d <;> rfl
    | cons e es =>
      cases d with
      | zero => simp only [stripZeros, ih, valueOf]; simp
      | succ d => rfl

theorem stripZeros_mem (ds : List Nat) : ∀ d ∈ stripZeros ds, d ∈ ds := by
  induction ds with
  | nil => simp [stripZeros]
  | cons d ds ih =>
    cases ds with
    | nil => cases d <;> simp [stripZeros]
    | cons e es =>
      cases d with
      | zero => intro x hx; simp only [stripZeros] at hx; exact List.mem_cons_of_mem _ (ih x hx)
      | succ d => simp [stripZeros]

theorem stripZeros_length_le (ds : List Nat) : (stripZeros ds).length ≤ ds.length := by
  induction ds with
  | nil => simp [stripZeros]
  | cons d ds ih =>
    cases ds with
    | nil => cases d <;> simp [stripZeros]
    | cons e es =>
      cases d with
      | zero => simp only [stripZeros, List.length_cons] at *; omega
      | succ d => simp [stripZeros]

theorem stripZeros_ne_nil (ds : List Nat) (h : ds ≠ []) : stripZeros ds ≠ [] := by
  induction ds with
  | nil => exact absurd rfl h
  | cons d ds ih =>
    cases ds with
    | nil => cases d <;> simp [stripZeros]
    | cons e es =>
      cases d with
      | zero => simp only [stripZeros]; exact ih (by simp)
      | succ d => simp [stripZeros]

/-- a stripped digit list is a single digit or starts with a non-zero digit -/
theorem stripZeros_head (ds : List Nat) : (stripZeros ds).length ≤ 1 ∨ (stripZeros ds).head? ≠ some 0 := by
  induction ds with
  | nil => simp [stripZeros]
  | cons d ds ih =>
    cases ds with
    | nil => cases d <;> simp [stripZeros]
    | cons e es =>
      cases d with
      | zero => simpa only [stripZeros] using ih
      | succ d => simp [stripZeros]

theorem render_length (base n : Nat) : (render base n).length ≤ 10 ∧ 1 ≤ (render base n).length := by
  unfold render
  rw [List.length_map]
  constructor
  · have := stripZeros_length_le (digitsK base 10 n)
    rw [digitsK_length] at this; exact this
  · have h : digitsK base 10 n ≠ [] := by
      intro h; have := digitsK_length base 10 n; rw [h] at this; simp at this
    have := stripZeros_ne_nil _ h
    cases hs : stripZeros (digitsK base 10 n) with
    | nil => exact absurd hs this
    | cons a as => simp

theorem ofDigits_render (base : Nat) (hb0 : 0 < base) (hb : base ≤ 16) (n : Nat) :
    ofDigits? base (render base n) 0 = some (n % base ^ 10) := by
  unfold render
  rw [ofDigits_map base hb _ (fun d hd => digitsK_lt base hb0 10 n d (stripZeros_mem _ d hd)),
      valueOf_stripZeros, valueOf_digitsK base hb0]

theorem digitVal_lt (b : Nat) (c : Char) (d : Nat) (h : digitVal? b c = some d) : d < b := by
  unfold digitVal? at h
  simp only at h
  split at h
  · split at h
    · cases h; assumption
    · cases h
  · cases h

theorem ofDigits_lt (b : Nat) (s : List Char) (acc n : Nat) (h : ofDigits? b s acc = some n) :
    n < (acc + 1) * b ^ s.length := by
  induction s generalizing acc with
  | nil => simp only [ofDigits?, Option.some.injEq] at h; subst h; simp
  | cons c cs ih =>
    simp only [ofDigits?] at h
    cases hc : digitVal? b c with
    | none => rw [hc] at h; cases h
    | some d =>
      rw [hc] at h
      have hd := digitVal_lt b c d hc
      have := ih _ h
      have hle : acc * b + d + 1 ≤ (acc + 1) * b := by
        rw [Nat.add_mul]; omega
      calc n < (acc * b + d + 1) * b ^ cs.length := this
        _ ≤ (acc + 1) * b * b ^ cs.length := Nat.mul_le_mul_right _ hle
        _ = (acc + 1) * b ^ (c :: cs).length := by
            rw [List.length_cons, Nat.pow_succ, Nat.mul_assoc, Nat.mul_comm b]

theorem ofDigits_legal (b : Nat) (s : List Char) (acc : Nat) (h : ∀ c ∈ s, digitVal? b c ≠ none) :
    ∃ n, ofDigits? b s acc = some n := by
  induction s generalizing acc with
  | nil => exact ⟨acc, rfl⟩
  | cons c cs ih =>
    simp only [ofDigits?]
    cases hc : digitVal? b c with
    | none => exact absurd hc (h c (by simp))
    | some d => exact ih _ (fun x hx => h x (by simp [hx]))

theorem ofDigits_zeros (b : Nat) (hb0 : 0 < b) (k : Nat) (s : List Char) :
    ofDigits? b (List.replicate k '0' ++ s) 0 = ofDigits? b s 0 := by
  induction k with
  | zero => rfl
  | succ k ih =>
    have h0 : digitVal? b '0' = some 0 := by
      unfold digitVal?; simp [hb0]
    simp only [List.replicate_succ, List.cons_append, ofDigits?, h0]
    simpa using ih


end Pycel.Radix

/-
  Lemmas for property C20 about the TEXT number-format model of Pycel/Model/TextFormat.lean (core Lean only).
-/
import Pycel.Model.TextFormat
namespace Pycel.TextFormat
open Pycel Pycel.Ops

/-! ### rounding -/

theorem roundHalfUp_bounds (N D : Nat) (hD : 0 < D) :
    2 * D * roundHalfUp N D ≤ 2 * N + D ∧ 2 * N + D < 2 * D * (roundHalfUp N D + 1) := by
  unfold roundHalfUp
  constructor
  · have := Nat.div_mul_le_self (2 * N + D) (2 * D)
    rw [Nat.mul_comm] at this
    exact this
  · exact Nat.lt_mul_div_succ (2 * N + D) (by omega)

theorem roundHalfUp_unique (N D r : Nat) (_hD : 0 < D)
    (h1 : 2 * D * r ≤ 2 * N + D) (h2 : 2 * N + D < 2 * D * (r + 1)) : roundHalfUp N D = r := by
  unfold roundHalfUp
  apply Nat.div_eq_of_lt_le
  · rw [Nat.mul_comm]; exact h1
  · rw [Nat.mul_comm (r + 1)]; exact h2

theorem roundHalfUp_tie (N D m : Nat) (hD : 0 < D) (h : 2 * N = D * (2 * m + 1)) :
    roundHalfUp N D = m + 1 := by
  apply roundHalfUp_unique N D (m + 1) hD
  · rw [h]; simp only [Nat.mul_add, Nat.mul_one]; rw [Nat.mul_assoc, Nat.mul_left_comm]; omega
  · rw [h]; simp only [Nat.mul_add, Nat.mul_one]
    have : D * (2 * m) = 2 * D * m := by rw [Nat.mul_left_comm, Nat.mul_assoc]
    omega

theorem roundHalfUp_exact (D m : Nat) (hD : 0 < D) : roundHalfUp (D * m) D = m := by
  apply roundHalfUp_unique _ D m hD
  · rw [Nat.mul_assoc]; omega
  · have : 2 * (D * m) = 2 * D * m := by rw [Nat.mul_assoc]
    simp only [Nat.mul_add, Nat.mul_one]; omega

/-- the fraction N / D of the model is the real quantity |x| · 100^percents · 10^decimals -/
theorem scaled_value (F : Fmt) (x : Rat) :
    ((scaledNum F x : Nat) : Rat) / (x.den : Rat) = absR x * (100 : Rat) ^ F.percents * (10 : Rat) ^ F.decimals := by
  have hx : x = (x.num : Rat) / (x.den : Rat) := by rw [← Rat.mkRat_eq_div, Rat.mkRat_self]
  unfold scaledNum absR
  simp only [Rat.natCast_mul, Rat.natCast_pow]
  have h100 : ((100 : Nat) : Rat) = 100 := rfl
  have h10 : ((10 : Nat) : Rat) = 10 := rfl
  rw [h100, h10]
  by_cases hneg : x < 0
  · have hn : x.num < 0 := by
      have h := Rat.num_nonneg (q := x)
      have h' : ¬ (0 ≤ x) := Rat.not_le.mpr hneg
      have : ¬ 0 ≤ x.num := fun e => h' (h.mp e)
      omega
    have hc : ((x.num.natAbs : Nat) : Rat) = -(x.num : Rat) := by
      have : (x.num.natAbs : Int) = -x.num := by omega
      have h2 : ((x.num.natAbs : Nat) : Rat) = (((x.num.natAbs : Nat) : Int) : Rat) := rfl
      rw [h2, this]; simp
    simp only [hneg, ↓reduceIte, hc]
    conv => rhs; rw [hx]
    simp only [Rat.div_def, Rat.neg_mul]
    grind
  · have hn : 0 ≤ x.num := Rat.num_nonneg.mpr (Rat.not_lt.mp hneg)
    have hc : ((x.num.natAbs : Nat) : Rat) = (x.num : Rat) := by
      have : (x.num.natAbs : Int) = x.num := by omega
      have h2 : ((x.num.natAbs : Nat) : Rat) = (((x.num.natAbs : Nat) : Int) : Rat) := rfl
      rw [h2, this]
    simp only [hneg, ↓reduceIte, hc]
    conv => rhs; rw [hx]
    simp only [Rat.div_def]
    grind

/-! ### digit strings -/

theorem digits_value (n : Nat) : Nat.ofDigitChars 10 (digits n) 0 = n :=
  Nat.ofDigitChars_toDigits (by omega) (by omega)

theorem intDigits_value (n : Nat) : Nat.ofDigitChars 10 (intDigits n) 0 = n := by
  unfold intDigits
  split
  · rename_i h; subst h; rfl
  · exact digits_value n

theorem zpadLeft_value (w : Nat) (s : Text) :
    Nat.ofDigitChars 10 (zpadLeft w s) 0 = Nat.ofDigitChars 10 s 0 := by
  unfold zpadLeft
  rw [Nat.ofDigitChars_append, Nat.ofDigitChars_replicate_zero]
  simp

theorem digits_isDigit (n : Nat) : ∀ c ∈ digits n, c.isDigit = true :=
  fun _ hc => Nat.isDigit_of_mem_toDigits (by omega) (by omega) hc

theorem digits_length_le (n k : Nat) (hk : 0 < k) (h : n < 10 ^ k) : (digits n).length ≤ k :=
  (Nat.length_toDigits_le_iff (by omega) hk).mpr h

theorem zpadLeft_length (w : Nat) (s : Text) (h : s.length ≤ w) : (zpadLeft w s).length = w := by
  simp [zpadLeft]; omega

theorem zpadLeft_length_ge (w : Nat) (s : Text) : w ≤ (zpadLeft w s).length := by
  simp [zpadLeft]; omega

theorem takeWhile_zero_eq_replicate (l : Text) :
    l.takeWhile (· = '0') = List.replicate (l.takeWhile (· = '0')).length '0' := by
  apply List.eq_replicate_iff.mpr
  refine ⟨rfl, ?_⟩
  intro b hb
  have := List.all_eq_true.mp (List.all_takeWhile (p := (· = '0')) (l := l)) b hb
  simpa using this

/-- stripping trailing zeros only removes '0' characters at the end -/
theorem stripTrailing0_spec (t : Text) :
    ∃ k, t = stripTrailing0 t ++ List.replicate k '0' := by
  refine ⟨(t.reverse.takeWhile (· = '0')).length, ?_⟩
  unfold stripTrailing0
  have h := List.takeWhile_append_dropWhile (p := (· = '0')) (l := t.reverse)
  have h2 : t = (t.reverse.dropWhile (· = '0')).reverse ++ (t.reverse.takeWhile (· = '0')).reverse := by
    rw [← List.reverse_append, h, List.reverse_reverse]
  rw [takeWhile_zero_eq_replicate, List.reverse_replicate] at h2
  simpa using h2

/-! ### grouping -/

theorem group3Rev_filter (t : Text) (h : ',' ∉ t) : ∀ k, (group3Rev t k).filter (· ≠ ',') = t := by
  induction t with
  | nil => intro k; rfl
  | cons c cs ih =>
    intro k
    have hc : c ≠ ',' := fun e => h (by simp [e])
    have hcs : ',' ∉ cs := fun e => h (by simp [e])
    simp only [group3Rev]
    have ih1 := ih hcs 1
    have ih2 := ih hcs (k + 1)
    simp only [ne_eq, decide_not] at ih1 ih2
    split <;> simp [hc, ih1, ih2]

theorem group3_filter (s : Text) (h : ',' ∉ s) : (group3 s).filter (· ≠ ',') = s := by
  unfold group3
  rw [List.filter_reverse, group3Rev_filter _ (by simpa using h), List.reverse_reverse]

/-- in the reversed grouped text a comma stands exactly at every fourth position (indices 3, 7, 11, …) -/
theorem group3Rev_comma (t : Text) (h : ',' ∉ t) : ∀ k i, k ≤ 3 →
    ((group3Rev t k)[i]? = some ',' ↔ i < (group3Rev t k).length ∧ (i + k) % 4 = 3) := by
  induction t with
  | nil => intro k i _; simp [group3Rev]
  | cons c cs ih =>
    intro k i hk
    have hc : c ≠ ',' := fun e => h (by simp [e])
    have hcs : ',' ∉ cs := fun e => h (by simp [e])
    by_cases h3 : k = 3
    · subst h3
      simp only [group3Rev, ↓reduceIte]
      match i with
      | 0 => simp
      | 1 => simp [hc]
      | j + 2 =>
        have := ih hcs 1 j (by omega)
        simp only [List.getElem?_cons_succ, List.length_cons]
        rw [this]
        omega
    · simp only [group3Rev, h3, ↓reduceIte]
      match i with
      | 0 => simp [hc]; omega
      | j + 1 =>
        have := ih hcs (k + 1) j (by omega)
        simp only [List.getElem?_cons_succ, List.length_cons]
        rw [this]
        omega

end Pycel.TextFormat

/-
  The concrete formula language of Model/EngineInst.lean meets the hypotheses of the engine theorems:
  `wfCheck specs = true → WF (mkWb specs)` and `Local (mkWb specs) (sem specs)` (read-locality by construction).
-/
import Pycel.Model.EngineInst
namespace Pycel.EngineInst
open Pycel Pycel.Engine

theorem wf_of_check (specs : List Spec) (h : wfCheck specs = true) : WF (mkWb specs) := by
  constructor
  · intro i j hj
    simp only [mkWb] at hj
    cases hs : specs[i]? with
    | none => simp [hs] at hj
    | some sp =>
      simp only [hs] at hj
      have hi : i < specs.length := by
        rcases List.getElem?_eq_some_iff.mp hs with ⟨hi, _⟩
        exact hi
      have := (List.all_eq_true.mp h) i (List.mem_range.mpr hi)
      simp only [hs] at this
      have := (List.all_eq_true.mp this) j hj
      simpa using this
  · intro i hk
    simp only [mkWb] at hk ⊢
    cases hs : specs[i]? with
    | none => rfl
    | some sp =>
      cases sp with
      | inp v => rfl
      | fml e => simp [hs] at hk
      | rng rows => simp [hs] at hk

theorem evalFml_congr (e : Fml) (env env' : Nat → EV) (h : ∀ j, j ∈ e.refs → env j = env' j) :
    evalFml e env = evalFml e env' := by
  cases e with
  | ref j => simp [evalFml, h j (by simp [Fml.refs])]
  | cat js =>
    have : (js.map fun j => (env j).val) = (js.map fun j => (env' j).val) :=
      List.map_congr_left fun j hj => by rw [h j (by simpa [Fml.refs] using hj)]
    simp [evalFml, this]
  | add a b => simp [evalFml, h a (by simp [Fml.refs]), h b (by simp [Fml.refs])]
  | sub a b => simp [evalFml, h a (by simp [Fml.refs]), h b (by simp [Fml.refs])]
  | eq a b => simp [evalFml, h a (by simp [Fml.refs]), h b (by simp [Fml.refs])]
  | sum js =>
    have : (js.map fun j => (env j).flat) = (js.map fun j => (env' j).flat) :=
      List.map_congr_left fun j hj => by rw [h j (by simpa [Fml.refs] using hj)]
    simp [evalFml, this]
  | cnt js =>
    have : (js.map fun j => (env j).flat) = (js.map fun j => (env' j).flat) :=
      List.map_congr_left fun j hj => by rw [h j (by simpa [Fml.refs] using hj)]
    simp [evalFml, this]
  | idx r row col => simp [evalFml, h r (by simp [Fml.refs])]
  | isum r1 r2 pos => simp [evalFml, h r1 (by simp [Fml.refs])]

theorem sem_local (specs : List Spec) : Local (mkWb specs) (sem specs) := by
  intro i e e' h
  simp only [mkWb] at h
  simp only [sem]
  cases hs : specs[i]? with
  | none => rfl
  | some sp =>
    simp only [hs] at h
    cases sp with
    | inp v => rfl
    | fml fm => exact evalFml_congr fm e e' h

    | rng rows =>
      simp only [Spec.deps] at h
      show EV.arr (rows.map fun row => row.map fun j => (e j).val) =
        EV.arr (rows.map fun row => row.map fun j => (e' j).val)
      congr 1
      apply List.map_congr_left
      intro row hrow
      apply List.map_congr_left
      intro j hj
      rw [h j (List.mem_flatten.mpr ⟨row, hrow, hj⟩)]

end Pycel.EngineInst

/-
  Helper lemmas for C15 (Props/C15.lean): the Counter-based index intersection of handle_ifs equals a filter,
  positions of rectangular ranges, the wildcard matcher against its declarative specification.
-/
import Pycel.Model.Criteria
namespace Pycel.Criteria
open Pycel

/-! ## generic list facts -/

section generic
variable {α : Type} [BEq α] [LawfulBEq α]

/-- Counter keys in insertion order, starting from already seen keys `acc` -/
def keysFrom (acc xs : List α) : List α :=
  xs.foldl (fun acc x => if x ∈ acc then acc else acc ++ [x]) acc

theorem keysFrom_spec (xs : List α) : ∀ acc : List α,
    ∃ extra, keysFrom acc xs = acc ++ extra ∧ ∀ e ∈ extra, e ∉ acc ∧ e ∈ xs := by
  induction xs with
  | nil => intro acc; exact ⟨[], by simp [keysFrom], by simp⟩
  | cons x xs ih =>
    intro acc
    by_cases hx : x ∈ acc
    · obtain ⟨extra, h1, h2⟩ := ih acc
      refine ⟨extra, ?_, ?_⟩
      · simpa [keysFrom, hx] using h1
      · intro e he; exact ⟨(h2 e he).1, List.mem_cons_of_mem _ (h2 e he).2⟩
    · obtain ⟨extra, h1, h2⟩ := ih (acc ++ [x])
      refine ⟨x :: extra, ?_, ?_⟩
      · have : keysFrom acc (x :: xs) = keysFrom (acc ++ [x]) xs := by simp [keysFrom, hx]
        rw [this, h1]; simp
      · intro e he
        rcases List.mem_cons.1 he with rfl | he
        · exact ⟨hx, List.mem_cons_self⟩
        · have := h2 e he
          exact ⟨fun h => this.1 (List.mem_append_left _ h), List.mem_cons_of_mem _ this.2⟩

theorem keysFrom_nodup (xs : List α) : ∀ acc : List α, (acc ++ xs).Nodup → keysFrom acc xs = acc ++ xs := by
  induction xs with
  | nil => intro acc _; simp [keysFrom]
  | cons x xs ih =>
    intro acc h
    have hx : x ∉ acc := by
      intro hmem
      have := (List.nodup_append.1 h).2.2 x hmem x List.mem_cons_self
      exact this rfl
    have h' : (acc ++ [x] ++ xs).Nodup := by simpa using h
    have : keysFrom acc (x :: xs) = keysFrom (acc ++ [x]) xs := by simp [keysFrom, hx]
    rw [this, ih _ h']; simp

/-- chaining a duplicate-free first list with anything: the keys are that list followed by keys outside it -/
theorem keysFrom_append (l1 rest : List α) (h : l1.Nodup) :
    ∃ extra, keysFrom [] (l1 ++ rest) = l1 ++ extra ∧ ∀ e ∈ extra, e ∉ l1 ∧ e ∈ rest := by
  have h1 : keysFrom [] (l1 ++ rest) = keysFrom (keysFrom [] l1) rest := by simp [keysFrom, List.foldl_append]
  have h2 : keysFrom [] l1 = l1 := by simpa using keysFrom_nodup l1 [] (by simpa using h)
  rw [h1, h2]
  exact keysFrom_spec rest l1

theorem count_filter_nodup (P : List α) (hP : P.Nodup) (f : α → Bool) (x : α) (hx : x ∈ P) :
    (P.filter f).count x = if f x then 1 else 0 := by
  rw [(hP.sublist List.filter_sublist).count]
  simp [List.mem_filter, hx]

/-- how many of the predicates `fs` select `x` = how often `x` occurs in the chained selections -/
theorem count_chain (P : List α) (hP : P.Nodup) (fs : List (α → Bool)) (x : α) (hx : x ∈ P) :
    (fs.flatMap fun f => P.filter f).count x = (fs.filter fun f => f x).length := by
  induction fs with
  | nil => simp
  | cons f fs ih =>
    simp only [List.flatMap_cons, List.count_append, ih, count_filter_nodup P hP f x hx, List.filter_cons]
    by_cases h : f x <;> simp [h, Nat.add_comm]

omit [BEq α] [LawfulBEq α] in
theorem mem_chain (P : List α) (fs : List (α → Bool)) (x : α)
    (h : x ∈ fs.flatMap fun f => P.filter f) : x ∈ P := by
  simp only [List.mem_flatMap, List.mem_filter] at h
  obtain ⟨_, _, h, _⟩ := h
  exact h

/-- **Counter intersection = filter.**  Keeping the keys of the chained per-predicate selections whose count equals
    the number of predicates yields exactly the elements of `P` satisfying every predicate, in the order of `P`. -/
theorem counter_intersection (P : List α) (hP : P.Nodup) (fs : List (α → Bool)) (hne : fs ≠ []) :
    (keysFrom [] (fs.flatMap fun f => P.filter f)).filter
        (fun x => (fs.flatMap fun f => P.filter f).count x == fs.length)
      = P.filter fun x => fs.all fun f => f x := by
  have hcnt : ∀ x ∈ P, ((fs.flatMap fun f => P.filter f).count x == fs.length) = fs.all fun f => f x := by
    intro x hx
    rw [count_chain P hP fs x hx]
    by_cases hall : (fs.all fun f => f x) = true
    · rw [hall]
      have : (fs.filter fun f => f x).length = fs.length :=
        List.length_filter_eq_length_iff.2 (by simpa using hall)
      simp [this]
    · have hne' : (fs.filter fun f => f x).length ≠ fs.length := by
        intro h
        exact hall (by simpa using List.length_filter_eq_length_iff.1 h)
      simp only [Bool.not_eq_true] at hall
      rw [hall]; simpa using hne'
  cases fs with
  | nil => exact absurd rfl hne
  | cons f fs =>
    have hsplit : ((f :: fs).flatMap fun g => P.filter g) = P.filter f ++ (fs.flatMap fun g => P.filter g) := by simp
    obtain ⟨extra, hk, hex⟩ := keysFrom_append (P.filter f) (fs.flatMap fun g => P.filter g)
      (hP.sublist List.filter_sublist)
    rw [← hsplit] at hk
    rw [hk, List.filter_append]
    have h1 : (P.filter f).filter (fun x => ((f :: fs).flatMap fun g => P.filter g).count x == (f :: fs).length)
        = P.filter fun x => (f :: fs).all fun g => g x := by
      rw [List.filter_filter]
      apply List.filter_congr
      intro x hx
      rw [hcnt x hx]
      by_cases hf : f x <;> simp [hf]
    have h2 : extra.filter (fun x => ((f :: fs).flatMap fun g => P.filter g).count x == (f :: fs).length) = [] := by
      rw [List.filter_eq_nil_iff]
      intro x hx
      obtain ⟨hnot, hin⟩ := hex x hx
      have hxP : x ∈ P := mem_chain P fs x hin
      rw [hcnt x hxP]
      have : f x = false := by
        cases hfx : f x with
        | false => rfl
        | true => exact absurd (List.mem_filter.2 ⟨hxP, hfx⟩) hnot
      simp [this]
    rw [h1, h2]; simp

omit [BEq α] [LawfulBEq α] in
theorem length_filter_add_not (l : List α) (p : α → Bool) :
    (l.filter p).length + (l.filter fun x => !p x).length = l.length := by
  induction l with
  | nil => rfl
  | cons x xs ih =>
    by_cases h : p x <;> simp [h] <;> omega

end generic

/-! ## positions of ranges -/

theorem keysOf_eq (xs : List Idx) : keysOf xs = keysFrom [] xs := by
  unfold keysOf keysFrom
  congr

theorem posFrom_rect (c : Nat) (a : Arr) (h : ∀ row ∈ a, row.length = c) :
    ∀ k, posFrom k a = (List.range' k a.length).flatMap fun i => rowPos i c := by
  induction a with
  | nil => intro k; simp [posFrom]
  | cons row rest ih =>
    intro k
    have hrow : row.length = c := h row List.mem_cons_self
    have hrest : ∀ r ∈ rest, r.length = c := fun r hr => h r (List.mem_cons_of_mem _ hr)
    simp [posFrom, List.range'_succ, hrow, ih hrest (k + 1)]

/-- a rectangular `r × c` range has the positions of the `r × c` grid -/
theorem pos_rect (a : Arr) (r c : Nat) (hlen : a.length = r) (h : ∀ row ∈ a, row.length = c) :
    pos a = grid r c := by
  simp [pos, grid, posFrom_rect c a h 0, hlen, List.range_eq_range']

/-- row-major order on positions -/
def idxLt (p q : Idx) : Prop := p.1 < q.1 ∨ (p.1 = q.1 ∧ p.2 < q.2)

theorem grid_pairwise (r c : Nat) : (grid r c).Pairwise idxLt := by
  unfold grid
  rw [List.pairwise_flatMap]
  refine ⟨?_, ?_⟩
  · intro i _
    unfold rowPos
    rw [List.pairwise_map]
    exact List.Pairwise.imp (fun h => Or.inr ⟨rfl, h⟩) List.pairwise_lt_range
  · refine List.Pairwise.imp ?_ List.pairwise_lt_range
    intro i j hij p hp q hq
    simp only [rowPos, List.mem_map] at hp hq
    obtain ⟨_, _, rfl⟩ := hp
    obtain ⟨_, _, rfl⟩ := hq
    exact Or.inl hij

theorem grid_nodup (r c : Nat) : (grid r c).Nodup := by
  refine List.Pairwise.imp ?_ (grid_pairwise r c)
  intro p q h heq
  subst heq
  rcases h with h | ⟨_, h⟩ <;> omega

theorem mem_grid (r c : Nat) (p : Idx) : p ∈ grid r c ↔ p.1 < r ∧ p.2 < c := by
  obtain ⟨i, j⟩ := p
  simp only [grid, rowPos, List.mem_flatMap, List.mem_map, List.mem_range, Prod.mk.injEq]
  constructor
  · rintro ⟨a, ha, b, hb, rfl, rfl⟩; exact ⟨ha, hb⟩
  · rintro ⟨h1, h2⟩; exact ⟨i, h1, j, h2, rfl, rfl⟩

/-- a rectangular range: every row as long as the first, with its `size` -/
theorem pos_of_isRect (a : Arr) (h : IsRect a) : pos a = grid (size a).1 (size a).2 :=
  pos_rect a _ _ rfl h

/-! ## the wildcard matcher against its declarative specification -/

/-- declarative meaning of a wildcard pattern: `lit c` is the character c, `one` (`?`) is any one character,
    `star` (`*`) is any sequence of characters (possibly empty); the pattern must account for the whole text -/
inductive Matches : List Tok → List Char → Prop
  | nil : Matches [] []
  | lit {c : Char} {p : List Tok} {s : List Char} : Matches p s → Matches (.lit c :: p) (c :: s)
  | one {x : Char} {p : List Tok} {s : List Char} : Matches p s → Matches (.one :: p) (x :: s)
  | star {p : List Tok} {s : List Char} (s1 s2 : List Char) : s = s1 ++ s2 → Matches p s2 → Matches (.star :: p) s

theorem anySuffix_iff (f : List Char → Bool) (s : List Char) :
    anySuffix f s = true ↔ ∃ s1 s2, s = s1 ++ s2 ∧ f s2 = true := by
  induction s with
  | nil =>
    simp only [anySuffix]
    constructor
    · intro h; exact ⟨[], [], rfl, h⟩
    · rintro ⟨s1, s2, h, hf⟩
      have : s2 = [] := (List.append_eq_nil_iff.1 h.symm).2
      rw [this] at hf; exact hf
  | cons c s ih =>
    simp only [anySuffix, Bool.or_eq_true, ih]
    constructor
    · rintro (h | ⟨s1, s2, rfl, hf⟩)
      · exact ⟨[], c :: s, rfl, h⟩
      · exact ⟨c :: s1, s2, rfl, hf⟩
    · rintro ⟨s1, s2, h, hf⟩
      cases s1 with
      | nil => left; simp at h; rw [h]; exact hf
      | cons d s1 =>
        right
        simp only [List.cons_append, List.cons.injEq] at h
        exact ⟨s1, s2, h.2, hf⟩

theorem matchPat_iff (p : List Tok) : ∀ s : List Char, matchPat p s = true ↔ Matches p s := by
  induction p with
  | nil =>
    intro s
    cases s with
    | nil => exact ⟨fun _ => Matches.nil, fun _ => rfl⟩
    | cons c s => exact ⟨fun h => absurd (show false = true from h) (by decide), fun h => by cases h⟩
  | cons t p ih =>
    intro s
    cases t with
    | lit c =>
      cases s with
      | nil => simp [matchPat]; intro h; cases h
      | cons x s =>
        simp only [matchPat, Bool.and_eq_true, beq_iff_eq, ih]
        constructor
        · rintro ⟨rfl, h⟩; exact Matches.lit h
        · intro h; cases h with | lit h => exact ⟨rfl, h⟩
    | one =>
      cases s with
      | nil => simp [matchPat]; intro h; cases h
      | cons x s =>
        simp only [matchPat, ih]
        constructor
        · intro h; exact Matches.one h
        · intro h; cases h with | one h => exact h
    | star =>
      simp only [matchPat, anySuffix_iff]
      constructor
      · rintro ⟨s1, s2, hs, h⟩; exact Matches.star s1 s2 hs ((ih s2).1 h)
      · intro h; cases h with | star s1 s2 hs h => exact ⟨s1, s2, hs, (ih s2).2 h⟩

/-- a pattern of literals only matches exactly its own text -/
theorem matchPat_lits (v s : List Char) : matchPat (v.map Tok.lit) s = (s == v) := by
  induction v generalizing s with
  | nil => cases s <;> simp [matchPat]
  | cons c v ih =>
    cases s with
    | nil => simp [matchPat]
    | cons x s =>
      simp only [List.map_cons, matchPat, ih]
      by_cases h : x = c <;> simp [h]

/-- text without `?`, `*`, `~` parses to its own literals -/
theorem parsePat_plain (v : List Char) (h : hasWild v = false) : parsePat v = v.map Tok.lit := by
  induction v with
  | nil => simp [parsePat]
  | cons c v ih =>
    simp only [hasWild, List.any_cons, Bool.or_eq_false_iff, decide_eq_false_iff_not] at h
    obtain ⟨⟨⟨h1, h2⟩, h3⟩, h4⟩ := h
    have := ih (by simpa [hasWild] using h4)
    rw [parsePat.eq_def]
    simp [h1, h2, h3, this]

/-! ## pattern TEXT: parsing equations and the character-level specification -/

theorem parsePat_nil : parsePat [] = [] := by rw [parsePat.eq_def]
theorem parsePat_tilde_end : parsePat ['~'] = [.lit '~'] := by rw [parsePat.eq_def]; simp
theorem parsePat_esc (x : Char) (r : List Char) : parsePat ('~' :: x :: r) = .lit x :: parsePat r := by
  rw [parsePat.eq_def]; simp
theorem parsePat_one (r : List Char) : parsePat ('?' :: r) = .one :: parsePat r := by rw [parsePat.eq_def]; simp
theorem parsePat_star (r : List Char) : parsePat ('*' :: r) = .star :: parsePat r := by rw [parsePat.eq_def]; simp
theorem parsePat_lit (c : Char) (r : List Char) (h1 : c ≠ '~') (h2 : c ≠ '?') (h3 : c ≠ '*') :
    parsePat (c :: r) = .lit c :: parsePat r := by
  rw [parsePat.eq_def]; simp [h1, h2, h3]

/-- declarative meaning of wildcard pattern TEXT: `~x` is the character x (a trailing lone `~` is itself), `?` is any
    one character, `*` is any sequence of characters, any other character is itself; the whole text is consumed -/
inductive WildMatches : List Char → List Char → Prop
  | nil : WildMatches [] []
  | esc {x : Char} {r s : List Char} : WildMatches r s → WildMatches ('~' :: x :: r) (x :: s)
  | tildeEnd : WildMatches ['~'] ['~']
  | one {x : Char} {r s : List Char} : WildMatches r s → WildMatches ('?' :: r) (x :: s)
  | star {r s : List Char} (s1 s2 : List Char) : s = s1 ++ s2 → WildMatches r s2 → WildMatches ('*' :: r) s
  | lit {c : Char} {r s : List Char} : c ≠ '~' → c ≠ '?' → c ≠ '*' → WildMatches r s → WildMatches (c :: r) (c :: s)

theorem wild_to_matches {pat s : List Char} (h : WildMatches pat s) : Matches (parsePat pat) s := by
  induction h with
  | nil => rw [parsePat_nil]; exact Matches.nil
  | esc _ ih => rw [parsePat_esc]; exact Matches.lit ih
  | tildeEnd => rw [parsePat_tilde_end]; exact Matches.lit Matches.nil
  | one _ ih => rw [parsePat_one]; exact Matches.one ih
  | star s1 s2 hs _ ih => rw [parsePat_star]; exact Matches.star s1 s2 hs ih
  | lit h1 h2 h3 _ ih => rw [parsePat_lit _ _ h1 h2 h3]; exact Matches.lit ih

theorem matches_nil_inv {s : List Char} (h : Matches [] s) : s = [] := by cases h; rfl
theorem matches_lit_inv {c : Char} {p : List Tok} {s : List Char} (h : Matches (.lit c :: p) s) :
    ∃ s', s = c :: s' ∧ Matches p s' := by cases h with | lit h => exact ⟨_, rfl, h⟩
theorem matches_one_inv {p : List Tok} {s : List Char} (h : Matches (.one :: p) s) :
    ∃ x s', s = x :: s' ∧ Matches p s' := by cases h with | one h => exact ⟨_, _, rfl, h⟩
theorem matches_star_inv {p : List Tok} {s : List Char} (h : Matches (.star :: p) s) :
    ∃ s1 s2, s = s1 ++ s2 ∧ Matches p s2 := by cases h with | star s1 s2 hs h => exact ⟨s1, s2, hs, h⟩

theorem matches_to_wild : ∀ (pat s : List Char), Matches (parsePat pat) s → WildMatches pat s
  | [], s, h => by
    rw [parsePat_nil] at h
    rw [matches_nil_inv h]; exact WildMatches.nil
  | c :: r, s, h => by
    by_cases h1 : c = '~'
    · subst h1
      revert h
      cases r with
      | nil =>
        intro h
        rw [parsePat_tilde_end] at h
        obtain ⟨s', rfl, h'⟩ := matches_lit_inv h
        rw [matches_nil_inv h']; exact WildMatches.tildeEnd
      | cons x r' =>
        intro h
        rw [parsePat_esc] at h
        obtain ⟨s', rfl, h'⟩ := matches_lit_inv h
        exact WildMatches.esc (matches_to_wild r' s' h')
    · by_cases h2 : c = '?'
      · subst h2
        rw [parsePat_one] at h
        obtain ⟨x, s', rfl, h'⟩ := matches_one_inv h
        exact WildMatches.one (matches_to_wild r s' h')
      · by_cases h3 : c = '*'
        · subst h3
          rw [parsePat_star] at h
          obtain ⟨s1, s2, hs, h'⟩ := matches_star_inv h
          exact WildMatches.star s1 s2 hs (matches_to_wild r s2 h')
        · rw [parsePat_lit c r h1 h2 h3] at h
          obtain ⟨s', rfl, h'⟩ := matches_lit_inv h
          exact WildMatches.lit h1 h2 h3 (matches_to_wild r s' h')
termination_by pat => pat.length

theorem wildMatches_iff (pat s : List Char) : matchPat (parsePat pat) s = true ↔ WildMatches pat s :=
  (matchPat_iff _ _).trans ⟨matches_to_wild pat s, wild_to_matches⟩

/-! ## handle_ifs building blocks -/

theorem parseAll_fst : ∀ (args : List (Arr × Val)) (pairs : List (Arr × Crit)),
    parseAll args = some pairs → pairs.map Prod.fst = args.map Prod.fst := by
  intro args
  induction args with
  | nil => intro pairs h; simp [parseAll] at h; subst h; rfl
  | cons av rest ih =>
    intro pairs h
    obtain ⟨a, v⟩ := av
    simp only [parseAll] at h
    split at h
    · rename_i c r hc hr
      simp only [Option.some.injEq] at h
      subst h
      simp [ih r hr]
    · simp at h

theorem parseAll_crit : ∀ (args : List (Arr × Val)) (pairs : List (Arr × Crit)),
    parseAll args = some pairs → pairs.map (fun ac => some ac.2) = args.map fun av => criteriaParser av.2 := by
  intro args
  induction args with
  | nil => intro pairs h; simp [parseAll] at h; subst h; rfl
  | cons av rest ih =>
    intro pairs h
    obtain ⟨a, v⟩ := av
    simp only [parseAll] at h
    split at h
    · rename_i c r hc hr
      simp only [Option.some.injEq] at h
      subst h
      simp [ih r hr, hc]
    · simp at h

theorem parseAll_isSome : ∀ (args : List (Arr × Val)),
    (parseAll args).isSome = args.all fun av => (criteriaParser av.2).isSome := by
  intro args
  induction args with
  | nil => simp [parseAll]
  | cons av rest ih =>
    obtain ⟨a, v⟩ := av
    simp only [parseAll, List.all_cons]
    rw [← ih]
    cases criteriaParser v <;> cases parseAll rest <;> simp

theorem flatMap_congr' {α β : Type} (l : List α) (f g : α → List β) (h : ∀ x ∈ l, f x = g x) :
    l.flatMap f = l.flatMap g := by
  induction l with
  | nil => rfl
  | cons x xs ih =>
    simp only [List.flatMap_cons]
    rw [h x List.mem_cons_self, ih fun y hy => h y (List.mem_cons_of_mem _ hy)]

/-- when every size check passes, handle_ifs is the parse followed by the index intersection -/
theorem handleIfs_of_sizes (a0 : Arr) (v0 : Val) (rest : List (Arr × Val)) (op : Option Arr)
    (h1 : ∀ av ∈ (a0, v0) :: rest, size av.1 = size a0) (h2 : ∀ o, op = some o → size o = size a0) :
    handleIfs ((a0, v0) :: rest) op =
      match parseAll ((a0, v0) :: rest) with
      | none => .raise "ValueError"
      | some pairs => .ok (intersect pairs) := by
  have hs1 : (((a0, v0) :: rest).all fun av => size av.1 == size a0) = true := by
    rw [List.all_eq_true]; intro av hav; simp [h1 av hav]
  unfold handleIfs
  cases op with
  | none =>
    simp only [hs1, Bool.not_true, Bool.false_eq_true, ↓reduceIte]
    cases parseAll ((a0, v0) :: rest) <;> rfl
  | some o =>
    have hs2 : (((a0, v0) :: rest).all fun av => size o == size av.1) = true := by
      rw [List.all_eq_true]; intro av hav; simp [h1 av hav, h2 o rfl]
    simp only [hs1, hs2, Bool.not_true, Bool.false_eq_true, ↓reduceIte]
    cases parseAll ((a0, v0) :: rest) <;> rfl

theorem criteriaParser_isSome (v : Val) : (criteriaParser v).isSome = (v != .blank) := by
  cases v <;> simp [criteriaParser] <;> decide

/-! ## proofs behind the statements of Props/C15.lean -/

/-- the index intersection of `handle_ifs` equals the row-major filter (statement: Props/C15 `C15_selects_exactly`) -/
theorem handleIfs_selects (args : List (Arr × Val)) (op : Option Arr) (r c : Nat)
    (hne : args ≠ [])
    (hrect : ∀ av ∈ args, IsRect av.1) (hsize : ∀ av ∈ args, size av.1 = (r, c))
    (hop : ∀ o, op = some o → size o = (r, c))
    (pairs : List (Arr × Crit)) (hparse : parseAll args = some pairs) :
    handleIfs args op = .ok ((grid r c).filter fun p => pairs.all fun ac => sat ac.2 (cell ac.1 p)) := by
  cases args with
  | nil => exact absurd rfl hne
  | cons av0 rest =>
    obtain ⟨a0, v0⟩ := av0
    have h0 : size a0 = (r, c) := hsize (a0, v0) List.mem_cons_self
    rw [handleIfs_of_sizes a0 v0 rest op (fun av hav => by rw [hsize av hav, h0])
      (fun o ho => by rw [hop o ho, h0]), hparse]
    simp only []
    -- the intersection
    have hfst := parseAll_fst _ _ hparse
    have hpos : ∀ ac ∈ pairs, pos ac.1 = grid r c := by
      intro ac hac
      have : ac.1 ∈ (((a0, v0) :: rest).map Prod.fst) := by
        rw [← hfst]; exact List.mem_map_of_mem hac
      obtain ⟨av, hav, heq⟩ := List.mem_map.1 this
      have hr := pos_of_isRect av.1 (hrect av hav)
      rw [hsize av hav] at hr
      rw [← heq]; exact hr
    have hpne : pairs ≠ [] := by
      intro h; rw [h] at hfst; simp at hfst
    congr 1
    unfold intersect
    have hchain : (pairs.flatMap fun ac => findIdx ac.1 ac.2)
        = ((pairs.map fun ac => fun p => sat ac.2 (cell ac.1 p)).flatMap fun f => (grid r c).filter f) := by
      rw [List.flatMap_map]
      apply flatMap_congr'
      intro ac hac
      simp [findIdx, hpos ac hac]
    have hlen : pairs.length = (pairs.map fun ac => fun p => sat ac.2 (cell ac.1 p)).length := by simp
    simp only []
    rw [hchain, hlen, keysOf_eq,
      counter_intersection (grid r c) (grid_nodup r c) _ (by simpa using hpne)]
    apply List.filter_congr
    intro p _
    simp [List.all_map, Function.comp_def]

theorem handleIfs_size_mismatch (a0 : Arr) (v0 : Val) (rest : List (Arr × Val)) (op : Option Arr)
    (h : (∃ av ∈ rest, size av.1 ≠ size a0) ∨ (∃ o, op = some o ∧ size o ≠ size a0)) :
    handleIfs ((a0, v0) :: rest) op = .error .value := by
  unfold handleIfs
  by_cases h1 : (((a0, v0) :: rest).all fun av => size av.1 == size a0) = true
  · rcases h with ⟨av, hav, hne⟩ | ⟨o, rfl, hne⟩
    · rw [List.all_eq_true] at h1
      have := h1 av (List.mem_cons_of_mem _ hav)
      simp at this; exact absurd this hne
    · have : (((a0, v0) :: rest).all fun av => size o == size av.1) = false := by
        simp [hne]
      simp [h1, this]
  · simp [h1]

theorem parseAll_perm {args args' : List (Arr × Val)} (h : args.Perm args') :
    (parseAll args = none ∧ parseAll args' = none) ∨
      ∃ ps ps', parseAll args = some ps ∧ parseAll args' = some ps' ∧ ps.Perm ps' := by
  induction h with
  | nil => right; exact ⟨[], [], rfl, rfl, List.Perm.refl _⟩
  | cons av _ ih =>
    obtain ⟨a, v⟩ := av
    rcases ih with ⟨h1, h2⟩ | ⟨ps, ps', h1, h2, hp⟩
    · left; simp only [parseAll, h1, h2]; cases criteriaParser v <;> simp
    · cases hk : criteriaParser v with
      | none => left; simp [parseAll, hk]
      | some k => right; exact ⟨(a, k) :: ps, (a, k) :: ps', by simp [parseAll, hk, h1], by simp [parseAll, hk, h2],
          hp.cons _⟩
  | swap av1 av2 l =>
    obtain ⟨a1, v1⟩ := av1
    obtain ⟨a2, v2⟩ := av2
    cases hl : parseAll l with
    | none => left; simp only [parseAll, hl]; cases criteriaParser v1 <;> cases criteriaParser v2 <;> simp
    | some ps =>
      cases hk1 : criteriaParser v1 with
      | none => left; simp only [parseAll, hl, hk1]; cases criteriaParser v2 <;> simp
      | some k1 =>
        cases hk2 : criteriaParser v2 with
        | none => left; simp [parseAll, hl, hk1, hk2]
        | some k2 =>
          right
          exact ⟨(a2, k2) :: (a1, k1) :: ps, (a1, k1) :: (a2, k2) :: ps, by simp [parseAll, hl, hk1, hk2],
            by simp [parseAll, hl, hk1, hk2], List.Perm.swap _ _ _⟩
  | trans _ _ ih1 ih2 =>
    rcases ih1 with ⟨h1, h2⟩ | ⟨ps, ps', h1, h2, hp⟩
    · rcases ih2 with ⟨_, h4⟩ | ⟨qs, _, h3, _, _⟩
      · left; exact ⟨h1, h4⟩
      · rw [h2] at h3; cases h3
    · rcases ih2 with ⟨h3, _⟩ | ⟨qs, qs', h3, h4, hq⟩
      · rw [h2] at h3; cases h3
      · right
        rw [h2] at h3; cases h3
        exact ⟨ps, qs', h1, h4, hp.trans hq⟩

/-- permuting the (range, criterion) pairs does not change `handle_ifs` (statement: Props/C15 `C15_commute`) -/
theorem handleIfs_perm (args args' : List (Arr × Val)) (op : Option Arr) (hperm : args.Perm args')
    (hrect : ∀ av ∈ args, IsRect av.1) : handleIfs args op = handleIfs args' op := by
  cases hargs : args with
  | nil =>
    rw [hargs] at hperm
    rw [List.Perm.eq_nil (hperm.symm)]
  | cons av0 rest =>
    cases hargs' : args' with
    | nil => rw [hargs'] at hperm; exact absurd (List.Perm.eq_nil hperm) (by simp [hargs])
    | cons bv0 rest' =>
      rw [← hargs, ← hargs']
      have hmem : ∀ x, x ∈ args ↔ x ∈ args' := fun x => hperm.mem_iff
      have hav0 : av0 ∈ args := by rw [hargs]; exact List.mem_cons_self
      have hbv0 : bv0 ∈ args' := by rw [hargs']; exact List.mem_cons_self
      -- either some size differs from the others (both sides #VALUE!) or all sizes agree
      by_cases hall : ∀ av ∈ args, size av.1 = size av0.1
      · have hall' : ∀ bv ∈ args', size bv.1 = size av0.1 := fun bv hbv => hall bv ((hmem bv).2 hbv)
        by_cases hopc : ∀ o, op = some o → size o = size av0.1
        · rcases parseAll_perm hperm with ⟨h1, h2⟩ | ⟨ps, ps', h1, h2, hp⟩
          · have e1 : handleIfs args op = .raise "ValueError" := by
              rw [hargs] at hall h1 ⊢
              obtain ⟨a0, v0⟩ := av0
              rw [handleIfs_of_sizes a0 v0 rest op hall hopc, h1]
            have e2 : handleIfs args' op = .raise "ValueError" := by
              have hb0 : size bv0.1 = size av0.1 := hall' bv0 hbv0
              rw [hargs'] at hall' h2 ⊢
              obtain ⟨b0, w0⟩ := bv0
              rw [handleIfs_of_sizes b0 w0 rest' op (fun av hav => by rw [hall' av hav, hb0])
                (fun o ho => by rw [hopc o ho, hb0]), h2]
            rw [e1, e2]
          · have hne : args ≠ [] := by simp [hargs]
            have hne' : args' ≠ [] := by simp [hargs']
            have hrect' : ∀ bv ∈ args', IsRect bv.1 := fun bv hbv => hrect bv ((hmem bv).2 hbv)
            rw [handleIfs_selects args op (size av0.1).1 (size av0.1).2 hne hrect hall hopc ps h1,
              handleIfs_selects args' op (size av0.1).1 (size av0.1).2 hne' hrect' hall' hopc ps' h2]
            congr 1
            apply List.filter_congr
            intro p _
            have : ∀ q : Arr × Crit, q ∈ ps ↔ q ∈ ps' := fun q => hp.mem_iff
            rw [Bool.eq_iff_iff]; simp only [List.all_eq_true]
            exact ⟨fun h q hq => h q ((this q).2 hq), fun h q hq => h q ((this q).1 hq)⟩
        · -- the aggregated range has another size: #VALUE! on both sides
          have hopc' : ∃ o, op = some o ∧ size o ≠ size av0.1 := by
            apply Classical.byContradiction
            intro hcon
            apply hopc
            intro o ho
            apply Classical.byContradiction
            intro hne
            exact hcon ⟨o, ho, hne⟩
          obtain ⟨o, rfl, hne⟩ := hopc'
          have hb0 : size bv0.1 = size av0.1 := hall' bv0 hbv0
          rw [hargs, hargs']
          obtain ⟨a0, v0⟩ := av0
          obtain ⟨b0, w0⟩ := bv0
          rw [handleIfs_size_mismatch a0 v0 rest (some o) (Or.inr ⟨o, rfl, hne⟩),
            handleIfs_size_mismatch b0 w0 rest' (some o) (Or.inr ⟨o, rfl, by rw [hb0]; exact hne⟩)]
      · -- two criteria ranges of different size: #VALUE! on both sides
        have hex : ∃ av ∈ args, size av.1 ≠ size av0.1 := by
          apply Classical.byContradiction
          intro hcon
          apply hall
          intro av hav
          apply Classical.byContradiction
          intro hne
          exact hcon ⟨av, hav, hne⟩
        obtain ⟨av, hav, hne⟩ := hex
        have e1 : handleIfs args op = .error .value := by
          rw [hargs] at hav ⊢
          obtain ⟨a0, v0⟩ := av0
          rcases List.mem_cons.1 hav with h | h
          · rw [h] at hne; exact absurd rfl hne
          · exact handleIfs_size_mismatch a0 v0 rest op (Or.inl ⟨av, h, hne⟩)
        have e2 : handleIfs args' op = .error .value := by
          -- in args' either av or av0 differs from the head bv0
          have hav' : av ∈ args' := (hmem av).1 hav
          have hav0' : av0 ∈ args' := (hmem av0).1 hav0
          rw [hargs'] at hav' hav0' ⊢
          obtain ⟨b0, w0⟩ := bv0
          by_cases hb : size av.1 = size b0
          · have hne0 : size av0.1 ≠ size b0 := by rw [← hb]; exact fun h => hne h.symm
            rcases List.mem_cons.1 hav0' with h | h
            · rw [h] at hne0; exact absurd rfl hne0
            · exact handleIfs_size_mismatch b0 w0 rest' op (Or.inl ⟨av0, h, hne0⟩)
          · rcases List.mem_cons.1 hav' with h | h
            · rw [h] at hb; exact absurd rfl hb
            · exact handleIfs_size_mismatch b0 w0 rest' op (Or.inl ⟨av, h, hb⟩)
        rw [e1, e2]

theorem handleIfs_none_of_some (args : List (Arr × Val)) (o : Arr) (coords : List Idx)
    (h : handleIfs args (some o) = .ok coords) : handleIfs args none = .ok coords := by
  unfold handleIfs at h ⊢
  cases args with
  | nil => simp at h
  | cons av rest =>
    simp only at h ⊢
    split at h
    · simp at h
    · rename_i h1
      simp only [h1, ↓reduceIte]
      split at h
      · simp at h
      · exact h

theorem firstErr_nums (l : List Val) (h : ∀ v ∈ l, ∃ q, v = .num q) : firstErr l = none ∧ kept l = l := by
  induction l with
  | nil => exact ⟨rfl, rfl⟩
  | cons v l ih =>
    obtain ⟨q, rfl⟩ := h v List.mem_cons_self
    obtain ⟨h1, h2⟩ := ih fun w hw => h w (List.mem_cons_of_mem _ hw)
    refine ⟨?_, ?_⟩
    · simpa [firstErr, errOf?] using h1
    · simp only [kept, numOf?, List.filter_cons, Option.isSome_some, ↓reduceIte, List.cons.injEq, true_and]
      exact h2

theorem pyMax_mem (m : Val) (xs : List Val) : pyMax m xs ∈ m :: xs := by
  induction xs generalizing m with
  | nil => simp [pyMax]
  | cons x xs ih =>
    simp only [pyMax]
    have := ih (if valNum m < valNum x then x else m)
    split at this <;> simp_all <;> grind

theorem pyMin_mem (m : Val) (xs : List Val) : pyMin m xs ∈ m :: xs := by
  induction xs generalizing m with
  | nil => simp [pyMin]
  | cons x xs ih =>
    simp only [pyMin]
    have := ih (if valNum x < valNum m then x else m)
    split at this <;> simp_all <;> grind

theorem mem_kept (l : List Val) (v : Val) (h : v ∈ kept l) : (∃ q, v = .num q) ∨ ∃ b, v = .bool b := by
  simp only [kept, List.mem_filter] at h
  cases v <;> simp_all [numOf?]

end Pycel.Criteria

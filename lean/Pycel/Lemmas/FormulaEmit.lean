/-
  Lemmas for C02, part 2: the emitted Python token list parses (under the model of Python's grammar) to the Python
  meaning of the tree, and literals denote themselves.
-/
import Pycel.Model.Formula
namespace Pycel.Formula

/-! ## text literals -/

/-- Excel's quoting of a text body: every `"` doubled -/
def dbl : List Char → List Char
  | [] => []
  | c :: r => if c = '"' then '"' :: '"' :: dbl r else c :: dbl r

/-- the TEXT token of the characters `s` -/
def quoteText (s : List Char) : List Char := '"' :: dbl s ++ ['"']

/-- character-wise Python escaping: what the repaired emitter writes for each denoted character -/
def esc1 (c : Char) : List Char :=
  if c = '"' then ['\\', '"'] else if c = '\\' then ['\\', '\\'] else if c = '\n' then ['\\', 'n']
  else if c = '\r' then ['\\', 'r'] else [c]

def pyEsc : List Char → List Char
  | [] => []
  | c :: r => esc1 c ++ pyEsc r

theorem escBody_dbl (s : List Char) : escBody true (dbl s) = pyEsc s := by
  induction s with
  | nil => rfl
  | cons c r ih =>
    by_cases hq : c = '"'
    · subst hq
      simp only [dbl, if_true, escBody, and_self, ih, pyEsc, esc1]
      rfl
    · simp only [dbl, hq, if_false, pyEsc]
      have key : ∀ x : List Char, escBody true (c :: x) = esc1 c ++ escBody true x := by
        intro x
        cases x with
        | nil =>
          by_cases h2 : c = '\\'
          · subst h2; simp [escBody, esc1]
          by_cases h3 : c = '\n'
          · subst h3; simp [escBody, esc1]
          by_cases h4 : c = '\r'
          · subst h4; simp [escBody, esc1]
          simp [escBody, esc1, hq, h2, h3, h4]
        | cons d x' =>
          by_cases h2 : c = '\\'
          · subst h2; simp [escBody, esc1]
          by_cases h3 : c = '\n'
          · subst h3; simp [escBody, esc1]
          by_cases h4 : c = '\r'
          · subst h4; simp [escBody, esc1]
          simp [escBody, esc1, hq, h2, h3, h4]
      rw [key, ih]

theorem pyUnescape_pyEsc (s : List Char) : pyUnescape (pyEsc s) = some s := by
  induction s with
  | nil => rfl
  | cons c r ih =>
    simp only [pyEsc, esc1]
    by_cases h1 : c = '"'
    · subst h1; simp [pyUnescape, isDigit, escChar, ih]
    by_cases h2 : c = '\\'
    · subst h2; simp [pyUnescape, isDigit, escChar, ih]
    by_cases h3 : c = '\n'
    · subst h3; simp [pyUnescape, isDigit, escChar, ih]
    by_cases h4 : c = '\r'
    · subst h4; simp [pyUnescape, isDigit, escChar, ih]
    simp only [h1, h2, h3, h4, if_false, List.singleton_append]
    cases hr : pyEsc r with
    | nil => rw [hr] at ih; simp [pyUnescape, h1, h2, h3, h4] at ih ⊢; exact ih
    | cons d r' => rw [hr] at ih; simp [pyUnescape, h1, h2, h3, h4, ih]

theorem undouble_dbl (s : List Char) : undouble (dbl s) = s := by
  induction s with
  | nil => rfl
  | cons c r ih =>
    by_cases hq : c = '"'
    · subst hq; simp [dbl, undouble, ih]
    · simp only [dbl, hq, if_false]
      cases hr : dbl r with
      | nil => rw [hr] at ih; simp [undouble] at ih ⊢; exact ih
      | cons d r' => rw [hr] at ih; simp [undouble, hq, ih]

theorem stripQuotes_quoteText (s : List Char) : stripQuotes (quoteText s) = dbl s := by
  have e : quoteText s = ('"' :: dbl s) ++ ['"'] := rfl
  have h2 : (quoteText s).getLast? = some '"' := by rw [e, List.getLast?_concat]
  unfold stripQuotes
  rw [if_pos ⟨rfl, h2⟩, e]
  show (dbl s ++ ['"']).dropLast = dbl s
  exact List.dropLast_concat

end Pycel.Formula

namespace Pycel.Formula

/-! ## what may follow an emitted expression -/

/-- end of input, `)` or `,` -/
def closeNext : List PyTok → Prop
  | [] => True
  | .rpar :: _ => True
  | .comma :: _ => True
  | _ => False

/-- end of input, `)`, `,` or an operator -/
def okNext : List PyTok → Prop
  | [] => True
  | .rpar :: _ => True
  | .comma :: _ => True
  | .op _ :: _ => True
  | _ => False

/-- the loop at level `min` stops in front of `rest` -/
def stops (min : Nat) : List PyTok → Prop
  | .op o :: _ => o.level < min
  | _ => True

theorem closeNext_ok {r : List PyTok} (h : closeNext r) : okNext r := by
  cases r with
  | nil => trivial
  | cons t r => cases t <;> simp_all [closeNext, okNext]

theorem closeNext_stops {r : List PyTok} (h : closeNext r) (m : Nat) : stops m r := by
  cases r with
  | nil => trivial
  | cons t r => cases t <;> simp_all [closeNext, stops]

theorem stops_mono {m k : Nat} (h : m ≤ k) {r : List PyTok} (hs : stops m r) : stops k r := by
  cases r with
  | nil => trivial
  | cons t r => cases t <;> simp_all [stops]; omega

theorem pLoop_stop (n min : Nat) (x : PyExpr) {r : List PyTok} (ho : okNext r) (hs : stops min r) :
    pLoop (n + 1) min x r = some (x, r) := by
  cases r with
  | nil => simp [pLoop]
  | cons t r =>
    cases t with
    | op o => simp only [stops] at hs; simp [pLoop, hs]
    | _ => simp [pLoop]

theorem pExpr_sub (n min : Nat) (rest : List PyTok) :
    pExpr (n + 1) min (.op .sub :: rest) = (pExpr n 4 rest).bind fun (x, r) => pLoop n min (.neg x) r := by
  simp [pExpr]

theorem pExpr_prim (n min : Nat) (t : PyTok) (h : t ≠ .op .sub) (rest : List PyTok) :
    pExpr (n + 1) min (t :: rest) = (pPrimary n (t :: rest)).bind fun (x, r) => pLoop n min x r := by
  cases t with
  | op o => cases o <;> simp_all [pExpr]
  | _ => simp [pExpr]

/-! ## emittable trees -/

def InOp.arith : InOp → Bool
  | .colon | .space | .comma => false
  | _ => true

def Operand.emittable : Operand → Prop
  | .number t => (pyNumValue? (emitNumber true t)).isSome = true
  | .text raw => ∃ s, raw = quoteText s
  | .range t => pyUnescape (t.filter (· ≠ '$')) = some (t.filter (· ≠ '$'))
  | _ => True

def plainFn (name : List Char) : Prop :=
  pyFuncBase name ≠ ['a', 'r', 'r', 'a', 'y'] ∧ pyFuncBase name ≠ ['a', 'r', 'r', 'a', 'y', 'r', 'o', 'w']

mutual
/-- trees inside the scope of `C02_emit`: arithmetic / comparison operators, plain function calls, literals that
    are tokens the tokenizer can produce -/
def Expr.emittable : Expr → Prop
  | .operand o => o.emittable
  | .neg e => e.emittable
  | .pct e => e.emittable
  | .bin op l r => op.arith = true ∧ l.emittable ∧ r.emittable
  | .func name args => plainFn name ∧ emittableList args
def emittableList : List Expr → Prop
  | [] => True
  | e :: es => e.emittable ∧ emittableList es
end

/-- the emitted tokens without regard to the parent -/
abbrev I (e : Expr) : List PyTok := emitE true .root e

/-- does the node get parentheses under an operator parent (`powLeft` = it is the left operand of `^`) -/
def parenUnder : Expr → Bool → Bool
  | .neg _, b => b
  | .pct _, _ => true
  | .bin _ _ _, _ => true
  | _, _ => false

theorem emitE_funcArg (e : Expr) : emitE true .funcArg e = I e := by
  cases e <;> simp [emitE, I, wrap, Ctx.isOp]
  all_goals (try split) <;> simp [wrap, Ctx.isOp]

theorem emitE_op (e : Expr) (b : Bool) :
    emitE true (.opChild b) e = if parenUnder e b then .lpar :: I e ++ [.rpar] else I e := by
  cases e with
  | operand o => simp [emitE, I, parenUnder]
  | func name args => simp [emitE, I, parenUnder]
  | neg e => cases b <;> simp [emitE, I, parenUnder]
  | pct e => simp [emitE, I, parenUnder, wrap, Ctx.isOp]
  | bin op l r => cases op <;> simp [emitE, I, parenUnder, wrap, Ctx.isOp]

end Pycel.Formula

namespace Pycel.Formula

theorem errText_unescape (e : Err) : pyUnescape (escBody true (errText e)) = some (errText e) := by
  cases e <;> decide

theorem num100_ok : (pyNumValue? ['1', '0', '0']).isSome = true := by decide

/-- primary parse of an operand -/
theorem primary_operand (o : Operand) (ho : o.emittable) (n : Nat) (rest : List PyTok)
    (hn : 4 * (emitOperand true o).length ≤ n) (hr : okNext rest) :
    pPrimary n (emitOperand true o ++ rest) = some (toPyOperand o, rest) := by
  cases o with
  | logical b =>
    obtain ⟨m, rfl⟩ : ∃ m, n = m + 1 := ⟨n - 1, by simp [emitOperand] at hn; omega⟩
    cases rest with
    | nil => simp [emitOperand, toPyOperand, pPrimary]
    | cons t r => cases t <;> simp_all [emitOperand, toPyOperand, pPrimary, okNext]
  | empty =>
    obtain ⟨m, rfl⟩ : ∃ m, n = m + 1 := ⟨n - 1, by simp [emitOperand] at hn; omega⟩
    cases rest with
    | nil => simp [emitOperand, toPyOperand, pPrimary]
    | cons t r => cases t <;> simp_all [emitOperand, toPyOperand, pPrimary, okNext]
  | number t =>
    obtain ⟨m, rfl⟩ : ∃ m, n = m + 1 := ⟨n - 1, by simp [emitOperand] at hn; omega⟩
    simp only [Operand.emittable] at ho
    simp [emitOperand, toPyOperand, pPrimary, ho]
  | error e =>
    obtain ⟨m, rfl⟩ : ∃ m, n = m + 1 := ⟨n - 1, by simp [emitOperand] at hn; omega⟩
    cases rest with
    | nil => simp [emitOperand, toPyOperand, pPrimary, errText_unescape]
    | cons t r => cases t <;> simp_all [emitOperand, toPyOperand, pPrimary, okNext, errText_unescape]
  | text raw =>
    have hl : (emitOperand true (.text raw)).length = 1 := by simp only [emitOperand]; split <;> rfl
    obtain ⟨m, rfl⟩ : ∃ m, n = m + 1 := ⟨n - 1, by omega⟩
    obtain ⟨s, rfl⟩ := ho
    have hb : pyUnescape (if (quoteText s).length > 2 then escBody true (stripQuotes (quoteText s)) else stripQuotes (quoteText s))
        = some (undouble (stripQuotes (quoteText s))) := by
      rw [stripQuotes_quoteText, undouble_dbl]
      split
      · rw [escBody_dbl, pyUnescape_pyEsc]
      · rename_i h
        have : s = [] := by
          cases s with
          | nil => rfl
          | cons c r => exfalso; apply h; simp [quoteText, dbl]; split <;> simp
        subst this; rfl
    have he : emitOperand true (.text (quoteText s)) =
        [.str (if (quoteText s).length > 2 then escBody true (stripQuotes (quoteText s)) else stripQuotes (quoteText s))] := by
      simp only [emitOperand]; split <;> rfl
    rw [he]
    cases rest with
    | nil => simp [toPyOperand, pPrimary, hb]
    | cons t r => cases t <;> simp_all [toPyOperand, pPrimary, okNext]
  | range t =>
    obtain ⟨m, rfl⟩ : ∃ m, n = m + 4 := ⟨n - 4, by simp [emitOperand] at hn; omega⟩
    simp only [Operand.emittable] at ho
    simp only [emitOperand, toPyOperand, List.cons_append, List.nil_append]
    simp only [pPrimary, pItems, pExpr, pLoop, ho, Option.map, Option.bind]


/-! ## the round trip -/

def startTok : PyTok → Bool
  | .lpar | .name _ | .num _ | .str _ => true
  | .op o => o == .sub
  | _ => false

def headOk (ts : List PyTok) : Prop := ∃ t r, ts = t :: r ∧ startTok t = true

theorem headOk_append {a : List PyTok} (h : headOk a) (b : List PyTok) : headOk (a ++ b) := by
  obtain ⟨t, r, rfl, ht⟩ := h
  exact ⟨t, r ++ b, rfl, ht⟩

theorem headOk_pos {a : List PyTok} (h : headOk a) : 0 < a.length := by
  obtain ⟨t, r, rfl, _⟩ := h; simp

theorem pItems_head (n : Nat) {ts : List PyTok} (h : headOk ts) :
    pItems (n + 1) ts = (pExpr n 0 ts).bind fun (x, r) =>
        match r with
        | .rpar :: rest => some (([x], false), rest)
        | .comma :: r' => (pItems n r').map fun (xs, rest) => ((x :: xs.1, true), rest)
        | _ => none := by
  obtain ⟨t, r, rfl, ht⟩ := h
  cases t <;> first | rfl | simp [startTok] at ht

def Inner (e : Expr) : Prop :=
  ∀ n rest, 4 * (I e).length + 1 ≤ n → closeNext rest → pExpr n 0 (I e ++ rest) = some (toPy e, rest)

def Primary (e : Expr) : Prop :=
  ∀ n rest, 4 * (I e).length ≤ n → okNext rest → pPrimary n (I e ++ rest) = some (toPy e, rest)

def isNeg : Expr → Bool
  | .neg _ => true
  | _ => false

def Prefix (e : Expr) : Prop :=
  ∀ (b : Bool) n min rest, 4 * (emitE true (.opChild b) e).length ≤ n → okNext rest →
    (isNeg e = true → b = false → stops 4 rest) →
    pExpr (n + 1) min (emitE true (.opChild b) e ++ rest) = pLoop n min (toPy e) rest

def Items (args : List Expr) : Prop :=
  ∀ n rest, 4 * (emitArgs true args).length + 2 ≤ n →
    ∃ flag, pItems n (emitArgs true args ++ .rpar :: rest) = some ((toPyList args, flag), rest)

/-- parenthesised form from the inner form -/
theorem prefix_paren {e : Expr} (hi : Inner e) (hh : headOk (I e)) (n min : Nat) (rest : List PyTok)
    (hn : 4 * ((I e).length + 2) ≤ n) :
    pExpr (n + 1) min (.lpar :: (I e ++ .rpar :: rest)) = pLoop n min (toPy e) rest := by
  obtain ⟨m, rfl⟩ : ∃ m, n = m + 2 := ⟨n - 2, by omega⟩
  rw [pExpr_prim _ _ _ (by simp)]
  have h1 : pItems (m + 1) (I e ++ .rpar :: rest) = some (([toPy e], false), rest) := by
    rw [pItems_head _ (headOk_append hh _), hi m (.rpar :: rest) (by omega) trivial]
    rfl
  simp only [pPrimary, h1, Option.map, Option.bind]

theorem prefix_of_primary {e : Expr} (hp : Primary e) (hh : headOk (I e)) (hs : (I e).head? ≠ some (.op .sub))
    (hpar : ∀ b, parenUnder e b = false) : Prefix e := by
  intro b n min rest hn ho _
  rw [emitE_op, hpar b] at hn ⊢
  simp only [Bool.false_eq_true, if_false] at hn ⊢
  obtain ⟨t, r, hI, _⟩ := hh
  rw [hI] at hs
  rw [hI, List.cons_append, pExpr_prim _ _ _ (by simpa using hs), ← List.cons_append, ← hI, hp n rest hn ho]
  rfl

theorem inner_of_primary {e : Expr} (hp : Primary e) (hh : headOk (I e)) (hs : (I e).head? ≠ some (.op .sub)) : Inner e := by
  intro n rest hn hc
  obtain ⟨m, rfl⟩ : ∃ m, n = m + 2 := ⟨n - 2, by have := headOk_pos hh; omega⟩
  obtain ⟨t, r, hI, _⟩ := hh
  rw [hI] at hs
  rw [hI, List.cons_append, pExpr_prim _ _ _ (by simpa using hs), ← List.cons_append, ← hI, hp (m + 1) rest (by omega) (closeNext_ok hc)]
  simp only [Option.bind]
  exact pLoop_stop m 0 _ (closeNext_ok hc) (closeNext_stops hc 0)

theorem pyOp_level_lt (op : InOp) (ha : op.arith = true) (hp : op ≠ .pow) : op.pyOp.level < 4 := by
  cases op <;> simp_all [InOp.arith, InOp.pyOp, PyOp.level]

theorem headOk_op {e : Expr} (hh : headOk (I e)) (b : Bool) : headOk (emitE true (.opChild b) e) := by
  rw [emitE_op]; split
  · exact ⟨.lpar, _, rfl, rfl⟩
  · exact hh

theorem pLoop_pow (n : Nat) (lhs : PyExpr) (rest : List PyTok) :
    pLoop (n + 1) 0 lhs (.op .pow :: rest) = (pExpr n 4 rest).bind fun (rhs, r) => pLoop n 0 (.bin .pow lhs rhs) r := by
  simp [pLoop]

theorem pLoop_cmp (n : Nat) (lhs rhs : PyExpr) (o : PyOp) (h0 : o.level = 0) (rest r : List PyTok)
    (h : pExpr n 1 rest = some (rhs, r)) (hc : closeNext r) :
    pLoop (n + 1) 0 lhs (.op o :: rest) = some (.bin o lhs rhs, r) := by
  have : o ≠ .pow := by intro h; subst h; simp [PyOp.level] at h0
  cases r with
  | nil => simp [pLoop, h0, this, h]
  | cons t r' =>
    cases t with
    | rpar => simp [pLoop, h0, this, h]
    | comma => simp [pLoop, h0, this, h]
    | _ => exact absurd hc (by simp [closeNext])

theorem pLoop_arith (n : Nat) (lhs : PyExpr) (o : PyOp) (h0 : o.level ≠ 0) (hp : o ≠ .pow) (rest : List PyTok) :
    pLoop (n + 1) 0 lhs (.op o :: rest) = (pExpr n (o.level + 1) rest).bind fun (rhs, r) => pLoop n 0 (.bin o lhs rhs) r := by
  simp [pLoop, h0, hp]

/-- the loop on `op r` after a parsed left operand -/
theorem loop_bin {r : Expr} (hr : Prefix r) (hh : headOk (I r)) (op : InOp) (ha : op.arith = true) (n : Nat) (lhs : PyExpr)
    (rest : List PyTok) (hn : 4 * (emitE true (.opChild false) r).length + 2 ≤ n) (hc : closeNext rest) :
    pLoop n 0 lhs (.op op.pyOp :: (emitE true (.opChild false) r ++ rest)) = some (.bin op.pyOp lhs (toPy r), rest) := by
  obtain ⟨m, rfl⟩ : ∃ m, n = m + 3 := ⟨n - 3, by have := headOk_pos (headOk_op hh false); omega⟩
  have hR : ∀ min, pExpr (m + 2) min (emitE true (.opChild false) r ++ rest) = some (toPy r, rest) := by
    intro min
    rw [hr false (m + 1) min rest (by omega) (closeNext_ok hc) (fun _ _ => closeNext_stops hc 4)]
    exact pLoop_stop m min _ (closeNext_ok hc) (closeNext_stops hc min)
  have hS : ∀ x, pLoop (m + 2) 0 x rest = some (x, rest) :=
    fun x => pLoop_stop (m + 1) 0 x (closeNext_ok hc) (closeNext_stops hc 0)
  by_cases hpow : op = .pow
  · subst hpow
    simp only [InOp.pyOp]
    rw [pLoop_pow, hR]; simp only [Option.bind]; exact hS _
  by_cases hcmp : op.pyOp.level = 0
  · exact pLoop_cmp _ _ _ _ hcmp _ _ (hR 1) hc
  · have hp : op.pyOp ≠ .pow := by cases op <;> simp_all [InOp.pyOp, InOp.arith]
    rw [pLoop_arith _ _ _ hcmp hp, hR]; simp only [Option.bind]; exact hS _

theorem I_operand (o : Operand) : I (.operand o) = emitOperand true o := by simp [I, emitE]

theorem I_neg (e : Expr) : I (.neg e) = .op .sub :: emitE true (.opChild false) e := by simp [I, emitE]

theorem I_pct (e : Expr) : I (.pct e) = emitE true (.opChild false) e ++ [.op .div, .num ['1', '0', '0']] := by
  simp [I, emitE, wrap, Ctx.isOp]

theorem I_bin (op : InOp) (ha : op.arith = true) (l r : Expr) :
    I (.bin op l r) = emitE true (.opChild (op = .pow)) l ++ .op op.pyOp :: emitE true (.opChild false) r := by
  cases op <;> simp_all [I, emitE, wrap, Ctx.isOp, InOp.arith]

theorem headOk_operand (o : Operand) : headOk (emitOperand true o) ∧ (emitOperand true o).head? ≠ some (.op .sub) := by
  cases o with
  | text raw => simp only [emitOperand]; split <;> exact ⟨⟨_, _, rfl, rfl⟩, by simp⟩
  | _ => exact ⟨⟨_, _, rfl, rfl⟩, by simp [emitOperand]⟩

/-- shape of the emission of a function call -/
theorem I_func (name : List Char) (args : List Expr) (hp : plainFn name) :
    (∃ s, I (.func name args) = [.name s] ∧ toPy (.func name args) = .name s) ∨
    (I (.func name args) = .name (pyFuncName name) :: .lpar :: emitArgs true args ++ [.rpar] ∧
      toPy (.func name args) = .call (pyFuncName name) (toPyList args)) := by
  obtain ⟨h1, h2⟩ := hp
  by_cases a : pyFuncBase name = nmPi
  · left; exact ⟨nmPi, by simp [I, emitE, a], by simp [toPy, a]⟩
  by_cases b : pyFuncBase name = ['t', 'r', 'u', 'e']
  · left; exact ⟨nmTrue, by simp [I, emitE, b, nmPi], by simp [toPy, b, nmPi]⟩
  by_cases c : pyFuncBase name = ['f', 'a', 'l', 's', 'e']
  · left; exact ⟨nmFalse, by simp [I, emitE, c, nmPi], by simp [toPy, c, nmPi]⟩
  right
  exact ⟨by simp [I, emitE, a, b, c, h1, h2], by simp [toPy, a, b, c, h1, h2]⟩

theorem primary_name (s : List Char) (n : Nat) (rest : List PyTok) (hr : okNext rest) :
    pPrimary (n + 1) (.name s :: rest) = some (.name s, rest) := by
  cases rest with
  | nil => simp [pPrimary]
  | cons t r => cases t <;> simp_all [pPrimary, okNext]

theorem headOk_I : ∀ (e : Expr), e.emittable → headOk (I e)
  | .operand o, _ => by rw [I_operand]; exact (headOk_operand o).1
  | .neg e, _ => by rw [I_neg]; exact ⟨_, _, rfl, rfl⟩
  | .pct e, h => by rw [I_pct]; exact headOk_append (headOk_op (headOk_I e h) false) _
  | .bin op l r, h => by rw [I_bin op h.1]; exact headOk_append (headOk_op (headOk_I l h.2.1) _) _
  | .func name args, h => by
    rcases I_func name args h.1 with ⟨s, hs, _⟩ | ⟨hs, _⟩ <;> rw [hs] <;> exact ⟨_, _, rfl, rfl⟩

mutual
theorem emit_main : ∀ (e : Expr), e.emittable → Inner e ∧ Prefix e
  | .operand o, h => by
    have hp : Primary (.operand o) := by
      intro n rest hn hr
      rw [I_operand] at hn ⊢
      exact primary_operand o h n rest hn hr
    have hh := headOk_operand o
    rw [← I_operand] at hh
    exact ⟨inner_of_primary hp hh.1 hh.2, prefix_of_primary hp hh.1 hh.2 (fun _ => rfl)⟩
  | .func name args, h => by
    have hit := emit_items args h.2
    have hp : Primary (.func name args) := by
      intro n rest hn hr
      rcases I_func name args h.1 with ⟨s, hs, ht⟩ | ⟨hs, ht⟩
      · rw [hs] at hn ⊢; rw [ht]
        obtain ⟨m, rfl⟩ : ∃ m, n = m + 1 := ⟨n - 1, by simp at hn; omega⟩
        exact primary_name s m rest hr
      · rw [hs] at hn ⊢; rw [ht]
        obtain ⟨m, rfl⟩ : ∃ m, n = m + 1 := ⟨n - 1, by simp at hn; omega⟩
        obtain ⟨flag, hf⟩ := hit m rest (by simp at hn; omega)
        simp only [List.cons_append, List.append_assoc, List.nil_append, pPrimary, hf, Option.map]
    have hh := headOk_I (.func name args) h
    have hs : (I (.func name args)).head? ≠ some (.op .sub) := by
      rcases I_func name args h.1 with ⟨s, hs, _⟩ | ⟨hs, _⟩ <;> rw [hs] <;> simp
    exact ⟨inner_of_primary hp hh hs, prefix_of_primary hp hh hs (fun _ => rfl)⟩
  | .neg e, h => by
    have he : e.emittable := h
    obtain ⟨_, hpre⟩ := emit_main e he
    have hhe := headOk_op (headOk_I e he) false
    have hin : Inner (.neg e) := by
      intro n rest hn hc
      rw [I_neg] at hn ⊢
      obtain ⟨m, rfl⟩ : ∃ m, n = m + 3 := ⟨n - 3, by have := headOk_pos hhe; simp at hn; omega⟩
      rw [List.cons_append, pExpr_sub, hpre false (m + 1) 4 rest (by simp at hn; omega) (closeNext_ok hc) (fun _ _ => closeNext_stops hc 4)]
      rw [pLoop_stop m 4 _ (closeNext_ok hc) (closeNext_stops hc 4)]
      simp only [Option.bind, toPy]
      exact pLoop_stop (m + 1) 0 _ (closeNext_ok hc) (closeNext_stops hc 0)
    refine ⟨hin, ?_⟩
    intro b n min rest hn ho hst
    cases b with
    | true =>
      have e1 : emitE true (.opChild true) (.neg e) = .lpar :: I (.neg e) ++ [.rpar] := by rw [emitE_op]; rfl
      rw [e1] at hn ⊢
      have := prefix_paren hin (headOk_I (.neg e) h) n min rest (by simp at hn ⊢; omega)
      simpa [List.append_assoc] using this
    | false =>
      have e1 : emitE true (.opChild false) (.neg e) = I (.neg e) := by rw [emitE_op]; rfl
      rw [e1, I_neg] at hn ⊢
      have hs4 := hst rfl rfl
      obtain ⟨m, rfl⟩ : ∃ m, n = m + 2 := ⟨n - 2, by have := headOk_pos hhe; simp at hn; omega⟩
      rw [List.cons_append, pExpr_sub, hpre false (m + 1) 4 rest (by simp at hn; omega) ho (fun _ _ => hs4)]
      rw [pLoop_stop m 4 _ ho hs4]
      simp only [Option.bind, toPy]
  | .pct e, h => by
    have he : e.emittable := h
    obtain ⟨_, hpre⟩ := emit_main e he
    have hhe := headOk_op (headOk_I e he) false
    have hin : Inner (.pct e) := by
      intro n rest hn hc
      rw [I_pct] at hn ⊢
      obtain ⟨m, rfl⟩ : ∃ m, n = m + 4 := ⟨n - 4, by have := headOk_pos hhe; simp at hn; omega⟩
      rw [List.append_assoc, hpre false (m + 3) 0 _ (by simp at hn; omega) (by simp [okNext]) (fun _ _ => by simp [stops, PyOp.level])]
      have h100 : pExpr (m + 2) 4 (.num ['1', '0', '0'] :: rest) = some (.num ['1', '0', '0'], rest) := by
        rw [pExpr_prim _ _ _ (by simp)]
        simp only [pPrimary, num100_ok, if_true, Option.bind]
        exact pLoop_stop m 4 _ (closeNext_ok hc) (closeNext_stops hc 4)
      simp only [List.cons_append, List.nil_append]
      rw [pLoop_arith _ _ _ (by simp [PyOp.level]) (by simp)]
      simp only [PyOp.level]
      rw [h100]
      simp only [Option.bind, toPy]
      exact pLoop_stop (m + 1) 0 _ (closeNext_ok hc) (closeNext_stops hc 0)
    refine ⟨hin, ?_⟩
    intro b n min rest hn ho _
    have e1 : emitE true (.opChild b) (.pct e) = .lpar :: I (.pct e) ++ [.rpar] := by rw [emitE_op]; rfl
    rw [e1] at hn ⊢
    have := prefix_paren hin (headOk_I (.pct e) h) n min rest (by simp at hn ⊢; omega)
    simpa [List.append_assoc] using this
  | .bin op l r, h => by
    obtain ⟨ha, hl, hr⟩ := h
    obtain ⟨_, hprel⟩ := emit_main l hl
    obtain ⟨_, hprer⟩ := emit_main r hr
    have hhl := headOk_op (headOk_I l hl) (op = .pow)
    have hhr := headOk_op (headOk_I r hr) false
    have hin : Inner (.bin op l r) := by
      intro n rest hn hc
      rw [I_bin op ha] at hn ⊢
      obtain ⟨m, rfl⟩ : ∃ m, n = m + 1 := ⟨n - 1, by omega⟩
      have hlen : (emitE true (.opChild (op = .pow)) l ++ .op op.pyOp :: emitE true (.opChild false) r).length =
          (emitE true (.opChild (op = .pow)) l).length + 1 + (emitE true (.opChild false) r).length := by
        simp; omega
      rw [hlen] at hn
      have hpl := headOk_pos hhl
      rw [List.append_assoc, hprel (op = .pow) m 0 _ (by omega) (by simp [okNext]) (by
        intro _ hb
        have hp : op ≠ .pow := by simpa using hb
        have := pyOp_level_lt op ha hp
        simpa [stops] using this)]
      simp only [List.cons_append]
      have := loop_bin hprer (headOk_I r hr) op ha m (toPy l) rest (by omega) hc
      rw [this]
      cases op <;> simp_all [toPy, InOp.arith]
    refine ⟨hin, ?_⟩
    intro b n min rest hn ho _
    have e1 : emitE true (.opChild b) (.bin op l r) = .lpar :: I (.bin op l r) ++ [.rpar] := by rw [emitE_op]; rfl
    rw [e1] at hn ⊢
    have := prefix_paren hin (headOk_I (.bin op l r) ⟨ha, hl, hr⟩) n min rest (by simp at hn ⊢; omega)
    simpa [List.append_assoc] using this
theorem emit_items : ∀ (args : List Expr), emittableList args → Items args
  | [], _ => by
    intro n rest hn
    obtain ⟨m, rfl⟩ : ∃ m, n = m + 1 := ⟨n - 1, by omega⟩
    exact ⟨false, by simp [emitArgs, toPyList, pItems]⟩
  | a :: as, h => by
    obtain ⟨ha, has⟩ := h
    obtain ⟨hin, _⟩ := emit_main a ha
    have hh := headOk_I a ha
    intro n rest hn
    simp only [emitArgs, emitE_funcArg] at hn ⊢
    obtain ⟨m, rfl⟩ : ∃ m, n = m + 1 := ⟨n - 1, by omega⟩
    rw [List.append_assoc, pItems_head _ (headOk_append hh _)]
    cases as with
    | nil =>
      simp only [emitRest, List.nil_append]
      rw [hin m (.rpar :: rest) (by simp at hn; omega) trivial]
      exact ⟨false, rfl⟩
    | cons a2 as' =>
      have e2 : emitRest true (a2 :: as') = .comma :: emitArgs true (a2 :: as') := by simp [emitRest, emitArgs]
      rw [e2] at hn ⊢
      rw [List.cons_append, hin m (.comma :: (emitArgs true (a2 :: as') ++ .rpar :: rest)) (by simp at hn; omega) trivial]
      obtain ⟨flag, hf⟩ := emit_items (a2 :: as') has m rest (by simp at hn ⊢; omega)
      refine ⟨true, ?_⟩
      simp only [Option.bind, hf, Option.map, toPyList]
end

/-- the emitted code parses, under Python's grammar, to the Python meaning of the tree -/
theorem pyParse_emit (e : Expr) (h : e.emittable) : pyParse (emit e) = some (toPy e) := by
  have := (emit_main e h).1 (pyFuel (emit e)) [] (by simp [pyFuel, emit, I]) trivial
  simp only [List.append_nil] at this
  unfold pyParse
  show (match pExpr (pyFuel (emit e)) 0 (I e) with | some (e, []) => some e | _ => none) = _
  rw [this]

end Pycel.Formula

/-
  Lemmas for C02, part 2: the emitted Python token list parses (under the model of Python's grammar) to the Python
  meaning of the tree, and literals denote themselves.
-/
import Pycel.Model.Formula
namespace Pycel.Formula

/-! ## text literals -/

/-- Excel's quoting of a text body: every `"` doubled -/
def dbl : List Char → List Char
  | [] => []
  | c :: r => if c = '"' then '"' :: '"' :: dbl r else c :: dbl r

/-- the TEXT token of the characters `s` -/
def quoteText (s : List Char) : List Char := '"' :: dbl s ++ ['"']

/-- character-wise Python escaping: what the repaired emitter writes for each denoted character -/
def esc1 (c : Char) : List Char :=
  if c = '"' then ['\\', '"'] else if c = '\\' then ['\\', '\\'] else if c = '\n' then ['\\', 'n']
  else if c = '\r' then ['\\', 'r'] else [c]

def pyEsc : List Char → List Char
  | [] => []
  | c :: r => esc1 c ++ pyEsc r

theorem escBody_dbl (s : List Char) : escBody true (dbl s) = pyEsc s := by
  induction s with
  | nil => rfl
  | cons c r ih =>
    by_cases hq : c = '"'
    · subst hq
      simp only [dbl, if_true, escBody, and_self, ih, pyEsc, esc1]
      rfl
    · simp only [dbl, hq, if_false, pyEsc]
      have key : ∀ x : List Char, escBody true (c :: x) = esc1 c ++ escBody true x := by
        intro x
        cases x with
        | nil =>
          by_cases h2 : c = '\\'
          · subst h2; simp [escBody, esc1]
          by_cases h3 : c = '\n'
          · subst h3; simp [escBody, esc1]
          by_cases h4 : c = '\r'
          · subst h4; simp [escBody, esc1]
          simp [escBody, esc1, hq, h2, h3, h4]
        | cons d x' =>
          by_cases h2 : c = '\\'
          · subst h2; simp [escBody, esc1]
          by_cases h3 : c = '\n'
          · subst h3; simp [escBody, esc1]
          by_cases h4 : c = '\r'
          · subst h4; simp [escBody, esc1]
          simp [escBody, esc1, hq, h2, h3, h4]
      rw [key, ih]

theorem pyUnescape_pyEsc (s : List Char) : pyUnescape (pyEsc s) = some s := by
  induction s with
  | nil => rfl
  | cons c r ih =>
    simp only [pyEsc, esc1]
    by_cases h1 : c = '"'
    · subst h1; simp [pyUnescape, isDigit, escChar, ih]
    by_cases h2 : c = '\\'
    · subst h2; simp [pyUnescape, isDigit, escChar, ih]
    by_cases h3 : c = '\n'
    · subst h3; simp [pyUnescape, isDigit, escChar, ih]
    by_cases h4 : c = '\r'
    · subst h4; simp [pyUnescape, isDigit, escChar, ih]
    simp only [h1, h2, h3, h4, if_false, List.singleton_append]
    cases hr : pyEsc r with
    | nil => rw [hr] at ih; simp [pyUnescape, h1, h2, h3, h4] at ih ⊢; exact ih
    | cons d r' => rw [hr] at ih; simp [pyUnescape, h1, h2, h3, h4, ih]

theorem undouble_dbl (s : List Char) : undouble (dbl s) = s := by
  induction s with
  | nil => rfl
  | cons c r ih =>
    by_cases hq : c = '"'
    · subst hq; simp [dbl, undouble, ih]
    · simp only [dbl, hq, if_false]
      cases hr : dbl r with
      | nil => rw [hr] at ih; simp [undouble] at ih ⊢; exact ih
      | cons d r' => rw [hr] at ih; simp [undouble, hq, ih]

theorem stripQuotes_quoteText (s : List Char) : stripQuotes (quoteText s) = dbl s := by
  have e : quoteText s = ('"' :: dbl s) ++ ['"'] := rfl
  have h2 : (quoteText s).getLast? = some '"' := by rw [e, List.getLast?_concat]
  unfold stripQuotes
  rw [if_pos ⟨rfl, h2⟩, e]
  show (dbl s ++ ['"']).dropLast = dbl s
  exact List.dropLast_concat

end Pycel.Formula

namespace Pycel.Formula

/-! ## what may follow an emitted expression -/

/-- end of input, `)` or `,` -/
def closeNext : List PyTok → Prop
  | [] => True
  | .rpar :: _ => True
  | .comma :: _ => True
  | _ => False

/-- end of input, `)`, `,` or an operator -/
def okNext : List PyTok → Prop
  | [] => True
  | .rpar :: _ => True
  | .comma :: _ => True
  | .op _ :: _ => True
  | _ => False

/-- the loop at level `min` stops in front of `rest` -/
def stops (min : Nat) : List PyTok → Prop
  | .op o :: _ => o.level < min
  | _ => True

theorem closeNext_ok {r : List PyTok} (h : closeNext r) : okNext r := by
  cases r with
  | nil => trivial
  | cons t r => cases t <;> simp_all [closeNext, okNext]

theorem closeNext_stops {r : List PyTok} (h : closeNext r) (m : Nat) : stops m r := by
  cases r with
  | nil => trivial
  | cons t r => cases t <;> simp_all [closeNext, stops]

theorem stops_mono {m k : Nat} (h : m ≤ k) {r : List PyTok} (hs : stops m r) : stops k r := by
  cases r with
  | nil => trivial
  | cons t r => cases t <;> simp_all [stops]; omega

theorem pLoop_stop (n min : Nat) (x : PyExpr) {r : List PyTok} (ho : okNext r) (hs : stops min r) :
    pLoop (n + 1) min x r = some (x, r) := by
  cases r with
  | nil => simp [pLoop]
  | cons t r =>
    cases t with
    | op o => simp only [stops] at hs; simp [pLoop, hs]
    | _ => simp [pLoop]

theorem pExpr_sub (n min : Nat) (rest : List PyTok) :
    pExpr (n + 1) min (.op .sub :: rest) = (pExpr n 4 rest).bind fun (x, r) => pLoop n min (.neg x) r := by
  simp [pExpr]

theorem pExpr_prim (n min : Nat) (t : PyTok) (h : t ≠ .op .sub) (rest : List PyTok) :
    pExpr (n + 1) min (t :: rest) = (pPrimary n (t :: rest)).bind fun (x, r) => pLoop n min x r := by
  cases t with
  | op o => cases o <;> simp_all [pExpr]
  | _ => simp [pExpr]

/-! ## emittable trees -/

def InOp.arith : InOp → Bool
  | .colon | .space | .comma => false
  | _ => true

def Operand.emittable : Operand → Prop
  | .number t => (pyNumValue? (emitNumber true t)).isSome = true
  | .text raw => ∃ s, raw = quoteText s
  | .range t => pyUnescape (t.filter (· ≠ '$')) = some (t.filter (· ≠ '$'))
  | _ => True

def plainFn (name : List Char) : Prop :=
  pyFuncBase name ≠ ['a', 'r', 'r', 'a', 'y'] ∧ pyFuncBase name ≠ ['a', 'r', 'r', 'a', 'y', 'r', 'o', 'w']

mutual
/-- trees inside the scope of `C02_emit`: arithmetic / comparison operators, plain function calls, literals that
    are tokens the tokenizer can produce -/
def Expr.emittable : Expr → Prop
  | .operand o => o.emittable
  | .neg e => e.emittable
  | .pct e => e.emittable
  | .bin op l r => op.arith = true ∧ l.emittable ∧ r.emittable
  | .func name args => plainFn name ∧ emittableList args
def emittableList : List Expr → Prop
  | [] => True
  | e :: es => e.emittable ∧ emittableList es
end

/-- the emitted tokens without regard to the parent -/
abbrev I (e : Expr) : List PyTok := emitE true .root e

/-- does the node get parentheses under an operator parent (`powLeft` = it is the left operand of `^`) -/
def parenUnder : Expr → Bool → Bool
  | .neg _, b => b
  | .pct _, _ => true
  | .bin _ _ _, _ => true
  | _, _ => false

theorem emitE_funcArg (e : Expr) : emitE true .funcArg e = I e := by
  cases e <;> simp [emitE, I, wrap, Ctx.isOp]
  all_goals (try split) <;> simp [wrap, Ctx.isOp]

theorem emitE_op (e : Expr) (b : Bool) :
    emitE true (.opChild b) e = if parenUnder e b then .lpar :: I e ++ [.rpar] else I e := by
  cases e with
  | operand o => simp [emitE, I, parenUnder]
  | func name args => simp [emitE, I, parenUnder]
  | neg e => cases b <;> simp [emitE, I, parenUnder]
  | pct e => simp [emitE, I, parenUnder, wrap, Ctx.isOp]
  | bin op l r => cases op <;> simp [emitE, I, parenUnder, wrap, Ctx.isOp]

end Pycel.Formula

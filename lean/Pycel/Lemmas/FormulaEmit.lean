/-
  Lemmas for C02, part 2: the emitted Python token list parses (under the model of Python's grammar) to the Python
  meaning of the tree, and literals denote themselves.
-/
import Pycel.Model.Formula
namespace Pycel.Formula

/-! ## text literals -/

/-- Excel's quoting of a text body: every `"` doubled -/
def dbl : List Char → List Char
  | [] => []
  | c :: r => if c = '"' then '"' :: '"' :: dbl r else c :: dbl r

/-- the TEXT token of the characters `s` -/
def quoteText (s : List Char) : List Char := '"' :: dbl s ++ ['"']

/-- character-wise Python escaping: what the repaired emitter writes for each denoted character -/
def esc1 (c : Char) : List Char :=
  if c = '"' then ['\\', '"'] else if c = '\\' then ['\\', '\\'] else if c = '\n' then ['\\', 'n']
  else if c = '\r' then ['\\', 'r'] else [c]

def pyEsc : List Char → List Char
  | [] => []
  | c :: r => esc1 c ++ pyEsc r

theorem escBody_dbl (s : List Char) : escBody true (dbl s) = pyEsc s := by
  induction s with
  | nil => rfl
  | cons c r ih =>
    by_cases hq : c = '"'
    · subst hq
      simp only [dbl, if_true, escBody, and_self, ih, pyEsc, esc1]
      rfl
    · simp only [dbl, hq, if_false, pyEsc]
      have key : ∀ x : List Char, escBody true (c :: x) = esc1 c ++ escBody true x := by
        intro x
        cases x with
        | nil =>
          by_cases h2 : c = '\\'
          · subst h2; simp [escBody, esc1]
          by_cases h3 : c = '\n'
          · subst h3; simp [escBody, esc1]
          by_cases h4 : c = '\r'
          · subst h4; simp [escBody, esc1]
          simp [escBody, esc1, hq, h2, h3, h4]
        | cons d x' =>
          by_cases h2 : c = '\\'
          · subst h2; simp [escBody, esc1]
          by_cases h3 : c = '\n'
          · subst h3; simp [escBody, esc1]
          by_cases h4 : c = '\r'
          · subst h4; simp [escBody, esc1]
          simp [escBody, esc1, hq, h2, h3, h4]
      rw [key, ih]

theorem pyUnescape_pyEsc (s : List Char) : pyUnescape (pyEsc s) = some s := by
  induction s with
  | nil => rfl
  | cons c r ih =>
    simp only [pyEsc, esc1]
    by_cases h1 : c = '"'
    · subst h1; simp [pyUnescape, isDigit, escChar, ih]
    by_cases h2 : c = '\\'
    · subst h2; simp [pyUnescape, isDigit, escChar, ih]
    by_cases h3 : c = '\n'
    · subst h3; simp [pyUnescape, isDigit, escChar, ih]
    by_cases h4 : c = '\r'
    · subst h4; simp [pyUnescape, isDigit, escChar, ih]
    simp only [h1, h2, h3, h4, if_false, List.singleton_append]
    cases hr : pyEsc r with
    | nil => rw [hr] at ih; simp [pyUnescape, h1, h2, h3, h4] at ih ⊢; exact ih
    | cons d r' => rw [hr] at ih; simp [pyUnescape, h1, h2, h3, h4, ih]

theorem undouble_dbl (s : List Char) : undouble (dbl s) = s := by
  induction s with
  | nil => rfl
  | cons c r ih =>
    by_cases hq : c = '"'
    · subst hq; simp [dbl, undouble, ih]
    · simp only [dbl, hq, if_false]
      cases hr : dbl r with
      | nil => rw [hr] at ih; simp [undouble] at ih ⊢; exact ih
      | cons d r' => rw [hr] at ih; simp [undouble, hq, ih]

theorem stripQuotes_quoteText (s : List Char) : stripQuotes (quoteText s) = dbl s := by
  have e : quoteText s = ('"' :: dbl s) ++ ['"'] := rfl
  have h2 : (quoteText s).getLast? = some '"' := by rw [e, List.getLast?_concat]
  unfold stripQuotes
  rw [if_pos ⟨rfl, h2⟩, e]
  show (dbl s ++ ['"']).dropLast = dbl s
  exact List.dropLast_concat

end Pycel.Formula

/-
  Helper lemmas for C16 (lookup): the ExcelCmp order is a strict total order on keys, `bisectLoop` meets the
  bisect_right specification, and the building blocks of `_match` (blank trimming, back-off, linear scans).
-/
import Pycel.Model.Lookup
namespace Pycel.Lookup
open Pycel

/-! ## the order on keys -/

theorem ltK_irrefl (a : Val) : ltK a a = false := by
  cases a <;> simp [ltK, rank, Rat.lt_irrefl, List.lt_irrefl]

theorem errOrd_inj {a b : Err} (h : errOrd a = errOrd b) : a = b := by
  cases a <;> cases b <;> simp [errOrd] at h <;> rfl

theorem ltK_trans {a b c : Val} (h1 : ltK a b = true) (h2 : ltK b c = true) : ltK a c = true := by
  cases a <;> cases b <;> cases c <;> simp_all [ltK, rank]
  · exact Std.lt_trans h1 h2
  · exact Std.lt_trans h1 h2
  · omega

/-- trichotomy on keys (a key is never blank) -/
theorem ltK_total {a b : Val} (ha : a ≠ .blank) (hb : b ≠ .blank) (h1 : ltK a b = false) (h2 : ltK b a = false) :
    a = b := by
  cases a <;> cases b <;> simp_all [ltK, rank]
  · exact Std.le_antisymm (Std.not_lt.mp h2) (Std.not_lt.mp h1)
  · exact Std.le_antisymm (Std.not_lt.mp h2) (Std.not_lt.mp h1)
  · rename_i x y; cases x <;> cases y <;> simp_all
  · exact errOrd_inj (by omega)

theorem ltK_asymm {a b : Val} (h : ltK a b = true) : ltK b a = false := by
  cases hb : ltK b a with
  | false => rfl
  | true => have := ltK_trans h hb; rw [ltK_irrefl] at this; cases this

theorem key_ne_blank (v : Val) : key v ≠ .blank := by cases v <;> simp [key]

theorem keyAs_ne_blank (s v : Val) : keyAs s v ≠ .blank := by
  cases v <;> cases s <;> simp [keyAs, key]

theorem keyAs_of_ne_blank (s : Val) {v : Val} (h : v ≠ .blank) : keyAs s v = key v := by
  cases v <;> simp_all [keyAs]

/-- `x < a ≤ b → x < b` -/
theorem lt_of_lt_of_le {x a b : Val} (ha : a ≠ .blank) (hb : b ≠ .blank) (h1 : ltK x a = true)
    (h2 : ltK b a = false) : ltK x b = true := by
  cases h : ltK a b with
  | true => exact ltK_trans h1 h
  | false => rw [← ltK_total ha hb h h2]; exact h1

/-- `a ≤ b < c → a < c` -/
theorem lt_of_le_of_lt {a b c : Val} (ha : a ≠ .blank) (hb : b ≠ .blank) (h1 : ltK b a = false)
    (h2 : ltK b c = true) : ltK a c = true := by
  cases h : ltK a b with
  | true => exact ltK_trans h h2
  | false => rw [ltK_total ha hb h h1]; exact h2

/-- `a ≤ b ≤ c → a ≤ c` -/
theorem le_trans {a b c : Val} (ha : a ≠ .blank) (hb : b ≠ .blank) (h1 : ltK b a = false)
    (h2 : ltK c b = false) : ltK c a = false := by
  cases h : ltK c a with
  | false => rfl
  | true => have := lt_of_lt_of_le (x := c) ha hb h h1; rw [this] at h2; cases h2

/-- the rank is monotone along the order -/
theorem rank_le_of_le {a b : Val} (h : ltK b a = false) (ha : a ≠ .blank) (hb : b ≠ .blank) : rank a ≤ rank b := by
  cases a <;> cases b <;> simp_all [ltK, rank]

theorem rank_key (v : Val) : rank (key v) = rank v := by cases v <;> simp [key, rank]

/-! ## bisect_right -/

theorem bisectLoop_spec (p : Nat → Bool) :
    ∀ (f lo hi : Nat), lo ≤ hi → hi - lo ≤ f →
      (∀ i j, lo ≤ i → i ≤ j → j < hi → p i = true → p j = true) →
      lo ≤ bisectLoop p f lo hi ∧ bisectLoop p f lo hi ≤ hi ∧
      (∀ i, lo ≤ i → i < bisectLoop p f lo hi → p i = false) ∧
      (∀ i, bisectLoop p f lo hi ≤ i → i < hi → p i = true) := by
  intro f
  induction f with
  | zero =>
    intro lo hi h1 h2 _
    have : lo = hi := by omega
    subst this
    simp [bisectLoop]; constructor <;> (intro i h3 h4; omega)
  | succ f ih =>
    intro lo hi h1 h2 mono
    unfold bisectLoop
    by_cases hlt : lo < hi
    · simp only [hlt, ↓reduceIte]
      have hm1 : lo ≤ (lo + hi) / 2 := by omega
      have hm2 : (lo + hi) / 2 < hi := by omega
      cases hp : p ((lo + hi) / 2) with
      | true =>
        simp only [↓reduceIte]
        obtain ⟨a1, a2, a3, a4⟩ := ih lo ((lo + hi) / 2) hm1 (by omega)
          (fun i j h3 h4 h5 h6 => mono i j h3 h4 (by omega) h6)
        refine ⟨a1, by omega, a3, ?_⟩
        intro i h3 h4
        by_cases h5 : i < (lo + hi) / 2
        · exact a4 i h3 h5
        · exact mono _ i hm1 (by omega) h4 hp
      | false =>
        simp only [Bool.false_eq_true, ↓reduceIte]
        obtain ⟨a1, a2, a3, a4⟩ := ih ((lo + hi) / 2 + 1) hi (by omega) (by omega)
          (fun i j h3 h4 h5 h6 => mono i j (by omega) h4 h5 h6)
        refine ⟨by omega, a2, ?_, a4⟩
        intro i h3 h4
        by_cases h5 : (lo + hi) / 2 + 1 ≤ i
        · exact a3 i h5 h4
        · cases hpi : p i with
          | false => rfl
          | true => have := mono i _ h3 (by omega) hm2 hpi; rw [hp] at this; cases this
    · have : lo = hi := by omega
      subst this
      simp; constructor <;> (intro i h3 h4; omega)

/-! ## data shape: blanks at the ends -/

/-- `a[i]` with the blank default (reading past the end never happens in the code; the default is harmless) -/
abbrev cellAtIdx (a : List Val) (i : Nat) : Val := a.getD i .blank

def blanks (n : Nat) : List Val := List.replicate n .blank

def NoBlank (l : List Val) : Prop := ∀ x ∈ l, x ≠ .blank

theorem leadBlanks_blanks_append (m : Nat) (l : List Val) : leadBlanks (blanks m ++ l) = m + leadBlanks l := by
  induction m with
  | zero => simp [blanks]
  | succ m ih =>
    have : blanks (m + 1) ++ l = .blank :: (blanks m ++ l) := by simp [blanks, List.replicate_succ]
    rw [this, leadBlanks, ih]; omega

theorem leadBlanks_of_head {x : Val} (l : List Val) (h : x ≠ .blank) : leadBlanks (x :: l) = 0 := by
  cases x <;> simp_all [leadBlanks]

theorem leadBlanks_noBlank {l : List Val} (hne : l ≠ []) (h : NoBlank l) (r : List Val) : leadBlanks (l ++ r) = 0 := by
  cases l with
  | nil => exact absurd rfl hne
  | cons x t => exact leadBlanks_of_head _ (h x (by simp))

theorem leadBlanks_shape (m n : Nat) {core : List Val} (hne : core ≠ []) (h : NoBlank core) :
    leadBlanks (blanks m ++ core ++ blanks n) = m := by
  rw [List.append_assoc, leadBlanks_blanks_append, leadBlanks_noBlank hne h]; rfl

theorem trimHi_shape (m n : Nat) {core : List Val} (hne : core ≠ []) (h : NoBlank core) :
    trimHi (blanks m ++ core ++ blanks n) = m + core.length := by
  have hr : (blanks m ++ core ++ blanks n).reverse = blanks n ++ core.reverse ++ blanks m := by
    simp [blanks, List.reverse_append, List.append_assoc]
  have h2 : NoBlank core.reverse := fun x hx => h x (by simpa using hx)
  have h3 : core.reverse ≠ [] := by simpa using hne
  unfold trimHi
  rw [hr, leadBlanks_shape n m h3 h2]
  simp [blanks]; omega

theorem cell_low (m n : Nat) (core : List Val) (i : Nat) (h : i < m) :
    cellAtIdx (blanks m ++ core ++ blanks n) i = .blank := by
  simp [cellAtIdx, List.getD_eq_getElem?_getD, blanks, List.append_assoc, List.getElem?_append_left, h]

theorem cell_mid (m n : Nat) (core : List Val) (k : Nat) (h : k < core.length) :
    cellAtIdx (blanks m ++ core ++ blanks n) (m + k) = core[k] := by
  simp [cellAtIdx, List.getD_eq_getElem?_getD, blanks, List.append_assoc, List.getElem?_append_right,
    List.getElem?_append_left, h]

theorem cell_blank_all (m : Nat) (i : Nat) : cellAtIdx (blanks m) i = .blank := by
  simp only [cellAtIdx, List.getD_eq_getElem?_getD, blanks, List.getElem?_replicate]
  split <;> rfl

/-! ## back-off -/

/-- if no non-blank cell of type `t` lies below `r`, the back-off ends at 0 or on a blank: the answer is #N/A -/
theorem backoff_blank (t : Nat) (a : List Val) :
    ∀ r, (∀ i, i < r → rank (cellAtIdx a i) = t → cellAtIdx a i = .blank) →
      backoff t a r = 0 ∨ cellAtIdx a (backoff t a r - 1) = .blank := by
  intro r
  induction r with
  | zero => intro _; left; rfl
  | succ r ih =>
    intro h
    unfold backoff
    by_cases hr : rank (a.getD r .blank) = t
    · simp only [hr, ne_eq, not_true_eq_false, ↓reduceIte]
      right
      exact h r (by omega) hr
    · simp only [hr, ne_eq, not_false_eq_true, ↓reduceIte]
      exact ih (fun i hi => h i (by omega))

theorem backoff_stop (t : Nat) (a : List Val) (r : Nat) (h : rank (cellAtIdx a r) = t) :
    backoff t a (r + 1) = r + 1 := by
  unfold backoff; exact if_neg (fun hne => hne h)

/-! ## match type 1 on a sorted vector with blanks at the ends -/

theorem matchAsc_index (v : Val) (a : List Val) (lo hi : Nat) (hlh : lo ≤ hi)
    (hL : leadBlanks a = lo) (hH : trimHi a = hi)
    (hlow : ∀ i, i < lo → cellAtIdx a i = .blank)
    (hmid : ∀ i, lo ≤ i → i < hi → cellAtIdx a i ≠ .blank)
    (hsort : ∀ i j, lo ≤ i → i ≤ j → j < hi → ltK (key (cellAtIdx a j)) (key (cellAtIdx a i)) = false) :
    (matchAsc v a = na ∧
        ∀ i, lo ≤ i → i < hi → rank (cellAtIdx a i) = rank v → ltK (key v) (key (cellAtIdx a i)) = true)
    ∨ (∃ r, lo < r ∧ r ≤ hi ∧ matchAsc v a = .num (r : Nat) ∧ rank (cellAtIdx a (r - 1)) = rank v ∧
        ltK (key v) (key (cellAtIdx a (r - 1))) = false ∧
        ∀ i, lo ≤ i → i < hi → ltK (key v) (key (cellAtIdx a i)) = false → i ≤ r - 1) := by
  have hg : ∀ i, lo ≤ i → i < hi → gtAt v a i = ltK (key v) (key (cellAtIdx a i)) := by
    intro i h1 h2
    simp only [gtAt]
    rw [keyAs_of_ne_blank v (hmid i h1 h2)]
  have mono : ∀ i j, lo ≤ i → i ≤ j → j < hi → gtAt v a i = true → gtAt v a j = true := by
    intro i j h1 h2 h3 h4
    rw [hg i h1 (by omega)] at h4
    rw [hg j (by omega) h3]
    exact lt_of_lt_of_le (key_ne_blank _) (key_ne_blank _) h4 (hsort i j h1 h2 h3)
  obtain ⟨b1, b2, b3, b4⟩ := bisectLoop_spec (gtAt v a) (hi - lo + 1) lo hi hlh (by omega) mono
  have hr0 : bisectRight v a (leadBlanks a) (trimHi a) = bisectLoop (gtAt v a) (hi - lo + 1) lo hi := by
    rw [hL, hH]; rfl
  generalize hR : bisectLoop (gtAt v a) (hi - lo + 1) lo hi = r0 at b1 b2 b3 b4 hr0
  -- the #N/A outcome from a back-off that meets no cell of v's type
  have naOf : (∀ i, i < r0 → rank (cellAtIdx a i) = rank v → cellAtIdx a i = .blank) → matchAsc v a = na := by
    intro h
    have := backoff_blank (rank v) a r0 h
    simp only [matchAsc, hr0]
    exact if_pos this
  by_cases hlo : r0 = lo
  · left
    refine ⟨naOf ?_, ?_⟩
    · intro i hi _; exact hlow i (by omega)
    · intro i h1 h2 _; rw [← hg i h1 h2]; exact b4 i (by omega) h2
  · have hpos : lo < r0 := by omega
    have hy := hmid (r0 - 1) (by omega) (by omega)
    have hyle : ltK (key v) (key (cellAtIdx a (r0 - 1))) = false := by
      rw [← hg (r0 - 1) (by omega) (by omega)]; exact b3 (r0 - 1) (by omega) (by omega)
    by_cases hrk : rank (cellAtIdx a (r0 - 1)) = rank v
    · right
      refine ⟨r0, hpos, b2, ?_, hrk, hyle, ?_⟩
      · have hb : backoff (rank v) a r0 = r0 := by
          have := backoff_stop (rank v) a (r0 - 1) hrk
          rwa [show r0 - 1 + 1 = r0 by omega] at this
        simp only [matchAsc, hr0, hb]
        have h0 : r0 ≠ 0 := by omega
        exact if_neg (fun h => h.elim h0 hy)
      · intro i h1 h2 h3
        by_cases h4 : i < r0
        · omega
        · have := b4 i (by omega) h2
          rw [hg i h1 h2, h3] at this; cases this
    · left
      have hylt : rank (cellAtIdx a (r0 - 1)) < rank v := by
        have := rank_le_of_le hyle (key_ne_blank _) (key_ne_blank _)
        rw [rank_key, rank_key] at this; omega
      have hbelow : ∀ i, lo ≤ i → i < r0 → rank (cellAtIdx a i) < rank v := by
        intro i h1 h2
        have := rank_le_of_le (hsort i (r0 - 1) h1 (by omega) (by omega)) (key_ne_blank _) (key_ne_blank _)
        rw [rank_key, rank_key] at this; omega
      refine ⟨naOf ?_, ?_⟩
      · intro i hi hr
        by_cases h1 : i < lo
        · exact hlow i h1
        · have := hbelow i (by omega) hi; omega
      · intro i h1 h2 hr
        by_cases h4 : i < r0
        · have := hbelow i h1 h4; omega
        · rw [← hg i h1 h2]; exact b4 i (by omega) h2

/-! ## linear scans -/

/-- the cell matches the lookup value in exact mode -/
def Matches (v x : Val) : Bool := candidate v x && eqv v x

theorem scanExact_spec (v : Val) : ∀ (l : List Val) (i : Nat),
    (scanExact v l i = na ∧ ∀ x ∈ l, Matches v x = false) ∨
    (∃ pre y post, l = pre ++ y :: post ∧ (∀ x ∈ pre, Matches v x = false) ∧ Matches v y = true ∧
      scanExact v l i = .num ((i + pre.length : Nat) : Rat)) := by
  intro l
  induction l with
  | nil => intro i; left; exact ⟨rfl, by simp⟩
  | cons x xs ih =>
    intro i
    unfold scanExact
    by_cases hm : Matches v x = true
    · right
      refine ⟨[], x, xs, rfl, by simp, hm, ?_⟩
      have : (candidate v x && eqv v x) = true := hm
      simp [this]
    · have hm' : (candidate v x && eqv v x) = false := by simpa [Matches] using hm
      simp only [hm', Bool.false_eq_true, ↓reduceIte]
      rcases ih (i + 1) with ⟨h1, h2⟩ | ⟨pre, y, post, h1, h2, h3, h4⟩
      · left
        refine ⟨h1, ?_⟩
        intro z hz
        rcases List.mem_cons.mp hz with rfl | hz
        · simpa using hm
        · exact h2 z hz
      · right
        refine ⟨x :: pre, y, post, by simp [h1], ?_, h3, ?_⟩
        · intro z hz
          rcases List.mem_cons.mp hz with rfl | hz
          · simpa using hm
          · exact h2 z hz
        · rw [h4]
          have : i + 1 + pre.length = i + (x :: pre).length := by simp; omega
          rw [this]

/-- the cell is of v's type and at least v -/
def AtLeast (v x : Val) : Bool := candidate v x && !ltK (key x) (key v)

/-- ignoring blank cells, the vector is descending -/
def DescPW (l : List Val) : Prop :=
  l.Pairwise (fun u w => u ≠ .blank → w ≠ .blank → ltK (key u) (key w) = false)

theorem candidate_ne_blank {v x : Val} (h : candidate v x = true) : x ≠ .blank := by
  intro hx; subst hx; simp [candidate] at h

theorem scanDesc_spec (v : Val) : ∀ (l : List Val) (i : Nat) (res : Val), DescPW l →
    ((∀ x ∈ l, AtLeast v x = false) ∧ scanDesc v l i res = res) ∨
    (∃ pre y post, l = pre ++ y :: post ∧ AtLeast v y = true ∧
      scanDesc v l i res = .num ((i + pre.length : Nat) : Rat) ∧
      ∀ x ∈ l, AtLeast v x = true → ltK (key x) (key y) = false) := by
  intro l
  induction l with
  | nil =>
    intro i res _; left
    constructor
    · intro x hx; cases hx
    · rfl
  | cons x xs ih =>
    intro i res hs
    have hs' := List.pairwise_cons.mp hs
    have shift : ∀ pre : List Val, i + 1 + pre.length = i + (x :: pre).length := by
      intro pre; simp; omega
    unfold scanDesc
    by_cases hc : candidate v x = true
    · simp only [hc, ↓reduceIte]
      have hxb := candidate_ne_blank hc
      by_cases hlt : ltK (key x) (key v) = true
      · simp only [hlt, ↓reduceIte]
        left
        refine ⟨?_, trivial⟩
        intro z hz
        rcases List.mem_cons.mp hz with rfl | hz
        · simp [AtLeast, hlt]
        · by_cases hcz : candidate v z = true
          · have h1 := hs'.1 z hz hxb (candidate_ne_blank hcz)
            have := lt_of_le_of_lt (key_ne_blank _) (key_ne_blank _) h1 hlt
            simp [AtLeast, this]
          · simp [AtLeast, hcz]
      · have hlt' : ltK (key x) (key v) = false := by simpa using hlt
        simp only [hlt', Bool.false_eq_true, ↓reduceIte]
        by_cases heq : (key x == key v) = true
        · simp only [heq, ↓reduceIte]
          right
          have hk : key x = key v := by simpa using heq
          refine ⟨[], x, xs, rfl, by simp [AtLeast, hc, hlt'], by simp, ?_⟩
          intro z _ hz
          simp only [AtLeast, Bool.and_eq_true, Bool.not_eq_true'] at hz
          rw [hk]; exact hz.2
        · simp only [heq, Bool.false_eq_true, ↓reduceIte]
          have hx : AtLeast v x = true := by simp [AtLeast, hc, hlt']
          rcases ih (i + 1) (.num ((i : Nat) : Rat)) hs'.2 with ⟨h1, h2⟩ | ⟨pre, y, post, h1, h2, h3, h4⟩
          · right
            refine ⟨[], x, xs, rfl, hx, by simpa using h2, ?_⟩
            intro z hz hz2
            rcases List.mem_cons.mp hz with rfl | hz
            · exact ltK_irrefl _
            · rw [h1 z hz] at hz2; cases hz2
          · right
            refine ⟨x :: pre, y, post, by simp [h1], h2, by rw [h3, shift], ?_⟩
            intro z hz hz2
            rcases List.mem_cons.mp hz with rfl | hz
            · have hy : y ∈ xs := by rw [h1]; simp
              have hyc : candidate v y = true := by
                simp only [AtLeast, Bool.and_eq_true] at h2; exact h2.1
              exact hs'.1 y hy hxb (candidate_ne_blank hyc)
            · exact h4 z hz hz2
    · have hc' : candidate v x = false := by simpa using hc
      simp only [hc', Bool.false_eq_true, ↓reduceIte]
      have hx : AtLeast v x = false := by simp [AtLeast, hc']
      rcases ih (i + 1) res hs'.2 with ⟨h1, h2⟩ | ⟨pre, y, post, h1, h2, h3, h4⟩
      · left
        refine ⟨?_, h2⟩
        intro z hz
        rcases List.mem_cons.mp hz with rfl | hz
        · exact hx
        · exact h1 z hz
      · right
        refine ⟨x :: pre, y, post, by simp [h1], h2, by rw [h3, shift], ?_⟩
        intro z hz hz2
        rcases List.mem_cons.mp hz with rfl | hz
        · rw [hx] at hz2; cases hz2
        · exact h4 z hz hz2

/-! ## wildcards -/

/-- declarative meaning of a parsed pattern: literals match themselves, `?` one character, `*` any run -/
inductive WMatch : List PTok → List Char → Prop where
  | nil : WMatch [] []
  | lit (c : Char) {ts : List PTok} {s : List Char} : WMatch ts s → WMatch (.lit c :: ts) (c :: s)
  | one (c : Char) {ts : List PTok} {s : List Char} : WMatch ts s → WMatch (.one :: ts) (c :: s)
  | many (pre : List Char) {ts : List PTok} {s : List Char} : WMatch ts s → WMatch (.many :: ts) (pre ++ s)

theorem anySuffix_iff (f : List Char → Bool) (s : List Char) :
    anySuffix f s = true ↔ ∃ pre post, s = pre ++ post ∧ f post = true := by
  induction s with
  | nil =>
    simp only [anySuffix]
    constructor
    · intro h; exact ⟨[], [], rfl, h⟩
    · rintro ⟨pre, post, h1, h2⟩
      have : post = [] := by
        have := congrArg List.length h1; simp at this; exact List.eq_nil_of_length_eq_zero (by omega)
      rw [this] at h2; exact h2
  | cons c cs ih =>
    simp only [anySuffix, Bool.or_eq_true, ih]
    constructor
    · rintro (h | ⟨pre, post, h1, h2⟩)
      · exact ⟨[], c :: cs, rfl, h⟩
      · exact ⟨c :: pre, post, by simp [h1], h2⟩
    · rintro ⟨pre, post, h1, h2⟩
      cases pre with
      | nil => left; simp at h1; rw [h1]; exact h2
      | cons d pre =>
        right
        simp at h1
        exact ⟨pre, post, h1.2, h2⟩

theorem wildT_iff_WMatch : ∀ (ts : List PTok) (s : List Char), wildT ts s = true ↔ WMatch ts s := by
  intro ts
  induction ts with
  | nil =>
    intro s
    cases s with
    | nil => simp [wildT]; exact .nil
    | cons c cs => simp [wildT]; intro h; cases h
  | cons t ts ih =>
    intro s
    cases t with
    | lit p =>
      cases s with
      | nil => simp [wildT]; intro h; cases h
      | cons c cs =>
        simp only [wildT, Bool.and_eq_true, beq_iff_eq, ih]
        constructor
        · rintro ⟨rfl, h⟩; exact .lit p h
        · intro h; cases h with | lit _ h => exact ⟨rfl, h⟩
    | one =>
      cases s with
      | nil => simp [wildT]; intro h; cases h
      | cons c cs =>
        simp only [wildT, ih]
        constructor
        · intro h; exact .one c h
        · intro h; cases h with | one _ h => exact h
    | many =>
      simp only [wildT, anySuffix_iff]
      constructor
      · rintro ⟨pre, post, rfl, h⟩; exact .many pre ((ih post).mp h)
      · intro h
        generalize hts : PTok.many :: ts = ts' at h
        cases h with
        | nil => cases hts
        | lit _ _ => cases hts
        | one _ _ => cases hts
        | many pre h =>
          injection hts with _ h2
          subst h2
          exact ⟨pre, _, rfl, (ih _).mpr h⟩

theorem wildT_of_WMatch {ts : List PTok} {s : List Char} (h : WMatch ts s) : wildT ts s = true :=
  (wildT_iff_WMatch ts s).mpr h

theorem WMatch_of_wildT (ts : List PTok) (s : List Char) (h : wildT ts s = true) : WMatch ts s :=
  (wildT_iff_WMatch ts s).mp h

/-! ## every numeric answer of `_match` is a position inside the vector (sorted or not) -/

theorem bisectLoop_le (p : Nat → Bool) : ∀ f lo hi, bisectLoop p f lo hi ≤ max lo hi := by
  intro f
  induction f with
  | zero => intro lo hi; simp [bisectLoop]; omega
  | succ f ih =>
    intro lo hi
    unfold bisectLoop
    by_cases hlt : lo < hi
    · simp only [hlt, ↓reduceIte]
      cases p ((lo + hi) / 2) with
      | true => simp only [↓reduceIte]; have := ih lo ((lo + hi) / 2); omega
      | false => simp only [Bool.false_eq_true, ↓reduceIte]; have := ih ((lo + hi) / 2 + 1) hi; omega
    · simp only [hlt, ↓reduceIte]; omega

theorem backoff_le (t : Nat) (a : List Val) : ∀ r, backoff t a r ≤ r := by
  intro r
  induction r with
  | zero => simp [backoff]
  | succ r ih => unfold backoff; split <;> omega

theorem leadBlanks_le : ∀ l : List Val, leadBlanks l ≤ l.length := by
  intro l
  induction l with
  | nil => simp [leadBlanks]
  | cons x xs ih => cases x <;> simp [leadBlanks]; omega

theorem num_ne_na' (q : Rat) : Val.num q ≠ na := by simp [na]

theorem matchAsc_range (v : Val) (a : List Val) (q : Rat) (h : matchAsc v a = .num q) :
    ∃ p : Nat, q = (p : Rat) ∧ 1 ≤ p ∧ p ≤ a.length := by
  simp only [matchAsc] at h
  split at h
  · exact absurd h.symm (num_ne_na' _)
  · rename_i hc
    injection h with h
    refine ⟨_, h.symm, by omega, ?_⟩
    have h1 := backoff_le (rank v) a (bisectRight v a (leadBlanks a) (trimHi a))
    have h2 : bisectRight v a (leadBlanks a) (trimHi a) ≤ max (leadBlanks a) (trimHi a) :=
      bisectLoop_le (gtAt v a) (trimHi a - leadBlanks a + 1) (leadBlanks a) (trimHi a)
    have h3 := leadBlanks_le a
    have h4 : trimHi a ≤ a.length := by unfold trimHi; omega
    omega

theorem scanExact_range (v : Val) : ∀ (l : List Val) (i : Nat) (q : Rat), scanExact v l i = .num q →
    ∃ p : Nat, q = (p : Rat) ∧ i ≤ p ∧ p < i + l.length := by
  intro l
  induction l with
  | nil => intro i q h; exact absurd h.symm (num_ne_na' _)
  | cons x xs ih =>
    intro i q h
    unfold scanExact at h
    split at h
    · injection h with h; exact ⟨i, h.symm, by omega, by simp⟩
    · obtain ⟨p, h1, h2, h3⟩ := ih (i + 1) q h
      exact ⟨p, h1, by omega, by simp; omega⟩

theorem scanDesc_range (v : Val) : ∀ (l : List Val) (i : Nat) (res : Val) (q : Rat),
    scanDesc v l i res = .num q → res = .num q ∨ ∃ p : Nat, q = (p : Rat) ∧ i ≤ p ∧ p < i + l.length := by
  intro l
  induction l with
  | nil => intro i res q h; left; exact h
  | cons x xs ih =>
    intro i res q h
    unfold scanDesc at h
    split at h
    · split at h
      · left; exact h
      · split at h
        · injection h with h; right; exact ⟨i, h.symm, by omega, by simp⟩
        · rcases ih (i + 1) _ q h with h1 | ⟨p, h1, h2, h3⟩
          · injection h1 with h1; right; exact ⟨i, h1.symm, by omega, by simp⟩
          · right; exact ⟨p, h1, by omega, by simp; omega⟩
    · rcases ih (i + 1) res q h with h1 | ⟨p, h1, h2, h3⟩
      · left; exact h1
      · right; exact ⟨p, h1, by omega, by simp; omega⟩

/-- `_match` never answers a position outside the vector -/
theorem pmatch_range (v : Val) (a : List Val) (mt q : Rat) (h : pmatch v a mt = .num q) :
    ∃ p : Nat, q = (p : Rat) ∧ 1 ≤ p ∧ p ≤ a.length := by
  unfold pmatch at h
  split at h
  · exact matchAsc_range v a q h
  · split at h
    · obtain ⟨p, h1, h2, h3⟩ := scanExact_range v a 1 q h
      exact ⟨p, h1, h2, by omega⟩
    · rcases scanDesc_range v a 1 na q h with h1 | ⟨p, h1, h2, h3⟩
      · exact absurd h1.symm (num_ne_na' _)
      · exact ⟨p, h1, h2, by omega⟩

theorem nth?_nat {α : Type} (l : List α) (p : Nat) (h : 1 ≤ p) : nth? l ((p : Nat) : Rat) = l[p - 1]? := by
  unfold nth?
  rw [← Rat.intCast_natCast, Rat.floor_intCast]
  congr 1
  omega

theorem natCast_ne_zero {p : Nat} (h : 1 ≤ p) : ((p : Nat) : Rat) ≠ 0 := by
  have := (Rat.natCast_pos (a := p)).mpr (by omega)
  intro h0; rw [h0] at this; exact absurd this (by decide)

theorem natCast_not_neg (p : Nat) : ¬ ((p : Nat) : Rat) < 0 := by
  rw [Rat.not_lt]; have := (Rat.natCast_le_natCast (a := 0) (b := p)).mpr (by omega); simpa using this

theorem natCast_not_le_zero {p : Nat} (h : 1 ≤ p) : ¬ ((p : Nat) : Rat) ≤ 0 := by
  rw [Rat.not_le]; exact (Rat.natCast_pos (a := p)).mpr (by omega)

end Pycel.Lookup

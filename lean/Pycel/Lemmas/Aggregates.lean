/-
  Helper lemmas for C14 (aggregates).  Core Lean only.
-/
import Pycel.Model.Aggregates
namespace Pycel.Agg
open Pycel

/-- the cells the aggregates ignore: everything that is neither a number nor an error value — text (numeric text,
    error look-alikes such as `#TODO` or `#n/a`, `TRUE` spelled as text, the empty text …), logicals, blanks -/
def ignorable : Val → Bool
  | .num _ => false
  | v => !isErrCell v

/-- no error value among the cells -/
def NoErr (cs : List Val) : Prop := ∀ v ∈ cs, isErrCell v = false

/-- at most one distinct error value among the cells -/
def OneErr (cs : List Val) : Prop :=
  ∀ v₁ v₂, v₁ ∈ cs → v₂ ∈ cs → isErrCell v₁ = true → isErrCell v₂ = true → v₁ = v₂

theorem ignorable_spec {v : Val} (h : ignorable v = true) : isErrCell v = false ∧ numOf? v = none := by
  cases v <;> simp_all [ignorable, numOf?]

theorem isErrCell_not_num {v : Val} (h : isErrCell v = true) : numOf? v = none ∧ ∀ q, v ≠ .num q := by
  cases v <;> simp_all [isErrCell, numOf?]

/-! ### firstErr / nums -/

@[simp] theorem firstErr_nil : firstErr [] = none := rfl
@[simp] theorem nums_nil : nums [] = [] := rfl

theorem firstErr_cons (v : Val) (cs : List Val) :
    firstErr (v :: cs) = if isErrCell v then some v else firstErr cs := by
  simp only [firstErr, List.find?_cons]; cases isErrCell v <;> rfl

theorem nums_cons (v : Val) (cs : List Val) :
    nums (v :: cs) = match numOf? v with | some q => q :: nums cs | none => nums cs := by
  simp only [nums, List.filterMap_cons]; cases numOf? v <;> rfl

theorem firstErr_append (xs ys : List Val) : firstErr (xs ++ ys) = (firstErr xs).or (firstErr ys) := by
  simp [firstErr, List.find?_append]

theorem nums_append (xs ys : List Val) : nums (xs ++ ys) = nums xs ++ nums ys := by
  simp [nums, List.filterMap_append]

theorem mem_nums {q : Rat} {cs : List Val} : q ∈ nums cs ↔ Val.num q ∈ cs := by
  simp only [nums, List.mem_filterMap]
  constructor
  · rintro ⟨a, ha, h⟩
    cases a <;> simp [numOf?] at h
    subst h; exact ha
  · intro h; exact ⟨_, h, rfl⟩

theorem firstErr_mem {v : Val} {cs : List Val} (h : firstErr cs = some v) : v ∈ cs ∧ isErrCell v = true :=
  ⟨List.mem_of_find?_eq_some h, List.find?_some h⟩

theorem firstErr_eq_none {cs : List Val} : firstErr cs = none ↔ NoErr cs := by
  simp [firstErr, NoErr, List.find?_eq_none]

theorem firstErr_pre (pre post : List Val) (v : Val) (hv : isErrCell v = true) (h : NoErr pre) :
    firstErr (pre ++ v :: post) = some v := by
  rw [firstErr_append, firstErr_eq_none.mpr h, firstErr_cons, hv]; rfl

theorem firstErr_perm {l₁ l₂ : List Val} (hp : l₁.Perm l₂) (h1 : OneErr l₁) : firstErr l₁ = firstErr l₂ := by
  cases h : firstErr l₁ with
  | none =>
    have hn : NoErr l₂ := fun v hv => (firstErr_eq_none.mp h) v (hp.mem_iff.mpr hv)
    exact (firstErr_eq_none.mpr hn).symm
  | some e =>
    obtain ⟨hm, he⟩ := firstErr_mem h
    cases h2 : firstErr l₂ with
    | none =>
      have := (firstErr_eq_none.mp h2) e (hp.mem_iff.mp hm)
      rw [he] at this; exact absurd this (by simp)
    | some e' =>
      obtain ⟨hm', he'⟩ := firstErr_mem h2
      rw [h1 e e' hm (hp.mem_iff.mpr hm') he he']

theorem firstErr_filter (q : Val → Bool) (cs : List Val) (h : ∀ v, isErrCell v = true → q v = true) :
    firstErr (cs.filter q) = firstErr cs := by
  induction cs with
  | nil => rfl
  | cons v cs ih =>
    rw [List.filter_cons]
    by_cases hq : q v = true
    · simp only [hq, ↓reduceIte, firstErr_cons, ih]
    · have he : isErrCell v = false := by
        cases hv : isErrCell v with
        | false => rfl
        | true => exact absurd (h v hv) hq
      simp [hq, firstErr_cons, he, ih]

theorem nums_filter (q : Val → Bool) (cs : List Val) (h : ∀ v, v.isNum = true → q v = true) :
    nums (cs.filter q) = nums cs := by
  induction cs with
  | nil => rfl
  | cons v cs ih =>
    rw [List.filter_cons]
    by_cases hq : q v = true
    · simp only [hq, ↓reduceIte, nums_cons, ih]
    · have hn : numOf? v = none := by
        cases v with
        | num x => exact absurd (h _ rfl) hq
        | _ => rfl
      simp [hq, nums_cons, hn, ih]

theorem nums_perm {l₁ l₂ : List Val} (hp : l₁.Perm l₂) : (nums l₁).Perm (nums l₂) := hp.filterMap _

theorem nums_map_num (cs : List Val) : (nums cs).map Val.num = cs.filter Val.isNum := by
  induction cs with
  | nil => rfl
  | cons v cs ih => cases v <;> simp [nums_cons, numOf?, Val.isNum, ih, List.filter_cons]

theorem nums_of_map_num (ns : List Rat) : nums (ns.map Val.num) = ns := by
  induction ns with
  | nil => rfl
  | cons n ns ih => simp [nums_cons, numOf?, ih]

theorem noErr_map_num (ns : List Rat) : NoErr (ns.map Val.num) := by
  intro v hv
  simp only [List.mem_map] at hv
  obtain ⟨q, _, rfl⟩ := hv
  rfl

/-! ### exact sums -/

@[simp] theorem rsum_nil : rsum [] = 0 := rfl
@[simp] theorem rsum_cons (x : Rat) (xs : List Rat) : rsum (x :: xs) = x + rsum xs := rfl

theorem rsum_append (xs ys : List Rat) : rsum (xs ++ ys) = rsum xs + rsum ys := by
  induction xs with
  | nil => simp [Rat.zero_add]
  | cons x xs ih => simp [ih, Rat.add_assoc]

theorem rsum_perm {l₁ l₂ : List Rat} (hp : l₁.Perm l₂) : rsum l₁ = rsum l₂ := by
  induction hp with
  | nil => rfl
  | cons x _ ih => simp [ih]
  | swap x y l => simp only [rsum_cons]; grind
  | trans _ _ ih₁ ih₂ => exact ih₁.trans ih₂

theorem rsum_flatten (L : List (List Rat)) : rsum L.flatten = rsum (L.map rsum) := by
  induction L with
  | nil => rfl
  | cons l L ih => simp [rsum_append, ih]

theorem natRat_add (a b : Nat) : natRat (a + b) = natRat a + natRat b := by
  simp [natRat, Rat.intCast_add]

theorem natRat_eq_zero {a : Nat} : natRat a = 0 ↔ a = 0 := by
  simp [natRat, Rat.intCast_eq_zero_iff]

/-! ### min / max of a non-empty list: a member that bounds every member -/

theorem minL_mem (m : Rat) (xs : List Rat) : minL m xs ∈ m :: xs := by
  induction xs generalizing m with
  | nil => simp [minL]
  | cons x xs ih =>
    simp only [minL]
    have := ih (if x < m then x else m)
    simp only [List.mem_cons] at this ⊢
    split at this <;> grind

theorem minL_le (m : Rat) (xs : List Rat) : ∀ y ∈ m :: xs, minL m xs ≤ y := by
  induction xs generalizing m with
  | nil => intro y hy; simp at hy; subst hy; simp [minL]
  | cons x xs ih =>
    intro y hy
    simp only [minL]
    have h := ih (if x < m then x else m)
    have h0 := h _ (List.mem_cons_self)
    simp only [List.mem_cons] at hy
    rcases hy with rfl | rfl | hy
    · split at h0 <;> grind
    · split at h0 <;> grind
    · exact h y (List.mem_cons_of_mem _ hy)

theorem maxL_mem (m : Rat) (xs : List Rat) : maxL m xs ∈ m :: xs := by
  induction xs generalizing m with
  | nil => simp [maxL]
  | cons x xs ih =>
    simp only [maxL]
    have := ih (if m < x then x else m)
    simp only [List.mem_cons] at this ⊢
    split at this <;> grind

theorem le_maxL (m : Rat) (xs : List Rat) : ∀ y ∈ m :: xs, y ≤ maxL m xs := by
  induction xs generalizing m with
  | nil => intro y hy; simp at hy; subst hy; simp [maxL]
  | cons x xs ih =>
    intro y hy
    simp only [maxL]
    have h := ih (if m < x then x else m)
    have h0 := h _ (List.mem_cons_self)
    simp only [List.mem_cons] at hy
    rcases hy with rfl | rfl | hy
    · split at h0 <;> grind
    · split at h0 <;> grind
    · exact h y (List.mem_cons_of_mem _ hy)

/-- the minimum of a list (0 for the empty list), as the aggregates compute it -/
def minOf : List Rat → Rat
  | [] => 0
  | x :: xs => minL x xs

def maxOf : List Rat → Rat
  | [] => 0
  | x :: xs => maxL x xs

theorem minOf_mem {ns : List Rat} (h : ns ≠ []) : minOf ns ∈ ns := by
  cases ns with
  | nil => exact absurd rfl h
  | cons x xs => exact minL_mem x xs

theorem minOf_le {ns : List Rat} : ∀ y ∈ ns, minOf ns ≤ y := by
  cases ns with
  | nil => intro y hy; simp at hy
  | cons x xs => exact minL_le x xs

theorem maxOf_mem {ns : List Rat} (h : ns ≠ []) : maxOf ns ∈ ns := by
  cases ns with
  | nil => exact absurd rfl h
  | cons x xs => exact maxL_mem x xs

theorem le_maxOf {ns : List Rat} : ∀ y ∈ ns, y ≤ maxOf ns := by
  cases ns with
  | nil => intro y hy; simp at hy
  | cons x xs => exact le_maxL x xs

theorem perm_ne_nil {α} {l₁ l₂ : List α} (hp : l₁.Perm l₂) (h : l₁ ≠ []) : l₂ ≠ [] := by
  intro h2; subst h2; exact h hp.eq_nil

theorem minOf_perm {l₁ l₂ : List Rat} (hp : l₁.Perm l₂) : minOf l₁ = minOf l₂ := by
  by_cases h : l₁ = []
  · subst h; rw [hp.nil_eq]
  · have h2 := perm_ne_nil hp h
    exact Rat.le_antisymm (minOf_le _ (hp.mem_iff.mpr (minOf_mem h2))) (minOf_le _ (hp.mem_iff.mp (minOf_mem h)))

theorem maxOf_perm {l₁ l₂ : List Rat} (hp : l₁.Perm l₂) : maxOf l₁ = maxOf l₂ := by
  by_cases h : l₁ = []
  · subst h; rw [hp.nil_eq]
  · have h2 := perm_ne_nil hp h
    exact Rat.le_antisymm (le_maxOf _ (hp.mem_iff.mp (maxOf_mem h))) (le_maxOf _ (hp.mem_iff.mpr (maxOf_mem h2)))

/-! ### every aggregate is a function of (first error, numeric cells) -/

def core : Fn → List Rat → Val
  | .sum, ns => .num (rsum ns)
  | .average, ns => if ns.length = 0 then .err .div0 else .num (rsum ns / natRat ns.length)
  | .min, ns => .num (minOf ns)
  | .max, ns => .num (maxOf ns)
  | .count, ns => .num (natRat ns.length)

theorem agg_eq_core (f : Fn) (cs : List Val) :
    agg f cs = match f, firstErr cs with
      | .count, _ => core .count (nums cs)
      | _, some e => e
      | f, none => core f (nums cs) := by
  cases f <;> simp only [agg, sum_, average, min_, max_, count, numerics, core] <;>
    cases h : firstErr cs <;> simp only [] <;> cases h2 : nums cs <;> simp [minOf, maxOf]

theorem agg_congr (f : Fn) {xs ys : List Val} (he : firstErr xs = firstErr ys) (hn : nums xs = nums ys) :
    agg f xs = agg f ys := by
  rw [agg_eq_core, agg_eq_core, he, hn]

theorem core_perm (f : Fn) {l₁ l₂ : List Rat} (hp : l₁.Perm l₂) : core f l₁ = core f l₂ := by
  cases f <;> simp only [core, hp.length_eq, rsum_perm hp, minOf_perm hp, maxOf_perm hp]

theorem agg_perm (f : Fn) {l₁ l₂ : List Val} (hp : l₁.Perm l₂) (h1 : OneErr l₁) : agg f l₁ = agg f l₂ := by
  rw [agg_eq_core, agg_eq_core, firstErr_perm hp h1]
  have := core_perm f (nums_perm hp)
  have hc := core_perm .count (nums_perm hp)
  cases f <;> cases firstErr l₂ <;> simp_all

/-- COUNT needs no restriction on the errors -/
theorem count_perm {l₁ l₂ : List Val} (hp : l₁.Perm l₂) : count l₁ = count l₂ := by
  simp [count, (nums_perm hp).length_eq]

/-! ### reshaping: cutting a cell list into rows of any width keeps the row-major order -/

theorem chunk_flatten {α} (c r : Nat) (xs : List α) : (chunk c r xs).flatten = xs.take (r * c) := by
  induction r generalizing xs with
  | zero => simp [chunk]
  | succ r ih =>
    simp only [chunk, List.flatten_cons, ih]
    rw [Nat.succ_mul, Nat.add_comm, List.take_add]

/-! ### SUMPRODUCT helpers -/

@[simp] theorem rprod_nil : rprod [] = 1 := rfl
@[simp] theorem rprod_cons (x : Rat) (xs : List Rat) : rprod (x :: xs) = x * rprod xs := rfl

theorem colProd_length (n : Nat) (rows : List (List Rat)) (hne : rows ≠ []) (h : ∀ r ∈ rows, r.length = n) :
    (colProd rows).length = n := by
  induction rows with
  | nil => exact absurd rfl hne
  | cons r rs ih =>
    cases rs with
    | nil => simpa [colProd] using h r (by simp)
    | cons r2 rs =>
      have h1 := h r (by simp)
      have h2 := ih (by simp) (fun x hx => h x (List.mem_cons_of_mem _ hx))
      simp [colProd, List.length_zipWith, h1, h2]

theorem colProd_get (n : Nat) (rows : List (List Rat)) (hne : rows ≠ []) (h : ∀ r ∈ rows, r.length = n)
    (i : Nat) (hi : i < n) : (colProd rows).getD i 0 = rprod (rows.map fun r => r.getD i 0) := by
  induction rows with
  | nil => exact absurd rfl hne
  | cons r rs ih =>
    cases rs with
    | nil => simp [colProd, Rat.mul_one]
    | cons r2 rs =>
      have h1 := h r (by simp)
      have hl := colProd_length n (r2 :: rs) (by simp) (fun x hx => h x (List.mem_cons_of_mem _ hx))
      have h2 := ih (by simp) (fun x hx => h x (List.mem_cons_of_mem _ hx))
      have hi1 : i < r.length := by omega
      have hi2 : i < (colProd (r2 :: rs)).length := by omega
      simp only [colProd, List.map_cons, rprod_cons] at h2 ⊢
      rw [← h2]
      simp [List.getD_eq_getElem?_getD, List.getElem?_zipWith, List.getElem?_eq_getElem hi1,
        List.getElem?_eq_getElem hi2]

theorem list_eq_range_map (l : List Rat) : l = (List.range l.length).map fun i => l.getD i 0 := by
  apply List.ext_getElem
  · simp
  · intro i h1 h2
    simp [List.getD_eq_getElem?_getD, List.getElem?_eq_getElem h1]

theorem colProd_eq (n : Nat) (rows : List (List Rat)) (hne : rows ≠ []) (h : ∀ r ∈ rows, r.length = n) :
    colProd rows = (List.range n).map fun i => rprod (rows.map fun r => r.getD i 0) := by
  have hl := colProd_length n rows hne h
  rw [list_eq_range_map (colProd rows), hl]
  apply List.map_congr_left
  intro i hi
  exact colProd_get n rows hne h i (List.mem_range.mp hi)

/-- a rectangle: `r` rows of `c` cells -/
def Rect (r c : Nat) (a : Arr) : Prop := a.length = r ∧ ∀ row ∈ a, row.length = c

theorem rect_flatten_length {r c : Nat} {a : Arr} (h : Rect r c a) : a.flatten.length = r * c := by
  obtain ⟨h1, h2⟩ := h
  induction a generalizing r with
  | nil => simp at h1; subst h1; simp
  | cons row a ih =>
    simp at h1; subst h1
    have := ih (r := a.length) rfl (fun x hx => h2 x (List.mem_cons_of_mem _ hx))
    simp [this, h2 row (by simp), Nat.succ_mul, Nat.add_comm]

theorem rect_shape {r c : Nat} {a : Arr} (h : Rect r c a) (hr : 0 < r) : shape a = (r, c) := by
  obtain ⟨h1, h2⟩ := h
  cases a with
  | nil => simp at h1; omega
  | cons row a => simp [shape, ← h1, h2 row (by simp)]

theorem cellsOf_arrs (as : List Arr) : cellsOf (as.map Arg.arr) = (as.map List.flatten).flatten := by
  induction as with
  | nil => rfl
  | cons a as ih => simp [cellsOf, argCells] at ih ⊢; exact ih

theorem zipWith_flatten {α β γ} (f : α → β → γ) (A : List (List α)) (B : List (List β))
    (h : ∀ p ∈ A.zip B, p.1.length = p.2.length) :
    List.zipWith f A.flatten B.flatten = (List.zipWith (List.zipWith f) A B).flatten := by
  induction A generalizing B with
  | nil => simp
  | cons a A ih =>
    cases B with
    | nil => simp
    | cons b B =>
      have hab : a.length = b.length := h (a, b) (by simp)
      have := ih B (fun p hp => h p (by simp [hp]))
      simp [List.zipWith_append hab, this]

end Pycel.Agg

/-
  Helper lemmas for C06 (Pycel/Model/Iter.lean): cell store, the frame/invariant of one depth-first evaluation,
  the pass loop, sup-norm arithmetic over `Rat`.
-/
import Pycel.Model.Iter
namespace Pycel.Iter

/-! ### cell store -/

theorem get_upd_same (cs : Cells) (c : Nat) (x : Cell) : get (upd cs c x) c = x := by
  induction cs with
  | nil => simp [upd, get]
  | cons h t ih =>
    obtain ⟨k, y⟩ := h
    by_cases hk : k = c
    · simp [upd, get, hk]
    · simp [upd, get, hk, ih]

theorem get_upd_ne (cs : Cells) (c d : Nat) (x : Cell) (h : d ≠ c) : get (upd cs c x) d = get cs d := by
  induction cs with
  | nil => simp [upd, get]; intro h'; exact absurd h'.symm h
  | cons hd t ih =>
    obtain ⟨k, y⟩ := hd
    by_cases hk : k = c
    · subst hk
      have : ¬ k = d := fun e => h e.symm
      simp [upd, get, this]
    · by_cases hd' : k = d
      · subst hd'
        simp [upd, get, h]
      · simp [upd, get, hk, hd', ih]

@[simp] theorem cell_startCalcs_same (s : St) (c : Nat) :
    (startCalcs s c).cell c = { (s.cell c) with wip := true, prev := (s.cell c).val } := by
  simp [startCalcs, St.cell, get_upd_same]

theorem cell_startCalcs_ne (s : St) (c d : Nat) (h : d ≠ c) : (startCalcs s c).cell d = s.cell d := by
  simp [startCalcs, St.cell, get_upd_ne _ _ _ _ h]

@[simp] theorem cell_setValue_same (tol : Rat) (s : St) (c : Nat) (v : V) :
    (setValue tol s c v).cell c = { (s.cell c) with wip := false, val := v } := by
  simp [setValue, St.cell, get_upd_same]

theorem cell_setValue_ne (tol : Rat) (s : St) (c d : Nat) (v : V) (h : d ≠ c) :
    (setValue tol s c v).cell d = s.cell d := by
  simp [setValue, St.cell, get_upd_ne _ _ _ _ h]

theorem needsCalc_true {s : St} {c : Nat} (h : needsCalc s c = true) :
    (s.cell c).wip = false ∧ c ∉ s.computed := by
  simp [needsCalc] at h; exact h

theorem needsCalc_false {s : St} {c : Nat} (h : needsCalc s c = false) :
    (s.cell c).wip = true ∨ c ∈ s.computed := by
  simp [needsCalc] at h
  by_cases hw : (s.cell c).wip = true
  · exact Or.inl hw
  · exact Or.inr (h (by simpa using hw))

/-! ### what one evaluation may change (frame) and the tracker invariant -/

structure Ext (s s' : St) : Prop where
  wip : ∀ d, (s'.cell d).wip = (s.cell d).wip
  keep : ∀ d, needsCalc s d = false → s'.cell d = s.cell d
  comp : ∀ d, d ∈ s.computed → d ∈ s'.computed
  todo : ∀ d, d ∈ s.todo → d ∈ s'.todo

theorem Ext.refl (s : St) : Ext s s := ⟨fun _ => rfl, fun _ _ => rfl, fun _ h => h, fun _ h => h⟩

theorem Ext.needs {s s' : St} (h : Ext s s') {d : Nat} (hd : needsCalc s d = false) : needsCalc s' d = false := by
  rcases needsCalc_false hd with hw | hc
  · simp [needsCalc, h.wip d, hw]
  · simp [needsCalc, h.comp d hc]

theorem Ext.trans {a b c : St} (h1 : Ext a b) (h2 : Ext b c) : Ext a c :=
  ⟨fun d => (h2.wip d).trans (h1.wip d),
   fun d hd => (h2.keep d (h1.needs hd)).trans (h1.keep d hd),
   fun d hd => h2.comp d (h1.comp d hd),
   fun d hd => h2.todo d (h1.todo d hd)⟩

/-- every cell computed in this pass is off the stack and either scheduled another pass or moved less than the
    tolerance rule allows -/
def Inv (tol : Rat) (s : St) : Prop :=
  ∀ d, d ∈ s.computed → (s.cell d).wip = false ∧
    (d ∈ s.todo ∨ closeEnough tol (s.cell d).val (s.cell d).prev = true)

def Good (tol : Rat) (s s' : St) : Prop := Ext s s' ∧ (Inv tol s → Inv tol s')

theorem Good.refl (tol : Rat) (s : St) : Good tol s s := ⟨Ext.refl s, id⟩

theorem Good.trans {tol : Rat} {a b c : St} (h1 : Good tol a b) (h2 : Good tol b c) : Good tol a c :=
  ⟨h1.1.trans h2.1, fun h => h2.2 (h1.2 h)⟩

theorem mapAccum_good (tol : Rat) (step : Nat → St → V × St) (h : ∀ c s, Good tol s (step c s).2) :
    ∀ cs s, Good tol s (mapAccum step cs s).2
  | [], s => Good.refl tol s
  | c :: cs, s => (h c s).trans (mapAccum_good tol step h cs (step c s).2)

theorem evalCell_good (wb : Workbook) (tol : Rat) : ∀ k c s, Good tol s (evalCell wb tol k c s).2 := by
  intro k
  induction k with
  | zero =>
    intro c s
    unfold evalCell
    split
    · split
      · exact Good.refl tol s
      · exact ⟨⟨fun _ => rfl, fun _ _ => rfl, fun _ h => h, fun _ h => h⟩, fun h => h⟩
    · exact Good.refl tol s
  | succ k ih =>
    intro c s
    unfold evalCell
    split
    · rename_i hn
      obtain ⟨hw, hc⟩ := needsCalc_true hn
      split
      · exact Good.refl tol s
      · rename_i f hf
        have hm := mapAccum_good tol (evalCell wb tol k) ih f.reads (startCalcs s c)
        generalize (mapAccum (evalCell wb tol k) f.reads (startCalcs s c)) = r at hm
        obtain ⟨he, hi⟩ := hm
        have hcomp1 : (startCalcs s c).computed = s.computed := rfl
        have htodo1 : (startCalcs s c).todo = s.todo := rfl
        have hneeds1 : ∀ d, d ≠ c → needsCalc s d = false → needsCalc (startCalcs s c) d = false := by
          intro d hd h
          simpa [needsCalc, cell_startCalcs_ne s c d hd, hcomp1] using h
        have hc2 : (r.2.cell c) = (startCalcs s c).cell c :=
          he.keep c (by simp [needsCalc])
        refine ⟨⟨?_, ?_, ?_, ?_⟩, ?_⟩
        · intro d
          by_cases hd : d = c
          · subst hd; simp [hw]
          · rw [cell_setValue_ne _ _ _ _ _ hd, he.wip d, cell_startCalcs_ne s c d hd]
        · intro d hnd
          have hd : d ≠ c := by intro e; subst e; rw [hn] at hnd; cases hnd
          rw [cell_setValue_ne _ _ _ _ _ hd, he.keep d (hneeds1 d hd hnd), cell_startCalcs_ne s c d hd]
        · intro d hd
          have := he.comp d (hcomp1 ▸ hd)
          simp [setValue, this]
        · intro d hd
          have := he.todo d (htodo1 ▸ hd)
          simp only [setValue]
          split
          · exact this
          · exact List.mem_cons_of_mem _ this
        · intro hinv
          have hinv1 : Inv tol (startCalcs s c) := by
            intro d hd
            have hd' : d ∈ s.computed := hcomp1 ▸ hd
            have hne : d ≠ c := by intro e; subst e; exact hc hd'
            rw [cell_startCalcs_ne s c d hne, htodo1]
            exact hinv d hd'
          have hinv2 := hi hinv1
          intro d hd
          by_cases hdc : d = c
          · subst hdc
            refine ⟨by simp, ?_⟩
            simp only [cell_setValue_same]
            by_cases hce : closeEnough tol (f.comb r.1) (r.2.cell d).prev = true
            · exact Or.inr hce
            · left; simp [setValue, hce]
          · have hd2 : d ∈ r.2.computed := by
              simp [setValue] at hd
              rcases hd with h | h
              · exact absurd h hdc
              · exact h
            rw [cell_setValue_ne _ _ _ _ _ hdc]
            obtain ⟨h1, h2⟩ := hinv2 d hd2
            refine ⟨h1, ?_⟩
            rcases h2 with h2 | h2
            · left
              simp only [setValue]
              split
              · exact h2
              · exact List.mem_cons_of_mem _ h2
            · exact Or.inr h2
    · exact Good.refl tol s

/-! ### the pass loop -/

theorem loop_bounds (step : St → List V × St) (N : Int) :
    ∀ k i s, 0 < k → i < (loop step N k i s).1 ∧ (loop step N k i s).1 ≤ i + k := by
  intro k
  induction k with
  | zero => intro i s h; omega
  | succ k ih =>
    intro i s _
    unfold loop
    split
    · simp
    · by_cases hk : 0 < k
      · have := ih (i + 1) (step s).2 hk
        omega
      · have hk0 : k = 0 := by omega
        subst hk0
        simp [loop]

/-- with fuel reaching the limit the loop ends because the tracker says `done`, not because fuel ran out -/
theorem loop_done (step : St → List V × St) (N : Int) :
    ∀ k i s, 0 < k → N ≤ ((i + k : Nat) : Int) →
      done N (loop step N k i s).1 (loop step N k i s).2.2 = true := by
  intro k
  induction k with
  | zero => intro i s h; omega
  | succ k ih =>
    intro i s _ hN
    unfold loop
    split
    · rename_i h; exact h
    · rename_i h
      by_cases hk : 0 < k
      · exact ih (i + 1) (step s).2 hk (by rw [show i + 1 + k = i + (k + 1) by omega]; exact hN)
      · have hk0 : k = 0 := by omega
        subst hk0
        simp [done] at h
        omega

theorem loop_inv (step : St → List V × St) (N : Int) (P : St → Prop) (hstep : ∀ s, P (step s).2) :
    ∀ k i s, P s → P (loop step N k i s).2.2 := by
  intro k
  induction k with
  | zero => intro i s h; exact h
  | succ k ih =>
    intro i s _
    unfold loop
    split
    · exact hstep s
    · exact ih (i + 1) (step s).2 (hstep s)

/-- when every pass from a `P`-state returns `X` and re-establishes `P`, so does the loop -/
theorem loop_vals (step : St → List V × St) (N : Int) (P : St → Prop) (X : List V)
    (hstep : ∀ s, P s → (step s).1 = X ∧ P (step s).2) :
    ∀ k i s, 0 < k → N ≤ ((i + k : Nat) : Int) → P s →
      (loop step N k i s).2.1 = X ∧ P (loop step N k i s).2.2 := by
  intro k
  induction k with
  | zero => intro i s h; omega
  | succ k ih =>
    intro i s _ hN hP
    unfold loop
    split
    · exact hstep s hP
    · rename_i h
      by_cases hk : 0 < k
      · exact ih (i + 1) (step s).2 hk (by rw [show i + 1 + k = i + (k + 1) by omega]; exact hN) (hstep s hP).2
      · have hk0 : k = 0 := by omega
        subst hk0
        simp [done] at h
        omega

theorem loopFuel_pos (N : Int) : 0 < loopFuel N := by
  unfold loopFuel; split <;> omega

theorem loopFuel_ge (N : Int) : N ≤ (loopFuel N : Int) := by
  unfold loopFuel; split <;> omega

theorem loopFuel_le (N : Int) (h : 1 ≤ N) : (loopFuel N : Int) ≤ N := by
  unfold loopFuel; split <;> omega

theorem not_done_one {N : Int} {s : St} (h : ¬ done N 1 s = true) : 1 < N := by
  simp [done] at h; omega

/-! ### sup-norm arithmetic over `Rat` -/

theorem rabs_nonneg (x : Rat) : 0 ≤ rabs x := by unfold rabs; split <;> grind

theorem rabs_triangle (a b c : Rat) : rabs (a - c) ≤ rabs (a - b) + rabs (b - c) := by
  unfold rabs; split <;> split <;> split <;> grind

theorem rabs_sub_comm (a b : Rat) : rabs (a - b) = rabs (b - a) := by
  unfold rabs; split <;> split <;> grind

theorem rabs_mul_le (a t E : Rat) (h : rabs t ≤ E) : rabs (a * t) ≤ rabs a * E := by
  have hE : 0 ≤ E := Rat.le_trans (rabs_nonneg t) h
  have h1 : t ≤ E := by unfold rabs at h; split at h <;> grind
  have h2 : -E ≤ t := by unfold rabs at h; split at h <;> grind
  by_cases ha : a < 0
  · have ha' : 0 ≤ -a := by grind
    have m1 := Rat.mul_le_mul_of_nonneg_left h1 ha'
    have m2 := Rat.mul_le_mul_of_nonneg_left h2 ha'
    have : rabs a = -a := by unfold rabs; simp [ha]
    rw [this]
    unfold rabs; split <;> grind
  · have ha' : 0 ≤ a := by grind
    have m1 := Rat.mul_le_mul_of_nonneg_left h1 ha'
    have m2 := Rat.mul_le_mul_of_nonneg_left h2 ha'
    have : rabs a = a := by unfold rabs; simp [ha]
    rw [this]
    unfold rabs; split <;> grind

def rmax (a b : Rat) : Rat := if a ≤ b then b else a

/-- sup over the finitely many cells of `L` of |x d − y d| (0 for the empty list) -/
def supErr (L : List Nat) (x y : Nat → Rat) : Rat :=
  match L with
  | [] => 0
  | d :: r => rmax (rabs (x d - y d)) (supErr r x y)

theorem supErr_nonneg (L : List Nat) (x y : Nat → Rat) : 0 ≤ supErr L x y := by
  induction L with
  | nil => simp [supErr]
  | cons d r ih => unfold supErr rmax; split <;> grind [rabs_nonneg]

theorem le_supErr (L : List Nat) (x y : Nat → Rat) (d : Nat) (h : d ∈ L) : rabs (x d - y d) ≤ supErr L x y := by
  induction L with
  | nil => cases h
  | cons e r ih =>
    unfold supErr rmax
    rcases List.mem_cons.mp h with h | h
    · subst h; split <;> grind
    · have := ih h; split <;> grind

theorem supErr_le (L : List Nat) (x y : Nat → Rat) (B : Rat) (hB : 0 ≤ B)
    (h : ∀ d, d ∈ L → rabs (x d - y d) ≤ B) : supErr L x y ≤ B := by
  induction L with
  | nil => simpa [supErr] using hB
  | cons e r ih =>
    have h1 := h e (List.mem_cons_self ..)
    have h2 := ih (fun d hd => h d (List.mem_cons_of_mem _ hd))
    unfold supErr rmax; split <;> grind

/-- scalar core: e ≤ q·e₀, e₀ ≤ τ + e, 0 ≤ q < 1  ⊢  q·e₀ ≤ q/(1−q)·τ -/
theorem contraction_scalar (E q t : Rat) (hq0 : 0 ≤ q) (hq1 : q < 1) (h : E ≤ t + q * E) :
    q * E ≤ q / (1 - q) * t := by
  have hpos : 0 < 1 - q := by grind
  have hne : (1 - q) ≠ 0 := by grind
  have h1 : (1 - q) * E ≤ t := by grind
  have hinv : 0 ≤ (1 - q)⁻¹ := by
    have := Rat.inv_pos.mpr hpos
    grind
  have h2 := Rat.mul_le_mul_of_nonneg_left h1 hinv
  have h3 : (1 - q)⁻¹ * ((1 - q) * E) = E := by
    rw [← Rat.mul_assoc, Rat.mul_comm (1 - q)⁻¹, Rat.mul_inv_cancel _ hne, Rat.one_mul]
  rw [h3] at h2
  have h4 := Rat.mul_le_mul_of_nonneg_left h2 hq0
  have h5 : q / (1 - q) * t = q * ((1 - q)⁻¹ * t) := by
    rw [Rat.div_def, Rat.mul_assoc]
  rw [h5]; exact h4

end Pycel.Iter

/- Driver handler of C15: protocol line (already split into tokens, without the leading "c15") -> answer. -/
import Pycel.Model.Proto
namespace Pycel.Drv.C15

def handle : List String → String
  | _ => "!bad-op"

end Pycel.Drv.C15

/- Driver handler of C15: protocol line tokens -> answer.
     c15 <via> <fn> <arg>…      via = f (through a formula) | l (direct library call): only changes how a raise prints
     fn = countif rng crit | countifs (rng crit)+ | sumif rng crit [sumrng] | sumifs sumrng (rng crit)+
        | averageif rng crit [avgrng] | averageifs avgrng (rng crit)+ | maxifs rng (rng crit)+ | minifs rng (rng crit)+
        | sat crit cell          (criteria_parser(crit)(cell))   | wild pattern text  (build_wildcard_re)
   A range argument may be an array `a:r:c …` or a scalar (the code wraps it as 1×1); criteria must be scalars. -/
import Pycel.Model.Proto
import Pycel.Model.Criteria
namespace Pycel.Drv.C15
open Pycel Pycel.Criteria

def rangeOf : Arg → Arr
  | .scalar v => [[v]]
  | .arr a => a

def pairsOf : List Arg → Option (List (Arr × Val))
  | [] => some []
  | r :: .scalar c :: rest => (pairsOf rest).map fun ps => (rangeOf r, c) :: ps
  | _ => none

def showOut (via : String) : Out Val → String
  | .ok v => v.enc
  | .error e => (Val.err e).enc
  | .raise k => if via = "f" then s!"!exc:pycel:FormulaEvalError({k})" else s!"!exc:bare:{k}"

def run (via fn : String) (args : List Arg) : String :=
  match fn, args with
  | "countif", [r, .scalar c] => showOut via (countif (rangeOf r) c)
  | "countifs", ps =>
    match pairsOf ps with
    | some (p :: ps) => showOut via (countifs (p :: ps))
    | _ => "!bad-arg"
  | "sumif", [r, .scalar c] => showOut via (sumif (rangeOf r) c none)
  | "sumif", [r, .scalar c, s] => showOut via (sumif (rangeOf r) c (some (rangeOf s)))
  | "averageif", [r, .scalar c] => showOut via (averageif (rangeOf r) c none)
  | "averageif", [r, .scalar c, s] => showOut via (averageif (rangeOf r) c (some (rangeOf s)))
  | "sat", [.scalar c, .scalar v] =>
    match criteriaParser c with
    | some k => (Val.bool (sat k v)).enc
    | none => showOut via (.raise "ValueError")
  | "wild", [.scalar (.str p), .scalar (.str s)] =>
    if hasWild p then (Val.bool (matchPat (parsePat (Ops.lower p)) (Ops.lower s))).enc else "z"
  | fn, s :: ps =>
    match pairsOf ps with
    | some (p :: ps) =>
      let a := rangeOf s
      match fn with
      | "sumifs" => showOut via (sumifs a (p :: ps))
      | "averageifs" => showOut via (averageifs a (p :: ps))
      | "maxifs" => showOut via (maxifs a (p :: ps))
      | "minifs" => showOut via (minifs a (p :: ps))
      | _ => "!bad-op"
    | _ => "!bad-arg"
  | _, _ => "!bad-op"

def handle : List String → String
  | "c15" :: via :: fn :: toks =>
    match decArgs? toks with
    | some args => run via fn args
    | none => "!bad-arg"
  | _ => "!bad-op"

end Pycel.Drv.C15

/- Driver handler of C16: protocol line (tokens, first = "c16") -> answer.
     c16 match   <v> <match_type> a:r:c …
     c16 vlookup <v> <col> <range_lookup> a:r:c …
     c16 hlookup <v> <row> <range_lookup> a:r:c …
     c16 lookup  <v> a:r:c … [a:r:c …]
     c16 index   <row> <col | -> a:r:c …
     c16 top <op> …   the same call evaluated as a whole cell formula (a blank result is shown as 0)
-/
import Pycel.Model.Proto
import Pycel.Model.Lookup
namespace Pycel.Drv.C16
open Pycel Pycel.Lookup

def encOut : Out → String
  | .cell v => v.enc
  | .arr a => encArr a

/-- `top` marks a call made as a whole cell formula: excelformula.py:951 turns a blank result into 0 -/
def handle : List String → String
  | "c16" :: "top" :: rest =>
    let s := handle ("c16" :: rest)
    if s = "z" then "n:0/1" else s
  | "c16" :: "match" :: rest =>
    match decArgs? rest with
    | some [.scalar v, .scalar mt, .arr a] => (xmatch v a mt).enc
    | _ => "!bad-arg"
  | "c16" :: "vlookup" :: rest =>
    match decArgs? rest with
    | some [.scalar v, .scalar k, .scalar rl, .arr a] => (vlookup v a k rl).enc
    | _ => "!bad-arg"
  | "c16" :: "hlookup" :: rest =>
    match decArgs? rest with
    | some [.scalar v, .scalar k, .scalar rl, .arr a] => (hlookup v a k rl).enc
    | _ => "!bad-arg"
  | "c16" :: "lookup" :: rest =>
    match decArgs? rest with
    | some [.scalar v, .arr a] => (lookup v a none).enc
    | some [.scalar v, .arr a, .arr rr] => (lookup v a (some rr)).enc
    | _ => "!bad-arg"
  | "c16" :: "index" :: row :: "-" :: rest =>
    match Val.dec? row, decArgs? rest with
    | some r, some [.arr a] => encOut (index a r none)
    | _, _ => "!bad-arg"
  | "c16" :: "index" :: rest =>
    match decArgs? rest with
    | some [.scalar r, .scalar c, .arr a] => encOut (index a r (some c))
    | _ => "!bad-arg"
  | _ => "!bad-op"

end Pycel.Drv.C16

/- Driver handler of C16: protocol line (already split into tokens, without the leading "c16") -> answer. -/
import Pycel.Model.Proto
namespace Pycel.Drv.C16

def handle : List String → String
  | _ => "!bad-op"

end Pycel.Drv.C16

/- Driver handler of C03: protocol line (already split into tokens, without the leading "c03") -> answer. -/
import Pycel.Model.Proto
namespace Pycel.Drv.C03

def handle : List String → String
  | _ => "!bad-op"

end Pycel.Drv.C03

/-
  Driver handler of C03: one line = one saved model (nodes, build order, user extra_data keys) + one post-load history.

    c03 <n> <node>*n ORD <k> i*k EXTRA (none | <k> keytok*k) OPS <op>*
      node : <sheettok> <col> <row> (- | <col2>:<row2>)  <spec>
      spec : I <val>                      value cell with its value at save time
           | F <codetok> <fml>            formula cell: python code + formula of Model/EngineInst.lean
                                          (ref j | cat k j*k | add a b | sub a b | eq a b | sum k j*k | cnt k j*k
                                           | idx r row col)
           | X <codetok>                  formula / CSE range whose semantics is not modelled (no history is sent)
           | R <rows> <cols> j*(rows*cols) plain range
      ORD  : the insertion order of the real cell_map (node numbers)
      op   : S i <val> | E i | M k (i <val>)*k  (set_value of a range / list of cells) | X k i*k  (evaluate of a list)
  Answer, ';'-separated:
      map:<i>=<tok>~…      the cell_map section of the file in file order (`serialize`), node number = entry
      twice:0|1            the second save of the unchanged model writes the same document
      idem:0|1             saving the loaded model writes the same entries in the same order
      idemmap:0|1          … the same entries as a mapping
      ops:<tok>^…          the history run on `loadedState` of the RELOADED model (`ok`/`rej` for set_value)
  Trusted glue, not part of any theorem.
-/
import Pycel.Model.Proto
import Pycel.Model.Persist
namespace Pycel.Drv.C03
open Pycel Pycel.Engine Pycel.EngineInst Pycel.Persist

partial def takeNats : Nat → List String → Option (List Nat × List String)
  | 0, ts => some ([], ts)
  | k+1, t :: ts => do
    let j ← t.toNat?
    let (js, rest) ← takeNats k ts
    some (j :: js, rest)
  | _, [] => none

def decStr? (tok : String) : Option (List Char) :=
  if tok.startsWith "s:" then decText? (tok.drop 2).toString else none

def parseExt (t : String) : Option (Option (Nat × Nat)) :=
  if t = "-" then some none else
  match t.splitOn ":" with
  | [a, b] => do some (some ((← a.toNat?), (← b.toNat?)))
  | _ => none

def parseFml : List String → Option (Fml × List String)
  | "ref" :: j :: rest => do some (.ref (← j.toNat?), rest)
  | "add" :: a :: b :: rest => do some (.add (← a.toNat?) (← b.toNat?), rest)
  | "sub" :: a :: b :: rest => do some (.sub (← a.toNat?) (← b.toNat?), rest)
  | "eq" :: a :: b :: rest => do some (.eq (← a.toNat?) (← b.toNat?), rest)
  | "idx" :: r :: row :: col :: rest => do some (.idx (← r.toNat?) (← row.toNat?) (← col.toNat?), rest)
  | "cat" :: k :: rest => do
      let (js, rest) ← takeNats (← k.toNat?) rest
      some (.cat js, rest)
  | "sum" :: k :: rest => do
      let (js, rest) ← takeNats (← k.toNat?) rest
      some (.sum js, rest)
  | "cnt" :: k :: rest => do
      let (js, rest) ← takeNats (← k.toNat?) rest
      some (.cnt js, rest)
  | _ => none

partial def parseNodes : Nat → List String → Option (List Node × List String)
  | 0, ts => some ([], ts)
  | k+1, sh :: col :: row :: ext :: ts => do
    let key : Key := ⟨← decStr? sh, ← col.toNat?, ← row.toNat?, ← parseExt ext⟩
    let (nd, rest) ← (match ts with
      | "I" :: v :: rest => do some (({ key := key, spec := .inp (← Val.dec? v), code := [] } : Node), rest)
      | "F" :: code :: rest => do
          let (e, rest) ← parseFml rest
          some ({ key := key, spec := .fml e, code := ← decStr? code }, rest)
      | "X" :: code :: rest => do some ({ key := key, spec := .fml (.cnt []), code := ← decStr? code }, rest)
      | "R" :: r :: c :: rest => do
          let r ← r.toNat?
          let c ← c.toNat?
          let (js, rest) ← takeNats (r*c) rest
          some ({ key := key, spec := .rng (chunk c r js), code := [] }, rest)
      | _ => none : Option (Node × List String))
    let (nds, rest) ← parseNodes k rest
    some (nd :: nds, rest)
  | _, _ => none

partial def takePairs : Nat → List String → Option (List (Nat × EV) × List String)
  | 0, ts => some ([], ts)
  | k+1, i :: v :: ts => do
    let i ← i.toNat?
    let v ← Val.dec? v
    let (ps, rest) ← takePairs k ts
    some ((i, .sc v) :: ps, rest)
  | _, _ => none

partial def parseOps : List String → Option (List (OpX EV))
  | [] => some []
  | "S" :: i :: v :: rest => do
    let ops ← parseOps rest
    some (.op (.set (← i.toNat?) (.sc (← Val.dec? v))) :: ops)
  | "E" :: a :: rest => do
    let ops ← parseOps rest
    some (.op (.eval (← a.toNat?)) :: ops)
  | "M" :: k :: rest => do
    let (ps, rest) ← takePairs (← k.toNat?) rest
    let ops ← parseOps rest
    some (.setMany ps :: ops)
  | "X" :: k :: rest => do
    let (js, rest) ← takeNats (← k.toNat?) rest
    let ops ← parseOps rest
    some (.evalMany js :: ops)
  | _ => none

def encEV : EV → String
  | .sc v => v.enc
  | .arr rows => encArr rows

def accepted (wb : Workbook) (s : State EV) (i : Nat) : Bool :=
  decide (i < wb.n) && decide (wb.kind i = .input) && s.built i

def runOps (wb : Workbook) (f : Nat → (Nat → EV) → EV) : State EV → List (OpX EV) → List String
  | _, [] => []
  | s, .op (.set i v) :: h =>
    (if accepted wb s i then "ok" else "rej") :: runOps wb f (setValue wb typedEq i v s) h
  | s, .op (.eval a) :: h =>
    let r := evaluate wb f a s
    (if a < wb.n then encEV r.1 else "!unknown-node") :: runOps wb f r.2 h
  | s, .setMany l :: h =>
    (if l.all (fun p => accepted wb s p.1) then "ok" else "rej") :: runOps wb f (setMany wb typedEq l s) h
  | s, .evalMany l :: h =>
    let r := evalMany wb f l s
    (if l.all (· < wb.n) then "&".intercalate (r.1.map encEV) else "!unknown-node") :: runOps wb f r.2 h

def indexOfKey (nodes : List Node) (k : Key) : Nat :=
  (nodes.findIdx? fun nd => nd.key == k).getD nodes.length

def curVal (nd : Node) : Val :=
  match nd.spec with
  | .inp v => v
  | _ => .blank

def emb0 : Emb Nat := ⟨fun _ => 0, fun _ => 0, fun _ => 0⟩

def boolTok (b : Bool) : String := if b then "1" else "0"

def answer (nodes : List Node) (order : List Nat) (extra : Option (List (List Char))) (ops : List (OpX EV)) : String :=
  let cells := order.map fun i => let nd := nodes.getD i default; entryOf nd (curVal nd)
  let m : Model Nat :=
    { cells := cells, cycles := none, hash := none, filename := [], extra := extra.map fun ks => ks.map fun k => (k, 0) }
  let ser := serialize m.cells
  let rebuilt := (nodes.filter fun nd => match nd.spec with | .rng _ => true | _ => false).map (·.key)
  let R := reload Codec.id emb0 [] rebuilt m
  let ser' := serialize R.cells
  let mapS := "~".intercalate (ser.map fun kv => s!"{indexOfKey nodes kv.1}={kv.2.enc}")
  let m2 := afterSave emb0 m
  let twice := docKeys (toDoc Codec.id m) == docKeys (toDoc Codec.id m2) && serialize m2.cells == ser
  let idem := ser' == ser
  let idemmap := ser'.length == ser.length && ser.all fun kv => find kv.1 ser' == some kv.2
  let V := tableView nodes
  let cm := fun k => findEntry k R.cells
  let opsS :=
    if ops.isEmpty then "-"
    else if !wfViewCheck V cm then "!notwf"
    else "^".intercalate (runOps (wbOf V cm) (semOf V cm) (loadedState V R) ops)
  s!"map:{mapS};twice:{boolTok twice};idem:{boolTok idem};idemmap:{boolTok idemmap};ops:{opsS}"

/-- `c03 pk t1 t2 …`: texts of successive saves of an edited model into an empty directory (digest = the text itself,
    i.e. a faithful digest).  Answer `rw:<bit per save: pickle (re)written>;fresh:<pickle = model of the last text>` -/
def answerPk (ts : List String) : String :=
  let step := fun (acc : Disk String String × List String) (t : String) =>
    let d := acc.1
    let rw := textChangedBy (fun x : String => x) d.text t || d.pickle.isNone
    (saveStep (fun x : String => x) (fun x : String => x) d t, acc.2 ++ [boolTok rw])
  let r := ts.foldl step ((⟨none, none⟩ : Disk String String), [])
  s!"rw:{"".intercalate r.2};fresh:{boolTok (r.1.pickle == r.1.text)}"

def optHash (t : String) : Option (List Char) := if t = "-" then none else some t.toList

def showHash : Option (List Char) → String
  | none => "-"
  | some h => String.ofList h

/-- `c03 hash h0 cur…`: a model compiled when the workbook had digest h0; `cur…` = digests of the workbook file at the
    moments `hash_matches` is asked on the LOADED model.  Answer: the excel_hash written by the save, the one written
    by a re-save of the loaded model, and the hash_matches bits. -/
def answerHash (h0 : String) (curs : List String) : String :=
  let m : Model Nat := { cells := [], cycles := none, hash := optHash h0, filename := [], extra := none }
  let R := reload Codec.id emb0 [] [] m
  let R2 := reload Codec.id emb0 [] [] R
  let hm := curs.map fun c => boolTok (R.hashMatches (optHash c))
  s!"file:{showHash (docHash (toDoc Codec.id m))};file2:{showHash (docHash (toDoc Codec.id R))};" ++
  s!"hash3:{showHash R2.hash};hm:{"".intercalate hm}"

/-- `c03 xd (none | k key*k) step*`: the user's extra_data (keys in dict order) and a history of
    `SAVE | ADD key | DEL key | LOAD`; ADD = `d[key] = …` in place (an existing key keeps its position), LOAD = continue
    with `from_file` of the last save.  Answer: the top-level keys of every saved document, `/`-separated per save. -/
partial def runXd (m : Model Nat) (last : Option (Model Nat)) : List String → List String → Option (List String)
  | [], acc => some acc
  | "SAVE" :: r, acc =>
    let keys := " ".intercalate ((docKeys (toDoc Codec.id m)).map encText)
    runXd (afterSave emb0 m) (some (reload Codec.id emb0 [] [] m)) r (acc ++ [keys])
  | "ADD" :: k :: r, acc => do
    let k ← decStr? k
    runXd { m with extra := some (upd k 0 m.extraList) } last r acc
  | "DEL" :: k :: r, acc => do
    let k ← decStr? k
    runXd { m with extra := m.extra.map fun l => l.filter fun kv => kv.1 != k } last r acc
  | "LOAD" :: r, acc => do
    let l ← last
    runXd l last r acc
  | _, _ => none

def answerXd (extra : Option (List (List Char))) (steps : List String) : String :=
  let m : Model Nat :=
    { cells := [], cycles := none, hash := none, filename := [], extra := extra.map fun ks => ks.map fun k => (k, 0) }
  match runXd m none steps [] with
  | none => "!bad-xd"
  | some acc => "/".intercalate acc

/-- `c03 fs <fresh>`: a failed save has no effect in the model — a save is a function of the model alone (`toDoc`),
    there is no process state: saving A again writes the same document (`C03_save_twice_identical`), the corrected
    model writes what it wrote before, in this and in a fresh process. -/
def answerFs (fresh : String) : String :=
  let m : Model Nat := { cells := [], cycles := none, hash := none, filename := [], extra := some [(['o'], 0)] }
  let again := docKeys (toDoc Codec.id (afterSave emb0 m)) == docKeys (toDoc Codec.id m)
  s!"again:{boolTok again};b:111;fresh:{if fresh = "1" then "1" else "-"}"

def handle : List String → String
  | "c03" :: "fs" :: f :: _ => answerFs f
  | "c03" :: "xd" :: "none" :: steps => answerXd none steps
  | "c03" :: "xd" :: k :: rest =>
    match k.toNat? with
    | none => "!bad-xd"
    | some k =>
      let keys := (rest.take k).filterMap decStr?
      if keys.length = k then answerXd (some keys) (rest.drop k) else "!bad-xd"
  | "c03" :: "pk" :: ts => answerPk ts
  | "c03" :: "hash" :: h0 :: curs => answerHash h0 curs
  | "c03" :: n :: rest =>
    match n.toNat? with
    | none => "!bad-n"
    | some n =>
      match parseNodes n rest with
      | none => "!bad-node"
      | some (nodes, "ORD" :: k :: rest) =>
        match k.toNat? >>= fun k => takeNats k rest with
        | none => "!bad-ord"
        | some (order, "EXTRA" :: "none" :: "OPS" :: rest) =>
          match parseOps rest with
          | none => "!bad-op"
          | some ops => answer nodes order none ops
        | some (order, "EXTRA" :: k :: rest) =>
          match k.toNat? with
          | none => "!bad-extra"
          | some k =>
            let keys := (rest.take k).filterMap decStr?
            match rest.drop k with
            | "OPS" :: rest =>
              match parseOps rest with
              | none => "!bad-op"
              | some ops => if keys.length = k then answer nodes order (some keys) ops else "!bad-extra"
            | _ => "!bad-extra"
        | _ => "!bad-ord"
      | _ => "!bad-node"
  | _ => "!bad-op"

end Pycel.Drv.C03

/- Driver handler of C07: `c07 run <tid>:<n|*> … | <ops of thread 0> | <ops of thread 1>` -> every read of each thread.
   The schedule mirrors harness/props/c07.py `Sched`: slice (t, n) = thread t runs until it has passed n yield points
   (or finishes); afterwards the unfinished threads run to completion in thread order. -/
import Pycel.Model.Proto
import Pycel.Model.Threads
namespace Pycel.Drv.C07
open Pycel.Threads

def parseTol (s : String) : Option Tol :=
  match s.splitOn "/" with
  | [p, q] => do
      let pi ← p.toInt?
      let qn ← q.toNat?
      some (pi, qn)
  | _ => none

def parseOp (tok : String) : Option Op :=
  if tok.startsWith "cc:" then some (.ctxCall (tok.drop 3).toString)
  else if tok.startsWith "bind:" then some (.bind (tok.drop 5).toString)
  else if tok.startsWith "mread:" then some (.mread (tok.drop 6).toString)
  else match tok.splitOn ":" with
  | ["call", i, t] => do
      let n ← i.toNat?
      let tol ← parseTol t
      some (.call n tol)
  | ["inc"] => some .inc
  | ["wip", c] => c.toNat?.map .wip
  | ["calced", c] => c.toNat?.map .calced
  | ["untodo", c] => c.toNat?.map .untodo
  | ["uncalced", c] => c.toNat?.map .uncalced
  | ["isc", c] => c.toNat?.map .isCalced
  | ["tol"] => some .tol
  | ["done"] => some .done
  | ["en"] => some .enter
  | ["ex"] => some .exit
  | ["top"] => some .top
  | ["nid"] => some .nextId
  | ["yp"] => some .yp
  | ["fin"] => some .fin
  | _ => none

def parseSlice (tok : String) : Option (Tid × Option Nat) :=
  match tok.splitOn ":" with
  | [t, n] => do
      let tid ← t.toNat?
      if n = "*" then some (tid, none) else do
        let k ← n.toNat?
        some (tid, some k)
  | _ => none

def showTol (t : Tol) : String := s!"{t.1}/{t.2}"
def showOpt {α : Type} (f : α → String) : Option α → String
  | some x => f x
  | none => "-"

def showObs : Obs → String
  | .bool b => if b then "T" else "F"
  | .tol t => "t" ++ showTol t
  | .addr a => "a" ++ a
  | .comp o => "c" ++ showOpt toString o
  | .fin a b c d e f =>
    s!"fin({showOpt toString a},{showOpt toString b},{showOpt showTol c},{showOpt toString d},{showOpt toString e},{showOpt toString f})"
  | .raised e => "!" ++ e

def showThread (g : Global) (t : Tid) : String :=
  let th := g.threads t
  s!"t{t}=" ++ ",".intercalate (th.obs.map showObs) ++ " ids=" ++ ",".intercalate (th.ids.map toString)

/-- split a token list at "|" -/
def splitBar : List String → List (List String)
  | [] => [[]]
  | t :: ts =>
    match splitBar ts with
    | [] => [[t]]
    | g :: gs => if t = "|" then [] :: g :: gs else (t :: g) :: gs

/-- the placement the property asks for (tracker, context and name_space binding isolated); the id counter and the
    lazy table follow the live code -/
def P : Placement := { propPlacement with cellCtr := codePlacement.cellCtr }

def handle : List String → String
  | "c07" :: "run" :: rest =>
    match splitBar rest with
    | [sl, pa, pb] =>
      match sl.mapM parseSlice, pa.mapM parseOp, pb.mapM parseOp with
      | some slices, some a, some b =>
        let fuel := a.length + b.length + 1
        let g0 := initGlobal (fun t => if t = 0 then a else if t = 1 then b else [])
        let g1 := slices.foldl (fun g (s : Tid × Option Nat) =>
          match s.2 with
          | none => runToEnd P s.1 fuel g
          | some n => runToYield P s.1 fuel n g) g0
        let g2 := runToEnd P 1 fuel (runToEnd P 0 fuel g1)
        " ; ".intercalate ((if a.isEmpty then [] else [showThread g2 0]) ++ (if b.isEmpty then [] else [showThread g2 1]))
      | _, _, _ => "!bad-arg"
    | _ => "!bad-arg"
  | ["c07", "placement", what] =>
    -- what the property asks of the live code (the generated table is audited separately by the [table] theorems)
    if what = "tracker" || what = "ctx" || what = "ctxfresh" then "isolated" else "!bad-arg"
  | _ => "!bad-op"

end Pycel.Drv.C07

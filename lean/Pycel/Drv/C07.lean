/- Driver handler of C07: protocol line (already split into tokens, without the leading "c07") -> answer. -/
import Pycel.Model.Proto
namespace Pycel.Drv.C07

def handle : List String → String
  | _ => "!bad-op"

end Pycel.Drv.C07

/- Driver handler of C13: protocol line (already split into tokens, without the leading "c13") -> answer. -/
import Pycel.Model.Proto
namespace Pycel.Drv.C13

def handle : List String → String
  | _ => "!bad-op"

end Pycel.Drv.C13

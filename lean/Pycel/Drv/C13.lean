/- Driver handler of C13: protocol line tokens -> one answer line.
     c13 op <PyOpName> <L> <R>                 fixup(L, op, R) on operands that may be arrays (`opFixup`), the scalar
                                               operation being C10's `Pycel.Ops.fixupPy` (USub: L is ignored, send `z`)
     c13 fn <name> <arg>…                      the cse-wrapped library function `name` (`cseWrap`), cse parameters from
                                               Generated/CseMeta.lean, scalar semantics from the small table `scalarFn`
     c13 fit <h> <w> <res>                     fit_to_range(res) for an h×w target
     c13 wbc <d> <r0> <c0> <h> <w> op|fn|val … the same with operand chains of depth d (context stack model)
     c13 wb <r0> <c0> <h> <w> op|fn|val …      an array formula entered over the h×w target at (row r0, column c0):
                                               `<evaluate(target)> ; <table of member cells>`
   Operands / results: a scalar token or `a:<rows>:<cols> v…`; `!raise` = the evaluation raises.
-/
import Pycel.Model.Proto
import Pycel.Model.Ops
import Pycel.Model.Arrays
import Pycel.Generated.CseMeta
namespace Pycel.Drv.C13
open Pycel Pycel.Arrays

def toOpnd : Arg → Opnd
  | .scalar v => .scalar v
  | .arr a => .arr a

def showRes : Option Opnd → String
  | none => "!raise"
  | some (.scalar v) => (showCell v).enc      -- eval_func shows an empty scalar value as 0
  | some (.arr a) => encArr a

/-- scalar operator as a `Val → Val → Val` (the `nonfinite` outcome cannot arise from the small pool) -/
def scalarOp (op : Ops.Op) (l r : Val) : Val :=
  match Ops.fixupPy (if op = .usub then .str Ops.emptySentinel else l) op r with
  | .val v => v
  | .nonfinite => .err .num

/-! scalar semantics of a few wrapped library functions, on the pool the harness uses
    (integers, logicals, blank, non-numeric text, errors).  Inner wrappers as applied by apply_meta:
    error_string_wrapper, then nums_wrapper / strs_wrapper, then the function. -/

def firstErr : List Val → Option Err
  | [] => none
  | .err e :: _ => some e
  | _ :: rest => firstErr rest

/-- excel_math_func inner part: first error argument, then coerce_to_number(convert_all) on every argument,
    #VALUE! unless all are numbers -/
def mathFn (k : List Rat → Val) (args : List Val) : Val :=
  match firstErr args with
  | some e => .err e
  | none =>
    let nums := args.map (Ops.coerceToNumber true)
    if nums.all Val.isNum then k (nums.filterMap fun | .num q => some q | _ => none) else .err .value

def pyMod (a b : Rat) : Val :=
  if b = 0 then .err .div0 else .num (a - b * ((a / b).floor : Rat))

/-- logical._clean_logical -/
def cleanLogical : Val → Except Err Bool
  | .err e => .error e
  | .str s =>
    let l := Ops.lower s
    if l == "true".toList then .ok true else if l == "false".toList then .ok false else .error .value
  | .blank => .ok false
  | .num q => .ok (q != 0)
  | .bool b => .ok b

def scalarFn (name : String) (args : List Val) : Val :=
  match name, args with
  | "mod", [a, b] => mathFn (fun | [x, y] => pyMod x y | _ => .err .value) [a, b]
  | "abs_", [a] => mathFn (fun | [x] => .num (if x < 0 then -x else x) | _ => .err .value) [a]
  | "sign", [a] => mathFn (fun | [x] => .num (if x < 0 then -1 else if x = 0 then 0 else 1) | _ => .err .value) [a]
  | "isnumber", [a] => .bool a.isNum
  | "if_", [t, a, b] =>
    match cleanLogical t with
    | .error e => .err e
    | .ok c => if c then a else b
  | "exact", [a, b] =>
    -- strs_wrapper: coerce_to_string on both, first error returned
    match Ops.coerceToString a, Ops.coerceToString b with
    | .err e, _ => .err e
    | _, .err e => .err e
    | x, y => .bool (x == y)
  | _, _ => .err .name

/-- the per-element function handed to `cseWrap`: every argument is a scalar after picking -/
def gOf (name : String) (args : List Opnd) : Val :=
  scalarFn name (args.map fun | .scalar v => v | .arr _ => .err .value)

def cseOf (name : String) (k : Nat) : Bool := (Gen.cseParams name).contains k

/-- value of a formula: `op <name> L R`, `fn <name> args…`, `val <res>` -/
def formulaValue : List String → Option (Option Opnd)
  | "op" :: o :: rest =>
    match Ops.Op.ofName? o, decArgs? rest with
    | some op, some [l, r] => some (opFixup (scalarOp op) (toOpnd l) (toOpnd r))
    | _, _ => none
  | "fn" :: name :: rest =>
    match decArgs? rest with
    | some args => some (cseWrap (gOf name) (cseOf name) (args.map toOpnd))
    | none => none
  | "val" :: rest =>
    match decArgs? rest with
    | some [r] => some (some (toOpnd r))
    | _ => none
  | _ => none

/-- float results of `^` are only approximately the C library's (Ops.pyPow): numbers are marked `~` -/
def markApprox (form : List String) (out : String) : String :=
  match form with
  | "op" :: "Pow" :: _ => " ".intercalate ((out.splitOn " ").map fun t => if t.startsWith "n:" then "~" ++ t else t)
  | _ => out

def handle : List String → String
  | "c13" :: "fn" :: name :: rest =>
    -- functions outside the small scalar table are compared by the implementation-only oracle alone
    if Gen.cseParams name = [] then "!unmodelled" else
    match formulaValue ("fn" :: name :: rest) with
    | some v => showRes v
    | none => "!bad-arg"
  | "c13" :: "fit" :: h :: w :: rest =>
    match h.toNat?, w.toNat?, decArgs? rest with
    | some h, some w, some [r] => encArr (fitToRange (toOpnd r) h w)
    | _, _, _ => "!bad-arg"
  | "c13" :: "wbc" :: d :: r0 :: c0 :: h :: w :: rest =>
    -- as `wb`, the operands being reached through chains of `d` uncomputed formula cells: the value is fitted under
    -- the context the stack discipline (`runForest`) leaves for the array formula
    match d.toNat?, r0.toNat?, c0.toNat?, h.toNat?, w.toNat?, formulaValue rest with
    | some d, some r0, some c0, some h, some w, some v =>
      match v with
      | none => "!raise"
      | some res =>
        if h = 1 ∧ w = 1 then
          let v := encArr [[singleCell res]]
          markApprox rest (v ++ " ; " ++ v)
        else
          let tgt := toArr (fitCtx (seenByArrayFormula h w d 2) res)
          markApprox rest (encArr tgt ++ " ; " ++ encArr (membersOf tgt r0 c0 h w))
    | _, _, _, _, _, _ => "!bad-arg"
  | "c13" :: "wb" :: r0 :: c0 :: h :: w :: rest =>
    match r0.toNat?, c0.toNat?, h.toNat?, w.toNat?, formulaValue rest with
    | some r0, some c0, some h, some w, some v =>
      match v with
      | none => "!raise"
      | some res =>
        if h = 1 ∧ w = 1 then
          let v := encArr [[singleCell res]]
          markApprox rest (v ++ " ; " ++ v)
        else markApprox rest (encArr (evalTarget res h w) ++ " ; " ++ encArr (members res r0 c0 h w))
    | _, _, _, _, _ => "!bad-arg"
  | "c13" :: rest =>
    match formulaValue rest with
    | some v => markApprox rest (showRes v)
    | none => "!bad-arg"
  | _ => "!bad-op"

end Pycel.Drv.C13

/- Driver handler of C14: protocol line (already split into tokens, without the leading "c14") -> answer. -/
import Pycel.Model.Proto
namespace Pycel.Drv.C14

def handle : List String → String
  | _ => "!bad-op"

end Pycel.Drv.C14

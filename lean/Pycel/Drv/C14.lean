/- Driver handler of C14: protocol line (already split into tokens) -> answer.
     c14 sum|average|min|max|count <args…>     args: scalar tokens and arrays `a:r:c v…`
     c14 subtotal <int> <args…>
     c14 sumproduct <args…>
     c14 echo <value>                           the value itself (expected value of an inner formula cell)
-/
import Pycel.Model.Proto
import Pycel.Model.Aggregates
namespace Pycel.Drv.C14
open Pycel Pycel.Agg

def fnOf? : String → Option Fn
  | "sum" => some .sum
  | "average" => some .average
  | "min" => some .min
  | "max" => some .max
  | "count" => some .count
  | _ => none

def handle : List String → String
  | "c14" :: "subtotal" :: n :: rest =>
    match n.toInt?, decArgs? rest with
    | some n, some args =>
      match subtotal n (cellsOf args) with
      | .value v => v.enc
      | .unknownFunction => "!exc:pycel:UnknownFunction(NameError)"
      | .badNumber => "!exc:bare:ValueError"
      | .unmodelled name => "!unmodelled:" ++ name
    | _, _ => "!bad-arg"
  | "c14" :: "echo" :: [t] =>
    match Val.dec? t with
    | some v => v.enc
    | none => "!bad-arg"
  | "c14" :: "sumproduct" :: rest =>
    match decArgs? rest with
    | some args => (sumproduct args).enc
    | none => "!bad-arg"
  | "c14" :: f :: rest =>
    match fnOf? f, decArgs? rest with
    | some f, some args => (aggArgs f args).enc
    | _, _ => "!bad-arg"
  | _ => "!bad-op"

end Pycel.Drv.C14

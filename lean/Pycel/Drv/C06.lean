/- Driver handler of C06: protocol line (already split into tokens, without the leading "c06") -> answer. -/
import Pycel.Model.Proto
namespace Pycel.Drv.C06

def handle : List String → String
  | _ => "!bad-op"

end Pycel.Drv.C06

/-
  Driver handler of C06: one whole history per line.

    c06 cfg <ci> <ct> cells <n> <cell>×n ops <op>*
      <ci>,<ct>   configured iterations (integer) / tolerance (n:p/q), `_` = None
      <cell>      v <val>                       input cell (val = n:p/q | z)
                  f <val> <expr>                formula cell with stored value; <expr> in prefix form:
                                                n:p/q | r<c> | S:<c1>,<c2>,… | + a b | - a b | * a b | E a b x y | L a b x y | P a
      <op>        set <c> <val>  |  ev <ai> <at> <cnt> <m> <p1> … <pm> <k> <t1> … <tk>
                  (cnt = cell whose evaluations are counted, `_` = none; p = cells evaluated by graph construction)
  Answer: one item per `ev`, joined by ';':  <v1>,<v2>,…/<count>   then  ` # ` and diagnostics (passes, out-of-fuel).
-/
import Pycel.Model.Proto
import Pycel.Model.Iter
namespace Pycel.Drv.C06
open Pycel Pycel.Iter

def decV? (t : String) : Option V :=
  if t = "z" then some none
  else if t.startsWith "n:" then (decRat? (t.drop 2).toString).map some
  else none

def encV : V → String
  | none => "z"
  | some q => encRat q

def optInt? (t : String) : Option (Option Int) :=
  if t = "_" then some none else t.toInt?.map some

def optRat? (t : String) : Option (Option Rat) :=
  if t = "_" then some none
  else if t.startsWith "n:" then (decRat? (t.drop 2).toString).map some
  else none

partial def parseExpr : List String → Option (Expr × List String)
  | [] => none
  | t :: ts =>
    if t.startsWith "n:" then (decRat? (t.drop 2).toString).map fun q => (.lit q, ts)
    else if t.startsWith "r" then (t.drop 1).toString.toNat?.map fun c => (.ref c, ts)
    else if t.startsWith "S:" then
      (((t.drop 2).toString.splitOn ",").mapM fun (x : String) => x.toNat?).map fun cs => (.sum cs, ts)
    else if t = "+" ∨ t = "-" ∨ t = "*" then do
      let (a, r1) ← parseExpr ts
      let (b, r2) ← parseExpr r1
      let op := if t = "+" then BinOp.add else if t = "-" then BinOp.sub else BinOp.mul
      some (.bin op a b, r2)
    else if t = "E" ∨ t = "L" then do
      let (a, r1) ← parseExpr ts
      let (b, r2) ← parseExpr r1
      let (x, r3) ← parseExpr r2
      let (y, r4) ← parseExpr r3
      some (.ifc (t = "L") a b x y, r4)
    else if t = "P" then do
      let (a, r1) ← parseExpr ts
      some (.plug a, r1)
    else none

/-- parse `n` cells: returns (formulas, initial cells) -/
partial def parseCells : Nat → Nat → List String → Option (List (Option Formula) × Cells × List String)
  | 0, _, ts => some ([], [], ts)
  | n + 1, i, "v" :: v :: ts => do
    let x ← decV? v
    let (fs, cs, r) ← parseCells n (i + 1) ts
    some (none :: fs, (i, ⟨x, none, false⟩) :: cs, r)
  | n + 1, i, "f" :: v :: ts => do
    let x ← decV? v
    let (e, r0) ← parseExpr ts
    let (fs, cs, r) ← parseCells n (i + 1) r0
    some (some e.toFormula :: fs, (i, ⟨x, none, false⟩) :: cs, r)
  | _, _, _ => none

partial def parseOps : List String → Option (List (Op × Option Nat))
  | [] => some []
  | "set" :: c :: v :: ts => do
    let c ← c.toNat?
    let v ← decV? v
    let r ← parseOps ts
    some ((.set c v, none) :: r)
  | "ev" :: ai :: at_ :: cnt :: k :: ts => do
    let ai ← optInt? ai
    let at_ ← optRat? at_
    let cnt ← if cnt = "_" then some none else cnt.toNat?.map some
    let m ← k.toNat?
    let pre ← (ts.take m).mapM fun (x : String) => x.toNat?
    if pre.length ≠ m then none else
    match ts.drop m with
    | k :: ts =>
      let k ← k.toNat?
      let tg ← (ts.take k).mapM fun (x : String) => x.toNat?
      if tg.length ≠ k then none else
      let r ← parseOps (ts.drop k)
      some ((.eval pre tg ai at_, cnt) :: r)
    | [] => none
  | _ => none

def runAll (wb : Workbook) (ci : Option Int) (ct : Option Rat) (fuel : Nat) :
    List (Op × Option Nat) → St → List String × List String
  | [], _ => ([], [])
  | (.set c v, _) :: ops, s => runAll wb ci ct fuel ops (setInput s c v)
  | (.eval pre tg ai at_, cnt) :: ops, s =>
    let r := evaluateIter wb ci ai ct at_ fuel pre tg { s with evals := [] }
    let count := match cnt with
      | none => 0
      | some c => (r.2.2.evals.filter (· = c)).length
    let item := ",".intercalate (r.2.1.map encV) ++ "/" ++ toString count
    let diag := s!"p{r.1}" ++ (if r.2.2.oof then "!oof" else "")
    let rest := runAll wb ci ct fuel ops r.2.2
    (item :: rest.1, diag :: rest.2)

def handle : List String → String
  | "c06" :: "cfg" :: ci :: ct :: "cells" :: n :: rest =>
    match optInt? ci, optRat? ct, n.toNat? with
    | some ci, some ct, some n =>
      match parseCells n 0 rest with
      | some (fs, cells, "ops" :: opsToks) =>
        match parseOps opsToks with
        | some ops =>
          let wb : Workbook := fun c => (fs.getD c none)
          let out := runAll wb ci ct (n + 1) ops (initState cells)
          ";".intercalate out.1 ++ " # " ++ ",".intercalate out.2
        | none => "!bad-ops"
      | _ => "!bad-cells"
    | _, _, _ => "!bad-arg"
  | _ => "!bad-op"

end Pycel.Drv.C06

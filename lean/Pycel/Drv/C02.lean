/-
  Driver handler of C02.  Protocol (first token "c02"):
    c02 surf <surface tree, prefix>         -> wf ; raw tokens ; rpn ; tree ; emitted python tokens ; pyParse ; toPy ; spec flags
    c02 raw  <raw tokens>                   -> rpn ; tree ; emitted python tokens ; pyParse
    c02 py   <python tokens>                -> pyParse
    c02 val  <k> <addr>=<value> … <surface tree>   -> value of the tree under `opsSem` (C10's Ops model); `?` = outside
                                               the domain, leading `~` = approximate (C pow / integers beyond 2^53)
  Text travels as decimal code points joined by ','.  Trusted glue, exercised by every correspondence run.
-/
import Pycel.Model.Proto
import Pycel.Model.Formula
import Pycel.Model.Formula.OpsSem
namespace Pycel.Drv.C02
open Pycel Pycel.Formula

def cps (s : List Char) : String := ",".intercalate (s.map fun c => toString c.toNat)

def uncps? (body : String) : Option (List Char) :=
  if body.isEmpty then some [] else (body.splitOn ",").mapM fun t => t.toNat?.map Char.ofNat

def opName : InOp → String
  | .colon => "colon" | .space => "space" | .comma => "comma" | .pow => "pow" | .mul => "mul" | .div => "div"
  | .add => "add" | .sub => "sub" | .concat => "concat" | .eq => "eq" | .lt => "lt" | .gt => "gt"
  | .le => "le" | .ge => "ge" | .ne => "ne"

def opOfName? (s : String) : Option InOp := InOp.all.find? (fun o => opName o == s)

def pyOpName : PyOp → String
  | .pow => "pow" | .mul => "mul" | .div => "div" | .add => "add" | .sub => "sub" | .bitand => "bitand"
  | .eq => "eq" | .ne => "ne" | .lt => "lt" | .gt => "gt" | .le => "le" | .ge => "ge"

def pyOpAll : List PyOp := [.pow, .mul, .div, .add, .sub, .bitand, .eq, .ne, .lt, .gt, .le, .ge]
def pyOpOfName? (s : String) : Option PyOp := pyOpAll.find? (fun o => pyOpName o == s)

def rest (s : String) (n : Nat) : String := (s.drop n).toString

/-! ### encoders -/

def encOperand : Operand → String
  | .number t => "N" ++ cps t
  | .text r => "T" ++ cps r
  | .logical b => if b then "L1" else "L0"
  | .error e => "E" ++ e.tag
  | .range t => "R" ++ cps t
  | .empty => "Z"

def decOperand? (s : String) : Option Operand :=
  if s = "Z" then some .empty
  else if s = "L1" then some (.logical true)
  else if s = "L0" then some (.logical false)
  else if s.startsWith "N" then (uncps? (rest s 1)).map .number
  else if s.startsWith "T" then (uncps? (rest s 1)).map .text
  else if s.startsWith "R" then (uncps? (rest s 1)).map .range
  else if s.startsWith "E" then (Err.ofTag? (rest s 1)).map .error
  else none

def encRaw : RawTok → String
  | .operand o => "o:" ++ encOperand o
  | .funcOpen n => "f(" ++ cps n
  | .funcClose => "f)"
  | .arrayOpen => "{" | .arrayClose => "}" | .rowSep => "rs" | .argSep => "as"
  | .parenOpen => "(" | .parenClose => ")"
  | .pre => "u" | .inf op => "i" ++ opName op | .post => "%" | .wspace => "w"

def decRaw? (s : String) : Option RawTok :=
  if s.startsWith "o:" then (decOperand? (rest s 2)).map .operand
  else if s.startsWith "f(" then (uncps? (rest s 2)).map .funcOpen
  else if s = "f)" then some .funcClose
  else if s = "{" then some .arrayOpen else if s = "}" then some .arrayClose
  else if s = "rs" then some .rowSep else if s = "as" then some .argSep
  else if s = "(" then some .parenOpen else if s = ")" then some .parenClose
  else if s = "u" then some .pre else if s = "%" then some .post else if s = "w" then some .wspace
  else if s.startsWith "i" then (opOfName? (rest s 1)).map .inf
  else none

def encNode : Node → String
  | .operand o => "o:" ++ encOperand o
  | .pre => "u" | .inf op => "i" ++ opName op | .post => "%"
  | .func n k => s!"f{k}:" ++ cps n

mutual
def encExpr : Expr → List String
  | .operand o => ["o:" ++ encOperand o]
  | .neg e => "U" :: encExpr e
  | .pct e => "%" :: encExpr e
  | .bin op l r => ("B" ++ opName op) :: encExpr l ++ encExpr r
  | .func n args => (s!"F{args.length}:" ++ cps n) :: encExprs args
def encExprs : List Expr → List String
  | [] => []
  | e :: es => encExpr e ++ encExprs es
end

def encPyTok : PyTok → String
  | .name s => "n" ++ cps s | .num s => "d" ++ cps s | .str b => "s" ++ cps b
  | .op o => "o" ++ pyOpName o | .lpar => "(" | .rpar => ")" | .comma => ","

def decPyTok? (s : String) : Option PyTok :=
  if s = "(" then some .lpar else if s = ")" then some .rpar else if s = "," then some .comma
  else if s.startsWith "n" then (uncps? (rest s 1)).map .name
  else if s.startsWith "d" then (uncps? (rest s 1)).map .num
  else if s.startsWith "s" then (uncps? (rest s 1)).map .str
  else if s.startsWith "o" then (pyOpOfName? (rest s 1)).map .op
  else none

mutual
def encPy : PyExpr → List String
  | .name s => ["n" ++ cps s]
  | .num s => ["d" ++ cps s]
  | .str s => ["s" ++ cps s]
  | .neg e => "U" :: encPy e
  | .bin op l r => ("b" ++ pyOpName op) :: encPy l ++ encPy r
  | .call f args => (s!"c{args.length}:" ++ cps f) :: encPys args
  | .tuple items => s!"t{items.length}" :: encPys items
def encPys : List PyExpr → List String
  | [] => []
  | e :: es => encPy e ++ encPys es
end

def sp (xs : List String) : String := " ".intercalate xs
def optField (f : α → String) : Option α → String
  | some x => f x
  | none => "none"

/-! ### surface tree decoder (prefix notation) -/

mutual
def decSurf : Nat → List String → Option (Surf × List String)
  | 0, _ => none
  | n + 1, ts =>
    match ts with
    | [] => none
    | t :: r =>
      if t = "P" then (decSurf n r).map fun (e, r) => (.paren e, r)
      else if t = "U" then (decSurf n r).map fun (e, r) => (.neg e, r)
      else if t = "%" then (decSurf n r).map fun (e, r) => (.pct e, r)
      else if t.startsWith "B" then
        (opOfName? (rest t 1)).bind fun op =>
        (decSurf n r).bind fun (l, r) => (decSurf n r).map fun (x, r) => (.bin op l x, r)
      else if t.startsWith "F" then
        match (rest t 1).splitOn ":" with
        | [k, nm] =>
          k.toNat?.bind fun k => (uncps? nm).bind fun nm =>
          (decSurfs n k r).map fun (args, r) => (.func nm args, r)
        | _ => none
      else if t.startsWith "o:" then (decOperand? (rest t 2)).map fun o => (.operand o, r)
      else none
def decSurfs : Nat → Nat → List String → Option (List Surf × List String)
  | 0, _, _ => none
  | _ + 1, 0, ts => some ([], ts)
  | n + 1, k + 1, ts =>
    (decSurf n ts).bind fun (e, r) => (decSurfs n k r).map fun (es, r) => (e :: es, r)
end

def decSurfAll (ts : List String) : Option Surf :=
  match decSurf (2 * ts.length + 4) ts with
  | some (s, []) => some s
  | _ => none

/-! ### value of a tree under C10's operator semantics (Model/Formula/OpsSem.lean) -/

def encRV : RV → String
  | none => "?"
  | some (v, approx) => (if approx then "~" else "") ++ v.enc

def decEnv : Nat → List String → Option (List (List Char × Val) × List String)
  | 0, ts => some ([], ts)
  | k + 1, t :: ts =>
    match t.splitOn "=" with
    | [a, v] => (uncps? a).bind fun a => (Val.dec? v).bind fun v => (decEnv k ts).map fun (e, r) => ((a, v) :: e, r)
    | _ => none
  | _, _ => none

/-! ### handlers -/

def pipeline (rpn? : Option (List Node)) : List String :=
  let ast? := rpn?.bind buildAst
  let py? := ast?.map emit
  let pp? := py?.bind pyParse
  [optField (fun r => sp (r.map encNode)) rpn?,
   optField (fun e => sp (encExpr e)) ast?,
   optField (fun p => sp (p.map encPyTok)) py?,
   optField (fun p => sp (encPy p)) pp?]

def flag (b : Bool) : String := if b then "1" else "0"

def handle : List String → String
  | "c02" :: "surf" :: ts =>
    match decSurfAll ts with
    | none => "!bad-surf"
    | some s =>
      let raw := toks s
      let rpn? := parseRaw raw
      let e := erase s
      -- internal agreement flags (the theorems say these are all 1 on well-formed input)
      let okAmend := amend raw == atoks s
      let okParse := rpn? == some (rpn e)
      let okBuild := (sp <$> (encExpr <$> (buildAst (rpn e)))) == some (sp (encExpr e))
      let okEmit := (sp <$> (encPy <$> pyParse (emit e))) == some (sp (encPy (toPy e)))
      " ; ".intercalate (["wf:" ++ flag s.wf, sp (raw.map encRaw)] ++ pipeline rpn? ++
        [sp (encPy (toPy e)), "th:" ++ flag okAmend ++ flag okParse ++ flag okBuild ++ flag okEmit])
  | "c02" :: "raw" :: ts =>
    match ts.mapM decRaw? with
    | none => "!bad-raw"
    | some raw => " ; ".intercalate (pipeline (parseRaw raw))
  | "c02" :: "py" :: ts =>
    match ts.mapM decPyTok? with
    | none => "!bad-py"
    | some p => optField (fun x => sp (encPy x)) (pyParse p)
  | "c02" :: "val" :: k :: ts =>
    match k.toNat? with
    | none => "!bad-val"
    | some k =>
      match decEnv k ts with
      | none => "!bad-env"
      | some (env, r) =>
        match decSurfAll r with
        | none => "!bad-surf"
        | some s => encRV (finalValue (evalExcel (opsSem env) (erase s)))
  | _ => "!bad-op"

end Pycel.Drv.C02

/- Driver handler of C02: protocol line (already split into tokens, without the leading "c02") -> answer. -/
import Pycel.Model.Proto
namespace Pycel.Drv.C02

def handle : List String → String
  | _ => "!bad-op"

end Pycel.Drv.C02

/-
  Driver handler of C05: one line = one workbook + its layout + one whole history of set_value / evaluate-by-path.

    c05 <cfg> <n> <spec>*n  <active> <ncells> (<sheet> <col> <row> <node>)*  <nranges> (<sheet> c1 r1 c2 r2 <node>)*
        <nsheets> (<sheet> <max_col> <max_row>)*  <op>*
      cfg   : nodata | stored | loaded
      spec  : as in Drv/C01 (I <val> | F ref j | F cat k j* | F add a b | F sum k j* | F cnt k j* | F idx r row col |
              R <rows> <cols> j*)
      sheet : a space-free token; `-` = no sheet given (sheet-less address)
      op    : S i <val> | E <path> | M <l|t|g> <k> <path>*k
      path  : C <sheet> <col> <row> | R <sheet> c1 r1 c2 r2 | U <sheet> c1 r1 c2 r2      (0 = unbounded corner)
    c05 clip c1 r1 c2 r2 <max_col> <max_row>   -> trimmed shape of the clipped unbounded address: sc | v:<n> | g:<r>:<c> | none
  Answer: one item per operation joined by ';' — `ok`/`rej` for set_value; for evaluate the trimmed result:
    scalar token | `v:<n> tok…` | `g:<r>:<c> tok…` | `!err`; a list `L{ item , item }`, a tuple/generator `T{ … }`.
  The model runs with the repaired equality test `typedEq`.  Trusted glue, not part of any theorem.
-/
import Pycel.Model.Proto
import Pycel.Model.Access
namespace Pycel.Drv.C05
open Pycel Pycel.Engine Pycel.EngineInst Pycel.Access Pycel.Addr

partial def takeNats : Nat → List String → Option (List Nat × List String)
  | 0, ts => some ([], ts)
  | k+1, t :: ts => do
    let j ← t.toNat?
    let (js, rest) ← takeNats k ts
    some (j :: js, rest)
  | _, [] => none

partial def parseSpecs : Nat → List String → Option (List Spec × List String)
  | 0, ts => some ([], ts)
  | k+1, ts => do
    let (sp, rest) ← (match ts with
      | "I" :: v :: rest => do some (Spec.inp (← Val.dec? v), rest)
      | "F" :: "ref" :: j :: rest => do some (Spec.fml (.ref (← j.toNat?)), rest)
      | "F" :: "add" :: a :: b :: rest => do some (Spec.fml (.add (← a.toNat?) (← b.toNat?)), rest)
      | "F" :: "idx" :: r :: row :: col :: rest => do
          some (Spec.fml (.idx (← r.toNat?) (← row.toNat?) (← col.toNat?)), rest)
      | "F" :: "cat" :: k :: rest => do
          let (js, rest) ← takeNats (← k.toNat?) rest
          some (Spec.fml (.cat js), rest)
      | "F" :: "sum" :: k :: rest => do
          let (js, rest) ← takeNats (← k.toNat?) rest
          some (Spec.fml (.sum js), rest)
      | "F" :: "cnt" :: k :: rest => do
          let (js, rest) ← takeNats (← k.toNat?) rest
          some (Spec.fml (.cnt js), rest)
      | "R" :: r :: c :: rest => do
          let r ← r.toNat?
          let c ← c.toNat?
          let (js, rest) ← takeNats (r*c) rest
          some (Spec.rng (chunk c r js), rest)
      | _ => none : Option (Spec × List String))
    let (sps, rest) ← parseSpecs k rest
    some (sp :: sps, rest)

def sheetOf (t : String) : Str := if t = "-" then [] else t.toList

partial def parseCells : Nat → List String → Option (List (Cell × Nat) × List String)
  | 0, ts => some ([], ts)
  | k+1, sh :: c :: r :: nd :: rest => do
    let e : Cell × Nat := (⟨sheetOf sh, ← c.toNat?, ← r.toNat?⟩, ← nd.toNat?)
    let (es, rest) ← parseCells k rest
    some (e :: es, rest)
  | _, _ => none

partial def parseRanges : Nat → List String → Option (List (Rect × Nat) × List String)
  | 0, ts => some ([], ts)
  | k+1, sh :: c1 :: r1 :: c2 :: r2 :: nd :: rest => do
    let e : Rect × Nat := (⟨sheetOf sh, ← c1.toNat?, ← r1.toNat?, ← c2.toNat?, ← r2.toNat?⟩, ← nd.toNat?)
    let (es, rest) ← parseRanges k rest
    some (e :: es, rest)
  | _, _ => none

partial def parseUsed : Nat → List String → Option (List (Str × Nat × Nat) × List String)
  | 0, ts => some ([], ts)
  | k+1, sh :: mc :: mr :: rest => do
    let e : Str × Nat × Nat := (sheetOf sh, ← mc.toNat?, ← mr.toNat?)
    let (es, rest) ← parseUsed k rest
    some (e :: es, rest)
  | _, _ => none

def parsePath : List String → Option (Path × List String)
  | "C" :: sh :: c :: r :: rest => do some (.cell ⟨sheetOf sh, ← c.toNat?, ← r.toNat?⟩, rest)
  | "R" :: sh :: c1 :: r1 :: c2 :: r2 :: rest => do
    some (.range ⟨sheetOf sh, ← c1.toNat?, ← r1.toNat?, ← c2.toNat?, ← r2.toNat?⟩, rest)
  | "U" :: sh :: c1 :: r1 :: c2 :: r2 :: rest => do
    some (.unbounded ⟨sheetOf sh, ← c1.toNat?, ← r1.toNat?, ← c2.toNat?, ← r2.toNat?⟩, rest)
  | _ => none

partial def parsePaths : Nat → List String → Option (List Path × List String)
  | 0, ts => some ([], ts)
  | k+1, ts => do
    let (p, rest) ← parsePath ts
    let (ps, rest) ← parsePaths k rest
    some (p :: ps, rest)

partial def parseOps : List String → Option (List (POp EV))
  | [] => some []
  | "S" :: i :: v :: rest => do
    let ops ← parseOps rest
    some (.set (← i.toNat?) (.sc (← Val.dec? v)) :: ops)
  | "E" :: rest => do
    let (p, rest) ← parsePath rest
    let ops ← parseOps rest
    some (.eval (.one p) :: ops)
  | "M" :: kind :: k :: rest => do
    let c ← (match kind with
      | "l" => some Container.list
      | "t" => some Container.tuple
      | "g" => some Container.gen
      | _ => none)
    let (ps, rest) ← parsePaths (← k.toNat?) rest
    let ops ← parseOps rest
    some (.eval (.many c ps) :: ops)
  | _ => none

def encOut : Out Val → String
  | .sc v => v.enc
  | .vec l => " ".intercalate (s!"v:{l.length}" :: l.map Val.enc)
  | .grid g => " ".intercalate (s!"g:{g.length}:{(g.headD []).length}" :: g.flatten.map Val.enc)
  | .err => "!err"

def encRes : Res Val → String
  | .one o => encOut o
  | .many tuple os => (if tuple then "T{ " else "L{ ") ++ " , ".intercalate (os.map encOut) ++ " }"

def storedOf (wb : Workbook) (f : Nat → (Nat → EV) → EV) (inp : Nat → EV) : Nat → Option EV :=
  let s := (List.range wb.n).foldl (fun s a => (evaluate wb f a s).2) (initNoData inp)
  fun j => match wb.kind j with
    | .formula => s.cache j
    | _ => none

def runOps (wb : Workbook) (f : Nat → (Nat → EV) → EV) (L : Layout) : State EV → List (POp EV) → List String
  | _, [] => []
  | s, .set i v :: h =>
    let ok := decide (i < wb.n) && decide (wb.kind i = .input) && s.built i
    (if ok then "ok" else "rej") :: runOps wb f L (setValue wb typedEq i v s) h
  | s, .eval a :: h =>
    let r := evalArg wb f L evTup a s
    encRes r.1 :: runOps wb f L r.2 h

/-- `c05 clip c1 r1 c2 r2 mc mr`: the trimmed shape of the unbounded address clipped to the used area (1,1,mc,mr) -/
def clipShape (c1 r1 c2 r2 mc mr : Nat) : String :=
  match clip ⟨[], c1, r1, c2, r2⟩ mc mr with
  | none => "none"
  | some R =>
    match trimDims R.rows with
    | .sc _ => "sc"
    | .vec l => s!"v:{l.length}"
    | .grid g => s!"g:{g.length}:{(g.headD []).length}"
    | .err => "!err"

def handle : List String → String
  | ["c05", "clip", c1, r1, c2, r2, mc, mr] =>
    match c1.toNat?, r1.toNat?, c2.toNat?, r2.toNat?, mc.toNat?, mr.toNat? with
    | some c1, some r1, some c2, some r2, some mc, some mr => clipShape c1 r1 c2 r2 mc mr
    | _, _, _, _, _, _ => "!bad-clip"
  | "c05" :: cfg :: n :: rest =>
    match n.toNat? with
    | none => "!bad-n"
    | some n =>
      match parseSpecs n rest with
      | none => "!bad-spec"
      | some (specs, active :: nc :: rest) =>
        (match nc.toNat?.bind (fun k => parseCells k rest) with
        | some (cells, nr :: rest) =>
          (match nr.toNat?.bind (fun k => parseRanges k rest) with
          | some (ranges, ns :: rest) =>
            (match ns.toNat?.bind (fun k => parseUsed k rest) with
            | some (used, rest) =>
              (match parseOps rest with
              | none => "!bad-op"
              | some ops =>
                if !wfCheck specs then "!notwf" else
                if !layoutCheck specs cells ranges specs.length then "!badlayout" else
                let wb := mkWb specs
                let f := sem specs
                let inp := inputsOf specs
                let L := mkLayout (sheetOf active) cells ranges used specs.length
                let s0? : Option (State EV) :=
                  if cfg = "nodata" then some (initNoData inp)
                  else if cfg = "stored" then some (initStored inp (storedOf wb f inp))
                  else if cfg = "loaded" then some (initLoaded wb f inp)
                  else none
                match s0? with
                | none => "!bad-cfg"
                | some s0 => ";".intercalate (runOps wb f L s0 ops))
            | none => "!bad-used")
          | _ => "!bad-ranges")
        | _ => "!bad-cells")
      | some _ => "!bad-layout"
  | _ => "!bad-op"

end Pycel.Drv.C05

/- Driver handler of C05: protocol line (already split into tokens, without the leading "c05") -> answer. -/
import Pycel.Model.Proto
namespace Pycel.Drv.C05

def handle : List String → String
  | _ => "!bad-op"

end Pycel.Drv.C05

/- Driver handler of C17: protocol line (already split into tokens) -> answer.  Batched ops answer with a
   comma-separated list in a compact form (integers in decimal, other rationals `p/q`, errors `E<tag>`). -/
import Pycel.Model.Proto
import Pycel.Model.DateTime
namespace Pycel.Drv.C17
open Pycel Pycel.DateTime

/-- compact canonical form of a value -/
def cv : Val → String
  | .num q => if q.den = 1 then toString q.num else s!"{q.num}/{q.den}"
  | .err e => "E" ++ e.tag
  | v => v.enc

def join (xs : List String) : String := ",".intercalate xs

/-- lo, lo+step, … below hi -/
def rangeStep (lo hi step : Int) : List Int :=
  if step ≤ 0 then [] else
  (List.range ((hi - lo + step - 1) / step).toNat).map fun (i : Nat) => lo + step * (i : Int)

def rangeIncl (lo hi : Int) : List Int := rangeStep lo (hi + 1) 1

def dayLine (n : Int) : String :=
  let x : Rat := (n : Rat)
  let y := yearFn x
  let m := monthFn x
  let d := dayFn x
  let r : String := match y, m, d with
    | .num yq, .num mq, .num dq => cv (dateFn yq.num mq.num dq.num)
    | _, _, _ => "-"
  s!"{cv y}.{cv m}.{cv d}.{cv (weekdayFn x)}.{r}"

def fn1 (f : String) (x : Rat) : Option Val :=
  match f with
  | "year" => some (yearFn x) | "month" => some (monthFn x) | "day" => some (dayFn x)
  | "weekday" => some (weekdayFn x)
  | "hour" => some (hourFn x) | "minute" => some (minuteFn x) | "second" => some (secondFn x)
  | _ => none

def hmsLine (x : Rat) : String := s!"{cv (hourFn x)}:{cv (minuteFn x)}:{cv (secondFn x)}"

def pairs : List Int → List (Int × Int)
  | a :: b :: rest => (a, b) :: pairs rest
  | _ => []

def handle : List String → String
  | ["c17", "ymd", lo, hi, step] =>
    match lo.toInt?, hi.toInt?, step.toInt? with
    | some lo, some hi, some step => join ((rangeStep lo hi step).map dayLine)
    | _, _, _ => "!bad-arg"
  | ["c17", "date", y, mlo, mhi, dlo, dhi] =>
    match y.toInt?, mlo.toInt?, mhi.toInt?, dlo.toInt?, dhi.toInt? with
    | some y, some mlo, some mhi, some dlo, some dhi =>
      join ((rangeIncl mlo mhi).flatMap fun m => (rangeIncl dlo dhi).map fun d => cv (dateFn y m d))
    | _, _, _, _, _ => "!bad-arg"
  | ["c17", "inc", n, klo, khi] =>
    match n.toInt?, klo.toInt?, khi.toInt? with
    | some n, some klo, some khi =>
      join ((rangeIncl klo khi).map fun k => s!"{cv (edateFn n k)}:{cv (eomonthFn n k)}")
    | _, _, _ => "!bad-arg"
  | "c17" :: "hms" :: xs =>
    match xs.mapM decRat? with
    | some qs => join (qs.map hmsLine)
    | none => "!bad-arg"
  | "c17" :: "yf" :: basis :: xs =>
    match basis.toInt?, xs.mapM String.toInt? with
    | some b, some ns => join ((pairs ns).map fun p => (yearfrac p.1 p.2 b).enc)
    | _, _ => "!bad-arg"
  | ["c17", "one", f, x] =>
    match decRat? x with
    | some q => match fn1 f q with
      | some v => v.enc
      | none => "!bad-op"
    | none => "!bad-arg"
  | ["c17", "date1", y, m, d] =>
    match y.toInt?, m.toInt?, d.toInt? with
    | some y, some m, some d => (dateFn y m d).enc
    | _, _, _ => "!bad-arg"
  | ["c17", "inc1", which, n, k] =>
    match n.toInt?, k.toInt? with
    | some n, some k => (monthsInc n k (which == "eomonth")).enc
    | _, _ => "!bad-arg"
  | _ => "!bad-op"

end Pycel.Drv.C17

/- Driver handler of C17: protocol line (already split into tokens, without the leading "c17") -> answer. -/
import Pycel.Model.Proto
namespace Pycel.Drv.C17

def handle : List String → String
  | _ => "!bad-op"

end Pycel.Drv.C17

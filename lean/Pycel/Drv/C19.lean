/- Driver handler of C19: protocol line (already split into tokens, without the leading "c19") -> answer. -/
import Pycel.Model.Proto
namespace Pycel.Drv.C19

def handle : List String → String
  | _ => "!bad-op"

end Pycel.Drv.C19

/- Driver handler of C19: `c19 <fn> <arg tokens…>` -> the wrapped function's result (one value token). -/
import Pycel.Model.Proto
import Pycel.Model.Rounding
namespace Pycel.Drv.C19
open Pycel Pycel.Rounding

def handle : List String → String
  | "c19" :: fn :: toks =>
    match toks.mapM Val.dec? with
    | some args =>
      match call fn args with
      | some v => v.enc
      | none => "!bad-call"
    | none => "!bad-arg"
  | _ => "!bad-op"

end Pycel.Drv.C19

/-
  Driver loop shared by all per-property model drivers (one executable per property, `drv_cXX`, root
  `Drivers/CXX.lean`).  One protocol line in, one canonical line out.
-/
namespace Pycel.Drv

partial def loop (handle : List String → String) (h : IO.FS.Stream) (out : IO.FS.Stream) : IO Unit := do
  let line ← h.getLine
  if line.isEmpty then return ()
  let toks := (line.trimAscii.toString.splitOn " ").filter (· ≠ "")
  match toks with
  | "ping" :: _ => out.putStrLn "pong"
  | _ => out.putStrLn (handle toks)
  loop handle h out

def runLoop (handle : List String → String) : IO Unit := do
  let out ← IO.getStdout
  loop handle (← IO.getStdin) out
  out.flush

end Pycel.Drv

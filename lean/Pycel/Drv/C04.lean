/- Driver handler of C04: protocol line (already split into tokens) -> answer.
   c04 f <sheet> <col> <row> <k> { <name> <m> { <alias> <worksheet> }*m }*k <tree in prefix form>
     tree tokens:  r:<cps> range | n:<cps> number | t:<cps> text (raw, with quotes) | l:0/1 | e:<tag> | z
                   u (neg) | p (pct) | b:<op> l r | f:<namecps>:<nargs> args…
     answer:  N:<needed ; separated>|R:<reads ; separated, C=addr / R=addr>|W:<written 0/1>|T:<emitted tokens>
              or `!raise` when the model's emitter fails
   c04 g <n> <seed> { <needed list, comma separated node numbers or -> <hasPrec 0/1> <parts list> }*n
     answer:  the edges of the built graph, sorted, `a>b` separated by `;`, `~` the leftover todo count, `~` cell_map
-/
import Pycel.Model.Proto
import Pycel.Model.Needed
namespace Pycel.Drv.C04
open Pycel Pycel.Formula Pycel.Needed

def txt (tok : String) : Option (List Char) :=
  if tok.startsWith "s:" then decText? (tok.drop 2).toString else none

def opOf : String → Option InOp
  | "colon" => some .colon | "space" => some .space | "comma" => some .comma | "pow" => some .pow
  | "mul" => some .mul | "div" => some .div | "add" => some .add | "sub" => some .sub | "concat" => some .concat
  | "eq" => some .eq | "lt" => some .lt | "gt" => some .gt | "le" => some .le | "ge" => some .ge | "ne" => some .ne
  | _ => none

mutual
partial def parseTree : List String → Option (Expr × List String)
  | [] => none
  | t :: ts =>
    if t = "z" then some (.operand .empty, ts)
    else if t = "u" then (parseTree ts).map fun (e, r) => (.neg e, r)
    else if t = "p" then (parseTree ts).map fun (e, r) => (.pct e, r)
    else if t.startsWith "r:" then (decText? (t.drop 2).toString).map fun s => (.operand (.range s), ts)
    else if t.startsWith "n:" then (decText? (t.drop 2).toString).map fun s => (.operand (.number s), ts)
    else if t.startsWith "t:" then (decText? (t.drop 2).toString).map fun s => (.operand (.text s), ts)
    else if t = "l:1" then some (.operand (.logical true), ts)
    else if t = "l:0" then some (.operand (.logical false), ts)
    else if t.startsWith "e:" then (Err.ofTag? (t.drop 2).toString).map fun e => (.operand (.error e), ts)
    else if t.startsWith "b:" then do
      let op ← opOf (t.drop 2).toString
      let (l, r1) ← parseTree ts
      let (r, r2) ← parseTree r1
      some (.bin op l r, r2)
    else if t.startsWith "f:" then
      match (t.drop 2).toString.splitOn ":" with
      | [nm, k] => do
        let name ← decText? nm
        let n ← k.toNat?
        let (args, rest) ← parseArgs n ts
        some (.func name args, rest)
      | _ => none
    else none
partial def parseArgs : Nat → List String → Option (List Expr × List String)
  | 0, ts => some ([], ts)
  | n + 1, ts => do
    let (e, r) ← parseTree ts
    let (es, r2) ← parseArgs n r
    some (e :: es, r2)
end

partial def parsePairs : Nat → List String → Option (List (List Char × List Char) × List String)
  | 0, ts => some ([], ts)
  | n + 1, a :: w :: ts => do
    let a ← txt a
    let w ← txt w
    let (ps, r) ← parsePairs n ts
    some ((a, w) :: ps, r)
  | _, _ => none

partial def parseNames : Nat → List String → Option (List (List Char × List (List Char × List Char)) × List String)
  | 0, ts => some ([], ts)
  | n + 1, nm :: m :: ts => do
    let nm ← txt nm
    let m ← m.toNat?
    let (ps, r) ← parsePairs m ts
    let (ns, r2) ← parseNames n r
    some ((nm, ps) :: ns, r2)
  | _, _ => none

def showTok : PyTok → String
  | .name s => String.ofList s
  | .num s => String.ofList s
  | .str b => "\"" ++ String.ofList b ++ "\""
  | .op o => String.ofList (opText o)
  | .lpar => "(" | .rpar => ")" | .comma => ","

def showRead : Read → String
  | .cell s => "C=" ++ String.ofList s
  | .range s => "R=" ++ String.ofList s
  | .computed a => "R=" ++ String.ofList a.address

/-- the environment does not matter for the trace of a formula whose library never raises -/
def unitSem : Needed.Sem Unit :=
  { cell := fun _ => (), range := fun _ => (), errv := fun _ => (), lit := fun _ => (), neg := fun _ => some (),
    pct := fun _ => some (), bin := fun _ _ _ => some (), tuple := fun _ => (), call := fun _ _ => some (),
    refFn := fun _ _ => some () }

def natList (s : String) : List Nat :=
  if s = "-" then [] else (s.splitOn ",").filterMap String.toNat?

partial def parseBook : Nat → List String → List (List Nat × Bool × List Nat)
  | 0, _ => []
  | n + 1, a :: h :: p :: ts => (natList a, h = "1", natList p) :: parseBook n ts
  | _, _ => []

def handle : List String → String
  | "c04" :: "f" :: sheet :: col :: row :: k :: rest =>
    match txt sheet, col.toNat?, row.toNat?, k.toNat? with
    | some sheet, some col, some row, some k =>
      match parseNames k rest with
      | some (names, rest2) =>
        match parseTree rest2 with
        | some (e, []) =>
          let cx : RefCtx := ⟨sheet, col, row, names⟩
          if !emitOk cx e then "!raise" else
          let nd := (needed cx e).map fun o => match o with | some s => String.ofList s | none => "!bad"
          let rd := (reads cx unitSem e).map showRead
          let w := if written cx e then "1" else "0"
          "N:" ++ ";".intercalate nd ++ "|R:" ++ ";".intercalate rd ++ "|W:" ++ w ++ "|T:" ++
            " ".intercalate ((Needed.emit cx e).map showTok)
        | _ => "!bad-tree"
      | none => "!bad-names"
    | _, _, _, _ => "!bad-arg"
  | "c04" :: "g" :: n :: seed :: rest =>
    match n.toNat?, seed.toNat? with
    | some n, some seed =>
      let rows := parseBook n rest
      let bk : Book Nat :=
        { needed := fun i => (rows.getD i ([], false, [])).1
          hasPrec := fun i => (rows.getD i ([], false, [])).2.1
          parts := fun i => (rows.getD i ([], false, [])).2.2 }
      let s := genGraph bk (n + 1) (4 * n + 4) seed
      let es := (s.edges.map fun (a, b) => (a, b)).eraseDups
      let sorted := es.mergeSort (fun x y => x.1 < y.1 || (x.1 == y.1 && x.2 ≤ y.2))
      ";".intercalate (sorted.map fun (a, b) => s!"{a}>{b}") ++ s!"~{s.todos.length}~" ++
        ",".intercalate (s.cellMap.map toString)
    | _, _ => "!bad-arg"
  | _ => "!bad-op"

end Pycel.Drv.C04

/- Driver handler of C04: protocol line (already split into tokens, without the leading "c04") -> answer. -/
import Pycel.Model.Proto
namespace Pycel.Drv.C04

def handle : List String → String
  | _ => "!bad-op"

end Pycel.Drv.C04

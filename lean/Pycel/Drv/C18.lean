import Pycel.Model.Proto
import Pycel.Model.Radix
namespace Pycel.Drv.C18
open Pycel Pycel.Radix

def placesArg : List String → Option (Option Val)
  | [] => some none
  | [p] => (Val.dec? p).map some
  | _ => none

def handle : List String → String
  | "c18" :: "b2d" :: b :: v :: [] =>
    match b.toNat?, Val.dec? v with
    | some b, some v => (base2dec v b).enc
    | _, _ => "!bad-arg"
  | "c18" :: "d2b" :: b :: v :: ps =>
    match b.toNat?, Val.dec? v, placesArg ps with
    | some b, some v, some p => (dec2base v p b).enc
    | _, _, _ => "!bad-arg"
  | "c18" :: "b2b" :: bi :: bo :: v :: ps =>
    match bi.toNat?, bo.toNat?, Val.dec? v, placesArg ps with
    | some bi, some bo, some v, some p => (base2base v p bi bo).enc
    | _, _, _, _ => "!bad-arg"
  | _ => "!bad-op"

end Pycel.Drv.C18

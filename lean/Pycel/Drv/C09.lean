/-
  Driver handler of C09: one line = one workbook with failure modes + one whole history.

    c09 <mode> <n> <fspec>*n <op>*
      mode  : plain | iter
      fspec : <fail> <pre> <post> <cse> <spec>
              fail = ok | unk | raise:<raw> | at<k>:<raw>  (raw = name | rec | other) ;  pre/post = captured-message counts ; cse = 0|1
              spec as in Drv/C01: I <val> | F ref j | F add a b | F cat k j*k | F sum k j*k | F cnt k j*k
                                  | F idx r row col | R rows cols j*
      op    : E i | S i <val>
  Answer: one item per operation joined by ';' — the value token returned by `evaluate`, or
  `!exc:pycel:UnknownFunction` / `!exc:pycel:FormulaEvalError` / `!exc:reraised:RecursionError` (eval_func's re-raise) /
  `!exc:bare:AssertionError`; `ok`/`rej` for a `set_value`.
  The model runs with the repaired error-message discipline and the repaired iterative `_eval`.
  Trusted glue, not part of any theorem.
-/
import Pycel.Model.Proto
import Pycel.Model.Failure
import Pycel.Drv.C01
namespace Pycel.Drv.C09
open Pycel Pycel.Engine Pycel.EngineInst Pycel.Failure Pycel.Failure.Inst

def parseRaw (t : String) : Option Raw :=
  if t = "name" then some .nameError
  else if t = "rec" then some .recursion
  else if t = "other" then some .other
  else none

def parseMode (t : String) : Option Mode :=
  match t.splitOn ":" with
  | ["ok"] => some .ok
  | ["unk"] => some .unknown
  | ["raise", r] => (parseRaw r).map Mode.raises
  | [a, r] =>
    if a.startsWith "at" then do
      let k ← (a.drop 2).toString.toNat?
      let r ← parseRaw r
      some (.failAt k r)
    else none
  | _ => none

partial def parseFSpecs : Nat → List String → Option (List FSpec × List String)
  | 0, ts => some ([], ts)
  | k+1, m :: pre :: post :: cse :: ts => do
    let mode ← parseMode m
    let pre ← pre.toNat?
    let post ← post.toNat?
    let (sps, rest) ← Pycel.Drv.C01.parseSpecs 1 ts
    let sp ← sps.head?
    let (more, rest) ← parseFSpecs k rest
    some (⟨sp, mode, pre, post, cse = "1"⟩ :: more, rest)
  | _, _ => none

inductive DOp where
  | eval (a : Nat)
  | set (i : Nat) (v : Val)

partial def parseOps : List String → Option (List DOp)
  | [] => some []
  | "S" :: i :: v :: rest => do
    let ops ← parseOps rest
    some (.set (← i.toNat?) (← Val.dec? v) :: ops)
  | "E" :: a :: rest => do
    let ops ← parseOps rest
    some (.eval (← a.toNat?) :: ops)
  | _ => none

def encFail : Fail → String
  | .unknownFunction => "!exc:pycel:UnknownFunction"
  | .formulaEval => "!exc:pycel:FormulaEvalError"
  | .recursion => "!exc:reraised:RecursionError"
  | .assertion => "!exc:bare:AssertionError"

def encR : R EV → String
  | .ok v => Pycel.Drv.C01.encEV v
  | .error e => encFail e

/-- plain mode: `stepM` with the outputs -/
def runPlain (S : Sem EV) : Model EV → List DOp → List String
  | _, [] => []
  | m, .eval a :: h =>
    let r := evaluateX m.wb S .repaired a m.st
    (if a < m.wb.n then encR r.1 else "!unknown-node") :: runPlain S ⟨m.wb, r.2⟩ h
  | m, .set i v :: h =>
    let ok := decide (i < m.wb.n) && m.st.core.built i && !decide (m.wb.kind i = .range)
    (if ok then "ok" else "rej") :: runPlain S (stepM S .repaired eqvR m (.set i (.sc v))) h

/-- iterative mode: one pass per evaluate (the generated workbooks reach their values in the first pass) -/
def runIter (S : Sem EV) : Workbook × IState EV → List DOp → List String
  | _, [] => []
  | (wb, s), .eval a :: h =>
    let r := evaluateI wb S .repaired true a s
    (if a < wb.n then encR r.1 else "!unknown-node") :: runIter S (wb, r.2) h
  | (wb, s), .set i v :: h =>
    if i < wb.n then
      let wb' := match wb.kind i with
        | .formula => repairWb wb i
        | _ => wb
      "ok" :: runIter S (wb', { s with cells := update s.cells i ⟨.sc v, .sc v, false⟩ }) h
    else "rej" :: runIter S (wb, s) h

def handle : List String → String
  | ["c09", "skip"] => "!oracle-only"
  | "c09" :: mode :: n :: rest =>
    match n.toNat? with
    | none => "!bad-n"
    | some n =>
      match parseFSpecs n rest with
      | none => "!bad-spec"
      | some (fs, rest) =>
        match parseOps rest with
        | none => "!bad-op"
        | some ops =>
          if !wfCheck (specsOf fs) && mode = "plain" then "!notwf" else
          let wb := wbOf fs
          let S := semOf fs
          let inp := inputsOf (specsOf fs)
          if mode = "plain" then ";".intercalate (runPlain S ⟨wb, initX inp⟩ ops)
          else if mode = "iter" then ";".intercalate (runIter S (wb, initI inp) ops)
          else "!bad-mode"
  | _ => "!bad-op"

end Pycel.Drv.C09

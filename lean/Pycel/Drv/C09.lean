/- Driver handler of C09: protocol line (already split into tokens, without the leading "c09") -> answer. -/
import Pycel.Model.Proto
namespace Pycel.Drv.C09

def handle : List String → String
  | _ => "!bad-op"

end Pycel.Drv.C09

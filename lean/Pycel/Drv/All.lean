/-
  Driver dispatch: first token of a line selects the property module's handler.
  Each `Pycel/Drv/Cxx.lean` exports `handle : List String → String`.
-/
import Pycel.Model.Proto
import Pycel.Drv.C18
namespace Pycel.Drv

def dispatch : List String → String
  | "ping" :: _ => "pong"
  | "c18" :: rest => C18.handle rest
  | _ => "!bad-op"

end Pycel.Drv

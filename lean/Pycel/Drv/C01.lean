/-
  Driver handler of C01: one line = one workbook + one whole history.

    c01 <cfg> <n>  <spec>*n  <op>*
      cfg  : nodata | stored | loaded
      spec : I <val> | F ref j | F cat k j*k | F add a b | F sub a b | F eq a b | F sum k j*k | F cnt k j*k
             | F idx r row col | F isum r1 r2 k (row col)*k
             | R <rows> <cols> j*(rows*cols)
      op   : S i <val> | E i | N  (an evaluate that fails at graph-build time: answers `!fail`, the model state is
             unchanged — the failing cells are outside the model, see harness/props/c01.py) | M k (i <val>)*k  (set_value of a range / list of cells) | X k i*k  (evaluate of a list)
  Answer: one item per operation joined by ';' — the value returned by `evaluate` (scalar token, or `a:r:c v…` for a
  range; the values of an evaluated list joined by '&'), `ok`/`rej` for a `set_value` (rej = the address is not a value cell in the cell map: AssertionError).
  The model runs with the repaired equality test `typedEq`.  Trusted glue, not part of any theorem.
-/
import Pycel.Model.Proto
import Pycel.Model.EngineInst
namespace Pycel.Drv.C01
open Pycel Pycel.Engine Pycel.EngineInst

partial def takeNats : Nat → List String → Option (List Nat × List String)
  | 0, ts => some ([], ts)
  | k+1, t :: ts => do
    let j ← t.toNat?
    let (js, rest) ← takeNats k ts
    some (j :: js, rest)
  | _, [] => none

partial def parseSpecs : Nat → List String → Option (List Spec × List String)
  | 0, ts => some ([], ts)
  | k+1, ts => do
    let (sp, rest) ← (match ts with
      | "I" :: v :: rest => do some (Spec.inp (← Val.dec? v), rest)
      | "F" :: "ref" :: j :: rest => do some (Spec.fml (.ref (← j.toNat?)), rest)
      | "F" :: "add" :: a :: b :: rest => do some (Spec.fml (.add (← a.toNat?) (← b.toNat?)), rest)
      | "F" :: "sub" :: a :: b :: rest => do some (Spec.fml (.sub (← a.toNat?) (← b.toNat?)), rest)
      | "F" :: "eq" :: a :: b :: rest => do some (Spec.fml (.eq (← a.toNat?) (← b.toNat?)), rest)
      | "F" :: "idx" :: r :: row :: col :: rest => do
          some (Spec.fml (.idx (← r.toNat?) (← row.toNat?) (← col.toNat?)), rest)
      | "F" :: "isum" :: r1 :: r2 :: k :: rest => do
          let k ← k.toNat?
          let (js, rest) ← takeNats (2*k) rest
          some (Spec.fml (.isum (← r1.toNat?) (← r2.toNat?) ((chunk 2 k js).map fun p => (p.getD 0 0, p.getD 1 0))), rest)
      | "F" :: "cat" :: k :: rest => do
          let (js, rest) ← takeNats (← k.toNat?) rest
          some (Spec.fml (.cat js), rest)
      | "F" :: "sum" :: k :: rest => do
          let (js, rest) ← takeNats (← k.toNat?) rest
          some (Spec.fml (.sum js), rest)
      | "F" :: "cnt" :: k :: rest => do
          let (js, rest) ← takeNats (← k.toNat?) rest
          some (Spec.fml (.cnt js), rest)
      | "R" :: r :: c :: rest => do
          let r ← r.toNat?
          let c ← c.toNat?
          let (js, rest) ← takeNats (r*c) rest
          some (Spec.rng (chunk c r js), rest)
      | _ => none : Option (Spec × List String))
    let (sps, rest) ← parseSpecs k rest
    some (sp :: sps, rest)

partial def takePairs : Nat → List String → Option (List (Nat × EV) × List String)
  | 0, ts => some ([], ts)
  | k+1, i :: v :: ts => do
    let i ← i.toNat?
    let v ← Val.dec? v
    let (ps, rest) ← takePairs k ts
    some ((i, .sc v) :: ps, rest)
  | _, _ => none

partial def parseOps : List String → Option (List (Option (OpX EV)))
  | [] => some []
  | "N" :: rest => do
    let ops ← parseOps rest
    some (none :: ops)
  | "S" :: i :: v :: rest => do
    let ops ← parseOps rest
    some (some (.op (.set (← i.toNat?) (.sc (← Val.dec? v)))) :: ops)
  | "E" :: a :: rest => do
    let ops ← parseOps rest
    some (some (.op (.eval (← a.toNat?))) :: ops)
  | "M" :: k :: rest => do
    let (ps, rest) ← takePairs (← k.toNat?) rest
    let ops ← parseOps rest
    some (some (.setMany ps) :: ops)
  | "X" :: k :: rest => do
    let (js, rest) ← takeNats (← k.toNat?) rest
    let ops ← parseOps rest
    some (some (.evalMany js) :: ops)
  | _ => none

def encEV : EV → String
  | .sc v => v.enc
  | .arr rows => encArr rows

/-- results of a `.xlsx` written by Excel: every formula's value at the file's inputs (obtained by evaluating
    everything once; equals `denote` by I1) -/
def storedOf (wb : Workbook) (f : Nat → (Nat → EV) → EV) (inp : Nat → EV) : Nat → Option EV :=
  let s := (List.range wb.n).foldl (fun s a => (evaluate wb f a s).2) (initNoData inp)
  fun j => match wb.kind j with
    | .formula => s.cache j
    | _ => none

def accepted (wb : Workbook) (s : State EV) (i : Nat) : Bool :=
  decide (i < wb.n) && decide (wb.kind i = .input) && s.built i

/-- do all cells of a multi-cell write get written (no AssertionError)?  `built` is not changed by writes. -/
def allAccepted (wb : Workbook) (s : State EV) (l : List (Nat × EV)) : Bool := l.all fun p => accepted wb s p.1

def runOps (wb : Workbook) (f : Nat → (Nat → EV) → EV) : State EV → List (Option (OpX EV)) → List String
  | _, [] => []
  | s, none :: h => "!fail" :: runOps wb f s h
  | s, some (.op (.set i v)) :: h =>
    (if accepted wb s i then "ok" else "rej") :: runOps wb f (setValue wb typedEq i v s) h
  | s, some (.op (.eval a)) :: h =>
    let r := evaluate wb f a s
    (if a < wb.n then encEV r.1 else "!unknown-node") :: runOps wb f r.2 h
  | s, some (.setMany l) :: h =>
    (if allAccepted wb s l then "ok" else "rej") :: runOps wb f (setMany wb typedEq l s) h
  | s, some (.evalMany l) :: h =>
    let r := evalMany wb f l s
    (if l.all (· < wb.n) then "&".intercalate (r.1.map encEV) else "!unknown-node") :: runOps wb f r.2 h

def handle : List String → String
  | "c01" :: cfg :: n :: rest =>
    match n.toNat? with
    | none => "!bad-n"
    | some n =>
      match parseSpecs n rest with
      | none => "!bad-spec"
      | some (specs, rest) =>
        match parseOps rest with
        | none => "!bad-op"
        | some ops =>
          if !wfCheck specs then "!notwf" else
          let wb := mkWb specs
          let f := sem specs
          let inp := inputsOf specs
          let s0? : Option (State EV) :=
            if cfg = "nodata" then some (initNoData inp)
            else if cfg = "stored" then some (initStored inp (storedOf wb f inp))
            else if cfg = "loaded" then some (initLoaded wb f inp)
            else none
          match s0? with
          | none => "!bad-cfg"
          | some s0 => ";".intercalate (runOps wb f s0 ops)
  | _ => "!bad-op"

end Pycel.Drv.C01

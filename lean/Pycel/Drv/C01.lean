/- Driver handler of C01: protocol line (already split into tokens, without the leading "c01") -> answer. -/
import Pycel.Model.Proto
namespace Pycel.Drv.C01

def handle : List String → String
  | _ => "!bad-op"

end Pycel.Drv.C01

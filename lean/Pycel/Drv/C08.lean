/-
  Driver handler of C08: one line = one workbook + pre-trim history + trim + rounds of assignments.

    c08 <n> <spec>*n  <kI> i*kI  <kO> o*kO  <kP> <op>*kP  <nPr> (<kI> i* <kO> o* <kM> <op>*)*nPr  <kR> (<m> (i <val>)*m)*kR
      (the nPr earlier trim_graph calls — rejected or accepted — run after the pre-history, each followed by its ops;
       the answer starts with one `P:ok | P:err:input` section per earlier call)
      spec : as in Drv/C01 (I <val> | F ref j | F cat k j*k | F add a b | F sum k j*k | F cnt k j*k | F idx r row col
             | R <rows> <cols> j*(rows*cols)) and F divc j <num> | F gt j <num> | F eqc j <num> | F ifgt j <num>
             (Model/TrimInst.lean; a comparison whose exact operands nearly tie is answered `u` = undecided)
      op   : S i <val> | E i          (history before the trim, on the in-memory model without stored results)
  Answer, sections joined by ';':
      ok | err:input | err:output
      K<kept nodes, comma separated>           = set(cell_map) after the trim
      Z<formula cells that lost their formula>
      one section per round:  <ok|rej>*m ~ <value of every output on the trimmed model>* ~ L ~ <value of every output
      on the model reloaded from the saved trimmed model>*      (items joined by '~')
  The rounds are cumulative (each applies its writes to the state the previous one left).  Writes use the repaired
  equality test `typedEq`.  Trusted glue, not part of any theorem.
-/
import Pycel.Model.Proto
import Pycel.Model.EngineInst
import Pycel.Model.Trim
import Pycel.Model.TrimInst
namespace Pycel.Drv.C08
open Pycel Pycel.Engine Pycel.EngineInst Pycel.Trim Pycel.TrimInst

partial def takeNats : Nat → List String → Option (List Nat × List String)
  | 0, ts => some ([], ts)
  | k+1, t :: ts => do
    let j ← t.toNat?
    let (js, rest) ← takeNats k ts
    some (j :: js, rest)
  | _, [] => none

def decNum? (tok : String) : Option Rat :=
  match Val.dec? tok with
  | some (.num q) => some q
  | _ => none

partial def parseSpecs : Nat → List String → Option (List (Spec × Option Ov) × List String)
  | 0, ts => some ([], ts)
  | k+1, ts => do
    let ((sp, ov), rest) ← (match ts with
      | "F" :: "divc" :: j :: c :: rest => do some ((Spec.fml (.ref (← j.toNat?)), some (Ov.divc (← decNum? c))), rest)
      | "F" :: "gt" :: j :: c :: rest => do some ((Spec.fml (.ref (← j.toNat?)), some (Ov.gt (← decNum? c))), rest)
      | "F" :: "eqc" :: j :: c :: rest => do some ((Spec.fml (.ref (← j.toNat?)), some (Ov.eqc (← decNum? c))), rest)
      | "F" :: "ifgt" :: j :: c :: rest => do some ((Spec.fml (.ref (← j.toNat?)), some (Ov.ifgt (← decNum? c))), rest)
      | _ => none : Option ((Spec × Option Ov) × List String)) <|> (do
    let (sp, rest) ← (match ts with
      | "I" :: v :: rest => do some (Spec.inp (← Val.dec? v), rest)
      | "F" :: "ref" :: j :: rest => do some (Spec.fml (.ref (← j.toNat?)), rest)
      | "F" :: "add" :: a :: b :: rest => do some (Spec.fml (.add (← a.toNat?) (← b.toNat?)), rest)
      | "F" :: "sub" :: a :: b :: rest => do some (Spec.fml (.sub (← a.toNat?) (← b.toNat?)), rest)
      | "F" :: "eq" :: a :: b :: rest => do some (Spec.fml (.eq (← a.toNat?) (← b.toNat?)), rest)
      | "F" :: "idx" :: r :: row :: col :: rest => do
          some (Spec.fml (.idx (← r.toNat?) (← row.toNat?) (← col.toNat?)), rest)
      | "F" :: "cat" :: k :: rest => do
          let (js, rest) ← takeNats (← k.toNat?) rest
          some (Spec.fml (.cat js), rest)
      | "F" :: "sum" :: k :: rest => do
          let (js, rest) ← takeNats (← k.toNat?) rest
          some (Spec.fml (.sum js), rest)
      | "F" :: "cnt" :: k :: rest => do
          let (js, rest) ← takeNats (← k.toNat?) rest
          some (Spec.fml (.cnt js), rest)
      | "R" :: r :: c :: rest => do
          let r ← r.toNat?
          let c ← c.toNat?
          let (js, rest) ← takeNats (r*c) rest
          some (Spec.rng (chunk c r js), rest)
      | _ => none : Option (Spec × List String))
    some ((sp, none), rest))
    let (sps, rest) ← parseSpecs k rest
    some ((sp, ov) :: sps, rest)

partial def parseOps : Nat → List String → Option (List (Op EV) × List String)
  | 0, ts => some ([], ts)
  | k+1, "S" :: i :: v :: rest => do
    let (ops, rest) ← parseOps k rest
    some (.set (← i.toNat?) (.sc (← Val.dec? v)) :: ops, rest)
  | k+1, "E" :: a :: rest => do
    let (ops, rest) ← parseOps k rest
    some (.eval (← a.toNat?) :: ops, rest)
  | _, _ => none

partial def parsePriors : Nat → List String → Option (List (List Nat × List Nat × List (Op EV)) × List String)
  | 0, ts => some ([], ts)
  | k+1, ts => do
    let (kI, rest) ← (match ts with | c :: r => do some (← c.toNat?, r) | [] => none)
    let (I, rest) ← takeNats kI rest
    let (kO, rest) ← (match rest with | c :: r => do some (← c.toNat?, r) | [] => none)
    let (O, rest) ← takeNats kO rest
    let (kM, rest) ← (match rest with | c :: r => do some (← c.toNat?, r) | [] => none)
    let (mid, rest) ← parseOps kM rest
    let (ps, rest) ← parsePriors k rest
    some ((I, O, mid) :: ps, rest)

partial def parseWrites : Nat → List String → Option (List (Nat × EV) × List String)
  | 0, ts => some ([], ts)
  | k+1, i :: v :: rest => do
    let (ws, rest) ← parseWrites k rest
    some ((← i.toNat?, .sc (← Val.dec? v)) :: ws, rest)
  | _, _ => none

partial def parseRounds : Nat → List String → Option (List (List (Nat × EV)))
  | 0, [] => some []
  | 0, _ => none
  | k+1, m :: rest => do
    let (ws, rest) ← parseWrites (← m.toNat?) rest
    let rs ← parseRounds k rest
    some (ws :: rs)
  | _, _ => none

def encEV : EV → String
  | .sc v => v.enc
  | .arr rows => encArr rows

def natList (l : List Nat) : String := ",".intercalate (l.map toString)

/-- apply the writes (answer ok/rej each), then evaluate every output in order -/
def roundOn (wb : Workbook) (f : Nat → (Nat → EV) → EV) (tie : Nat → State EV → Bool) (O : List Nat)
    (ws : List (Nat × EV)) (s : State EV) : List String × List String × State EV :=
  let (acks, s1) := ws.foldl (fun (acc : List String × State EV) (w : Nat × EV) =>
      let st := acc.2
      let ok := decide (w.1 < wb.n) && decide (wb.kind w.1 = .input) && st.built w.1
      (acc.1 ++ [if ok then "ok" else "rej"], setValue wb typedEq w.1 w.2 st)) ([], s)
  let (vals, s2) := O.foldl (fun (acc : List String × State EV) (o : Nat) =>
      let r := evaluate wb f o acc.2
      (acc.1 ++ [if tie o r.2 then "u" else encEV r.1], r.2)) ([], s1)
  (acks, vals, s2)

def runRounds (t : Trimmed EV) (wbR : Workbook) (tie : Workbook → Nat → State EV → Bool) (O : List Nat) :
    List (List (Nat × EV)) → State EV → State EV → List String
  | [], _, _ => []
  | ws :: rest, st, sl =>
    let (acks, vals, st') := roundOn t.wb t.f (tie t.wb) O ws st
    let (_, valsL, sl') := roundOn wbR t.f (tie wbR) O ws sl
    "~".intercalate (acks ++ vals ++ ["L"] ++ valsL) :: runRounds t wbR tie O rest st' sl'

def handle : List String → String
  | "c08" :: "raw" :: _ => "raw-ok"   -- scripted scenario outside the node language: the property demands agreement
  | "c08" :: n :: rest =>
    match n.toNat? with
    | none => "!bad-n"
    | some n =>
      match parseSpecs n rest with
      | none => "!bad-spec"
      | some (specsOv, rest) =>
        let specs := specsOv.map (·.1)
        let ovs := specsOv.map (·.2)
        let ov : Nat → Option Ov := fun i => (ovs.getD i none)
        let tie : Workbook → Nat → State EV → Bool := fun w o st =>
          match ov o, specs[o]? with
          | some k, some (Spec.fml (Fml.ref j)) => nearTie k (valueOf w st j).val
          | _, _ => false
        let parsed : Option (List Nat × List Nat × List (Op EV) × List (List Nat × List Nat × List (Op EV)) ×
            List (List (Nat × EV))) := do
          let (kI, rest) ← (match rest with | k :: r => do some (← k.toNat?, r) | [] => none)
          let (I, rest) ← takeNats kI rest
          let (kO, rest) ← (match rest with | k :: r => do some (← k.toNat?, r) | [] => none)
          let (O, rest) ← takeNats kO rest
          let (kP, rest) ← (match rest with | k :: r => do some (← k.toNat?, r) | [] => none)
          let (pre, rest) ← parseOps kP rest
          let (nPr, rest) ← (match rest with | k :: r => do some (← k.toNat?, r) | [] => none)
          let (priors, rest) ← parsePriors nPr rest
          let (kR, rest) ← (match rest with | k :: r => do some (← k.toNat?, r) | [] => none)
          let rounds ← parseRounds kR rest
          some (I, O, pre, priors, rounds)
        match parsed with
        | none => "!bad-tail"
        | some (I, O, pre, priors, rounds) =>
          if !wfCheck specs then "!notwf" else
          let wb0 := mkWb specs
          let f0 := semOv specs ov
          let s0 := run wb0 f0 typedEq (initNoData (inputsOf specs)) pre
          -- earlier trim_graph calls: a rejected one leaves the state after `_gen_graph(outputs)`, an accepted one the
          -- trimmed model; then the operations issued before the next call
          let (wb, f, s, tags) := priors.foldl
            (fun (acc : Workbook × (Nat → (Nat → EV) → EV) × State EV × List String)
                 (pr : List Nat × List Nat × List (Op EV)) =>
              let (w, g, st, tags) := acc
              match trim w g pr.1 pr.2.1 st with
              | .error (.inputUnused _) => (w, g, run w g typedEq (genGraph w g pr.2.1 st) pr.2.2, tags ++ ["P:err:input"])
              | .error (.outputUnknown _) => (w, g, run w g typedEq st pr.2.2, tags ++ ["P:err:output"])
              | .ok t => (t.wb, t.f, run t.wb t.f typedEq t.st pr.2.2, tags ++ ["P:ok"]))
            (wb0, f0, s0, [])
          match trim wb f I O s with
          | .error (.inputUnused _) => ";".intercalate (tags ++ ["err:input"])
          | .error (.outputUnknown _) => ";".intercalate (tags ++ ["err:output"])
          | .ok t =>
            let keep := (List.range wb.n).filter t.keep
            let lost := (List.range wb.n).filter fun k =>
              t.keep k && decide (wb0.kind k = .formula) && decide (t.wb.kind k = .input)
            let wbR := reloadWb wb t
            let sl := initLoaded wbR t.f (reloadInp wb (.sc .blank) t)
            ";".intercalate (tags ++ ["ok", "K" ++ natList keep, "Z" ++ natList lost] ++
              runRounds t wbR tie O rounds t.st sl)
  | _ => "!bad-op"

end Pycel.Drv.C08

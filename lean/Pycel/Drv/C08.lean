/- Driver handler of C08: protocol line (already split into tokens, without the leading "c08") -> answer. -/
import Pycel.Model.Proto
namespace Pycel.Drv.C08

def handle : List String → String
  | _ => "!bad-op"

end Pycel.Drv.C08

/- Driver handler of C20: protocol line (tokens, leading "c20") -> answer.
   Text that spells an error code IS that error value in pycel, so inputs and outputs are normalised with `Val.ofText`.
   An optional trailing argument that is omitted in the call is simply absent from the line. -/
import Pycel.Model.Proto
import Pycel.Model.TextFns
import Pycel.Model.TextFormat
namespace Pycel.Drv.C20
open Pycel Pycel.TextFns

def norm : Val → Val
  | .str s => Val.ofText s
  | v => v

def out (v : Val) : String := (norm v).enc

def args? (ts : List String) : Option (List Val) := (ts.mapM Val.dec?).map (·.map norm)

def handle : List String → String
  | "c20" :: fn :: ts =>
    match args? ts with
    | none => "!bad-arg"
    | some vs =>
      match fn, vs with
      | "left", [t] => out (LEFT t none)
      | "left", [t, n] => out (LEFT t (some n))
      | "right", [t] => out (RIGHT t none)
      | "right", [t, n] => out (RIGHT t (some n))
      | "mid", [t, p, k] => out (MID t p k)
      | "replace", [t, p, k, n] => out (REPLACE t p k n)
      | "find", [f, t] => out (FIND f t none)
      | "find", [f, t, s] => out (FIND f t (some s))
      | "substitute", [t, o, n] => out (SUBSTITUTE t o n none)
      | "substitute", [t, o, n, i] => out (SUBSTITUTE t o n (some i))
      | "concatenate", vs => out (CONCATENATE vs)
      | "amp", [a, b] => out (AMP a b)
      | "trim", [t] => out (TRIM t)
      | "upper", [t] => out (UPPER t)
      | "lower", [t] => out (LOWER t)
      | "exact", [a, b] => out (EXACT a b)
      | "len", [t] => out (LEN t)
      | "text", [v, f] =>
        match TextFormat.TEXT v f with
        | some r => out r
        | none => "!unsupported-format"
      | _, _ => "!bad-op"
  | _ => "!bad-op"

end Pycel.Drv.C20

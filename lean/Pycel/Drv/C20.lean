/- Driver handler of C20: protocol line (already split into tokens, without the leading "c20") -> answer. -/
import Pycel.Model.Proto
namespace Pycel.Drv.C20

def handle : List String → String
  | _ => "!bad-op"

end Pycel.Drv.C20

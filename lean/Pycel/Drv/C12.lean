/-
  Driver handler of C12: one line = one workbook file + one call of `validate_calcs`.

    c12 <tree> <tol> <n> <spec>*n  P <i> <stored> | P - -   T <i> <text> | T - -   O <k> o*k
      tree : 0 | 1                         verify_tree
      tol  : z | n:p/q                     tolerance (z = None)
      spec : I <val> | F ref j | F cat k j*k | F add a b | F sub a b | F eq a b | F sum k j*k | F cnt k j*k | F idx r row col
             | R <rows> <cols> j*(rows*cols)
             | X <exc|nimpl|unk> <val> k j*k   a formula pycel cannot evaluate (raises after its k precedents were
                                           evaluated); <val> = the result Excel stored for it
      P i v : the stored result of node i is replaced by v (z = no stored result)
      T i t : t = the text of the formula of node i (for the "No Orig data?" rule)
      O     : the checked outputs, in the order of `output_addrs`
  The stored results of the file are the from-scratch values (an X node counts as the constant stored for it).
  Answer: `M i:orig:calced …;X i …;N i …` (mismatch dict sorted by node, the two class lists sorted, duplicates kept).
  Trusted glue, not part of any theorem.
-/
import Pycel.Model.Proto
import Pycel.Model.EngineInst
import Pycel.Model.ValidateInst
namespace Pycel.Drv.C12
open Pycel Pycel.Engine Pycel.EngineInst Pycel.Validate

partial def takeNats : Nat → List String → Option (List Nat × List String)
  | 0, ts => some ([], ts)
  | k+1, t :: ts => do
    let j ← t.toNat?
    let (js, rest) ← takeNats k ts
    some (j :: js, rest)
  | _, [] => none

/-- a node: the C01 spec, and for an X node the exception class and the value Excel stored -/
structure Node where
  spec : Spec
  raises : Option (Fail × Val) := none

partial def parseNodes : Nat → List String → Option (List Node × List String)
  | 0, ts => some ([], ts)
  | k+1, ts => do
    let (nd, rest) ← (match ts with
      | "I" :: v :: rest => do some ({ spec := .inp (← Val.dec? v) }, rest)
      | "F" :: "ref" :: j :: rest => do some ({ spec := .fml (.ref (← j.toNat?)) }, rest)
      | "F" :: "add" :: a :: b :: rest => do some ({ spec := .fml (.add (← a.toNat?) (← b.toNat?)) }, rest)
      | "F" :: "sub" :: a :: b :: rest => do some ({ spec := .fml (.sub (← a.toNat?) (← b.toNat?)) }, rest)
      | "F" :: "eq" :: a :: b :: rest => do some ({ spec := .fml (.eq (← a.toNat?) (← b.toNat?)) }, rest)
      | "F" :: "idx" :: r :: row :: col :: rest => do
          some ({ spec := .fml (.idx (← r.toNat?) (← row.toNat?) (← col.toNat?)) }, rest)
      | "F" :: "cat" :: k :: rest => do
          let (js, rest) ← takeNats (← k.toNat?) rest
          some ({ spec := .fml (.cat js) }, rest)
      | "F" :: "sum" :: k :: rest => do
          let (js, rest) ← takeNats (← k.toNat?) rest
          some ({ spec := .fml (.sum js) }, rest)
      | "F" :: "cnt" :: k :: rest => do
          let (js, rest) ← takeNats (← k.toNat?) rest
          some ({ spec := .fml (.cnt js) }, rest)
      | "R" :: r :: c :: rest => do
          let r ← r.toNat?
          let c ← c.toNat?
          let (js, rest) ← takeNats (r*c) rest
          some ({ spec := .rng (chunk c r js) }, rest)
      | "X" :: cls :: v :: k :: rest => do
          let cl ← (if cls = "exc" then some Fail.exc else if cls = "nimpl" then some Fail.notImpl
                    else if cls = "unk" then some Fail.unknownFn else none)
          let v ← Val.dec? v
          let (js, rest) ← takeNats (← k.toNat?) rest
          some ({ spec := .fml (.cat js), raises := some (cl, v) }, rest)
      | _ => none : Option (Node × List String))
    let (nds, rest) ← parseNodes k rest
    some (nd :: nds, rest)

def encEV : EV → String
  | .sc v => v.enc
  | .arr rows => encArr rows

/-- from-scratch values of all nodes, in topological order -/
def denoteAll (n : Nat) (wb : Workbook) (f : Nat → (Nat → EV) → EV) (inp : Nat → EV) : Array EV :=
  (List.range n).foldl (fun acc i =>
    acc.push (match wb.kind i with
      | .input => inp i
      | _ => f i (fun j => acc.getD j (.sc .blank)))) #[]

def insertSorted (a : Nat) : List Nat → List Nat
  | [] => [a]
  | b :: bs => if a ≤ b then a :: b :: bs else b :: insertSorted a bs

def sortNats (l : List Nat) : List Nat := l.foldr insertSorted []

def handle : List String → String
  | "c12" :: tree :: tol :: n :: rest =>
    match n.toNat? with
    | none => "!bad-n"
    | some n =>
      match parseNodes n rest with
      | none => "!bad-spec"
      | some (nodes, rest) =>
        match rest with
        | "P" :: pi :: pv :: "T" :: ti :: tv :: "O" :: k :: outs =>
          let tol? : Option (Option Rat) :=
            if tol = "z" then some none else
            match Val.dec? tol with
            | some (.num q) => some (some q)
            | _ => none
          match tol?, k.toNat?.bind (fun k => takeNats k outs) with
          | some tolv, some (outs, []) =>
            let specs := nodes.map (·.spec)
            if !wfCheck specs then "!notwf" else
            let wb := uniqWb (mkWb specs)
            let raisesAt : Nat → Option (Fail × Val) := fun i => (nodes[i]?).bind (·.raises)
            let f := semTot specs raisesAt
            let inp := inputsOf specs
            let den := denoteAll n wb f inp
            let stored0 : Nat → Option EV := fun j =>
              match wb.kind j with
              | .formula => (match den.getD j (.sc .blank) with
                  | .sc .blank => none
                  | .sc (.str []) => none     -- openpyxl reads a stored empty string as None
                  | v => some v)
              | _ => none
            let stored : Nat → Option EV :=
              match pi.toNat?, Val.dec? pv with
              | some i, some .blank => fun j => if j = i then none else stored0 j
              | some i, some (.str []) => fun j => if j = i then none else stored0 j
              | some i, some v => fun j => if j = i then some (.sc v) else stored0 j
              | _, _ => stored0
            let noData : Nat → EV → Bool :=
              match ti.toNat?, Val.dec? tv with
              | some i, some t => fun j v => decide (j = i) && decide (v = .sc t)
              | _, _ => fun _ _ => false
            let C : Cfg EV := instCfg specs raisesAt stored tolv noData (tree = "1")
            let fin := validate C outs
            if !fin.todo.isEmpty then "!fuel" else
            let keys := sortNats (fin.rep.mismatch.map (·.1)).eraseDups
            let ms := keys.filterMap fun a =>
              (fin.rep.lookup a).map fun (o, c) => s!"{a}:{encEV o}:{encEV c}"
            let xs := sortNats ((fin.rep.failed.filter fun e => !e.2.isNotImplemented).map (·.1))
            let ns := sortNats ((fin.rep.failed.filter fun e => e.2.isNotImplemented).map (·.1))
            " ".intercalate ("M" :: ms) ++ ";" ++ " ".intercalate ("X" :: xs.map toString) ++ ";" ++
              " ".intercalate ("N" :: ns.map toString)
          | _, _ => "!bad-tail"
        | _ => "!bad-tail"
  | _ => "!bad-op"

end Pycel.Drv.C12

/- Driver handler of C12: protocol line (already split into tokens, without the leading "c12") -> answer. -/
import Pycel.Model.Proto
namespace Pycel.Drv.C12

def handle : List String → String
  | _ => "!bad-op"

end Pycel.Drv.C12

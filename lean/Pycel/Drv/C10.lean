/- Driver handler of C10: protocol line tokens -> one answer line.
     c10 op <PyOpName> <left> <right>     fixup(left, op, right) with the concrete Python kernels; a leading `~` marks a
                                          float `^` result that is only approximately the C library's
     c10 num <0|1> <v>                    coerce_to_number(v, convert_all)
     c10 str <v>                          coerce_to_string(v)
-/
import Pycel.Model.Proto
import Pycel.Model.Ops
namespace Pycel.Drv.C10
open Pycel Pycel.Ops

def showOutcome : Outcome → String
  | .val v => v.enc
  | .nonfinite => "!inf"

def handle : List String → String
  | "c10" :: "op" :: o :: l :: r :: [] =>
    match Op.ofName? o, Val.dec? l, Val.dec? r with
    | some op, some l, some r =>
      let out := fixupPy l op r
      let approx := match arithOperand l, arithOperand r, out with
        | .num x, .num y, .val (.num _) => approxResult op x y
        | _, _, _ => false
      (if approx then "~" else "") ++ showOutcome out
    | _, _, _ => "!bad-arg"
  | "c10" :: "num" :: ca :: v :: [] =>
    match Val.dec? v with
    | some v => (coerceToNumber (ca == "1") v).enc
    | none => "!bad-arg"
  | "c10" :: "str" :: v :: [] =>
    match Val.dec? v with
    | some v => (coerceToString v).enc
    | none => "!bad-arg"
  | _ => "!bad-op"

end Pycel.Drv.C10

/- Driver handler of C10: protocol line (already split into tokens, without the leading "c10") -> answer. -/
import Pycel.Model.Proto
namespace Pycel.Drv.C10

def handle : List String → String
  | _ => "!bad-op"

end Pycel.Drv.C10

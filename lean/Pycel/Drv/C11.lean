/- Driver handler of C11: protocol line (already split into tokens, without the leading "c11") -> answer. -/
import Pycel.Model.Proto
namespace Pycel.Drv.C11

def handle : List String → String
  | _ => "!bad-op"

end Pycel.Drv.C11

/- Driver handler of C11: protocol line (split into tokens, first token "c11") -> answer. -/
import Pycel.Model.Proto
import Pycel.Model.Addr
namespace Pycel.Drv.C11
open Pycel Pycel.Addr

def txt? (tok : String) : Option Str :=
  if tok.startsWith "s:" then decText? (tok.drop 2).toString else none

def optNat? (tok : String) : Option (Option Nat) :=
  if tok = "-" then some none else tok.toNat?.map some

def anchor? (tok : String) : Option (Option (Nat × Nat)) :=
  if tok = "-" then some none else
  match tok.splitOn "," with
  | [c, r] => match c.toNat?, r.toNat? with
    | some c, some r => some (some (c, r))
    | _, _ => none
  | _ => none

def fmtAddr (a : Addr) : String :=
  let k := if a.isRange then "R" else "C"
  s!"A {k} {encText a.rect.sheet} {a.rect.c1} {a.rect.r1} {a.rect.c2} {a.rect.r2} {a.height} {a.width} {encText a.address}"

def fmtCreated : Except PyErr Created → String
  | .ok (.addr a) => fmtAddr a
  | .ok (.code s) => "E " ++ encText s
  | .error e => e.enc

def fmtOperand : Except PyErr Operand → String
  | .ok (.addr a) => fmtAddr a
  | .ok (.err s) => "E " ++ encText s
  | .error e => e.enc

def shortOperand : Except PyErr Operand → String
  | .ok (.addr a) => encText a.address
  | .ok (.err s) => "E" ++ encText s
  | .error e => e.enc

def operandOf (t : Str) : Except PyErr Operand :=
  match create t [] none with
  | .ok (.addr a) => .ok (.addr a)
  | .ok (.code s) => .ok (.err s)
  | .error e => .error e

def comb (isInter : Bool) (x y : Except PyErr Operand) : Except PyErr Operand :=
  match x, y with
  | .ok a, .ok b => Operand.combine isInter a b
  | .error e, _ => .error e
  | _, .error e => .error e

def fmtCells (cs : List Cell) : String := ",".intercalate (cs.map fun c => s!"{c.col}.{c.row}")
def fmtGrid (g : List (List Cell)) : String := ";".intercalate (g.map fmtCells)

/-- every public attribute of an address object, its enumeration included -/
def desc (a : Addr) : String :=
  let u := if a.isUnbounded then "1" else "0"
  let res := if a.isRange then (if a.isUnbounded then PyErr.assertion.enc else fmtGrid a.rect.rows)
    else fmtGrid [[⟨a.rect.sheet, a.rect.c1, a.rect.r1⟩]]
  s!"{fmtAddr a} P {encText a.quotedAddress} {encText a.absAddress} {encText a.coordinate} {encText a.absCoordinate} U {u} RES {res} SH 1"

def handle : List String → String
  | ["c11", "parse", mode, t, sh, an] =>
    match txt? t, txt? sh, anchor? an with
    | some t, some sh, some an =>
      fmtCreated (if mode = "C" then createCell t sh an else create t sh an)
    | _, _, _ => "!bad-arg"
  | ["c11", "tuple", mode, c1, r1, c2, r2, sh] =>
    match optNat? c1, optNat? r1, optNat? c2, optNat? r2, txt? sh with
    | some c1, some r1, some c2, some r2, some sh =>
      let b : Bounds := ⟨c1, r1, c2, r2⟩
      match (if mode = "C" then cellOfTuple sh b else rangeOfTuple sh b) with
      | .error e => e.enc
      | .ok a =>
        let back (s : Str) := fmtCreated (create s [] none)
        s!"{fmtAddr a} P {encText a.quotedAddress} {encText a.absAddress} {encText a.coordinate} {encText a.absCoordinate}"
          ++ s!" B {back a.address} ; {back a.quotedAddress} ; {back a.absAddress} ; {back a.coordinate} ; {back a.absCoordinate}"
    | _, _, _, _, _ => "!bad-arg"
  | ["c11", "comb", op, a, b] =>
    match txt? a, txt? b with
    | some a, some b => fmtOperand (comb (op = "i") (operandOf a) (operandOf b))
    | _, _ => "!bad-arg"
  | ["c11", "comb3", op, side, a, b, c] =>
    match txt? a, txt? b, txt? c with
    | some a, some b, some c =>
      let i := op = "i"
      if side = "l" then fmtOperand (comb i (comb i (operandOf a) (operandOf b)) (operandOf c))
      else fmtOperand (comb i (operandOf a) (comb i (operandOf b) (operandOf c)))
    | _, _, _ => "!bad-arg"
  | "c11" :: "assoc" :: op :: a :: b :: cs =>
    match txt? a, txt? b, cs.mapM txt? with
    | some a, some b, some cs =>
      let i := op = "i"
      let oa := operandOf a
      let ob := operandOf b
      let ab := comb i oa ob
      " ".intercalate (cs.map fun c =>
        let oc := operandOf c
        shortOperand (comb i ab oc) ++ " " ++ shortOperand (comb i oa (comb i ob oc)))
    | _, _, _ => "!bad-arg"
  | ["c11", "offset", t, ri, ci, rj, cj] =>
    match txt? t, ri.toInt?, ci.toInt?, rj.toInt?, cj.toInt? with
    | some t, some ri, some ci, some rj, some cj =>
      match create t [] none with
      | .ok (.addr a) =>
        let c0 : Cell := ⟨a.rect.sheet, a.rect.c1, a.rect.r1⟩
        let f (c : Cell) := fmtCreated ((mkCell c.sheet c.col c.row).map .addr)
        let x1 := c0.offset ri ci
        s!"{f x1} ; {f (x1.offset rj cj)} ; {f (c0.offset (ri + rj) (ci + cj))} ; " ++
          s!"{f (c0.offset (ri + MAX_ROW) (ci - MAX_COL))} ; I {incCol a.rect.c1 ci} {incRow a.rect.r1 ri}"
      | .ok (.code _) => PyErr.attribute.enc
      | .error e => e.enc
    | _, _, _, _, _ => "!bad-arg"
  | ["c11", "enum", t] =>
    match txt? t with
    | some t =>
      match create t [] none with
      | .ok (.addr a) =>
        let u := if a.isUnbounded then "1" else "0"
        let head := s!"S {a.height} {a.width} U {u}"
        if a.isRange then
          let res := if a.isUnbounded then PyErr.assertion.enc else fmtGrid a.rect.rows
          s!"{head} ROWS {fmtGrid a.rect.rows} COLS {fmtGrid a.rect.cols} RES {res}"
        else s!"{head} RES {fmtGrid [[⟨a.rect.sheet, a.rect.c1, a.rect.r1⟩]]}"
      | .ok (.code _) => PyErr.attribute.enc
      | .error e => e.enc
    | none => "!bad-arg"
  | ["c11", "enum0", t] =>
    match txt? t with
    | some t =>
      match create t [] none with
      | .ok (.addr a) => s!"S {a.height} {a.width} U {if a.isUnbounded then "1" else "0"}"
      | .ok (.code _) => PyErr.attribute.enc
      | .error e => e.enc
    | none => "!bad-arg"
  | ["c11", "hist", t, sh2, ri, ci, other] =>
    match txt? t, txt? sh2, ri.toInt?, ci.toInt?, txt? other with
    | some t, some sh2, some ri, some ci, some other =>
      match create t [] none with
      | .ok (.addr a) =>
        let d (x : Except PyErr Addr) : String := match x with
          | .ok y => s!"D {desc y} F {desc y} EQ 1"
          | .error e => e.enc
        let dOp (x : Except PyErr Operand) : String := match x with
          | .ok (.addr y) => s!"D {desc y} F {desc y} EQ 1"
          | .ok (.err c) => "E " ++ encText c
          | .error e => e.enc
        let r2 := resheet a sh2
        let c0 : Cell := (⟨a.rect.sheet, a.rect.c1, a.rect.r1⟩ : Cell).offset ri ci
        let routes : List String := [
          d (.ok a), d r2, (if a.isRange then "NA" else d (.ok a)), (if a.isRange then "NA" else d r2), d r2,
          d (mkCell c0.sheet c0.col c0.row),
          dOp (comb true (.ok (.addr a)) (operandOf other)), dOp (comb false (.ok (.addr a)) (operandOf other)),
          (match r2 with | .ok y => d (resheet y sh2) | .error e => e.enc),
          (match r2 with | .ok y => dOp (comb false (.ok (.addr y)) (operandOf other)) | .error e => e.enc)]
        " | ".intercalate routes
      | .ok (.code _) => PyErr.attribute.enc
      | .error e => e.enc
    | _, _, _, _, _ => "!bad-arg"
  | ["c11", "contains", r, c] =>
    match txt? r, txt? c with
    | some r, some c =>
      match create r [] none with
      | .ok (.addr a) =>
        match createCell c [] none with
        | .ok (.addr x) => if a.containsCell x then "b:1" else "b:0"
        | .ok (.code _) => PyErr.valueError.enc
        | .error e => e.enc
      | .ok (.code _) => PyErr.attribute.enc
      | .error e => e.enc
    | _, _ => "!bad-arg"
  | ["c11", "quote", s] =>
    match txt? s with
    | some s => encText (quoteSheet s)
    | none => "!bad-arg"
  | ["c11", "unquote", s] =>
    match txt? s with
    | some s => encText (unquoteSheetname s)
    | none => "!bad-arg"
  | ["c11", "split", t, sh] =>
    match txt? t, txt? sh with
    | some t, some sh =>
      match splitSheetname t sh with
      | .ok (a, b) => encText a ++ " " ++ encText b
      | .error e => e.enc
    | _, _ => "!bad-arg"
  | ["c11", "nota", c1, r1, c2, r2, ac, ar] =>
    match c1.toNat?, r1.toNat?, c2.toNat?, r2.toNat?, ac.toNat?, ar.toNat? with
    | some c1, some r1, some c2, some r2, some ac, some ar =>
      let isCell := c1 = c2 && r1 = r2
      let an := some (ac, ar)
      let two (f : Nat → Nat → Str) : Str := if isCell then f c1 r1 else f c1 r1 ++ ':' :: f c2 r2
      let rel (wr wc : Int) (c r : Nat) : Str := r1c1Rel ((r : Int) - ar + wr) ((c : Int) - ac + wc)
      let texts : List Str := [two cellCoord, two cellAbsCoord, two r1c1Abs, two (rel 0 0),
        two (rel (MAX_ROW : Int) (-(MAX_COL : Int)))]
      let viaTuple := if isCell then cellOfTuple [] ⟨some c1, some r1, some c2, some r2⟩
        else rangeOfTuple [] ⟨some c1, some r1, some c2, some r2⟩
      " ; ".intercalate (texts.map (fun t => fmtCreated (create t [] an)) ++ [fmtCreated (viaTuple.map .addr)])
    | _, _, _, _, _, _ => "!bad-arg"
  | _ => "!bad-op"

end Pycel.Drv.C11

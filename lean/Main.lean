import Pycel.Drv.All
open Pycel

partial def loop (h : IO.FS.Stream) (out : IO.FS.Stream) : IO Unit := do
  let line ← h.getLine
  if line.isEmpty then return ()
  let toks := (line.trimAscii.toString.splitOn " ").filter (· ≠ "")
  out.putStrLn (Drv.dispatch toks)
  loop h out

def main : IO Unit := do
  let out ← IO.getStdout
  loop (← IO.getStdin) out
  out.flush

import Pycel.Drv.Loop
import Pycel.Drv.C11

def main : IO Unit := Pycel.Drv.runLoop Pycel.Drv.C11.handle

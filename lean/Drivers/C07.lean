import Pycel.Drv.Loop
import Pycel.Drv.C07

def main : IO Unit := Pycel.Drv.runLoop Pycel.Drv.C07.handle

import Pycel.Drv.Loop
import Pycel.Drv.C05

def main : IO Unit := Pycel.Drv.runLoop Pycel.Drv.C05.handle

import Pycel.Drv.Loop
import Pycel.Drv.C04

def main : IO Unit := Pycel.Drv.runLoop Pycel.Drv.C04.handle

import Pycel.Drv.Loop
import Pycel.Drv.C19

def main : IO Unit := Pycel.Drv.runLoop Pycel.Drv.C19.handle

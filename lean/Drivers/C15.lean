import Pycel.Drv.Loop
import Pycel.Drv.C15

def main : IO Unit := Pycel.Drv.runLoop Pycel.Drv.C15.handle

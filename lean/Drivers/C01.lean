import Pycel.Drv.Loop
import Pycel.Drv.C01

def main : IO Unit := Pycel.Drv.runLoop Pycel.Drv.C01.handle

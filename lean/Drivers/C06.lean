import Pycel.Drv.Loop
import Pycel.Drv.C06

def main : IO Unit := Pycel.Drv.runLoop Pycel.Drv.C06.handle

import Pycel.Drv.Loop
import Pycel.Drv.C12

def main : IO Unit := Pycel.Drv.runLoop Pycel.Drv.C12.handle

import Pycel.Drv.Loop
import Pycel.Drv.C10

def main : IO Unit := Pycel.Drv.runLoop Pycel.Drv.C10.handle

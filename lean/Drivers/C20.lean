import Pycel.Drv.Loop
import Pycel.Drv.C20

def main : IO Unit := Pycel.Drv.runLoop Pycel.Drv.C20.handle

import Pycel.Drv.Loop
import Pycel.Drv.C14

def main : IO Unit := Pycel.Drv.runLoop Pycel.Drv.C14.handle

import Pycel.Drv.Loop
import Pycel.Drv.C13

def main : IO Unit := Pycel.Drv.runLoop Pycel.Drv.C13.handle

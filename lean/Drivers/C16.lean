import Pycel.Drv.Loop
import Pycel.Drv.C16

def main : IO Unit := Pycel.Drv.runLoop Pycel.Drv.C16.handle

import Pycel.Drv.Loop
import Pycel.Drv.C17

def main : IO Unit := Pycel.Drv.runLoop Pycel.Drv.C17.handle

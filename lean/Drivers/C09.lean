import Pycel.Drv.Loop
import Pycel.Drv.C09

def main : IO Unit := Pycel.Drv.runLoop Pycel.Drv.C09.handle

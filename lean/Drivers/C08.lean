import Pycel.Drv.Loop
import Pycel.Drv.C08

def main : IO Unit := Pycel.Drv.runLoop Pycel.Drv.C08.handle

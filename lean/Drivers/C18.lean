import Pycel.Drv.Loop
import Pycel.Drv.C18

def main : IO Unit := Pycel.Drv.runLoop Pycel.Drv.C18.handle

import Pycel.Drv.Loop
import Pycel.Drv.C03

def main : IO Unit := Pycel.Drv.runLoop Pycel.Drv.C03.handle

import Pycel.Drv.Loop
import Pycel.Drv.C02

def main : IO Unit := Pycel.Drv.runLoop Pycel.Drv.C02.handle

#!/bin/sh
# tools/run_all.sh [quick|thorough] [seed]  — run every registered check, 6 at a time; print one summary line each
cd "$(dirname "$0")/.." || exit 2
TIER=${1:-quick}; SEED=${2:-0}
mkdir -p /tmp/verif-runall
/venv/bin/python -c "import json; print('\n'.join(c['property_id'] for c in json.load(open('MANIFEST.json'))['checks']))" |
  xargs -P 6 -I{} sh -c "VERIF_SEED=$SEED ./check {} --tier $TIER > /tmp/verif-runall/{}.out 2>&1; echo \"{} exit=\$? \$(grep -c '^VIOLATION' /tmp/verif-runall/{}.out) violations, \$(grep -c '^KNOWN-FINDING' /tmp/verif-runall/{}.out) known :: \$(tail -1 /tmp/verif-runall/{}.out)\""

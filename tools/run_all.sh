#!/bin/sh
# tools/run_all.sh [quick|thorough] [seed]  — run every registered check, 6 at a time; print one summary line each
cd "$(dirname "$0")/.." || exit 2
TIER=${1:-quick}; SEED=${2:-0}
mkdir -p ${RUNALL_DIR:=/tmp/verif-runall}
/venv/bin/python -c "import json; print('\n'.join(c['property_id'] for c in json.load(open('MANIFEST.json'))['checks']))" |
  xargs -P 6 -I{} sh -c "VERIF_SEED=$SEED ./check {} --tier $TIER > $RUNALL_DIR/{}.out 2>&1; echo \"{} exit=\$? \$(grep -c '^VIOLATION' $RUNALL_DIR/{}.out) violations, \$(grep -c '^KNOWN-FINDING' $RUNALL_DIR/{}.out) known :: \$(tail -1 $RUNALL_DIR/{}.out)\""

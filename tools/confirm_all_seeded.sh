#!/bin/sh
# Final confirmation of every seeded change by the documented route (apply in /repo, run the check, undo), serially.
# Nothing else may use /repo or run checks meanwhile.  tools/confirm_all_seeded.sh [pattern]
# A change already confirmed by this route at the current /repo HEAD is skipped.
cd "$(dirname "$0")/.." || exit 2
HEAD=$(git -C /repo rev-parse --short HEAD)
for d in seeded/${1:-*}/; do
  d=${d%/}
  [ -f "$d/patch.diff" ] || continue
  if [ -f "$d/result.json" ] && grep -q '"route": "git -C /repo apply' "$d/result.json" && grep -q "\"repo_head\": \"$HEAD\"" "$d/result.json"; then
    continue
  fi
  tools/run_seeded.py "$d" --in-repo > /tmp/confirm-$(basename "$d").log 2>&1
  git -C /repo checkout -- . 2>/dev/null
  tools/seeded_summary.py "$(basename "$d")" | cut -c1-150
done

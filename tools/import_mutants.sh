#!/bin/sh
# tools/import_mutants.sh CXX <suffix>: copy /tmp/mut/CXX-<suffix>/_mutants/m<i> to seeded/CXX-<suffix><i>, run the check
# against each in a scratch worktree (tools/run_seeded.py), print the summary, remove the agent's worktree.
cd "$(dirname "$0")/.." || exit 2
p=$1; s=$2; wt=/tmp/mut/$p-$s
for m in "$wt"/_mutants/m*; do
  [ -f "$m/patch.diff" ] || continue
  i=$(basename "$m" | sed 's/^m//'); d=seeded/$p-$s$i
  mkdir -p "$d"; cp "$m/patch.diff" "$m/meta.json" "$d/"; [ -f "$m/demo.py" ] && cp "$m/demo.py" "$d/"
  tools/run_seeded.py "$d" --tests > /tmp/import-$p-$s$i.log 2>&1
  tools/seeded_summary.py "$p-$s$i" | cut -c1-260
  grep -o '"tests_with_change": "[^"]*"' "$d/result.json"
done
git -C /repo worktree remove --force "$wt"

#!/bin/sh
# Behaviour-preserving refactorings (seeded_refactors/r*/patch.diff): every check must stay green (exit 0) on them.
# tools/run_refactors.sh [pattern] [props...]   -> seeded_refactors/<r>/result.txt
cd "$(dirname "$0")/.." || exit 2
PAT=${1:-r*}; [ $# -gt 0 ] && shift
PROPS=${*:-$(/venv/bin/python -c "import json; print(' '.join(c['property_id'] for c in json.load(open('MANIFEST.json'))['checks']))")}
for d in seeded_refactors/$PAT/; do
  d=${d%/}
  wt=/tmp/refrun-$$
  git -C /repo worktree add --detach $wt HEAD -q || exit 2
  if git -C $wt apply "$PWD/$d/patch.diff"; then
    : > $d/result.txt
    for p in $PROPS; do
      out=$(PYCEL_REPO=$wt ./check $p --tier quick 2>&1); rc=$?
      echo "$p exit=$rc $(echo "$out" | grep -c '^VIOLATION') violations :: $(echo "$out" | tail -1)" >> $d/result.txt
      if [ $rc -ne 0 ]; then echo "$out" | grep '^VIOLATION' | head -3 >> $d/result.txt; fi
    done
    echo "$d: $(grep -c 'exit=0' $d/result.txt) green, $(grep -c 'exit=[12]' $d/result.txt) alarms"
  else
    echo "$d: patch does not apply"
  fi
  git -C /repo worktree remove --force $wt
done
/venv/bin/python -c 'import sys, fcntl; sys.path.insert(0, "."); l = open("lean/.session.lock", "w"); fcntl.flock(l, fcntl.LOCK_EX); from harness import tables; tables.generate()'

#!/venv/bin/python
"""
Run the registered check(s) against a seeded breaking change:  tools/run_seeded.py seeded/<id> [--tier quick] [--props C18,C10]

Uses a scratch worktree of /repo (removed afterwards) and PYCEL_REPO, so /repo itself is not touched; the final
confirmation before a seeded change is recorded uses the documented route (git -C /repo apply; check; git checkout).
Writes seeded/<id>/result.json: per property exit code, VIOLATION lines, demo exit codes with/without the change.
"""
import json
import os
import subprocess
import sys
import tempfile

VERIF = os.path.dirname(os.path.dirname(os.path.abspath(__file__)))


def sh(cmd, **kw):
    return subprocess.run(cmd, shell=True, capture_output=True, text=True, **kw)


def main():
    d = os.path.abspath(sys.argv[1])
    tier = 'quick'
    props = None
    for i, a in enumerate(sys.argv):
        if a == '--tier':
            tier = sys.argv[i + 1]
        if a == '--props':
            props = sys.argv[i + 1].split(',')
    meta = json.load(open(os.path.join(d, 'meta.json')))
    props = props or [meta['property']]
    in_repo = '--in-repo' in sys.argv
    wt = tempfile.mkdtemp(prefix='seedrun-', dir='/tmp')
    os.rmdir(wt)
    res = {'seed_dir': os.path.relpath(d, VERIF), 'tier': tier, 'checks': {},
           'route': 'git -C /repo apply; ./check; git -C /repo checkout -- .' if in_repo else 'scratch worktree + PYCEL_REPO',
           'repo_head': sh('git -C /repo rev-parse --short HEAD').stdout.strip()}
    try:
        if in_repo:
            assert sh('git -C /repo status --porcelain --untracked-files=no').stdout.strip() == '', '/repo not clean'
            wt = '/repo'
        else:
            assert sh(f'git -C /repo worktree add --detach {wt} HEAD').returncode == 0
        env = dict(os.environ, PYTHONPATH=f'{wt}/src')
        demo = os.path.join(d, 'demo.py')
        if os.path.exists(demo):
            res['demo_without_change'] = sh(f'/venv/bin/python {demo}', env=env, cwd=wt).returncode
        ap = sh(f'git -C {wt} apply {os.path.join(d, "patch.diff")}')
        res['patch_applies'] = ap.returncode == 0
        if ap.returncode != 0:
            res['apply_error'] = ap.stderr[-500:]
        else:
            if os.path.exists(demo):
                p = sh(f'/venv/bin/python {demo}', env=env, cwd=wt)
                res['demo_with_change'] = p.returncode
                res['demo_output'] = (p.stdout + p.stderr)[-600:]
            if '--tests' in sys.argv:
                p = sh('/venv/bin/python -m pytest -q -p no:cacheprovider tests 2>&1 | tail -2', env=env, cwd=wt)
                res['tests_with_change'] = p.stdout.strip()[-200:]
            for pid in props:
                cenv = dict(os.environ) if in_repo else dict(os.environ, PYCEL_REPO=wt)
                p = sh(f'./check {pid} --tier {tier}', cwd=VERIF, env=cenv)
                out = p.stdout.strip().split('\n')
                res['checks'][pid] = {
                    'exit': p.returncode,
                    'violation_lines': [l for l in out if l.startswith('VIOLATION')],
                    'summary': out[-1] if out else '',
                    'caught': p.returncode == 1 and any(l.startswith('VIOLATION') for l in out),
                    'with_failing_input': any(l.startswith('VIOLATION') and 'no-failing-input-found' not in l
                                              for l in out),
                }
                # keep one replay as documentation
                for l in out:
                    if l.startswith('VIOLATION'):
                        rp = l.split('replay=')[1].split()[0]
                        try:
                            rj = json.load(open(os.path.join(VERIF, rp)))
                            res['checks'][pid]['replay_example'] = {k: rj.get(k) for k in
                                                                    ('cases', 'what', 'impl_readable',
                                                                     'model_readable', 'broken_proof_obligations')}
                        except Exception:
                            pass
                        break
    finally:
        if in_repo:
            sh('git -C /repo checkout -- .')
        else:
            sh(f'git -C /repo worktree remove --force {wt}')
        # regenerate tables from the real /repo so the tree is back to normal
        sh("/venv/bin/python -c 'import sys, fcntl; sys.path.insert(0, \".\"); "
           "l = open(\"lean/.session.lock\", \"w\"); fcntl.flock(l, fcntl.LOCK_EX); "
           "from harness import tables; tables.generate()'", cwd=VERIF)
    json.dump(res, open(os.path.join(d, 'result.json'), 'w'), indent=1)
    print(json.dumps({k: (v if k != 'checks' else {p: (c['caught'], c['with_failing_input'], c['summary'])
                                                   for p, c in v.items()}) for k, v in res.items()
                      if k != 'demo_output'}, indent=1))


if __name__ == '__main__':
    main()

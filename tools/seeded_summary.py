#!/usr/bin/env python3
"""print one line per seeded change from seeded/*/result.json"""
import glob, json, sys
pat = sys.argv[1] if len(sys.argv) > 1 else '*'
for f in sorted(glob.glob(f'/verif/seeded/{pat}/result.json')):
    r = json.load(open(f)); d = f.split('/')[-2]
    if not r['checks']:
        print(d, 'NOT RUN', r.get('apply_error', '')[:150]); continue
    for p, c in r['checks'].items():
        print(f"{d:8s} {p} {'caught' if c['caught'] else 'MISSED':6s} {'input' if c['with_failing_input'] else 'no-input':8s} demo {r.get('demo_without_change')}/{r.get('demo_with_change')} | {c['summary'][-125:]}")

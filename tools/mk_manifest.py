#!/venv/bin/python
"""Regenerates MANIFEST.json from the property modules present in harness/props (run from /verif)."""
import importlib
import json
import os
import sys

sys.path.insert(0, '.')
ALL = [f'C{i:02d}' for i in range(1, 21)]
HOOK_COMMITS = [l.strip() for l in open('tools/hook_commits.txt')] if os.path.exists('tools/hook_commits.txt') else []
checks, na = [], []
REGISTERED = set(open('tools/registered.txt').read().split())
for pid in ALL:
    path = f'harness/props/{pid.lower()}.py'
    if not os.path.exists(path) or pid not in REGISTERED:
        na.append({'property_id': pid,
                   'reason': 'not claimed yet: model/theorems/correspondence for this property are not built in '
                             'this tree (the technique applies; see DESIGN.md §7 for the plan)'})
        continue
    mod = importlib.import_module(f'harness.props.{pid.lower()}')
    if getattr(mod, 'NOT_CLAIMED', None):
        na.append({'property_id': pid, 'reason': mod.NOT_CLAIMED})
        continue
    checks.append({
        'property_id': pid,
        'quick_cmd': f'./check {pid} --tier quick',
        'thorough_cmd': f'./check {pid} --tier thorough',
        'evidence_file': f'evidence/{pid}.json',
        'replay_cmd_template': f'./check {pid} --replay {{path}}',
        'engine': 'lean4-proof+correspondence',
        'level_claimed': {
            'category': 'proof',
            'text': getattr(mod, 'LEVEL_TEXT', None) or (
                f'Lean 4 theorems ({len(mod.THEOREMS)} obligations in {mod.LEAN_MODULE}) prove the property for all '
                'inputs of a hand-written executable model; the model is tied to /repo on every run by a differential '
                'correspondence check (compiled model driver vs the real pycel on generated inputs) and by '
                'regenerating the tables the theorems use from the live source.'),
            'design_ref': mod.DESIGN_REF,
        },
        'level_note': 'Trusted: Lean 4.33 kernel, axioms propext/Classical.choice/Quot.sound only, the correspondence '
                      'harness and its generators, the table translator, the Lean compiler running the driver. '
                      + ' '.join(mod.ASSUMPTIONS),
        'technique': getattr(mod, 'TECHNIQUE', 'Lean 4 machine-checked proof over an executable model + differential '
                                               'correspondence with the implementation'),
    })
manifest = {
    'version': 1,
    'setup_cmd': './setup.sh',
    'hooks': {
        'guard': 'PYCEL_VERIF',
        'enable': 'PYCEL_VERIF=1 in the environment of the harness (set by harness/core.py); pycel is imported from '
                  '/repo/src, no build step',
        'baseline_off_cmd': 'cd /repo && env -u PYCEL_VERIF /venv/bin/python -m pytest -ra -q -p no:cacheprovider '
                            '--timeout=900 --continue-on-collection-errors',
        'source_commits': HOOK_COMMITS,
        'add_only': True,
    },
    'engines': [{
        'name': 'lean4-proof+correspondence', 'path': 'check',
        'serves_properties': [c['property_id'] for c in checks],
        'kind_free_text': 'lake project lean/ (models, lemmas, property theorems, compiled model driver) + Python '
                          'harness (harness/core.py) running the real pycel and the driver on the same inputs',
    }],
    'checks': checks,
    'not_applicable': na,
    'notes': 'Known findings and repaired defects: known_findings.txt. Seeded breaking changes: seeded/<id>/. '
             'Exit codes: 0 held, 1 VIOLATION, 2 inconclusive (timeout / tool failure).',
}
json.dump(manifest, open('MANIFEST.json', 'w'), indent=1)
print('checks:', [c['property_id'] for c in checks], 'not claimed:', [n['property_id'] for n in na])

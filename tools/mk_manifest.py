#!/venv/bin/python
"""Regenerates MANIFEST.json from the property modules present in harness/props (run from /verif)."""
import importlib
import json
import os
import sys

sys.path.insert(0, '.')
ALL = [f'C{i:02d}' for i in range(1, 21)]
HOOK_COMMITS = [l.strip() for l in open('tools/hook_commits.txt')] if os.path.exists('tools/hook_commits.txt') else []

# per-property statement of what is proved and what is only checked differentially (kept here so that the coordinator owns it)
SCOPE = {
 'C01': 'Proved for every workbook/history/value type: evaluate after any set_value/evaluate history (incl. range and list forms) = from-scratch value, from the three initial configurations; the soundness hypothesis on set_value\'s equality test is shown necessary. By correspondence only: iterative mode is C06; set_as_range, writes over formula cells, CSE arrays and computed references are outside the model.',
 'C02': 'Proved: the live precedence table is the statement\'s; shunting-yard + AST build invert the grammar for every well-formed surface expression; the emitted Python parses to the same tree (for emittable trees); literals denote themselves; composition for every run-time semantics incl. the C10 operator semantics the driver runs. By correspondence only: array literals, reference operators, ROW/COLUMN/OFFSET/INDIRECT/SUBTOTAL handlers, openpyxl\'s tokenizer, CPython\'s parser (cross-checked against ast.parse on every run).',
 'C03': 'Proved: cell codec round trip (partial: text constants starting with "=" — counterexample theorem, known finding), determinism/order independence as a mapping, byte idempotence under distinct sort keys, key order of the document, pickle freshness under the digest contract, loaded model satisfies the engine invariant hence behaves like the original under every history. Codecs (yaml/json/pickle), md5 and subprocess/thread configurations are contracts validated by the correspondence run.',
 'C04': 'Proved: scanner completeness for written references, run-time reads covered by declared precedents for every semantics, edges after any completed or aborted build pass, ancestors ⊇ influence. `written` carries decidable side conditions (documented). The read trace is taken from outside /repo; reads is defined on the formula tree and tied to the emitted code by the token/trace diff.',
 'C05': 'Proved: order/permutation independence, idempotent repeat, every access path (cell, any enclosing rectangle, clipped unbounded row/column, list/tuple/generator, sheet-less) equals the from-scratch value; clip = code\'s intersection for every used area. Oracle-only (no Lean counterpart): CSE-array and structured-table-reference workbooks.',
 'C06': 'Proved: pass bound, honest stop (≤ (1+rel)·tol with the live rel/operator/defaults), contraction of pycel\'s depth-first pass for any linear system with ‖A‖∞ ≤ q, the fixed-point bound and their join (result within q/(1−q)·(1+rel)·tol), agreement with plain evaluation on acyclic workbooks along every history. Formulas are reads + combiner; matching that to compiled read order rests on the correspondence.',
 'C07': 'PARTIAL by nature. Proved for the bookkeeping model: frame, isolation under every schedule and any number of threads, fresh-thread safety, with the placement of every piece of state (thread-local vs shared, lazily created attributes) measured behaviourally from the live code on every run and re-proved isolating; isolation under the live placement excludes call-time reads of the shared func-meta name_space (counterexample theorem = known finding). Not expressible: preemption inside one API method or `ctr += 1`, the GIL, numpy threads — the deterministic two-thread scheduler explores switches at cell-evaluation and tracker/context-API granularity only.',
 'C08': 'Proved: outputs of the trimmed (and reloaded) model equal the untrimmed model\'s under every assignment of the inputs incl. buried inputs; frozen cells hold their trim-time value; exact error condition; the trimmed state satisfies the C01 invariant. A second trim, trim on loaded/.xlsx models and writes over inputs that keep a formula are checked between real models only.',
 'C09': 'Proved: after a failing evaluate the invariant holds and all transient state is restored; retry and dependants fail again with a pycel class, never stale, never a bare assertion; unrelated cones evaluate to denote; repair = fresh model. Iterative mode: wip/transient restoration for every graph, and retry of the failing cell and of every dependant that reaches it through formula cells fails again (C09_iter_dependant_fails/_retry). Whole-column/intersection/defined-name readers are oracle-only.',
 'C10': 'Proved for arbitrary numeric kernels: totality under the Finite hypothesis, error propagation left-first, coercion clauses, #DIV/0!, renderings of &, one total order with trichotomy/complements/rank/case-insensitivity/blank neutrality, transitivity on non-blank triples (counterexample with blank). For the concrete float kernels finiteness on moderate operands and IEEE rounding are validated by the exhaustive pool correspondence only.',
 'C11': 'Proved: column-letter and sheet-quote round trips, print/parse round trip for every address with a sheet name without "!" (partial; counterexample = known finding), notations agree, cells count/membership, intersection/union lattice laws incl. unbounded operands and mixed sheet qualification, offsets wrap at the live limits. Relative R1C1 ranges, AddressMultiAreaRange and defined names by correspondence only.',
 'C12': 'Proved on the model of the work-list: termination, soundness on consistent files, completeness for a perturbed reachable cell, blame, no silent skip with the code\'s skip rules as explicit exclusions. Every cell listed under exceptions/not-implemented is, or transitively reads, a formula that raises that class (C12_failed_blame). Whole-column references and interrupted builds are oracle-only; logical-vs-number and stored "" are known findings.',
 'C13': 'Proved for all shapes and any scalar operation: pointwise lifting under every broadcasting case, explicit failure on incompatible shapes, pointwise lifted functions, exact target shape, trim/repeat/#N/A element law, context stack discipline for nested evaluations, member = element. numpy broadcasting and openpyxl ArrayFormula storage are modelled by hand and validated by the exhaustive shape enumeration.',
 'C14': 'Proved for all lists/arrays: numeric-only, first error, permutation/reshape invariance (under at most one distinct error; counterexample otherwise), additivity, AVERAGE = SUM/COUNT, MIN/MAX, SUBTOTAL against the live dispatch table, SUMPRODUCT. Float rounding beyond dyadic inputs is outside the exact model (tolerant compare for AVERAGE only).',
 'C15': 'Proved: live operator table, satisfaction relation per type, wildcard matcher = declarative definition, selection = exactly the matching positions, …IFS₁ = …IF, criteria commute under any permutation, =x / <>x partition, AVERAGEIFS = SUMIFS/COUNTIFS, totality. Numeric text under numeric criteria is a test-pinned known finding.',
 'C16': 'Proved for all vectors/tables: the Excel order is a strict total order, bisect_right specification, exact match = first position, approximate matches on sorted data, VLOOKUP/HLOOKUP/LOOKUP = INDEX∘MATCH, transpose law, out-of-range indices. Choice among duplicates of the answer value is left to the code (ungoverned).',
 'C17': 'Proved algebraically for every integer day (no sweep): calendar bijection, DATE∘(YEAR,MONTH,DAY) = id on 0…2958465 with the 1900 quirks, weekday period, carry for all integer months/days, EOMONTH/EDATE, YEARFRAC symmetry, H/M/S on every whole second and the range theorem, #NUM! outside the range. "Nearest second" off whole seconds, text/logical coercions and YEARFRAC values (1e-12) are differential only.',
 'C18': 'Proved for all integers/texts: round trip on each signed 10-digit range against the live masks, two\'s complement rendering, composition, places, rejection of out-of-range/alphabet/length/kind. Python int()/bin()/oct()/hex() are modelled by hand.',
 'C19': 'Proved for every rational x and integer d: ROUND nearest multiple with ties away, ROUNDDOWN/ROUNDUP bracket and fix multiples, TRUNC, INT = floor, MOD identity and sign, CEILING/FLOOR families adjacent multiples, EVEN/ODD. The float↔decimal reading (shortest repr) is checked per case by the harness.',
 'C20': 'Proved for all texts and integer positions: slicing partition identities, FIND first match, SUBSTITUTE all/i-th, CONCATENATE = &, TRIM, idempotence, EXACT, number rendering, negative counts, TEXT rounding/grouping/percent for the canonical format grammar. UPPER/LOWER beyond Latin-1 and formats outside the grammar are checked/unsupported, not proved.',
}
checks, na = [], []
REGISTERED = set(open('tools/registered.txt').read().split())
for pid in ALL:
    path = f'harness/props/{pid.lower()}.py'
    if not os.path.exists(path) or pid not in REGISTERED:
        na.append({'property_id': pid,
                   'reason': 'not claimed yet: model/theorems/correspondence for this property are not built in '
                             'this tree (the technique applies; see DESIGN.md §7 for the plan)'})
        continue
    mod = importlib.import_module(f'harness.props.{pid.lower()}')
    if getattr(mod, 'NOT_CLAIMED', None):
        na.append({'property_id': pid, 'reason': mod.NOT_CLAIMED})
        continue
    checks.append({
        'property_id': pid,
        'quick_cmd': f'./check {pid} --tier quick',
        'thorough_cmd': f'./check {pid} --tier thorough',
        'evidence_file': f'evidence/{pid}.json',
        'replay_cmd_template': f'./check {pid} --replay {{path}}',
        'engine': 'lean4-proof+correspondence',
        'level_claimed': {
            'category': 'proof',
            'text': (f'{len(mod.THEOREMS)} Lean 4 theorems in {mod.LEAN_MODULE} about a hand-written executable model, '
                     'kernel-checked and axiom-audited on every run; the model is tied to /repo on every run by a '
                     'differential correspondence check (compiled model driver vs the real pycel on generated inputs), '
                     'by property oracles on implementation outputs, and by regenerating the tables the theorems use '
                     'from the live source. ' + SCOPE[pid]),
            'design_ref': mod.DESIGN_REF,
        },
        'level_note': 'Trusted: Lean 4.33 kernel, axioms propext/Classical.choice/Quot.sound only, the correspondence '
                      'harness and its generators, the table translator, the Lean compiler running the driver. '
                      + ' '.join(mod.ASSUMPTIONS),
        'technique': getattr(mod, 'TECHNIQUE', 'Lean 4 machine-checked proof over an executable model + differential '
                                               'correspondence with the implementation'),
    })
manifest = {
    'version': 1,
    'setup_cmd': './setup.sh',
    'hooks': {
        'guard': 'PYCEL_VERIF',
        'enable': 'PYCEL_VERIF=1 in the environment of the harness (set by harness/core.py); pycel is imported from '
                  '/repo/src, no build step',
        'baseline_off_cmd': 'cd /repo && env -u PYCEL_VERIF /venv/bin/python -m pytest -ra -q -p no:cacheprovider '
                            '--timeout=900 --continue-on-collection-errors',
        'source_commits': HOOK_COMMITS,
        'add_only': True,
    },
    'engines': [{
        'name': 'lean4-proof+correspondence', 'path': 'check',
        'serves_properties': [c['property_id'] for c in checks],
        'kind_free_text': 'lake project lean/ (models, lemmas, property theorems, compiled model driver) + Python '
                          'harness (harness/core.py) running the real pycel and the driver on the same inputs',
    }],
    'checks': checks,
    'not_applicable': na,
    'notes': 'Known findings and repaired defects: known_findings.txt. Seeded breaking changes: seeded/<id>/. '
             'Exit codes: 0 held, 1 VIOLATION, 2 inconclusive (timeout / tool failure).',
}
json.dump(manifest, open('MANIFEST.json', 'w'), indent=1)
print('checks:', [c['property_id'] for c in checks], 'not claimed:', [n['property_id'] for n in na])

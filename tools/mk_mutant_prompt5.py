#!/usr/bin/env python3
"""tools/mk_mutant_prompt.py CXX <n> <suffix> -> creates worktree /tmp/mut/CXX-<suffix> and prints the sub-agent prompt"""
import json, subprocess, sys
pid, n, suf = sys.argv[1], sys.argv[2], sys.argv[3]
wt = f'/tmp/mut/{pid}-{suf}'
subprocess.run(f'mkdir -p /tmp/mut && git -C /repo worktree add --detach {wt} HEAD -q', shell=True, check=True)
for l in open('/verif/properties.jsonl'):
    d = json.loads(l)
    if d['id'] == pid:
        break
t = open('/verif/notes/mutant_prompt5.txt').read()
print(t.replace('{WT}', wt).replace('{TITLE}', d['title']).replace('{STATEMENT}', d['statement'])
      .replace('{N}', n).replace('{PID}', pid))

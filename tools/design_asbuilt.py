import re
AS = {}
AS['C01'] = """**As built.** Model `Model/Engine.lean` (workbook = DAG in topological order, polymorphic in value type `α` and in any
`Local` formula semantics; `setValue` with the equality test as parameter, `resetF` = `_reset`, build-on-demand `buildF`,
eager range evaluation, `evaluate`, `denote`, extended ops `setMany`/`evalMany` for the range/list forms of both calls),
instance `Model/EngineInst.lean` (ref & + − = SUM COUNT INDEX and the intersection form `SUM(r1 r2)` over `Val`). The reset walk
follows `_reset` as it is since /repo fix f32e634 (passes through an empty range node); `C01_reset_passthrough_same_under_inv`
proves it equal to the old walk on every state satisfying the invariant and `C01_reset_passthrough_counterexample` shows the old
walk leaving a stale dependant off the invariant. 29 theorems in `Props/C01.lean`:
`C01_coherence` / `C01_outputs` / `C01_coherence_ext` (any history, any `Inv` start state), `C01_inputs_current` under the
forced hypothesis `eqv a b = true → a = b` with `C01_eqv_sound_needed`, `pyEq_not_sound` (0 vs FALSE), `tolEq_not_sound`
(1000000 vs 1000001) and `typedEq_sound`; `C01_reset_spec`, `C01_setValue_inv`, `C01_evaluate_inv`; the three configurations
`C01_init_nodata_inv`, `C01_init_stored_inv`, `C01_init_loaded_inv` (+ `C01_stored_by_evaluation`); counterexamples for the two
other corrections (`C01_blank_write_counterexample`, `C01_stale_stored_counterexample`); `C01_coherence_inst` for the driver's
instance. Nothing is `_partial`. Correspondence: random DAG workbooks (1-D/2-D ranges, ranges over formulas reading ranges,
cross-sheet, quoted sheet, defined names), histories of 1–25 ops incl. near-equal writes, range/list writes, list evaluates, in
five configurations (in-memory, .xlsx with stored results via `harness/xlsxwriter_min.py`, yml/json/pkl); exhaustive core = all
histories of length ≤ 3 (quick) / ≤ 4 (thorough) over a 7-op alphabet on 4 fixed workbooks. Oracle = fresh compile at the
current inputs. quick 3 853 cases ≈ 25–40 s; thorough 33 411 cases ≈ 300 s. Out of scope (ASSUMPTIONS): iterative mode (C06),
`set_as_range`, writes over formula cells, CSE arrays, computed references."""
AS['C02'] = """**As built.** Model `Model/Formula/{Syntax,Parse,Emit,PyGrammar,Surface}.lean`; precedence/associativity table, `op_map`,
`func_map`, `ADDR_FUNCS_NAMES` regenerated into `Generated/Prec.lean`; `Formula/OpsSem.lean` instantiates the evaluator with C10's
operator semantics and a few exactly-defined functions (`libCall`); the live `func_*` handler list is a generated table. 22
theorems (`C02_handlers` breaks when a new emission handler appears; `C02_sound_ops` = the composition with exactly the semantics the driver runs): `C02_levels`, `C02_left_assoc`,
`C02_table_is_spec` (the LIVE table equals the statement's levels — seeded change C02-m3, which regrouped `&` with `+ -`, broke
these by evaluation: theorems 0/20); `C02_amend`, `C02_parse`, `C02_parse_raw` (shunting-yard inverts the grammar for every
well-formed surface expression incl. prefix −, postfix %, 12 binary operators, parentheses, calls with any argument count and
missing arguments), `C02_build`, `C02_parse_tree`; `C02_emit : pyParse (emit e) = some (toPy e)` for every emittable tree with
`emit_current_counterexample` (`-2 ** 2`); `C02_literal_text` (every `List Char`), `C02_number`, `C02_literal_logical`,
`C02_literal_error` with counterexamples for the pinned code; `evalPy_toPy`, `C02_sound`, `C02_sound_raw` (composition, for every
run-time semantics). Partial by hypothesis `Expr.emittable`: array literals, ROW/COLUMN/OFFSET/INDIRECT/SUBTOTAL handlers and the
reference operators `: space ,` are in the parser model but outside `C02_emit` (correspondence only). Correspondence: `surf`
cases (tree → rendered formula with redundant parentheses/whitespace/name case; tokens, rpn, ast, python_code tokens, CPython
`ast.parse` vs `pyParse` and `toPy`, value), `raw` cases (fixed and mutated strings), `py` cases (random Python-fragment token
lists vs CPython). Every rendered formula is also EVALUATED (`eval_formula` vs `opsSem`) over a 29-value mixed-type environment
pool and 19 precedence templates, so precedence/associativity defects show as value differences. Exhaustive depth ≤ 2, random to
depth 5. quick ≈ 18 760 cases ≈ 15–45 s; thorough ≈ 109 700 ≈ 65–95 s."""
AS['C03'] = """**As built.** Model `Model/Persist.lean` on top of the C01 engine (`encodeCell/decodeCell`, `serialize` sorted by Python's
tuple order, ordered document `toDoc` vs `toDocAsWritten`, `load`, `textChanged`, codec as parameter with contract
`Codec.Faithful`, digest with contract `DigestFaithful`). 34 theorems: `C03_cell_roundtrip_partial` + `C03_text_eq_counterexample` + `C03_eq_hypothesis_forced` (a
constant survives iff its text does not start with '='), `C03_serialize_content/_sorted`, `C03_order_independent_map/_bytes` +
`C03_order_counterexample` (cell and CSE range with the same corner), `C03_save_twice_identical`, `C03_pickle_not_rewritten`,
`C03_save_twice_asWritten_counterexample`, `C03_idempotent_map/_bytes`, `C03_carried`, `C03_loaded_inv`,
`C03_observational(_outputs/_X/_inst)` through the C01 coherence argument, `C03_pickle_fresh(_step)` +
`C03_weak_digest_counterexample`, `C03_doc_keys(_after_add)` (top-level key order as a function of the user's dict). Correspondence: C01 DAG generator + ~80 hostile
scalars × {yml, json, pkl} × {cycles on/off} × {same thread, fresh thread, fresh subprocess} × {in-memory, .xlsx with hash} ×
extra_data; save twice (bytes), re-save (mapping and order), post-load histories on both models; loaded-vs-original oracle is
exact; `hash:*` histories (workbook file modified before save / between save and load / before re-save), `pk:*` histories
(to_file → set_value → to_file → from_file of each extension, small and multi-MiB models), `xd` histories (in-place mutation of
extra_data between saves), `unbounded` family. quick 422 cases ≈ 25–40 s; thorough ≈ 2 270 ≈ 250–300 s."""
AS['C04'] = """**As built.** Model `Model/Needed.lean` (imports C02's Formula and C11's Addr): `resolve`, `emitN` (all reference forms incl.
intersection `_R_(str(_REF_ & _REF_))`, union, `_build_reference`, ROW/COLUMN/OFFSET/INDIRECT/SUBTOTAL handlers, multi-area
names), `scan` = `needed_addresses`, `evalT/reads`, decidable `written`, `genGraph` = `_process_gen_graph`; tables
`Generated/RefMeta.lean`. 13 theorems: `handlers_spec`, `addr_funcs_spec`, `ref_params_spec`, `C04_scan_context`,
`C04_scan_complete`, `C04_reads_covered` (for every semantics, environment, failing or not), `C04_edges`,
`C04_edges_after_abort`, `C04_range_members`, `C04_ancestors`, `C04_influence`, `written_satisfiable`, `computed_not_written`;
`litSafe` documents what `scan` assumes about the characters inside the address literal.
`written` carries decidable side conditions (address text is a fixed point of the emitter's textual `_R_`/`_C_` → `_REF_`
replacement; intersection operands read back as addresses). NO hook commit was needed: the read trace is taken from outside by
replacing the compiler instance's `_evaluate/_evaluate_range/_eval` before the eval context binds them. Correspondence: formula
cases (every reference form × wrappers × home sheets × environments: needed = scan(emit), tokens = emit, traced reads = reads,
dep_graph edges = genGraph), workbook cases (non-ancestor change leaves X unchanged; ancestor change agrees with fresh compile),
construction histories (all ordered pairs of 8 spellings of a column/row, 24 orders, unbuildable formulas × parents ×
follow-ups) with the edge/ancestor/stale/node-identity oracles after EVERY step; 30 hostile sheet titles × 12 reference forms;
degenerate used areas (one cell / row / column) × build orders. quick 2 144 cases ≈ 20–50 s; thorough 5 829 ≈ 45–80 s."""
AS['C05'] = """**As built.** Model `Model/Access.lean` (access paths, `trimDims`, `clip`, `Layout`, `denotePath`) on Engine + Addr. 28 theorems:
order (`C05_order`, `_perm`, `_outputs`, `_with_writes`, `C05_built_irrelevant`, `C05_configurations`), repeat (`C05_repeat*`),
paths (`C05_path_coherence/_order/_outputs`), `C05_range_elem` (every rectangle containing the cell), `C05_trim_shapes/_elem`,
`C05_unbounded_cells/_elem`, `C05_clip_is_inter_cols/_rows` (full statements since the C11 repair of unbounded intersection; the
former finding `unbounded.maxedge` is fixed), `C05_list`, `C05_sheetless_*`, driver instance. Nothing is `_partial`. Correspondence: all
720 first-evaluation orders on three fixed 6-cell workbooks followed by a read-out through every path; 24 × 5 set_value
positions; 120 mixed-path orders; random DAGs; in-memory / saved file / stored results. Oracle: fresh compiler per cell;
read-out identical across permutations. Oracle-only families (no Lean counterpart, stated in ASSUMPTIONS): CSE arrays with
context-sensitive plain precedents in all 24 orders, structured table references with identical formula text (`sametext`,
incl. model-to-model leakage in one process). quick ≈ 3 080 cases ≈ 30–50 s; thorough ≈ 17 240 ≈ 270 s."""
AS['C06'] = """**As built.** Model `Model/Iter.lean` (tracker, `_CycleCell`, `close_enough`, depth-first `_evaluate`, pass loop, setting
resolution, histories, `denote`), constants (`rel`, comparison operator, 10000, 0.01) regenerated into
`Generated/IterConsts.lean` from signatures/bytecode. 13 theorems: `C06_consts`, `C06_default_limits`, `C06_bounded(_generic/_arg)`,
`C06_stop_honest` (≤ (1+1/100000)·tol — the code's rule after fix c457f68), `C06_fixed_point_bound(_cells)`,
`C06_pass_contracts` (any x = Ax+b with ‖A‖∞ ≤ q ≤ 1, any topology incl. ranges — not only two cells), `C06_result_bound` (the
join: stopped early ⇒ every computed cell within q/(1−q)·(1+rel)·tol of x*, full strength; `_partial` variant kept),
`C06_acyclic`, `C06_acyclic_history`. Correspondence: degenerate configurations, (iterations, tolerance) grids, 360 small
systems, random 2–4 cell contracting systems with ranges/inputs/set_value, acyclic DAGs, exact-tie cases on the tolerance
boundary, the shipped circular.xlsx; pass counts through a counting plugin. quick ≈ 1 100 cases ≈ 10–35 s; thorough ≈ 4 700
≈ 45–65 s."""
AS['C07'] = """**As built (partial by nature).** Model `Model/Threads.lean`: small-step machine over per-thread locals (tracker + array
context), one workload per thread, shared store (`_Cell.ctr`, FUNC_META `name_space`); WHERE each piece of state lives is a
`Placement` table measured behaviourally from the live code by `harness/tablegen/c07.py` (two-thread visibility probes through
the public API, container identity across threads, lazily created attributes, the `__call__`→`__enter__` hand-over). 19
theorems: `C07_frame(_code)`, `C07_step_local`, `C07_isolation` (every schedule, any number of threads, induction over σ),
`C07_isolation_code/_prop/_two`, `C07_fresh_thread(_interleaved/_code)`, table theorems `C07_code_isolating`,
`C07_code_lazy_complete`, `C07_code_ctx_fresh`, `C07_shared_enumeration` (re-proved against the measured table on every run), and
sensitivity counterexamples (`C07_global_tracker_/global_ctx_/shared_meta_counterexample`, `C07_fresh_thread_counterexample`).
Correspondence: deterministic baton scheduler over two real `threading.Thread` workloads yielding at every `_evaluate` entry (and,
in the "fine" family, after every tracker/context API call) — harness monkeypatches only, no hook commit; workloads iterative
(different iterations/tolerances), CSE arrays, plain, CELL-over-reference; every (j, k) up to the workload length in thorough;
fresh vs warmed threads; each thread's values and pass counts vs its solo run. quick 1 096 cases ≈ 20–35 s; thorough 16 520
≈ 300–370 s. NOT expressible (named in evidence): preemption inside one API method or inside `ctr += 1`, the GIL, numpy's
threads."""
AS['C08'] = """**As built.** Model `Model/Trim.lean` on the Engine workbook (`genGraph`, `inputCells`, `dependants`, `needed`, `live/frozen/keep`,
`evalFrozen`, `freeze`, `trim`, `trimAsWritten`, `cutAt/override` for buried inputs, `reloadWb`; driver instance
`Model/TrimInst.lean`). 26 theorems incl. `C08_failed_trim_atomic` (a rejected trim leaves the model as an `evaluate(outputs)`
would), `C08_retrim_ready/_preserves` (second trims),
`C08_independent`, `C08_depOn_iff`, `C08_frozen_value/_constant`, `C08_preserves` (for every cut set C ⊆ inputCells and values v,
`evaluatedAtTrim` discharged by `trim_ok`, not assumed), `C08_preserves_of_evaluatedAtTrim`, `C08_asWritten_counterexample`,
`C08_wf` (every kept cell, since fix 732f470), `C08_persist(_commutes)`, `C08_error_iff`, `C08_trim_inv`, `C08_trimmed_engine`.
Correspondence: three real compilers with the same pre-history — trimmed T, T after to_file/from_file (L), untrimmed U; status,
`set(cell_map)`, frozen cells, every output per round; exhaustive core = fixed 8-node workbook × every input list of size 1–2 ×
every output × 3 configurations; float-valued workbooks (0.1+0.2, 1/3, 16–17-digit values) with threshold outputs, T = L = U
compared EXACTLY. quick 1 534 cases ≈ 16–22 s; thorough 15 870 ≈ 170–220 s."""
AS['C09'] = """**As built.** Model `Model/Failure.lean` on Engine (`State (Except Fail α)`, lifted semantics, `Sem` with raise / raise-on-k-th
call / captured-message counts / CSE flag, exception mapping of `eval_func`, transient state `errs`/`ctx`/`graphTodos`/
`rangeTodos`/`calls`, `Discipline` asWritten vs repaired, iterative one-pass `evalI` with wip flags). 24 theorems: `C09_inv`,
`C09_inv_history`, `C09_never_stale`, `C09_retry`, `C09_dependant_fails`, `C09_unrelated(_cone)`, `C09_repair(_fresh)`,
`C09_repaired_balanced` vs `C09_asWritten_not_balanced` + `C09_assert_counterexample`, `C09_iter_restored`,
`C09_iter_wip_counterexample`, `C09_iter_dependant_fails` / `C09_iter_dependant_retry` (every graph, cycles allowed: a cell that
reaches the broken cell through formula cells raises again, never a value, never a bare assertion). Nothing is partial any more. Correspondence: fixed workbooks × every formula cell failing × fault kinds × histories, random DAGs with
ranges/CSE/captured #VALUE!, plain and iterative; oracle = fresh compiler of the repaired workbook; exception classes
canonicalised to `pycel:*` / `bare:*`; 13 exception classes × 9 argument shapes, hostile formula text, whole-column / intersection /
defined-name readers (oracle-only), ≥ 3 retries before and 2 after the repair. quick 996 cases ≈ 20–30 s; thorough 6 854 ≈ 2.5 min."""
AS['C10'] = """**As built.** Model `Model/Ops.lean` (shared by C13/C15/C20): `f64` (binary64 round-to-nearest-even on `Rat`), `parseNum?`,
`coerceToNumber`, `renderNum` (Python shortest repr), `coerceToString`, `typeCmpValue`, `cmpVals`, `fixup` with numeric kernels as
outcome classes (`mapK`: ZeroDivision → #DIV/0!, overflow/complex → #NUM!). 24 theorems for ARBITRARY kernels: `tables_agree`,
`C10_total` (hypothesis `Kernels.Finite`; for the concrete `pyKernels` finiteness on moderate operands is checked only by the
correspondence run), `C10_never_blank`, `C10_err_left/right`, `C10_arith_coerce/_kinds`, `C10_other_text_value`, `C10_neg`,
`C10_pct`, `C10_div0`, `C10_concat_render`, `C10_cmp_result`, `C10_trichotomy` (all pairs, blanks included), `C10_complements`,
`C10_rank`, `C10_ci`, `C10_blank_neutral`, `C10_trans(_vals)` + `C10_trans_blank_counterexample`,
`C10_total_pinned_counterexample`. Correspondence: 12 binary operators over pool² (94 values) in cell and literal mode, unary − and
%, `^` outcome grid, near-equal clusters (±ulps, beyond 2^53, −0.0) under all six comparisons, random doubles and numeric text;
inexact kernels compared with `num_close` 1e-12, everything else exactly. quick ≈ 61 800 cases ≈ 20–37 s; thorough ≈ 288 000
≈ 100–150 s."""
AS['C11'] = """**As built.** Model `Model/Addr.lean` (cells, rectangles with 0 = unbounded, `Res`, printers for coordinate/abs/address/
quoted/R1C1, a parser following `AddressRange.create` line by line, `&`/`**` on operands, offsets), limits and R1C1 combos
regenerated into `Generated/AddrLimits.lean`. 50 theorems (incl. `C11_operand_assoc_sheets`, `C11_r1c1_abs_range`, `C11_cells_sheet`, `C11_cells_resheet`, `C11_resheet` —
enumeration is a function of the address value alone —, `C11_inter_spec_unbounded`, `C11_inter_cells_unbounded` for
whole-row/column operands and the mixed-sheet laws `C11_sheet_rule`, `C11_comm_sheets`, `C11_assoc_sheets`,
`C11_union_assoc_all_sheets`): `limits_spec`, `C11_col_roundtrip` (every n), `C11_sheet_quote_roundtrip`,
`C11_print_parse_cell/_range`, `C11_print_parse_partial` + counterexample (sheet name containing `!` — known finding
`sheet.bang`), `C11_r1c1_abs/_rel`, `C11_notations_agree`, `C11_cells_count/_mem/_nodup`, `C11_inter_spec/_null_iff/_cells`,
`C11_union_bounding/_least`, comm/idem/assoc for both with #NULL! intermediates, `C11_operand_assoc`, `C11_offset_range/_period/
_add/_zero/_wrap_boundary`. Correspondence: boundary columns/rows × 26 sheet names × 5 printed forms, 6 notations from every
anchor on a 3×3 (4×4 thorough) grid, all 10⁴ ordered pairs of the 100 rectangles of the 4×4 grid, all triples, offsets with wrap,
malformed stream (every string ≤ 3/4 chars over 12 characters + mutations), unbounded operands against rectangles touching XFD /
row 1048576, mixed sheet qualification on pairs and triples. quick ≈ 48 600 cases ≈ 10–26 s; thorough ≈ 181 000 ≈ 80 s."""
AS['C12'] = """**As built.** Model `Model/Validate.lean` + `ValidateInst.lean` on the Engine workbook: the LIFO work-list exactly as coded
(reset without dependants, recompute from whatever the precedents hold now, value left behind, later mismatch overwrites), report
classes, `close_enough` on `Val`. 17 theorems: `C12_terminates`, `C12_sound(_mismatch/_engine/_inst)`, `C12_complete`, `C12_blame`,
`C12_blame_total`, `C12_failed_blame` (every cell listed under exceptions/not-implemented is, or transitively reads, a formula that raises that
class; `_set` corollary; `C12_failed_justified` kept), `C12_no_skip(_reach)` with the skip rules as explicit exclusions, `closeVal_refl`, `closeVal_tol_zero`,
`closeVal_logical_number`, `C12_strict_tol_counterexample`. Correspondence: real `validate_calcs` on .xlsx files written by
`xlsxwriter_min` with stored results from a fresh evaluation; each formula cell perturbed in turn (far / just beyond / within
tolerance, text, logical, logical↔equal number, error, blank, "", formula text) × tolerance {None, 0, 1/1024, 1/2, 2} × outputs ×
verify_tree; raising cells (plugin ValueError / NotImplementedError / unknown function); magnitude stream (1e-12 … 1e15, just
inside/outside each branch of the default rule); oracle-only streams for whole-column references and interrupted builds. quick
≈ 2 300 cases ≈ 13–17 s; thorough ≈ 18 000 ≈ 100 s."""
AS['C13'] = """**As built.** Model `Model/Arrays.lean`, polymorphic in the scalar operation: `arrayFixup` (numpy broadcasting), `cseWrap`,
`fitToRange`, CSE member expansion, context stack `runForest`. 28 theorems for ALL shapes: `C13_pointwise_op` + per-case
corollaries, `C13_op_incompatible`, `C13_pointwise_fn`, `C13_fit_shape`, `C13_fit_elem` (trim / repeat / #N/A in one closed form)
+ named clauses, `C13_ctx_stack`, `C13_nested_fit`, `C13_member(_range/_nonblank)`, `C13_members_table`, `C13_single_cell`,
`C13_cse_meta` (against the live `excel_helper` metadata). Correspondence: all 17² operand-shape pairs × 11 operators, functions on
every shape with scalar/equal/unequal partners, fit on 17 result shapes × 16 targets, real workbooks with openpyxl `ArrayFormula`
(target and every member, members first / target first), big magnitudes beyond 2^63, typed twins (7/"7"/7.0 …), operand chains of
depth 0–3 with set_value, every outcome class of the scalar kernels under `^ / % −`. quick ≈ 6 200 cases ≈ 11–24 s; thorough
≈ 28 600 ≈ 60 s."""
AS['C14'] = """**As built.** Model `Model/Aggregates.lean` (exact `Rat`): `firstErr`, `nums`, the five aggregates, SUBTOTAL dispatch through
`Generated/Subtotal.lean`, `sumproduct`; a cell is an error only if it is one of the live `ERROR_CODES`
(`Generated/AggErrors.lean`, `C14_error_cells`). 29 theorems for all lists/arrays: `C14_numeric_only`, `C14_ignore_remove/_replace`,
`C14_first_error`, `C14_count_ignores_errors`, `C14_perm` (under `OneErr`) + `C14_perm_two_errors_counterexample`,
`C14_reshape`, `C14_sum_append/_rows/_partition/_filter_partition`, `C14_average(_empty)`, `C14_minmax_empty`, `C14_min/max_spec`,
`C14_subtotal(_table/_modelled)`, `C14_sumproduct(_two/_zero_fill/_error/_shape_mismatch)`. Correspondence through `lib_call`,
`eval_formula` and real workbooks: exhaustive fills of ≤ 3 (≤ 4 thorough) cells over an 8-value pool with all permutations,
shapes to 5×5, numpy-typed values, chain workbooks whose aggregated range holds formula cells. quick 2 517 cases ≈ 13–22 s;
thorough 24 238 ≈ 180–215 s."""
AS['C15'] = """**As built.** Model `Model/Criteria.lean` (imports Ops): `criteriaParser`, satisfaction relation `sat`, structural wildcard
matcher `matchPat`, `handleIfs`, the eight consumers with `Out = ok | error | raise`. 23 theorems: `C15_operator_table/_pattern`
(live `OPERATORS`), `C15_sat_numeric(_nonnumber)`, `C15_sat_text(_nontext/_case)`, `C15_wild_spec` (+ tokens/parse/literal),
`C15_selects_exactly`, `C15_ifs1_eq_if`, `C15_commute` (any permutation), `C15_partition(_cell)`, `C15_avg`, `C15_total`.
Correspondence: every criterion of the grammar (337) × every pool cell (31), columns through all eight functions, partition
pairs, near-equal numbers, ==-equal differently typed criteria in sequence (fresh-process `seq` cases), random ranges 1–5 × 1–3
with 1–3 pairs, malformed stream. quick 24 295 cases ≈ 15–37 s; thorough 421 077 ≈ 2–2.5 min."""
AS['C16'] = """**As built.** Model `Model/Lookup.lean`: `_match` line by line (blank trimming, `bisectLoop`, back-off, linear scans), wrappers,
`index`; Latin-1 case mapping. 28 theorems: `ltK_irrefl/_trans/_total`, `C16_bisect(_range)` (every sorted list), `C16_wild_spec`,
`C16_matches_spec`, `C16_exact(_na/_first)`, `C16_approx_asc(_na)`, `C16_approx_desc(_na)`, `pmatch_range`, `C16_vlookup`,
`C16_hlookup`, `C16_lookup(_not_vector/_cell)`, `C16_transpose`, `C16_out_of_range`, `C16_index_in/out_of_range`, table theorems
`errOrd_live`, `wrapper_meta_live`. Correspondence: every vector ≤ 3 (4) over a 9-value pool × 11 lookups × 3 match types, random
vectors ≤ 8 in four shapes, tables ≤ 6×4 and transposes, every index −1…width+2, line breaks / control characters / É é ß in cells
and patterns, ==-equal differently typed inputs consecutively. quick ≈ 127 000 cases ≈ 25–50 s; thorough 2.23 M ≈ 5.5 min."""
AS['C17'] = """**As built.** Model `Model/DateTime.lean` (CPython `_ymd2ord`/`_ord2ymd` on all of `Int`, `date_from_int` quirks, DATE,
YEAR/MONTH/DAY/WEEKDAY, `months_inc`, exact-rational `time_from_serialnumber`, YEARFRAC bases), constants from
`Generated/DateConsts.lean`. 27 theorems, algebraic (no sweep): `C17_ord_ymd`, `C17_ymd_ord`, `C17_ymd_valid` (bijection for every
integer day), `C17_roundtrip` (0…2958465), `C17_gregorian`, `C17_day60`, `C17_day0`, `C17_days_1_59`, `C17_weekday_period/_succ/
_range`, `C17_carry(_day/_month)` (all integer m, d), `C17_eomonth`, `C17_edate`, `C17_yearfrac_symm`, `C17_hms` (every whole
second), `C17_hms_range`, `C17_range_error_*`. Correspondence: EVERY serial day 0…2958465 in thorough (every 97th + boundaries in
quick), DATE on the full m, d ∈ −40…60 grid, all shifts −1200…1200, all 86 400 seconds. quick 4 153 batched cases ≈ 22 s;
thorough 67 888 ≈ 200–280 s. Partial: "to the nearest second" proved on whole seconds + the range theorem."""
AS['C18'] = """**As built (reference implementation).** Model `Model/Radix.lean`, 12 theorems (`mask_spec` against the live `_SIZE_MASK`,
`C18_roundtrip`, `C18_twos_complement`, `C18_compose`, `C18_places(_length)`, `C18_reject_range/_alphabet/_length/_kinds`,
`C18_total_kinds`). quick 9 916 cases ≈ 2–7 s; thorough ≈ 63 000 ≈ 8 s."""
AS['C19'] = """**As built.** Model `Model/Rounding.lean` on exact `Rat`, defaults/decorators from `Generated/RoundingMeta.lean`. 27 theorems for
every rational x and integer d: `C19_round_multiple/_half_unit/_nearest/_tie_away/_sign`, `C19_bracket(_tight)`,
`C19_fix_multiples`, `C19_trunc_is_rounddown`, `C19_int_floor`, `C19_mod_identity/_sign`, `C19_floor/ceiling_math_adjacent`,
`C19_precise_eq_math`, `C19_floor/ceiling_adjacent`, `C19_even`, `C19_odd`, `C19_defaults`. A number is a decimal k/10^j: pycel
gets the float whose shortest repr is that decimal, the model the decimal; a result agrees only if the float equals
`float(exact result)`. quick ≈ 167 000 cases ≈ 16–45 s; thorough ≈ 2.07 M ≈ 4–7 min."""
AS['C20'] = """**As built.** Models `Model/TextFns.lean`, `Model/TextFormat.lean` (imports Ops), metadata `Generated/TextMeta.lean`. 35 theorems
for all texts and all integer positions (`C20_left_mid`, `C20_right`, `C20_replace`, `C20_find_first/_none/_complete`,
`C20_substitute_*`, `C20_concat_amp`, `C20_trim_*`, `C20_upper/lower_idem`, `C20_exact`, `C20_number_rendering`,
`C20_negative_counts`, `C20_text_round/_scaled/_tie/_digits/_grouping/_percent`). UPPER/LOWER modelled for ASCII+Latin-1; non-ASCII
idempotence is CHECKED on the implementation for every code point (thorough), not proved. quick 215 220 cases ≈ 25–50 s; thorough
1.23 M ≈ 3.5–4.5 min."""
s = open('/verif/DESIGN.md').read()
for pid, text in AS.items():
    m = re.search(r'^### ' + pid + r' .*?(?=^### C|^-{20,}\n\n## 8)', s, re.S | re.M)
    assert m, pid
    body = m.group(0)
    if '**As built' in body:
        body = body[:body.index('**As built')]
    body = body.rstrip('\n') + '\n\n' + text + '\n\n'
    s = s[:m.start()] + body + s[m.end():]
open('/verif/DESIGN.md', 'w').write(s)
print('ok')

#!/usr/bin/env python3
"""Regenerates the marker-delimited sections of DESIGN.md: §12 (fixes and findings, from known_findings.txt) and
§13 (seeded breaking changes, from seeded/*/meta.json + result.json)."""
import glob, json, os, re
V = os.path.dirname(os.path.dirname(os.path.abspath(__file__)))
fixed, finding = {}, {}
for line in open(f'{V}/known_findings.txt'):
    line = line.strip()
    m = re.match(r'fixed:\s+property=(\S+)\s+(\S+)\s*::\s*(.*)', line)
    if m:
        fixed.setdefault(m.group(1), []).append((m.group(2), m.group(3)))
    m = re.match(r'finding:\s+property=(\S+)\s+key=(\S+)\s*::\s*(.*)', line)
    if m:
        finding.setdefault(m.group(1), []).append((m.group(2), m.group(3)))
out12 = []
for pid in sorted(set(fixed) | set(finding)):
    out12.append(f'**{pid}**\n')
    for c, t in fixed.get(pid, []):
        out12.append(f'* fixed `{c}` — {t}')
    for k, t in finding.get(pid, []):
        out12.append(f'* FINDING `{k}` — {t}')
    out12.append('')
nfix = sum(len(v) for v in fixed.values()); nfind = sum(len(v) for v in finding.values())
head12 = (f'{nfix} defects repaired by `fix:` commits in /repo (each confirmed first by the machinery with a concrete input, the 2 988 '
          f'pinned tests pass unedited after each), {nfind} known findings (genuine defects whose repair needs a maintainer decision '
          'or is pinned by a test). Generated from `known_findings.txt` by `tools/mk_design_tables.py`.\n\n')
rows = []
for d in sorted(glob.glob(f'{V}/seeded/*/')):
    name = os.path.basename(d.rstrip('/'))
    try:
        meta = json.load(open(d + 'meta.json'))
    except Exception:
        continue
    res = json.load(open(d + 'result.json')) if os.path.exists(d + 'result.json') else {}
    cells = []
    for p, c in res.get('checks', {}).items():
        cells.append(f"{p}: {'caught' if c['caught'] else 'MISSED'}" + (' (input)' if c.get('with_failing_input') else
                                                                      (' (no input)' if c['caught'] else '')))
    summ = (meta.get('summary') or '').replace('|', '/').replace('\n', ' ')
    if len(summ) > 230:
        summ = summ[:227] + '…'
    note = meta.get('caught_after') or ''
    rows.append(f"| {name} | {meta.get('property')} | {summ} | {'; '.join(cells) or 'not run'} | {note} |")
head13 = ('Produced by fresh sub-agents that saw only the property text and a scratch worktree of /repo (nothing from /verif); each '
          'keeps the 2 988 tests green and comes with a demo that fails only with the change. "caught (input)" = the check exits 1 '
          'with a VIOLATION line whose replay holds a concrete failing input. The last column says what had to be strengthened '
          'when the first run missed it.\n\n| id | property | change | quick check result | strengthened |\n|---|---|---|---|---|\n')
s = open(f'{V}/DESIGN.md').read()
def put(tag, text):
    global s
    a, b = f'<!-- BEGIN {tag} -->', f'<!-- END {tag} -->'
    s = s[:s.index(a) + len(a)] + '\n' + text + '\n' + s[s.index(b):]
put('FIXES', head12 + '\n'.join(out12))
put('SEEDED', head13 + '\n'.join(rows))
open(f'{V}/DESIGN.md', 'w').write(s)
print(nfix, 'fixes', nfind, 'findings', len(rows), 'seeded')

#!/usr/bin/env python3
"""Regenerates the marker-delimited sections of DESIGN.md: §12 (fixes and findings, from known_findings.txt) and
§13 (seeded breaking changes, from seeded/*/meta.json + result.json)."""
import glob, json, os, re
V = os.path.dirname(os.path.dirname(os.path.abspath(__file__)))
fixed, finding = {}, {}
for line in open(f'{V}/known_findings.txt'):
    line = line.strip()
    m = re.match(r'fixed:\s+property=(\S+)\s+(\S+)\s*::\s*(.*)', line)
    if m:
        fixed.setdefault(m.group(1), []).append((m.group(2), m.group(3)))
    m = re.match(r'finding:\s+property=(\S+)\s+key=(\S+)\s*::\s*(.*)', line)
    if m:
        finding.setdefault(m.group(1), []).append((m.group(2), m.group(3)))
out12 = []
for pid in sorted(set(fixed) | set(finding)):
    out12.append(f'**{pid}**\n')
    for c, t in fixed.get(pid, []):
        out12.append(f'* fixed `{c}` — {t}')
    for k, t in finding.get(pid, []):
        out12.append(f'* FINDING `{k}` — {t}')
    out12.append('')
nfix = sum(len(v) for v in fixed.values()); nfind = sum(len(v) for v in finding.values())
head12 = (f'{nfix} defects repaired by `fix:` commits in /repo (each confirmed first by the machinery with a concrete input, the 2 988 '
          f'pinned tests pass unedited after each), {nfind} known findings (genuine defects whose repair needs a maintainer decision '
          'or is pinned by a test). Generated from `known_findings.txt` by `tools/mk_design_tables.py`.\n\n')
rows = []
for d in sorted(glob.glob(f'{V}/seeded/*/')):
    name = os.path.basename(d.rstrip('/'))
    try:
        meta = json.load(open(d + 'meta.json'))
    except Exception:
        continue
    res = json.load(open(d + 'result.json')) if os.path.exists(d + 'result.json') else {}
    cells = []
    for p, c in res.get('checks', {}).items():
        cells.append(f"{p}: {'caught' if c['caught'] else 'MISSED'}" + (' (input)' if c.get('with_failing_input') else
                                                                      (' (no input)' if c['caught'] else '')))
    summ = (meta.get('summary') or '').replace('|', '/').replace('\n', ' ')
    if len(summ) > 230:
        summ = summ[:227] + '…'
    note = meta.get('caught_after') or ''
    rows.append(f"| {name} | {meta.get('property')} | {summ} | {'; '.join(cells) or 'not run'} | {note} |")
import collections
_tot = collections.Counter()
for _d in sorted(glob.glob(f'{V}/seeded/*/')):
    try:
        _m = json.load(open(_d + 'meta.json')); _r = json.load(open(_d + 'result.json'))
    except Exception:
        continue
    _c = _r.get('checks', {})
    _tot['n'] += 1
    if any(v['caught'] and v.get('with_failing_input') for v in _c.values()):
        _tot['input'] += 1
        _own = _m.get('property')
        if not (_own in _c and _c[_own]['caught'] and _c[_own].get('with_failing_input')):
            _tot['sibling'] += 1
    if _m.get('caught_after'):
        _tot['after'] += 1
import re as _re
_r5 = [d for d in sorted(glob.glob(f'{V}/seeded/*/')) if _re.search(r'-e\d/$', d)]
_r5n = len(_r5)
_r5m = sum(1 for d in _r5 if json.load(open(d + 'meta.json')).get('caught_after'))
_r5s = sum(1 for d in _r5 if json.load(open(d + 'meta.json')).get('also_property'))
summary13 = (f"Totals at the final commit (every change re-confirmed serially by the documented route — `git -C /repo apply`, run the "
             f"quick check, `git -C /repo checkout -- .` — at /repo HEAD): {_tot['n']} seeded changes in five rounds (4 + 3 + 3 + 2 per "
             f"property, then 2 more for twelve of them — 23 delivered; three were dropped when a later repo fix neutralised them), {_tot['input']} caught with a concrete failing "
             f"input, {_tot['sibling']} of them by a sibling property's check rather than the check of the property they were seeded "
             f"under (a criteria-parser cache seeded under C01/C05/C12 is C15's subject; a thread-shared array context under C13 is "
             f"C07's; a reset-walk change under C05 is caught by C04). {_tot['after']} were MISSED on first contact and are caught "
             f"only after the generator/oracles were widened in the direction they pointed to (first-contact miss rate: round 1 "
             f"about one third, round 2 about one sixth, round 3 — the harder kinds — about one third, round 4 — other "
             f"mechanism families — 13 of 40, round 5 — {_r5m - _r5s} of {_r5n} needed widening and {_r5s} more are caught only by a sibling property's check).\n\n")
head13 = summary13 + ('Produced by fresh sub-agents that saw only the property text and a scratch worktree of /repo (nothing from /verif); each '
          'keeps the 2 988 tests green and comes with a demo that fails only with the change. "caught (input)" = the check exits 1 '
          'with a VIOLATION line whose replay holds a concrete failing input. The last column says what had to be strengthened '
          'when the first run missed it.\n\n| id | property | change | quick check result | strengthened |\n|---|---|---|---|---|\n')
s = open(f'{V}/DESIGN.md').read()
def put(tag, text):
    global s
    a, b = f'<!-- BEGIN {tag} -->', f'<!-- END {tag} -->'
    s = s[:s.index(a) + len(a)] + '\n' + text + '\n' + s[s.index(b):]
put('FIXES', head12 + '\n'.join(out12))
put('SEEDED', head13 + '\n'.join(rows))
open(f'{V}/DESIGN.md', 'w').write(s)
print(nfix, 'fixes', nfind, 'findings', len(rows), 'seeded')

#!/bin/sh
# Offline build: regenerate the tables from /repo, then build, for every check registered in MANIFEST.json, its
# property theorems (with the models and lemmas they import) and its compiled model driver.
cd "$(dirname "$0")" || exit 2
/venv/bin/python -c 'import sys; sys.path.insert(0, "."); from harness import tables; print("tables:", tables.generate())' || exit 1
PROPS=$(/venv/bin/python -c "import json; print(' '.join(c['property_id'] for c in json.load(open('MANIFEST.json'))['checks']))")
cd lean || exit 2
TARGETS=""
for p in $PROPS; do
  lc=$(echo "$p" | tr 'A-Z' 'a-z')
  TARGETS="$TARGETS Pycel.Props.$p drv_$lc"
done
echo "building:$TARGETS"
# shellcheck disable=SC2086
lake build $TARGETS

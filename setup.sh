#!/bin/sh
# offline build of the Lean models, lemmas, property theorems and the compiled model driver
cd "$(dirname "$0")/lean" || exit 2
/venv/bin/python -c 'import sys; sys.path.insert(0, ".."); from harness import tables; print("tables:", tables.generate())' || exit 1
lake build Pycel pycel_driver

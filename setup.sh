#!/bin/sh
# offline build of the Lean models, lemmas, property theorems and the compiled model drivers
cd "$(dirname "$0")/lean" || exit 2
/venv/bin/python -c 'import sys; sys.path.insert(0, ".."); from harness import tables; print("tables:", tables.generate())' || exit 1
lake build Pycel || exit 1
for d in $(sed -n 's/^name = "\(drv_c[0-9]*\)"/\1/p' lakefile.toml); do lake build "$d" || exit 1; done

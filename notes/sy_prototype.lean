-- prototype: shunting-yard (left-assoc binary ops, prefix neg, parens) inverts a precedence-aware renderer
inductive Tok | num (n : Nat) | bin (p : Nat) | neg | lp | rp
deriving DecidableEq, Repr
inductive Rpn | num (n : Nat) | bin (p : Nat) | neg
deriving DecidableEq, Repr
inductive Stk | bin (p : Nat) | neg | lp
deriving DecidableEq, Repr

inductive Expr | num (n : Nat) | bin (p : Nat) (l r : Expr) | neg (e : Expr)
inductive Surf | num (n : Nat) | bin (p : Nat) (l r : Surf) | neg (e : Surf) | paren (e : Surf)

def NEGP : Nat := 7
def INF : Nat := 1000

def erase : Surf → Expr
  | .num n => .num n | .bin p l r => .bin p (erase l) (erase r) | .neg e => .neg (erase e) | .paren e => erase e
def rpn : Expr → List Rpn
  | .num n => [.num n] | .bin p l r => rpn l ++ rpn r ++ [.bin p] | .neg e => rpn e ++ [.neg]
def toks : Surf → List Tok
  | .num n => [.num n] | .bin p l r => toks l ++ [.bin p] ++ toks r | .neg e => .neg :: toks e
  | .paren e => .lp :: toks e ++ [.rp]

-- doubled thresholds
def L : Surf → Nat
  | .num _ => INF | .paren _ => INF | .bin p _ _ => 2*p | .neg _ => 2*NEGP
def M : Surf → Nat
  | .num _ => INF | .paren _ => INF | .bin p l _ => min (2*p) (M l) | .neg _ => 2*NEGP+1
def WF : Surf → Prop
  | .num _ => True | .paren e => WF e
  | .bin p l r => p < NEGP ∧ 2*p ≤ L l ∧ 2*p < M r ∧ 2*p < L r ∧ WF l ∧ WF r
  | .neg e => 2*NEGP+1 ≤ M e ∧ 2*NEGP ≤ L e ∧ WF e

abbrev St := List Rpn × List Stk
def stkPrec2 : Stk → Option Nat
  | .bin p => some (2*p) | .neg => some (2*NEGP) | .lp => none
def stkOut : Stk → Rpn
  | .bin p => .bin p | .neg => .neg | .lp => .neg -- unused
-- pop while top is an operator whose doubled precedence ≥ t
def flushAux (t : Nat) : List Rpn → List Stk → St
  | out, [] => (out, [])
  | out, s :: stk =>
    match stkPrec2 s with
    | some q => if t ≤ q then flushAux t (out ++ [stkOut s]) stk else (out, s :: stk)
    | none => (out, s :: stk)
def flush (t : Nat) (st : St) : St := flushAux t st.1 st.2
theorem flush_nil (t out) : flush t (out, []) = (out, []) := rfl
theorem flush_cons (t out s stk) : flush t (out, s :: stk) =
    match stkPrec2 s with
    | some q => if t ≤ q then flush t (out ++ [stkOut s], stk) else (out, s :: stk)
    | none => (out, s :: stk) := by simp [flush, flushAux]

def step (st : St) : Tok → Option St
  | .num n => some (st.1 ++ [.num n], st.2)
  | .bin p => let st' := flush (2*p) st; some (st'.1, .bin p :: st'.2)
  | .neg => let st' := flush (2*NEGP+1) st; some (st'.1, .neg :: st'.2)
  | .lp => some (st.1, .lp :: st.2)
  | .rp => let st' := flush 0 st
           match st'.2 with
           | .lp :: rest => some (st'.1, rest)
           | _ => none
def run (st : St) : List Tok → Option St
  | [] => some st
  | t :: ts => (step st t).bind (fun st' => run st' ts)
def finish (st : St) : Option (List Rpn) :=
  let st' := flush 0 st
  match st'.2 with | [] => some st'.1 | _ => none
def parse (ts : List Tok) : Option (List Rpn) := (run ([], []) ts).bind finish

theorem run_append (st : St) (a b : List Tok) : run st (a ++ b) = (run st a).bind (fun s => run s b) := by
  induction a generalizing st with
  | nil => simp [run]
  | cons t ts ih => simp only [List.cons_append, run]; cases step st t <;> simp [ih]

theorem flush_flush (t u : Nat) (h : t ≤ u) (st : St) : flush t (flush u st) = flush t st := by
  obtain ⟨out, stk⟩ := st
  induction stk generalizing out with
  | nil => simp [flush_nil]
  | cons s stk ih =>
    cases hs : stkPrec2 s with
    | none => simp [flush_cons, hs]
    | some q =>
      by_cases hu : u ≤ q
      · have ht : t ≤ q := by omega
        rw [flush_cons]; simp only [hs, hu, if_true]; rw [ih]
        conv => rhs; rw [flush_cons]; simp only [hs, ht, if_true]
      · rw [flush_cons]; simp only [hs, hu, if_false]

def topOk (t : Nat) : List Stk → Prop
  | [] => True
  | s :: _ => match stkPrec2 s with | some q => q < t | none => True

theorem flush_topOk (t : Nat) (out : List Rpn) (stk : List Stk) (h : topOk t stk) : flush t (out, stk) = (out, stk) := by
  cases stk with
  | nil => simp [flush_nil]
  | cons s stk =>
    simp only [topOk] at h
    cases hs : stkPrec2 s with
    | none => simp [flush_cons, hs]
    | some q => rw [hs] at h; simp at h; rw [flush_cons]; simp [hs]; omega

theorem topOk_mono {t u : Nat} (h : t ≤ u) {stk : List Stk} (ht : topOk t stk) : topOk u stk := by
  cases stk with
  | nil => trivial
  | cons s stk => simp only [topOk] at *; cases hs : stkPrec2 s <;> simp_all; omega

theorem main (s : Surf) : WF s → ∀ out stk, topOk (M s) stk →
    ∃ st', run (out, stk) (toks s) = some st' ∧ ∀ t, t ≤ L s → flush t st' = flush t (out ++ rpn (erase s), stk) := by
  induction s with
  | num n => intro _ out stk _; exact ⟨(out ++ [.num n], stk), by simp [toks, run, step], by intro t _; simp [erase, rpn]⟩
  | paren e ih =>
    intro hwf out stk _
    obtain ⟨st', hr, hf⟩ := ih hwf out (.lp :: stk) (by simp [topOk, stkPrec2])
    have h0 := hf 0 (Nat.zero_le _)
    have hfl : flush 0 (out ++ rpn (erase e), Stk.lp :: stk) = (out ++ rpn (erase e), Stk.lp :: stk) := by
      rw [flush_cons]; simp [stkPrec2]
    rw [hfl] at h0
    refine ⟨(out ++ rpn (erase e), stk), ?_, ?_⟩
    · simp only [toks, List.cons_append, run, step, Option.bind]
      rw [run_append, hr]; simp [run, step, Option.bind, h0]
    · intro t _; simp [erase]
  | neg e ih =>
    intro hwf out stk htop
    obtain ⟨hM, hL, hwe⟩ := hwf
    have hfl : flush (2*NEGP+1) (out, stk) = (out, stk) := flush_topOk _ _ _ (by simpa [M] using htop)
    obtain ⟨st', hr, hf⟩ := ih hwe out (.neg :: stk) (by simp only [topOk, stkPrec2]; omega)
    refine ⟨st', ?_, ?_⟩
    · simp only [toks, run, step, Option.bind, hfl]; exact hr
    · intro t ht
      simp only [L] at ht
      rw [hf t (by omega)]
      rw [flush_cons]; simp only [stkPrec2, ht, if_true, stkOut, erase, rpn, List.append_assoc]
  | bin p l r ihl ihr =>
    intro hwf out stk htop
    obtain ⟨hp, hLl, hMr, hLr, hwl, hwr⟩ := hwf
    have htl : topOk (M l) stk := topOk_mono (by simp [M]; omega) htop
    obtain ⟨st1, hr1, hf1⟩ := ihl hwl out stk htl
    have h1 := hf1 (2*p) hLl
    have hfl : flush (2*p) (out ++ rpn (erase l), stk) = (out ++ rpn (erase l), stk) :=
      flush_topOk _ _ _ (topOk_mono (by simp [M]; omega) htop)
    rw [hfl] at h1
    obtain ⟨st2, hr2, hf2⟩ := ihr hwr (out ++ rpn (erase l)) (.bin p :: stk) (by simp only [topOk, stkPrec2]; omega)
    refine ⟨st2, ?_, ?_⟩
    · simp only [toks, List.append_assoc, List.singleton_append]
      rw [run_append, hr1]; simp only [Option.bind, run, step, h1]; exact hr2
    · intro t ht
      simp only [L] at ht
      rw [hf2 t (by omega)]
      rw [flush_cons]; simp only [stkPrec2, ht, if_true, stkOut, erase, rpn, List.append_assoc]

theorem parse_correct (s : Surf) (h : WF s) : parse (toks s) = some (rpn (erase s)) := by
  obtain ⟨st', hr, hf⟩ := main s h [] [] trivial
  have := hf 0 (Nat.zero_le _)
  simp only [parse, hr, Option.bind, finish, this]
  simp [flush_nil]

-- non-vacuity: -2^2 parses as (neg 2)^2 ; 1+2*3 ; (1+2)*3
example : WF (.bin 5 (.neg (.num 2)) (.num 2)) := by simp [WF, L, M, NEGP, INF]
example : parse [.neg, .num 2, .bin 5, .num 2] = some [.num 2, .neg, .num 2, .bin 5] := by decide
#print axioms parse_correct

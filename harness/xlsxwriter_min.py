"""
Minimal .xlsx writer that stores formulas WITH their cached results (<f>…</f><v>…</v>), which openpyxl cannot write.
Used for the "xlsx with stored results" configuration (C01, C05, C12).

    write_xlsx(path, cells, cached, defined_names=None)      defined_names: {'name': "Sheet1!$A$1:$A$2"}
        cells  : {'Sheet1!A1': value | '=formula'}   value: int/float/str/bool/None (None = cell omitted)
        cached : {'Sheet1!A1': value}                stored result of a formula cell (number, text, logical,
                                                     Excel error string such as '#VALUE!'); missing = no <v>
    stored_results(cells)  -> cached dict computed by a from-scratch (no-data) ExcelCompiler of the same workbook

Only what pycel/openpyxl read is emitted: content types, root rels, workbook, workbook rels, one part per sheet.
Text is written as inline strings (t="inlineStr") / formula strings (t="str"), so no sharedStrings part is needed.
"""
import re
import zipfile
from xml.sax.saxutils import escape

ERRORS = ('#NULL!', '#DIV/0!', '#VALUE!', '#REF!', '#NAME?', '#NUM!', '#N/A')

_CT = ('<?xml version="1.0" encoding="UTF-8" standalone="yes"?>'
       '<Types xmlns="http://schemas.openxmlformats.org/package/2006/content-types">'
       '<Default Extension="rels" ContentType="application/vnd.openxmlformats-package.relationships+xml"/>'
       '<Default Extension="xml" ContentType="application/xml"/>'
       '<Override PartName="/xl/workbook.xml" '
       'ContentType="application/vnd.openxmlformats-officedocument.spreadsheetml.sheet.main+xml"/>'
       '{sheets}</Types>')
_CT_SHEET = ('<Override PartName="/xl/worksheets/sheet{i}.xml" '
             'ContentType="application/vnd.openxmlformats-officedocument.spreadsheetml.worksheet+xml"/>')
_RELS = ('<?xml version="1.0" encoding="UTF-8" standalone="yes"?>'
         '<Relationships xmlns="http://schemas.openxmlformats.org/package/2006/relationships">'
         '<Relationship Id="rId1" '
         'Type="http://schemas.openxmlformats.org/officeDocument/2006/relationships/officeDocument" '
         'Target="xl/workbook.xml"/></Relationships>')
_WB = ('<?xml version="1.0" encoding="UTF-8" standalone="yes"?>'
       '<workbook xmlns="http://schemas.openxmlformats.org/spreadsheetml/2006/main" '
       'xmlns:r="http://schemas.openxmlformats.org/officeDocument/2006/relationships">'
       '<sheets>{sheets}</sheets>{names}</workbook>')
_WB_RELS = ('<?xml version="1.0" encoding="UTF-8" standalone="yes"?>'
            '<Relationships xmlns="http://schemas.openxmlformats.org/package/2006/relationships">{rels}'
            '</Relationships>')
_SHEET = ('<?xml version="1.0" encoding="UTF-8" standalone="yes"?>'
          '<worksheet xmlns="http://schemas.openxmlformats.org/spreadsheetml/2006/main">'
          '<sheetData>{rows}</sheetData></worksheet>')


def _split(addr):
    sheet, _, coord = addr.rpartition('!')
    m = re.fullmatch(r'\$?([A-Z]+)\$?(\d+)', coord)
    if not m:
        raise ValueError(f'not a cell address: {addr}')
    col = 0
    for ch in m.group(1):
        col = col * 26 + ord(ch) - 64
    if len(sheet) >= 2 and sheet[0] == sheet[-1] == "'":
        sheet = sheet[1:-1].replace("''", "'")
    return sheet or 'Sheet1', m.group(1), col, int(m.group(2))


def _num(v):
    return repr(v) if isinstance(v, float) else str(v)


def _value_xml(ref, v):
    if isinstance(v, bool):
        return f'<c r="{ref}" t="b"><v>{int(v)}</v></c>'
    if isinstance(v, (int, float)):
        return f'<c r="{ref}"><v>{_num(v)}</v></c>'
    if isinstance(v, str):
        return f'<c r="{ref}" t="inlineStr"><is><t xml:space="preserve">{escape(v)}</t></is></c>'
    raise TypeError(f'unsupported cell value {v!r}')


def _formula_xml(ref, formula, has, v):
    f = f'<f>{escape(formula[1:])}</f>'
    if not has or v is None:
        return f'<c r="{ref}">{f}</c>'
    if isinstance(v, bool):
        return f'<c r="{ref}" t="b">{f}<v>{int(v)}</v></c>'
    if isinstance(v, (int, float)):
        return f'<c r="{ref}">{f}<v>{_num(v)}</v></c>'
    if isinstance(v, str) and v in ERRORS:
        return f'<c r="{ref}" t="e">{f}<v>{escape(v)}</v></c>'
    if isinstance(v, str):
        return f'<c r="{ref}" t="str">{f}<v>{escape(v)}</v></c>'
    raise TypeError(f'unsupported cached value {v!r}')


def write_xlsx(path, cells, cached=None, defined_names=None):
    cached = cached or {}
    sheets = {}
    for addr, v in cells.items():
        sheet, col_s, col, row = _split(addr)
        sheets.setdefault(sheet, {}).setdefault(row, {})[col] = (col_s, addr, v)
    names = list(sheets) or ['Sheet1']
    with zipfile.ZipFile(path, 'w', zipfile.ZIP_DEFLATED) as z:
        z.writestr('[Content_Types].xml',
                   _CT.format(sheets=''.join(_CT_SHEET.format(i=i + 1) for i in range(len(names)))))
        z.writestr('_rels/.rels', _RELS)
        z.writestr('xl/workbook.xml', _WB.format(sheets=''.join(
            f'<sheet name="{escape(n)}" sheetId="{i + 1}" r:id="rId{i + 1}"/>' for i, n in enumerate(names)),
            names=('<definedNames>' + ''.join(f'<definedName name="{escape(k)}">{escape(v)}</definedName>'
                                              for k, v in defined_names.items()) + '</definedNames>')
            if defined_names else ''))
        z.writestr('xl/_rels/workbook.xml.rels', _WB_RELS.format(rels=''.join(
            f'<Relationship Id="rId{i + 1}" '
            'Type="http://schemas.openxmlformats.org/officeDocument/2006/relationships/worksheet" '
            f'Target="worksheets/sheet{i + 1}.xml"/>' for i in range(len(names)))))
        for i, n in enumerate(names):
            rows = []
            for row in sorted(sheets.get(n, {})):
                cs = []
                for col in sorted(sheets[n][row]):
                    col_s, addr, v = sheets[n][row][col]
                    if v is None:
                        continue
                    ref = f'{col_s}{row}'
                    if isinstance(v, str) and v.startswith('='):
                        cs.append(_formula_xml(ref, v, addr in cached, cached.get(addr)))
                    else:
                        cs.append(_value_xml(ref, v))
                rows.append(f'<row r="{row}">{"".join(cs)}</row>')
            z.writestr(f'xl/worksheets/sheet{i + 1}.xml', _SHEET.format(rows=''.join(rows)))
    return path


def stored_results(cells, compiler=None):
    """results of every formula cell, computed by a fresh no-data ExcelCompiler (what Excel would have stored)"""
    from harness import pyc
    comp = compiler or pyc.compiler_from(cells)
    out = {}
    for addr, v in cells.items():
        if isinstance(v, str) and v.startswith('='):
            r = comp.evaluate(addr)
            if hasattr(r, 'item'):
                r = r.item()
            out[addr] = r
    return out

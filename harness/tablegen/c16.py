"""C16 tables read from the live /repo: Python's order of the error texts (the order ExcelCmp gives errors) and the
excel_helper metadata of the lookup functions (which arguments are coerced / error-checked before the body runs)."""
from harness.tables import table

TAGS = {'#NULL!': 'null', '#DIV/0!': 'div0', '#VALUE!': 'value', '#REF!': 'ref', '#NAME?': 'name', '#NUM!': 'num',
        '#N/A': 'na'}


def _idx(x):
    if x is None:
        return '[]'
    if isinstance(x, int):
        return '[%d]' % x if x >= 0 else '[999]'       # -1 = all parameters
    return '[' + ', '.join(str(int(i)) for i in sorted(x)) + ']'


@table('LookupTables.lean')
def lookup_tables():
    from pycel import excelutil
    from pycel.lib import lookup
    from pycel.lib.function_helpers import FUNC_META
    body = 'import Pycel.Model.Value\nnamespace Pycel.Gen.Lookup\nopen Pycel\n\n'
    body += '/-- position of each error text in sorted(ERROR_CODES) (Python string order) -/\ndef errOrdLive : Err → Nat\n'
    for i, e in enumerate(sorted(e for e in excelutil.ERROR_CODES if e in TAGS)):
        body += f'  | .{TAGS[e]} => {i}\n'
    body += '\n/-- (cse_params, number_params, err_str_params) of each function, as parameter index lists -/\n'
    for name in ('match', 'vlookup', 'hlookup', 'lookup', 'index'):
        meta = getattr(getattr(lookup, name), FUNC_META)
        body += (f'def {name}Meta : List Nat × List Nat × List Nat := '
                 f'({_idx(meta["cse_params"])}, {_idx(meta["number_params"])}, {_idx(meta["err_str_params"])})\n')
    body += '\nend Pycel.Gen.Lookup\n'
    return body

"""Tables of C17 read from the live pycel.lib.date_time (and the CPython calendar tables it relies on)."""
from fractions import Fraction

from harness.tables import lean_nat_fun, table


def _float_consts(fn):
    return [c for c in fn.__code__.co_consts if isinstance(c, float)]


@table('DateConsts.lean')
def date_consts():
    import calendar
    import datetime as dt

    from pycel.lib import date_time as D
    body = 'namespace Pycel.Gen\n\n'

    def nat(name, doc, v):
        return f'/-- {doc} -/\ndef {name} : Nat := {int(v)}\n'

    body += nat('dateZeroOrd', 'date_time.DATE_ZERO.toordinal()', D.DATE_ZERO.toordinal())
    body += nat('dateZeroY', 'DATE_ZERO.year', D.DATE_ZERO.year)
    body += nat('dateZeroM', 'DATE_ZERO.month', D.DATE_ZERO.month)
    body += nat('dateZeroD', 'DATE_ZERO.day', D.DATE_ZERO.day)
    body += nat('dateMaxInt', 'date_time.DATE_MAX_INT (first illegal serial)', D.DATE_MAX_INT)
    body += nat('dateMaxOrd', 'datetime.date.max.toordinal()', dt.date.max.toordinal())
    body += nat('leapSerial', 'date_time.LEAP_1900_SERIAL_NUMBER', D.LEAP_1900_SERIAL_NUMBER)
    y, m, d = D.LEAP_1900_TUPLE
    body += nat('leapY', 'LEAP_1900_TUPLE[0]', y) + nat('leapM', 'LEAP_1900_TUPLE[1]', m) + \
        nat('leapD', 'LEAP_1900_TUPLE[2]', d)
    # month tables: calendar.mdays is what max_days_in_month / datetime use (non-leap year)
    mdays = list(calendar.mdays)
    body += lean_nat_fun('daysInMonth', 'calendar.mdays (non-leap)', {i: mdays[i] for i in range(1, 13)})
    before = {i: sum(mdays[1:i]) for i in range(1, 13)}
    body += lean_nat_fun('daysBeforeMonth', 'days before month m in a non-leap year (from calendar.mdays)', before)
    # float constants of the time decomposition, as exact rationals
    micro = Fraction(D.MICROSECOND)
    body += nat('microNum', 'numerator of date_time.MICROSECOND (exact value of the float)', micro.numerator)
    body += nat('microDen', 'denominator of date_time.MICROSECOND', micro.denominator)
    guards = [c for c in _float_consts(D.time_from_serialnumber)]
    if len(guards) != 1:
        raise ValueError(f'time_from_serialnumber: expected one float literal (the rounding guard), found {guards}')
    g = Fraction(guards[0])
    body += nat('guardNum', 'numerator of the literal 1.1E-6 in time_from_serialnumber', g.numerator)
    body += nat('guardDen', 'denominator of the literal 1.1E-6 in time_from_serialnumber', g.denominator)
    body += '\nend Pycel.Gen\n'
    return body

"""C02 tables: the operator precedence/associativity table, the operator spelling map and the function rename map.

Read from the LIVE modules by introspection:
  * `Token.precedences` (excelformula.py:130-150): operator key -> (precedence, associativity == 'left');
  * `OperatorNode.op_map` (excelformula.py:268-273): Excel operator -> Python operator spelling;
  * `FunctionNode.func_map` (excelformula.py:393-407): lower-cased Excel function name -> python name;
  * the names of the dedicated emitters `FunctionNode.func_*` (theorem `C02_handlers`: a new handler is a function
    whose emission is no longer the plain call the model and `C02_emit` speak about).
`Pycel.Formula.precOf` (the model of `Token.precedence`) looks operators up in `precTable`, and the theorems
`C02_levels`, `C02_left_assoc`, `prec_spec` in Props/C02.lean / Lemmas/FormulaParse.lean are proved by evaluation of
these definitions, so a changed table (say '^' made right-associative, or '%' moved below '^') breaks the proofs.
Keys and values are emitted as `List Char` literals (the model's text type).
"""
from harness.tables import table


def _chars(s):
    assert all(32 <= ord(c) < 127 for c in s), s
    esc = {"'": "\\'", '\\': '\\\\'}
    return '[' + ', '.join("'" + esc.get(c, c) + "'" for c in s) + ']'


@table('Prec.lean')
def prec():
    from pycel import excelformula
    precs = excelformula.Token.precedences
    rows = []
    for k, p in precs.items():
        if not isinstance(p.precedence, int) or p.precedence < 0 or p.associativity not in ('left', 'right'):
            raise ValueError(f'Token.precedences[{k!r}] is not (natural number, left|right)')
        rows.append((k, p.precedence, p.associativity == 'left'))
    body = 'namespace Pycel.Gen\n\n'
    body += ('/-- excelformula.Token.precedences: operator key -> (precedence, associativity == "left").\n'
             '    key "u" stands for every prefix operator (Token.precedence) -/\n')
    body += 'def precTable : List (List Char × Nat × Bool) := [\n'
    body += ',\n'.join(f'  ({_chars(k)}, {p}, {"true" if left else "false"})' for k, p, left in rows)
    body += ']\n\n'
    body += '/-- excelformula.OperatorNode.op_map: Excel operator -> Python spelling (identity when absent) -/\n'
    body += 'def opMap : List (List Char × List Char) := [\n'
    body += ',\n'.join(f'  ({_chars(k)}, {_chars(v)})' for k, v in excelformula.OperatorNode.op_map.items())
    body += ']\n\n'
    body += '/-- excelformula.FunctionNode.func_map: lower-case Excel function name -> python name -/\n'
    body += 'def funcMap : List (List Char × List Char) := [\n'
    body += ',\n'.join(f'  ({_chars(k)}, {_chars(v)})' for k, v in sorted(excelformula.FunctionNode.func_map.items()))
    body += ']\n\n'
    body += '/-- excelformula.ADDR_FUNCS_NAMES -/\n'
    body += 'def addrFuncs : List (List Char) := [' + ', '.join(_chars(n) for n in excelformula.ADDR_FUNCS_NAMES) + ']\n'
    handlers = sorted(n[5:] for n in dir(excelformula.FunctionNode)
                      if n.startswith('func_') and callable(getattr(excelformula.FunctionNode, n)))
    body += ('\n/-- the function names with a dedicated emitter `FunctionNode.func_<name>` (dir(FunctionNode), callables) -/\n')
    body += 'def funcHandlerNames : List (List Char) := [' + ', '.join(_chars(n) for n in handlers) + ']\n'
    body += '\nend Pycel.Gen\n'
    return body

"""C13 tables: the `cse_params` metadata of the library functions the C13 driver instantiates `cseWrap` with,
read from the LIVE excel_helper metadata (function_helpers.FUNC_META).  `-1` (all parameters) is expanded to the
function's positional parameter indices exactly as apply_meta does (co_argcount)."""
from harness.tables import table

FUNCS = ['mod', 'if_', 'isnumber', 'sign', 'abs_', 'exact']


def cse_indices(f):
    from pycel.lib.function_helpers import FUNC_META
    meta = getattr(f, FUNC_META)
    cse = meta['cse_params']
    if cse is None:
        return []
    if cse == -1:
        return list(range(f.__code__.co_argcount))
    if isinstance(cse, int):
        return [cse]
    return sorted(int(i) for i in cse)


def find(name):
    import importlib
    from pycel.excelformula import ExcelFormula
    for m in ExcelFormula.default_modules:
        mod = importlib.import_module(m)
        if hasattr(mod, name):
            return getattr(mod, name)
    raise NameError(name)


@table('CseMeta.lean')
def cse_meta():
    body = 'namespace Pycel.Gen\n\n'
    body += '/-- declared cse parameter indices (excel_helper cse_params, -1 expanded to all positional parameters) -/\n'
    body += 'def cseParams : String → List Nat\n'
    for name in FUNCS:
        body += f'  | "{name}" => {cse_indices(find(name))}\n'
    body += '  | _ => []\n'
    body += '\nend Pycel.Gen\n'
    return body

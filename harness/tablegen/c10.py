from harness.tables import table


def _lst(name, doc, items):
    body = ', '.join('"' + s.replace('\\', '\\\\').replace('"', '\\"') + '"' for s in items)
    return f'/-- {doc} -/\ndef {name} : List String := [{body}]\n'


@table('OpsConsts.lean')
def ops_consts():
    from pycel import excelutil
    body = 'namespace Pycel.Gen\n\n'
    body += _lst('errorCodes', 'sorted(excelutil.ERROR_CODES)', sorted(excelutil.ERROR_CODES))
    body += f'\n/-- excelutil.EMPTY -/\ndef emptyText : String := "{excelutil.EMPTY}"\n\n'
    body += _lst('comparisonOps', 'sorted(excelutil.COMPARISION_OPS)', sorted(excelutil.COMPARISION_OPS))
    body += '\n' + _lst('astOperators', 'sorted(excelutil.PYTHON_AST_OPERATORS)', sorted(excelutil.PYTHON_AST_OPERATORS))
    body += ('\n/-- the error texts fixup returns: DIV0, VALUE_ERROR, NUM_ERROR -/\n'
             f'def div0Text : String := "{excelutil.DIV0}"\n'
             f'def valueErrorText : String := "{excelutil.VALUE_ERROR}"\n'
             f'def numErrorText : String := "{excelutil.NUM_ERROR}"\n')
    body += '\nend Pycel.Gen\n'
    return body

"""C20 tables: the excel_helper metadata of the modelled text functions, read live from pycel.lib.text."""
from harness.tables import table

FUNCS = ['left', 'right', 'mid', 'replace', 'find', 'substitute', 'trim', 'upper', 'lower', 'exact', 'len_', 'text']
UNDECORATED = ['concat', 'concatenate']


def _idx(v):
    """excel_helper encoding -> (all?, [indices])"""
    if v is None:
        return False, []
    if isinstance(v, int):
        return (True, []) if v == -1 else (False, [v])
    return False, sorted(int(i) for i in v)


def _list(xs):
    return '[' + ', '.join(str(x) for x in xs) + ']'


def _b(x):
    return 'true' if x else 'false'


@table('TextMeta.lean')
def text_meta():
    import inspect
    from pycel.lib import text
    body = ('namespace Pycel.Gen.TextMeta\n\n'
            '/-- excel_helper metadata of one function: positions coerced to text / to numbers, CSE positions,\n'
            '    whether every position is checked for error values, and the number of declared parameters -/\n'
            'structure FnMeta where\n  str : List Nat\n  num : List Nat\n  cse : List Nat\n  cseAll : Bool\n'
            '  errAll : Bool\n  arity : Nat\n  deriving DecidableEq, Repr\n\n')
    for name in FUNCS:
        f = getattr(text, name)
        meta = getattr(f, 'excel_func_meta')
        s_all, s = _idx(meta['str_params'])
        n_all, n = _idx(meta['number_params'])
        c_all, c = _idx(meta['cse_params'])
        e_all, e = _idx(meta['err_str_params'])
        arity = len(inspect.signature(f).parameters)
        if s_all:
            s = list(range(arity))
        if n_all:
            n = list(range(arity))
        if meta['bool_params'] is not None or meta['ref_params'] is not None or (e and not e_all):
            raise ValueError(f'{name}: metadata shape not modelled: {meta}')
        body += (f'/-- pycel.lib.text.{name}.excel_func_meta -/\n'
                 f'def {name} : FnMeta := {{ str := {_list(s)}, num := {_list(n)}, cse := {_list(c)}, '
                 f'cseAll := {_b(c_all)}, errAll := {_b(e_all)}, arity := {arity} }}\n\n')
    for name in UNDECORATED:
        f = getattr(text, name)
        body += (f'/-- pycel.lib.text.{name} carries no excel_helper metadata: {_b(not hasattr(f, "excel_func_meta"))} -/\n'
                 f'def {name}_undecorated : Bool := {_b(not hasattr(f, "excel_func_meta"))}\n\n')
    body += 'end Pycel.Gen.TextMeta\n'
    return body

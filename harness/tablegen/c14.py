"""C14 tables: the compile-time SUBTOTAL dispatch table and which of its target names exist in the function library.

Read from the LIVE modules by introspection:
  * `FunctionNode.SUBTOTAL_FUNCS` (excelformula.py func_subtotal): function number -> python function name;
  * for every target name, whether `load_functions` finds it in `ExcelFormula.default_modules` and, if so, the
    `module.qualname` it resolves to (so that e.g. pointing `sum_` at another function changes the table).
The theorems `C14_subtotal`, `C14_subtotal_table` and `C14_subtotal_modelled` in Props/C14.lean case-split on these
definitions, so a changed table makes them fail to check.
"""
import importlib

from harness.tables import table


def _lean_str(s):
    assert all(32 <= ord(c) < 127 and c not in '"\\' for c in s), s
    return f'"{s}"'


def subtotal_tables():
    from pycel import excelformula
    funcs = dict(excelformula.FunctionNode.SUBTOTAL_FUNCS)
    for k, v in funcs.items():
        if isinstance(k, bool) or not isinstance(k, int) or k < 0 or not isinstance(v, str):
            raise ValueError(f'SUBTOTAL_FUNCS entry {k!r}: {v!r} is not (natural number -> name)')
    modules = tuple(importlib.import_module(m) for m in excelformula.ExcelFormula.default_modules)
    resolved = {}
    for name in sorted(set(funcs.values())):
        for m in modules:
            f = getattr(m, name, None)
            if f is not None:
                f = getattr(f, '__wrapped__', f)
                resolved[name] = f'{getattr(f, "__module__", m.__name__)}.{getattr(f, "__qualname__", name)}'
                break
    return funcs, resolved


@table('Subtotal.lean')
def subtotal():
    funcs, resolved = subtotal_tables()
    body = 'namespace Pycel.Gen\n\n'
    body += '/-- excelformula.FunctionNode.SUBTOTAL_FUNCS: function number -> name of the python function emitted -/\n'
    body += 'def subtotalFuncs : Nat → Option String\n'
    for k in sorted(funcs):
        body += f'  | {k} => some {_lean_str(funcs[k])}\n'
    body += '  | _ => none\n\n'
    body += '/-- the keys of SUBTOTAL_FUNCS, ascending -/\n'
    body += 'def subtotalKeys : List Nat := [' + ', '.join(str(k) for k in sorted(funcs)) + ']\n\n'
    body += ('/-- for each target name of SUBTOTAL_FUNCS found by load_functions in ExcelFormula.default_modules: the\n'
             '    function it resolves to (names absent here make the formula fail with UnknownFunction) -/\n')
    body += 'def subtotalResolved : String → Option String\n'
    for name in sorted(resolved):
        body += f'  | {_lean_str(name)} => some {_lean_str(resolved[name])}\n'
    body += '  | _ => none\n'
    body += '\nend Pycel.Gen\n'
    return body


@table('AggErrors.lean')
def agg_errors():
    """the live `excelutil.ERROR_CODES` (what `x in ERROR_CODES` in _numerics / sumproduct accepts as an error value)"""
    from pycel import excelutil
    codes = sorted(excelutil.ERROR_CODES)
    if not all(isinstance(c, str) for c in codes):
        raise ValueError('ERROR_CODES holds a non-string')
    body = 'namespace Pycel.Gen\n\n'
    body += '/-- excelutil.ERROR_CODES, sorted: the texts `_numerics` and `sumproduct` treat as error values -/\n'
    body += 'def aggErrorCodes : List String := [' + ', '.join(_lean_str(c) for c in codes) + ']\n'
    body += '\nend Pycel.Gen\n'
    return body

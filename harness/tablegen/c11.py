"""C11 tables: sheet limits, the column-letter limit and the error codes, read from the live pycel.excelutil."""
from harness.tables import table


def _col_letter_limit(get_column_letter):
    """largest n with get_column_letter(n) defined (probed, not read from the source text)"""
    lo, hi = 1, 1 << 20
    while lo < hi:
        mid = (lo + hi + 1) // 2
        try:
            get_column_letter(mid)
            lo = mid
        except ValueError:
            hi = mid - 1
    return lo


@table('AddrLimits.lean')
def addr_limits():
    from pycel import excelutil
    codes = sorted(excelutil.ERROR_CODES)
    body = 'namespace Pycel.Gen\n\n'
    body += f'/-- excelutil.MAX_COL -/\ndef maxCol : Nat := {int(excelutil.MAX_COL)}\n\n'
    body += f'/-- excelutil.MAX_ROW -/\ndef maxRow : Nat := {int(excelutil.MAX_ROW)}\n\n'
    body += ('/-- largest index accepted by openpyxl.utils.get_column_letter (probed) -/\n'
             f'def colLetterLimit : Nat := {_col_letter_limit(excelutil.get_column_letter)}\n\n')
    body += ('/-- excelutil.ERROR_CODES (sorted), as code-point lists: ' + ' '.join(codes).replace('/', '/ ') +
             ' -/\ndef errorCodes : List (List Nat) := [\n')
    body += ',\n'.join('  [' + ', '.join(str(ord(c)) for c in code) + ']' for code in codes)
    body += '\n]\n\n'
    combos = sorted(tuple(int(x) for x in t) for t in excelutil.VALID_R1C1_RANGE_ITEM_COMBOS)
    body += '/-- excelutil.VALID_R1C1_RANGE_ITEM_COMBOS (min_col, min_row, max_col, max_row present) -/\n'
    body += 'def r1c1Combos : List (Bool × Bool × Bool × Bool) := [\n'
    body += ',\n'.join('  (' + ', '.join('true' if x else 'false' for x in t) + ')' for t in combos) + '\n]\n'
    body += '\nend Pycel.Gen\n'
    return body

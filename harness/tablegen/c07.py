"""
C07 tables (Generated/Threads.lean): WHERE pycel keeps its evaluation bookkeeping, measured on the live modules.

  * behavioural probes on throw-away threads: is what one thread writes through the `iterative_eval_tracker` /
    `in_array_formula_context` API visible to another thread?  (plus the static check that `_ns` is a threading.local)
  * which attributes the lazy `ns` property creates on a thread's first use, and with which values
  * whether `apply_meta` writes `name_space` into the function's module-level metadata dict, which library functions
    read it back at call time, whether `_Cell.ctr` is one counter for all compilers
  * a snapshot diff of every module-level / class-level mutable of the pycel modules around a small multi-compiler
    workload: the names of everything that was written (the theorem `C07_shared_enumeration` requires each of them to
    be one the model accounts for)
"""
import sys
import threading
from fractions import Fraction

from harness.tables import table


def _on_thread(f):
    out = {}

    def run():
        try:
            out['r'] = f()
        except BaseException as exc:   # noqa
            out['e'] = exc
    t = threading.Thread(target=run)
    t.start()
    t.join()
    if 'e' in out:
        raise out['e']
    return out['r']


def _lean_str_list(xs):
    return '[' + ', '.join('"%s"' % x for x in xs) + ']'


def _bool(b):
    return 'true' if b else 'false'


_TRK_ATTRS = ('todo', 'computed', 'iteration_number', 'iterations', 'tolerance')
_MISSING = object()


def _public_values(obj):
    """every public non-callable attribute / property of a singleton, read through the object (values by repr)"""
    out = {}
    for name in dir(type(obj)):
        if name.startswith('_') or name == 'ns':
            continue
        try:
            v = getattr(obj, name)
        except Exception as exc:   # noqa
            out[name] = f'!{type(exc).__name__}'
            continue
        if not callable(v):
            out[name] = repr(v)
    return out


def _ns_of(obj):
    for name in ('ns', '_ns'):
        try:
            v = getattr(obj, name)
        except Exception:   # noqa
            continue
        if v is not None:
            return v
    return obj


def _mutable_ids(ns):
    """identity of every mutable container a thread reaches through the namespace (instance or class level)"""
    out = {}
    for k in set(dir(ns)):
        if k.startswith('__'):
            continue
        try:
            v = getattr(ns, k)
        except Exception:   # noqa
            continue
        if isinstance(v, (set, list, dict)):
            out[k] = id(v)
    return out


def probe_tracker():
    """behavioural: whatever one thread does through the tracker's public surface must be invisible to another thread,
    for every public attribute, and no mutable container may be the same object on two threads"""
    from pycel.excelutil import iterative_eval_tracker as trk
    import pycel.excelcompiler as ec
    assert ec.iterative_eval_tracker is trk
    s1, s2 = object(), object()
    gate1, gate2 = threading.Event(), threading.Event()
    seen = {}

    def first():
        try:
            trk(7, 0.5)
            trk.inc_iteration_number()
            trk.calced(s1)
            trk.wip(s1)
            seen['ids1'] = _mutable_ids(_ns_of(trk))
            seen['before'] = (_public_values(trk), trk.is_calced(s1), trk.is_calced(s2), trk.done)
        finally:
            gate1.set()
        gate2.wait(10)
        seen['after'] = (_public_values(trk), trk.is_calced(s1), trk.is_calced(s2), trk.done)

    def second():
        gate1.wait(10)
        try:
            seen['other_sees'] = trk.is_calced(s1)
            trk(9, 0.25)
            trk.inc_iteration_number()
            trk.inc_iteration_number()
            trk.calced(s2)
            trk.wip(s2)
            seen['ids2'] = _mutable_ids(_ns_of(trk))
            seen['other_tol'] = trk.tolerance
        finally:
            gate2.set()

    a, b = threading.Thread(target=first), threading.Thread(target=second)
    a.start(), b.start(), a.join(), b.join()
    shared_objs = sorted(k for k, v in seen.get('ids1', {}).items() if seen.get('ids2', {}).get(k) == v)
    local = ('before' in seen and seen.get('before') == seen.get('after') and seen.get('other_sees') is False and
             seen['before'][1] is True and seen['before'][2] is False and seen.get('other_tol') == 0.25 and
             not shared_objs)

    def lazy():
        ns = _ns_of(trk)
        return {k: getattr(ns, k) for k in _TRK_ATTRS if getattr(ns, k, _MISSING) is not _MISSING}
    lazy_attrs = _on_thread(lazy)

    def call_sets():
        ns = _ns_of(trk)
        marks, old = {}, {k: getattr(ns, k, _MISSING) for k in _TRK_ATTRS}
        try:
            for k in _TRK_ATTRS:
                marks[k] = object()
                setattr(ns, k, marks[k])
            trk(3, 0.5)
            return sorted(k for k in marks if getattr(_ns_of(trk), k) is not marks[k])
        finally:                      # (matters only if the namespace is NOT per thread)
            for k in marks:
                try:
                    if old[k] is _MISSING:
                        delattr(ns, k)
                    else:
                        setattr(ns, k, old[k])
                except Exception:   # noqa
                    pass
    try:
        call = _on_thread(call_sets)
    except Exception:   # noqa
        call = []
    return local, lazy_attrs, call


def probe_ctx():
    """behavioural, including the hand-over between __call__ and __enter__, and the very first `with` of a thread"""
    from pycel.excelutil import in_array_formula_context as ctx
    import pycel.excelformula as ef
    import pycel.lib.logical as lg
    assert ef.in_array_formula_context is ctx and lg.in_array_formula_context is ctx
    gate1, gate2, gate3, gate4 = (threading.Event() for _ in range(4))
    seen = {}
    m1, m2, m3 = object(), object(), object()

    def first():
        try:
            with ctx(m1):
                seen['first_with'] = ctx.ctx_address is m1      # first `with` of a brand-new thread
                gate1.set()
                gate2.wait(10)
                seen['mine'] = ctx.ctx_address is m1
            pending = ctx(m2)                                   # __call__ ... the other thread runs ... __enter__
            gate3.set()
            gate4.wait(10)
            pending.__enter__()
            seen['handover'] = ctx.ctx_address is m2
            pending.__exit__(None, None, None)
            seen['restored'] = ctx.ctx_address is False
        finally:
            gate1.set(), gate3.set()

    def second():
        gate1.wait(10)
        try:
            seen['other'] = ctx.ctx_address
            with ctx(None):
                pass
        finally:
            gate2.set()
        gate3.wait(10)
        try:
            with ctx(m3):
                pass
            ctx(None)
        finally:
            gate4.set()
    a, b = threading.Thread(target=first), threading.Thread(target=second)
    a.start(), b.start(), a.join(), b.join()
    local = seen.get('mine') is True and seen.get('other') is False and seen.get('handover') is True and \
        seen.get('restored') is True
    fresh_ok = seen.get('first_with') is True

    def lazy():
        ns = _ns_of(ctx)
        return {k: getattr(ns, k) for k in ('ctx_addresses', '_ctx_address') if getattr(ns, k, _MISSING) is not _MISSING}
    return local, _on_thread(lazy), fresh_ok


def probe_func_meta():
    import importlib
    from pycel.excelformula import ExcelFormula
    from pycel.lib import function_helpers as fh
    from pycel.lib import information
    f = information.cell
    meta = getattr(f, fh.FUNC_META)
    had = 'name_space' in meta
    old = meta.get('name_space')
    ns1, ns2 = {'_C_': 1}, {'_C_': 2}
    try:
        fh.apply_meta(f, name_space=ns1)
        fh.apply_meta(f, name_space=ns2)
        shared = getattr(f, fh.FUNC_META) is meta and meta.get('name_space') is ns2
    finally:
        if had:
            meta['name_space'] = old
        else:
            meta.pop('name_space', None)
    readers = set()
    for mname in ExcelFormula.default_modules:
        mod = importlib.import_module(mname)
        for name, obj in vars(mod).items():
            code = getattr(obj, '__code__', None)
            if code is not None and getattr(obj, '__module__', None) == mod.__name__ and \
                    fh.FUNC_META in code.co_names and 'name_space' in code.co_consts:
                readers.add(name)
    return shared, sorted(readers)


def probe_ctr():
    from pycel.excelcompiler import _Cell
    a = _on_thread(_Cell.next_id)
    b = _on_thread(_Cell.next_id)
    return b == a + 1 and isinstance(vars(_Cell).get('ctr'), int)


# ---------------------------------------------------------------------------------------------------------------
# snapshot diff of module-level mutables

def _pycel_modules():
    return [m for n, m in sorted(sys.modules.items()) if (n == 'pycel' or n.startswith('pycel.')) and m is not None]


def _fp(obj):
    try:
        if isinstance(obj, dict):
            return ('d', len(obj), repr(sorted(map(repr, obj.keys())))[:20000], tuple(id(v) for v in obj.values()))
        if isinstance(obj, (list, set, frozenset)):
            return ('c', len(obj), repr(sorted(map(repr, obj)))[:20000])
        return ('r', repr(obj)[:2000])
    except Exception as exc:   # noqa
        return ('x', type(exc).__name__)


def snapshot():
    import inspect
    from pycel.lib.function_helpers import FUNC_META
    snap = {}
    for mod in _pycel_modules():
        for name, obj in list(vars(mod).items()):
            if name.startswith('__'):
                continue
            key = f'{mod.__name__}.{name}'
            if isinstance(obj, (dict, list, set)):
                snap[key] = _fp(obj)
            elif hasattr(obj, 'cache_info') and getattr(obj, '__module__', '').startswith('pycel'):
                snap['lru_cache:' + key] = tuple(obj.cache_info())
            elif inspect.isfunction(obj) and obj.__module__ == mod.__name__:
                meta = getattr(obj, FUNC_META, None)
                if isinstance(meta, dict):
                    snap['FUNC_META.name_space'] = snap.get('FUNC_META.name_space', ()) + (
                        (key, id(meta.get('name_space'))),)
                    rest = {k: v for k, v in meta.items() if k != 'name_space'}
                    snap['FUNC_META.other:' + key] = repr(sorted(rest.items(), key=repr))
            elif inspect.isclass(obj) and obj.__module__ == mod.__name__:
                for an, av in list(vars(obj).items()):
                    if an.startswith('__') or isinstance(av, threading.local):
                        continue
                    ck = f'{key}.{an}'
                    if isinstance(av, (dict, list, set)):
                        snap[ck] = _fp(av)
                    elif isinstance(av, (int, float, str, bool, type(None))) and not callable(av):
                        snap[ck] = ('v', av)
                    elif hasattr(av, 'cache_info'):
                        snap['lru_cache:' + ck] = tuple(av.cache_info())
                    elif not callable(av) and not isinstance(av, (property, classmethod, staticmethod)) and \
                            hasattr(av, '__dict__'):
                        snap[ck + '.<object>'] = _fp(dict(vars(av)))     # e.g. a namespace that is not thread-local
            elif not inspect.ismodule(obj) and not callable(obj) and \
                    (type(obj).__module__ or '').startswith('pycel'):
                # module-level singletons (the tracker, the array context): anything kept on the instance itself
                try:
                    snap[key + '.<instance>'] = _fp(dict(vars(obj)))
                except TypeError:
                    pass
    return snap


def _workload():
    """small multi-compiler workload on a throw-away thread: iterative, CSE array, plain + CELL over a reference"""
    from harness.props import c07 as prop
    for spec in prop.SNAPSHOT_SPECS:
        prop.run_workload_plain(spec)


def shared_written():
    import logging
    logging.getLogger('pycel').setLevel(logging.CRITICAL)
    _on_thread(_workload)          # warm-up: imports, first-use caches
    before = snapshot()
    _on_thread(_workload)
    after = snapshot()
    changed = sorted(k for k in set(before) | set(after) if before.get(k) != after.get(k))
    return changed


def measure():
    trk_local, trk_lazy, trk_call = probe_tracker()
    ctx_local, ctx_lazy, ctx_fresh = probe_ctx()
    meta_shared, meta_readers = probe_func_meta()
    return dict(trk_local=trk_local, trk_lazy=trk_lazy, trk_call=trk_call, ctx_local=ctx_local, ctx_lazy=ctx_lazy,
                meta_shared=meta_shared, meta_readers=meta_readers, ctr_shared=probe_ctr(), ctx_fresh=ctx_fresh,
                shared_written=shared_written())


_FAILED = dict(ctx_fresh=False, trk_local=False, trk_lazy={}, trk_call=[], ctx_local=False, ctx_lazy={}, meta_shared=True,
               meta_readers=[], ctr_shared=True, shared_written=['<tablegen failed>'])


@table('Threads.lean')
def threads():
    try:
        m = measure()
    except Exception as exc:   # noqa  (must never break the table generation of the other properties)
        m = dict(_FAILED, shared_written=[f'<tablegen failed: {type(exc).__name__}>'])
    lazy = m['trk_lazy']
    its = lazy.get('iterations')
    tol = lazy.get('tolerance')
    its_l = f'some {int(its)}' if isinstance(its, int) and not isinstance(its, bool) and its >= 0 else 'none'
    if isinstance(tol, (int, float)) and not isinstance(tol, bool):
        fr = Fraction(tol)
        tol_l = f'some (({fr.numerator} : Int), {fr.denominator})'
    else:
        tol_l = 'none'
    body = 'namespace Pycel.Gen.Threads\n\n'
    body += '/-- iterative_eval_tracker: nothing one thread does through its public surface is visible to another, no container shared -/\n'
    body += f'def trackerNsThreadLocal : Bool := {_bool(m["trk_local"])}\n'
    body += '/-- in_array_formula_context: likewise -/\n'
    body += f'def ctxNsThreadLocal : Bool := {_bool(m["ctx_local"])}\n'
    body += '/-- attributes the lazy `_IterativeEvalTracker.ns` creates on a fresh thread -/\n'
    body += f'def trackerLazy : List String := {_lean_str_list(sorted(lazy))}\n'
    body += f'def trackerLazyIterations : Option Nat := {its_l}\n'
    body += f'def trackerLazyTolerance : Option (Int × Nat) := {tol_l}\n'
    body += '/-- attributes `_IterativeEvalTracker.__call__` assigns -/\n'
    body += f'def trackerCallSets : List String := {_lean_str_list(m["trk_call"])}\n'
    body += '/-- attributes the lazy `_ArrayFormulaContext.ns` creates on a fresh thread -/\n'
    body += f'def ctxLazy : List String := {_lean_str_list(sorted(m["ctx_lazy"]))}\n'
    body += '/-- the first `with in_array_formula_context(addr)` of a brand-new thread sees addr -/\n'
    body += f'def ctxFreshFirstWith : Bool := {_bool(m["ctx_fresh"])}\n'
    body += '/-- apply_meta stores name_space in the function\'s module-level metadata dict (last binder wins) -/\n'
    body += f'def funcMetaShared : Bool := {_bool(m["meta_shared"])}\n'
    body += '/-- library functions that read excel_func_meta[\'name_space\'] at call time -/\n'
    body += f'def funcMetaReaders : List String := {_lean_str_list(m["meta_readers"])}\n'
    body += '/-- _Cell.ctr is one class attribute for all compilers and threads -/\n'
    body += f'def cellCtrShared : Bool := {_bool(m["ctr_shared"])}\n'
    body += '/-- module-level / class-level mutables of the pycel modules written by a multi-compiler workload -/\n'
    body += f'def sharedWritten : List String := {_lean_str_list(m["shared_written"])}\n'
    body += '\nend Pycel.Gen.Threads\n'
    return body

"""C04 tables: the reference-bearing emission handlers and the reference-parameter metadata.

Read from the LIVE modules by introspection:
  * the `func_*` attributes of `excelformula.FunctionNode` (the special emission handlers `FunctionNode.emit` finds with
    `getattr(self, f'func_{func}')`): a NEW handler is a new emission shape the `needed_addresses` scanner may not see;
  * `ADDR_FUNCS_NAMES` (also in Prec.lean, repeated here so that C04 does not depend on C02's table file layout);
  * `ref_params` of the library functions whose first argument is emitted as a reference (`_REF_`): ROW, COLUMN, OFFSET
    (`-2` stands for `None` = "no reference parameter", `-1` for "no wrapper").
`Pycel.Needed.handlers_spec`, `addr_funcs_spec` and `ref_params_spec` in Props/C04.lean are proved by evaluation of these
definitions, and `emitN` / `scan` / `evalT` in Model/Needed.lean dispatch on exactly these names, so a changed table
(a new handler, `_REF_` dropped from ADDR_FUNCS_NAMES, ROW no longer taking a reference) breaks the proofs.
"""
from harness.tables import table


def _chars(s):
    assert all(32 <= ord(c) < 127 for c in s), s
    esc = {"'": "\\'", '\\': '\\\\'}
    return '[' + ', '.join("'" + esc.get(c, c) + "'" for c in s) + ']'


@table('RefMeta.lean')
def refmeta():
    from pycel import excelformula
    from pycel.lib import lookup
    handlers = sorted(n[5:] for n in dir(excelformula.FunctionNode) if n.startswith('func_'))
    body = 'namespace Pycel.Gen\n\n'
    body += '/-- the `func_*` attributes of excelformula.FunctionNode (special emission handlers), sorted -/\n'
    body += 'def funcHandlers : List (List Char) := [\n' + ',\n'.join('  ' + _chars(h) for h in handlers) + ']\n\n'
    body += '/-- excelformula.ADDR_FUNCS_NAMES: the call names the needed_addresses scanner looks for -/\n'
    body += 'def scanNames : List (List Char) := [' + ', '.join(
        _chars(n) for n in excelformula.ADDR_FUNCS_NAMES) + ']\n\n'
    body += ('/-- excel_func_meta[ref_params] of the library functions that receive an emitted reference\n'
             '    (an index, -2 = None, -1 = no wrapper) -/\n')
    body += 'def refParams : List (List Char × Int) := [\n'
    rows = []
    for name in ('row', 'column', 'offset'):
        rp = getattr(lookup, name).excel_func_meta['ref_params']
        if rp is None:
            rp = -2
        if not isinstance(rp, int):
            raise ValueError(f'ref_params of {name} is not a single index: {rp!r}')
        rows.append(f'  ({_chars(name)}, {rp})')
    body += ',\n'.join(rows) + ']\n'
    body += '\nend Pycel.Gen\n'
    return body

"""C06 tables: the constants of iterative calculation, read from the LIVE pycel by introspection.

  rel                 signature default of `_CellBase.close_enough(value, rel=…, tol=None)`
  inclusive           the comparison `close_enough` applies to `abs(value - self.value) ? (1 + rel) * tol`
                      (first COMPARE_OP of its byte code: `<=` -> true, `<` -> false)
  default iterations  the int literal of `ExcelCompiler._evaluate_iterative` (`iterations or cfg or 10000`)
  default tolerance   the float literal of `ExcelCompiler._evaluate_iterative` (`tolerance or cfg or 0.01`)

Pycel/Model/Iter.lean uses them; `C06_consts` (Props/C06.lean) pins them to the values the theorems are stated with,
so a changed default / operator stops the proofs from checking.
"""
import dis
import inspect
from fractions import Fraction

from harness.tables import table


@table('IterConsts.lean')
def iter_consts():
    from pycel.excelcompiler import ExcelCompiler, _CellBase
    rel = Fraction(str(inspect.signature(_CellBase.close_enough).parameters['rel'].default))
    cmps = [i.argrepr for i in dis.get_instructions(_CellBase.close_enough) if i.opname == 'COMPARE_OP']
    if not cmps or cmps[0].split()[0] not in ('<', '<='):
        raise ValueError(f'close_enough: unexpected comparison {cmps}')
    inclusive = cmps[0].split()[0] == '<='
    consts = ExcelCompiler._evaluate_iterative.__code__.co_consts
    ints = [c for c in consts if isinstance(c, int) and not isinstance(c, bool)]
    floats = [c for c in consts if isinstance(c, float)]
    if len(ints) != 1 or len(floats) != 1:
        raise ValueError(f'_evaluate_iterative: expected one int and one float literal, got {ints} {floats}')
    tol = Fraction(str(floats[0]))
    body = 'namespace Pycel.Gen\n\n'
    body += '/-- `rel` default of `_CellBase.close_enough` as numerator / denominator -/\n'
    body += f'def closeEnoughRelNum : Nat := {rel.numerator}\n'
    body += f'def closeEnoughRelDen : Nat := {rel.denominator}\n\n'
    body += '/-- `close_enough(…, tol=t)` compares with `<=` (true) or `<` (false) -/\n'
    body += f'def closeEnoughInclusive : Bool := {"true" if inclusive else "false"}\n\n'
    body += '/-- `iterations or self.cycles[\'iterations\'] or <this>` in `_evaluate_iterative` -/\n'
    body += f'def iterDefaultIterations : Nat := {ints[0]}\n\n'
    body += '/-- `tolerance or self.cycles[\'tolerance\'] or <this>` in `_evaluate_iterative` -/\n'
    body += f'def iterDefaultTolNum : Nat := {tol.numerator}\n'
    body += f'def iterDefaultTolDen : Nat := {tol.denominator}\n'
    body += '\nend Pycel.Gen\n'
    return body

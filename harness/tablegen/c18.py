from harness.tables import lean_nat_fun, table


@table('Consts.lean')
def consts():
    from pycel.lib import engineering
    body = 'namespace Pycel.Gen\n\n'
    body += lean_nat_fun('sizeMask', 'engineering._SIZE_MASK', engineering._SIZE_MASK)
    body += '\nend Pycel.Gen\n'
    return body

"""C15 tables: the criteria operator table and the operator-splitting pattern, read from the LIVE excelutil module.

  * `excelutil.OPERATORS`    : criteria prefix ('' = no prefix) -> function of the `operator` module (by __name__);
  * `excelutil.OPERATORS_RE` : the pattern that splits a criteria text into (oper, value).
Props/C15.lean proves `splitOp` against both (`C15_operator_table`, `C15_operator_pattern`): a changed table or pattern
makes those theorems fail to check.
"""
from harness.tables import table


def _lean_str(s):
    assert all(32 <= ord(c) < 127 and c not in '"\\' for c in s), s
    return f'"{s}"'


def operator_table():
    from pycel import excelutil
    ops = {}
    for k, f in excelutil.OPERATORS.items():
        if not isinstance(k, str) or getattr(f, '__module__', '') not in ('_operator', 'operator'):
            raise ValueError(f'OPERATORS entry {k!r}: {f!r} is not (text -> operator function)')
        ops[k] = f.__name__
    return ops, excelutil.OPERATORS_RE.pattern


@table('Criteria.lean')
def criteria():
    ops, pattern = operator_table()
    body = 'namespace Pycel.Gen\n\n'
    body += '/-- excelutil.OPERATORS: criteria prefix -> name of the `operator` function -/\n'
    body += 'def criteriaOperators : List (String × String) := [\n'
    body += ',\n'.join(f'  ({_lean_str(k)}, {_lean_str(ops[k])})' for k in sorted(ops)) + ']\n\n'
    body += '/-- excelutil.OPERATORS_RE.pattern -/\n'
    body += f'def criteriaOperatorsRe : String := {_lean_str(pattern)}\n'
    body += '\nend Pycel.Gen\n'
    return body

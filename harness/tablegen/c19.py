"""C19 tables: signature defaults and excel_helper metadata of the rounding family, read from the live excellib."""
from harness.tables import table

# key used by the model / harness (lower-case Excel name with '.' -> '_')
FAMILY = ('round', 'roundup', 'rounddown', 'trunc', 'int', 'mod', 'ceiling', 'floor', 'ceiling_math', 'floor_math',
          'ceiling_precise', 'floor_precise', 'even', 'odd')


@table('RoundingMeta.lean')
def rounding_meta():
    import inspect

    from pycel import excellib
    from pycel.excelformula import FunctionNode
    from pycel.lib.function_helpers import FUNC_META
    rows = []
    for key in FAMILY:
        f = getattr(excellib, FunctionNode.func_map.get(key, key))
        params = list(inspect.signature(f).parameters.values())
        required = [p for p in params if p.default is inspect.Parameter.empty]
        defaults = [p.default for p in params if p.default is not inspect.Parameter.empty]
        if any(p.kind not in (p.POSITIONAL_OR_KEYWORD, p.POSITIONAL_ONLY) for p in params) or \
                not all(isinstance(d, int) and not isinstance(d, bool) for d in defaults):
            raise ValueError(f'{key}: signature {inspect.signature(f)} is outside the model')
        meta = getattr(f, FUNC_META, None) or {}
        # excel_math_func: every parameter is error-checked, coerced to a number, and CSE-broadcast
        math_func = meta.get('err_str_params') == -1 and meta.get('number_params') == -1 and \
            meta.get('cse_params') == -1 and meta.get('str_params') is None and meta.get('bool_params') is None
        ds = ', '.join(f'({d} : Int)' for d in defaults)
        rows.append(f'  ("{key}", {len(required)}, [{ds}], {"true" if math_func else "false"})')
    body = 'namespace Pycel.Gen.RoundingMeta\n\n'
    body += '/-- (function, number of required parameters, defaults of the optional ones, wrapped as excel_math_func) -/\n'
    body += 'def table : List (String × Nat × List Int × Bool) := [\n' + ',\n'.join(rows) + ']\n'
    body += '\nend Pycel.Gen.RoundingMeta\n'
    return body

"""Plugin library for the C09 correspondence (passed to ExcelCompiler(plugins=...)).

  FAILAT(id, k, kind, shape, x)  returns x; raises the Python exception class named `kind`, built with the
                          argument tuple named `shape` (no args, several, non-string, unrenderable, ...), on the k-th call (1-based) made
                          with this id since the last `reset()`; k = 0 raises on every call.  One id per workbook
                          cell, so the count is the number of times that cell's formula has been applied.
"""
COUNTS = {}


class PluginError(Exception):
    """a custom Exception subclass of a plugin library"""


KINDS = {c.__name__: c for c in (
    NameError, UnboundLocalError, RecursionError, KeyError, IndexError, ValueError, TypeError, ZeroDivisionError,
    AssertionError, AttributeError, NotImplementedError, RuntimeError, PluginError)}


def reset():
    COUNTS.clear()


class BadStr:
    """an exception argument that cannot be rendered"""
    def __str__(self):
        raise TypeError('__str__ of the argument failed')
    __repr__ = __str__


SHAPES = {
    'msg': lambda i, n: (f'plugin failure id={i} call={n}',),
    'noargs': lambda i, n: (),
    'multi': lambda i, n: ('first', 2, None),
    'none': lambda i, n: (None,),
    'int': lambda i, n: (42,),
    'tuple': lambda i, n: ((1, 'two'),),
    'bytes': lambda i, n: (b'\xff{0}%s',),
    'badstr': lambda i, n: (BadStr(),),
    'fmt': lambda i, n: ('{0} {name} %s %(x)d {',),
}


def failat(ident, k, kind, shape, x):
    n = COUNTS.get(ident, 0) + 1
    COUNTS[ident] = n
    if k == 0 or n == k:
        raise KINDS[kind](*SHAPES[shape](ident, n))
    return x


def failneg(x):
    """a library function that fails on some arguments only: raises ValueError for a negative number"""
    if isinstance(x, (int, float)) and x < 0:
        raise ValueError(f'{x} is negative')
    return x

"""Plugin library for the C09 correspondence (passed to ExcelCompiler(plugins=...)).

  FAILAT(id, k, x)   returns x; raises RuntimeError on the k-th call (1-based) made with this id since the last
                     `reset()`; k = 0 raises on every call.  One id per workbook cell, so the count is the number of
                     times that cell's formula has been applied.
"""
COUNTS = {}


def reset():
    COUNTS.clear()


def failat(ident, k, x):
    n = COUNTS.get(ident, 0) + 1
    COUNTS[ident] = n
    if k == 0 or n == k:
        raise RuntimeError(f'plugin failure id={ident} call={n}')
    return x

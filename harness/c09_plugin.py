"""Plugin library for the C09 correspondence (passed to ExcelCompiler(plugins=...)).

  FAILAT(id, k, kind, x)  returns x; raises the Python exception class named `kind` on the k-th call (1-based) made
                          with this id since the last `reset()`; k = 0 raises on every call.  One id per workbook
                          cell, so the count is the number of times that cell's formula has been applied.
"""
COUNTS = {}


class PluginError(Exception):
    """a custom Exception subclass of a plugin library"""


KINDS = {c.__name__: c for c in (
    NameError, UnboundLocalError, RecursionError, KeyError, IndexError, ValueError, TypeError, ZeroDivisionError,
    AssertionError, AttributeError, NotImplementedError, RuntimeError, PluginError)}


def reset():
    COUNTS.clear()


def failat(ident, k, kind, x):
    n = COUNTS.get(ident, 0) + 1
    COUNTS[ident] = n
    if k == 0 or n == k:
        raise KINDS[kind](f'plugin failure id={ident} call={n}')
    return x

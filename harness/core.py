"""
Core of the /verif check machinery (see DESIGN.md §2-§4).

A property module (harness/props/cXX.py) provides:

    ID            'C18'
    LEAN_MODULE   'Pycel.Props.C18'             (lake target holding the property theorems)
    THEOREMS      ['Pycel.Radix.C18_roundtrip', ...]   (audited with #print axioms; = proof obligations)
    DESIGN_REF    'DESIGN.md §7 C18'
    RULE          text: how cases are generated and what makes one non-trivial
    ASSUMPTIONS   [text, ...]
    def cases(tier, rng)        -> iterable of JSON-serialisable case dicts (corpus cases are prepended by core)
    def impl(case)              -> canonical output string of the real pycel (exceptions are mapped by core)
    def model_lines(case)       -> list of driver lines whose joined answers ('|') are the model's canonical output
    def governed(case)          -> True when the property itself fixes the expected output for this case
                                   (model follows the property there: a disagreement IS a failing input)
    def oracles(results)        -> iterable of (case, text) : property relations evaluated on implementation
                                   outputs only (results = list of Result), each a concrete failing input
    def finding_key(case, impl_out, model_out) -> key of the known-finding class the case falls in, or None
    def nontrivial(case)        -> bool ;  def bucket(case) -> str   (coverage histogram)
    optional: def same(impl_out, model_out) -> bool   (default: string equality after canonicalisation)
    optional: REQUIRED_BUCKETS = [...]  buckets that the deterministic part of the generator must hit

The core builds the Lean side, audits axioms, runs corpus + generated cases through implementation and model, applies
the decision logic of DESIGN.md §4.2 and writes evidence/<id>.json.
"""
import fcntl
import importlib
import json
import os
import random
import re
import subprocess
import sys
import time
import traceback
from fractions import Fraction

VERIF = os.path.dirname(os.path.dirname(os.path.abspath(__file__)))
LEAN = os.path.join(VERIF, 'lean')
REPO = os.environ.get('PYCEL_REPO', '/repo')


def driver_path(prop_id):
    return os.path.join(LEAN, '.lake', 'build', 'bin', f'drv_{prop_id.lower()}')


ALLOWED_AXIOMS = {'propext', 'Classical.choice', 'Quot.sound'}
FORBIDDEN = re.compile(r'\b(sorry|admit|native_decide|bv_decide|implemented_by|unsafe)\b|^\s*axiom\s|maxHeartbeats\s+0\b')

os.environ.setdefault('PYCEL_VERIF', '1')
if os.path.join(REPO, 'src') not in sys.path:
    sys.path.insert(0, os.path.join(REPO, 'src'))


# ---------------------------------------------------------------------------------------------------------------
# value encoding shared with lean/Pycel/Model/Proto.lean

ERR_TAGS = {'#NULL!': 'null', '#DIV/0!': 'div0', '#VALUE!': 'value', '#REF!': 'ref', '#NAME?': 'name',
            '#NUM!': 'num', '#N/A': 'na'}
TAG_ERRS = {v: k for k, v in ERR_TAGS.items()}


def enc(v):
    """encode a Python/Excel scalar as one protocol token"""
    import numpy as np
    if v is None:
        return 'z'
    if isinstance(v, (bool, np.bool_)):
        return 'b:1' if v else 'b:0'
    if isinstance(v, (int, np.integer)):
        return f'n:{int(v)}/1'
    if isinstance(v, (float, np.floating)):
        v = float(v)
        if v != v:
            return '!nan'
        if v in (float('inf'), float('-inf')):
            return '!inf'
        f = Fraction(v)
        return f'n:{f.numerator}/{f.denominator}'
    if isinstance(v, Fraction):
        return f'n:{v.numerator}/{v.denominator}'
    if isinstance(v, str):
        if v in ERR_TAGS:
            return 'e:' + ERR_TAGS[v]
        return 's:' + ','.join(str(ord(c)) for c in v)
    if isinstance(v, (tuple, list)):
        rows = [list(r) if isinstance(r, (tuple, list)) else [r] for r in v]
        return ' '.join([f'a:{len(rows)}:{len(rows[0]) if rows else 0}'] + [enc(x) for r in rows for x in r])
    return f'!type:{type(v).__name__}'


def enc_text(s):
    """always a text token, even when the text spells an error code"""
    return 's:' + ','.join(str(ord(c)) for c in s)


def dec(tok):
    """decode one protocol token to a Python value (numbers as Fraction)"""
    if tok == 'z':
        return None
    if tok.startswith('n:'):
        p, _, q = tok[2:].partition('/')
        return Fraction(int(p), int(q or 1))
    if tok.startswith('s:'):
        body = tok[2:]
        return ''.join(chr(int(c)) for c in body.split(',')) if body else ''
    if tok.startswith('b:'):
        return tok == 'b:1'
    if tok.startswith('e:'):
        return TAG_ERRS[tok[2:]]
    return tok


def show(tok):
    """human-readable form of an output string for reports"""
    try:
        parts = []
        for t in tok.split(' '):
            v = dec(t)
            if isinstance(v, Fraction):
                v = int(v) if v.denominator == 1 else float(v)
            parts.append(repr(v))
        return ' '.join(parts)
    except Exception:
        return tok


def canon_exc(exc):
    """map an exception to a small enum: pycel's own errors vs bare internal exceptions"""
    name = type(exc).__name__
    mod = type(exc).__module__ or ''
    if mod.startswith('pycel'):
        inner = ''
        msg = str(exc)
        m = re.search(r'\n(\w+(?:Error|Exception)): ', msg)
        if m:
            inner = f'({m.group(1)})'
        return f'!exc:pycel:{name}{inner}'
    return f'!exc:bare:{name}'


def num_close(a, b, rel=1e-12):
    """tokens a, b both numbers and equal up to a relative tolerance"""
    if a.startswith('n:') and b.startswith('n:'):
        x, y = dec(a), dec(b)
        if x == y:
            return True
        return abs(x - y) <= rel * max(abs(x), abs(y))
    return False


# ---------------------------------------------------------------------------------------------------------------
# Lean side

class LeanSide:
    def __init__(self, log):
        self.log = log
        self.driver_ok = False
        self.props_ok = False
        self.build_log = ''
        self.axioms = {}
        self.forbidden_hits = []

    def _lake(self, args, timeout=1500):
        lock = open(os.path.join(LEAN, '.lake.lock'), 'w')
        fcntl.flock(lock, fcntl.LOCK_EX)
        try:
            p = subprocess.run(['lake'] + args, cwd=LEAN, capture_output=True, text=True, timeout=timeout)
            return p.returncode, p.stdout + p.stderr
        finally:
            fcntl.flock(lock, fcntl.LOCK_UN)
            lock.close()

    def build(self, lean_module, prop_id):
        rc, out = self._lake(['build', f'drv_{prop_id.lower()}'])
        self.driver_ok = rc == 0 and os.path.exists(driver_path(prop_id))
        self.build_log += out[-4000:] if rc else ''
        rc, out = self._lake(['build', lean_module])
        self.props_ok = rc == 0
        self.build_log += out[-6000:] if rc else ''
        return self.driver_ok, self.props_ok

    def audit(self, prop_id, lean_module, theorems):
        """#print axioms for every property theorem; returns dict theorem -> list of axioms | None (missing)"""
        path = os.path.join(LEAN, 'Audit', f'{prop_id}.lean')
        src = f'-- GENERATED by harness/core.py from {prop_id}.THEOREMS. Do not edit.\nimport {lean_module}\n' + \
              ''.join(f'#print axioms {t}\n' for t in theorems)
        write_if_changed(path, src)
        res = {t: None for t in theorems}
        if not self.props_ok:
            self.axioms = res
            return res
        lock = open(os.path.join(LEAN, '.lake.lock'), 'w')
        fcntl.flock(lock, fcntl.LOCK_SH)
        try:
            p = subprocess.run(['lake', 'env', 'lean', path], cwd=LEAN, capture_output=True, text=True, timeout=900)
        finally:
            fcntl.flock(lock, fcntl.LOCK_UN)
            lock.close()
        out = p.stdout + p.stderr
        out1 = re.sub(r'\s+', ' ', out)
        for t in theorems:
            m = re.search(r"'" + re.escape(t) + r"' depends on axioms: \[([^\]]*)\]", out1)
            if m:
                res[t] = [a.strip() for a in m.group(1).split(',') if a.strip()]
            elif re.search(r"'" + re.escape(t) + r"' does not depend on any axioms", out1):
                res[t] = []
        self.axioms = res
        if p.returncode != 0:
            self.build_log += out[-3000:]
        return res

    @staticmethod
    def import_closure(modules):
        """transitive `import Pycel.*` closure of the given Lean modules -> list of source paths"""
        seen, todo, paths = set(), list(modules), []
        while todo:
            m = todo.pop()
            if m in seen:
                continue
            seen.add(m)
            path = os.path.join(LEAN, *m.split('.')) + '.lean'
            if not os.path.exists(path):
                continue
            paths.append(path)
            for line in open(path, encoding='utf-8'):
                mm = re.match(r'\s*(?:public\s+)?import\s+((?:Pycel|Drivers)\.[\w.]+)', line)
                if mm:
                    todo.append(mm.group(1))
        return sorted(paths)

    def grep_forbidden(self, modules):
        """forbidden tokens in the Lean sources this property depends on (comments discarded)"""
        hits = []
        for path in self.import_closure(modules):
                in_block = 0
                for i, line in enumerate(open(path, encoding='utf-8'), 1):
                    code = line
                    out = ''
                    j = 0
                    while j < len(code):
                        if code.startswith('/-', j):
                            in_block += 1
                            j += 2
                        elif code.startswith('-/', j) and in_block:
                            in_block -= 1
                            j += 2
                        elif in_block:
                            j += 1
                        elif code.startswith('--', j):
                            break
                        else:
                            out += code[j]
                            j += 1
                    # string literals cannot hide a proof hole; drop them so that text such as "sorry" is not flagged
                    out = re.sub(r'"(?:[^"\\]|\\.)*"', '""', out)
                    if FORBIDDEN.search(out):
                        hits.append(f'{os.path.relpath(path, LEAN)}:{i}: {line.strip()[:120]}')
        self.forbidden_hits = hits
        self.sources = [os.path.relpath(p, LEAN) for p in self.import_closure(modules)]
        return hits


def write_if_changed(path, content):
    try:
        if open(path, encoding='utf-8').read() == content:
            return False
    except FileNotFoundError:
        pass
    os.makedirs(os.path.dirname(path), exist_ok=True)
    tmp = f'{path}.tmp{os.getpid()}'
    with open(tmp, 'w', encoding='utf-8') as f:
        f.write(content)
    os.replace(tmp, path)
    return True


def run_driver(prop_id, lines, timeout=3000):
    """pipe protocol lines to the compiled model; returns the list of answer lines"""
    if not lines:
        return []
    p = subprocess.run([driver_path(prop_id)], input='\n'.join(lines) + '\n', capture_output=True, text=True, timeout=timeout)
    outs = p.stdout.split('\n')
    if outs and outs[-1] == '':
        outs.pop()
    if p.returncode != 0 or len(outs) != len(lines):
        raise RuntimeError(f'driver failed rc={p.returncode} answers={len(outs)}/{len(lines)} {p.stderr[-500:]}')
    return outs


# ---------------------------------------------------------------------------------------------------------------

class Result:
    __slots__ = ('case', 'impl', 'model', 'agree', 'from_corpus')

    def __init__(self, case, impl, model=None, from_corpus=False):
        self.case, self.impl, self.model, self.from_corpus = case, impl, model, from_corpus
        self.agree = None


def load_findings():
    """known_findings.txt -> {(property, key): text} for 'finding:' lines (fixed: lines suppress nothing)"""
    out = {}
    path = os.path.join(VERIF, 'known_findings.txt')
    if os.path.exists(path):
        for line in open(path, encoding='utf-8'):
            line = line.strip()
            m = re.match(r'finding:\s+property=(\S+)\s+key=(\S+)\s*::\s*(.*)', line)
            if m:
                out[(m.group(1), m.group(2))] = m.group(3)
    return out


def load_corpus(prop_id):
    cases = []
    d = os.path.join(VERIF, 'corpus', prop_id)
    if os.path.isdir(d):
        for f in sorted(os.listdir(d)):
            if f.endswith('.jsonl'):
                for line in open(os.path.join(d, f), encoding='utf-8'):
                    line = line.strip()
                    if line and not line.startswith('#'):
                        cases.append(json.loads(line))
    return cases


def safe_impl(mod, case):
    try:
        return mod.impl(case)
    except RecursionError as exc:
        return canon_exc(exc)
    except Exception as exc:   # noqa
        return canon_exc(exc)


def main(argv=None):
    import argparse
    ap = argparse.ArgumentParser()
    ap.add_argument('prop')
    ap.add_argument('--tier', default=os.environ.get('VERIF_TIER', 'quick'), choices=['quick', 'thorough'])
    ap.add_argument('--replay')
    ap.add_argument('--no-build', action='store_true', help='(development) skip lake build; audit still runs')
    args = ap.parse_args(argv)
    t0 = time.time()
    seed = int(os.environ.get('VERIF_SEED', '0'))
    prop_id = args.prop.upper()
    mod = importlib.import_module(f'harness.props.{prop_id.lower()}')
    rng = random.Random(f'{prop_id}:{seed}')
    log = []

    # checks against the default /repo may overlap each other; a check against another tree (PYCEL_REPO, used for
    # seeded changes) regenerates lean/Pycel/Generated from THAT tree, so it must not overlap any other check
    session = open(os.path.join(LEAN, '.session.lock'), 'w')
    fcntl.flock(session, fcntl.LOCK_SH if os.path.realpath(REPO) == '/repo' else fcntl.LOCK_EX)

    # the implementation under check must really be the tree named by PYCEL_REPO (default /repo): a vanished scratch
    # worktree would otherwise fall back silently to the editable install
    try:
        import pycel as _pycel
        _where = os.path.realpath(_pycel.__file__)
    except Exception as exc:   # noqa
        _where = f'<import failed: {type(exc).__name__}: {exc}>'
    if not _where.startswith(os.path.realpath(os.path.join(REPO, 'src')) + os.sep):
        print(f'INCONCLUSIVE property={prop_id} pycel was imported from {_where}, not from {REPO}/src')
        return 2

    # 0. tables regenerated from the live source (a changed table breaks the proofs that use it)
    table_err = None
    try:
        from harness import tables
        tables.generate()
    except Exception as exc:   # noqa
        table_err = f'table translator failed: {type(exc).__name__}: {exc}'

    # 1. Lean: build model driver + property theorems, audit axioms
    lean = LeanSide(log)
    if args.no_build:
        lean.driver_ok, lean.props_ok = os.path.exists(driver_path(prop_id)), True
    else:
        lean.build(mod.LEAN_MODULE, prop_id)
    axioms = lean.audit(prop_id, mod.LEAN_MODULE, mod.THEOREMS)
    forbidden = lean.grep_forbidden([mod.LEAN_MODULE, f'Pycel.Drv.{prop_id}'])
    broken_theorems = []
    leancheck = 'not run (quick tier)'
    if args.tier == 'thorough' and lean.props_ok and not args.replay:
        try:
            p = subprocess.run(['lake', 'env', 'leanchecker', mod.LEAN_MODULE], cwd=LEAN, capture_output=True,
                               text=True, timeout=1800)
            leancheck = 'ok' if p.returncode == 0 else 'FAILED: ' + (p.stdout + p.stderr)[-400:]
            if p.returncode != 0:
                broken_theorems.append(f'leanchecker rejected {mod.LEAN_MODULE}: {leancheck}')
        except subprocess.TimeoutExpired:
            leancheck = 'timeout'
    for t, ax in axioms.items():
        if ax is None:
            broken_theorems.append(f'{t}: does not check (build failed or theorem missing)')
        elif not set(ax) <= ALLOWED_AXIOMS:
            broken_theorems.append(f'{t}: depends on axioms {sorted(set(ax) - ALLOWED_AXIOMS)}')
    if forbidden:
        broken_theorems.append('forbidden tokens in Lean sources: ' + '; '.join(forbidden[:5]))
    if table_err:
        broken_theorems.append(table_err)
    if not lean.props_ok and not broken_theorems:
        broken_theorems.append(f'{mod.LEAN_MODULE}: lake build failed')
    discharged = sum(1 for t, ax in axioms.items() if ax is not None and set(ax) <= ALLOWED_AXIOMS) \
        if not forbidden else 0

    # 2. cases: corpus first, then generated (or the single replayed case)
    harness_err = None
    if args.replay:
        rep = json.load(open(args.replay, encoding='utf-8'))
        todo = [(c, True) for c in rep.get('cases', [])]
    else:
        todo = [(c, True) for c in load_corpus(prop_id)]
        try:
            todo += [(c, False) for c in mod.cases(args.tier, rng)]
        except Exception as exc:   # noqa  the harness cannot drive this implementation: correspondence is broken
            harness_err = f'case generation/instrumentation failed: {type(exc).__name__}: {exc}\n' + \
                traceback.format_exc()[-1500:]

    results = []
    for case, from_corpus in todo:
        results.append(Result(case, safe_impl(mod, case), from_corpus=from_corpus))

    # 3. model outputs through the compiled driver
    driver_err = None
    if lean.driver_ok:
        try:
            lines, spans = [], []
            for r in results:
                ls = mod.model_lines(r.case)
                spans.append((len(lines), len(ls)))
                lines.extend(ls)
            outs = run_driver(prop_id, lines)
            for r, (a, n) in zip(results, spans):
                r.model = '|'.join(outs[a:a + n])
        except Exception as exc:   # noqa
            driver_err = f'{type(exc).__name__}: {exc}'
    else:
        driver_err = 'driver did not build'
    same = getattr(mod, 'same', None) or (lambda a, b: a == b)
    disagreements = []
    if driver_err is None:
        for r in results:
            r.agree = same(r.impl, r.model)
            if not r.agree:
                disagreements.append(r)

    # 4. property oracles on implementation outputs only
    oracle_fail = []
    try:
        for case, text in mod.oracles(results):
            oracle_fail.append((case, text))
    except Exception as exc:   # noqa  an oracle that cannot read the implementation's outputs: correspondence broken
        harness_err = (harness_err or '') + f'oracle crashed: {type(exc).__name__}: {exc}\n' + \
            traceback.format_exc()[-1500:]

    # 5. triage
    findings = load_findings()
    known_hit = {}
    violations = []          # (case, text, impl, model)
    broken_corr = []         # ungoverned disagreements
    for r in disagreements:
        key = mod.finding_key(r.case, r.impl, r.model)
        if key and (prop_id, key) in findings:
            known_hit.setdefault(key, r)
            continue
        if mod.governed(r.case):
            violations.append((r.case, f'implementation {show(r.impl)} ≠ property-governed model {show(r.model)}',
                               r.impl, r.model))
        else:
            broken_corr.append(r)
    by_case = {json.dumps(r.case, sort_keys=True): r for r in results}
    for case, text in oracle_fail:
        r = by_case.get(json.dumps(case, sort_keys=True))
        impl_out = r.impl if r else None
        model_out = r.model if r else None
        key = mod.finding_key(case, impl_out, model_out)
        if key and (prop_id, key) in findings:
            known_hit.setdefault(key, r or Result(case, impl_out))
            continue
        violations.append((case, f'oracle: {text}', impl_out, model_out))

    # 6. coverage
    buckets = {}
    distinct = set()
    nontrivial = 0
    for r in results:
        b = mod.bucket(r.case)
        buckets[b] = buckets.get(b, 0) + 1
        k = json.dumps(r.case, sort_keys=True)
        if k not in distinct:
            distinct.add(k)
            if mod.nontrivial(r.case):
                nontrivial += 1
    missing = [b for b in getattr(mod, 'REQUIRED_BUCKETS', []) if not buckets.get(b)] if not args.replay else []

    # 7. report
    os.makedirs(os.path.join(VERIF, 'replays', prop_id), exist_ok=True)
    stamp = time.strftime('%Y%m%dT%H%M%S')
    exit_code = 0
    lines_out = []
    for key, r in sorted(known_hit.items()):
        lines_out.append(f'KNOWN-FINDING: property={prop_id} {key} :: {findings[(prop_id, key)]} '
                         f'[e.g. {json.dumps(r.case, sort_keys=True)[:160]}]')

    def write_replay(name, payload):
        path = os.path.join(VERIF, 'replays', prop_id, f'{stamp}-{seed}-{name}.json')
        with open(path, 'w', encoding='utf-8') as f:
            json.dump(payload, f, indent=1, sort_keys=True)
        return os.path.relpath(path, VERIF)

    if violations:
        # minimal replay: smallest case by serialised size
        violations.sort(key=lambda v: len(json.dumps(v[0])))
        shown = set()
        for case, text, impl_out, model_out in violations:
            cls = (mod.bucket(case), text.split(':')[0])
            if cls in shown:
                continue
            shown.add(cls)
            path = write_replay(f'v{len(shown)}', {
                'property': prop_id, 'kind': 'violation', 'seed': seed, 'tier': args.tier, 'cases': [case],
                'what': text, 'impl': impl_out, 'model': model_out,
                'impl_readable': show(impl_out) if impl_out else None,
                'model_readable': show(model_out) if model_out else None,
                'replay_cmd': f'./check {prop_id} --replay <this file>'})
            lines_out.append(f'VIOLATION property={prop_id} replay={path}')
            if len(shown) >= 5:
                break
        exit_code = 1
    elif broken_theorems or broken_corr or driver_err or harness_err:
        payload = {'property': prop_id, 'kind': 'unproved', 'seed': seed, 'tier': args.tier,
                   'broken_proof_obligations': broken_theorems,
                   'broken_correspondence': [
                       {'case': r.case, 'impl': r.impl, 'model': r.model, 'impl_readable': show(r.impl),
                        'model_readable': show(r.model or '')} for r in broken_corr[:20]],
                   'driver_error': driver_err, 'harness_error': harness_err,
                   'build_log_tail': lean.build_log[-3000:],
                   'cases': [r.case for r in broken_corr[:20]],
                   'searched': f'{len(results)} cases through the property oracles and the governed correspondence; '
                               'no concrete failing input of the property was found'}
        path = write_replay('unproved', payload)
        lines_out.append(f'VIOLATION property={prop_id} replay={path} no-failing-input-found')
        exit_code = 1
    elif missing:
        lines_out.append(f'INCONCLUSIVE property={prop_id} generator left required buckets empty: {missing}')
        exit_code = 2

    wall = time.time() - t0
    if not args.replay:
        samples = [{'case': r.case, 'impl': show(r.impl), 'model': show(r.model or '')}
                   for r in (results[:2] + results[len(results) // 2:len(results) // 2 + 2] + results[-2:])]
        evidence = {
            'property_id': prop_id, 'tier': args.tier, 'seed': seed, 'level': 'proof',
            'coverage': {
                'obligations': len(mod.THEOREMS), 'discharged': discharged,
                'checker_cmd': f'cd lean && lake build {mod.LEAN_MODULE} && lake env lean Audit/{prop_id}.lean',
                'trusted_base': [
                    'Lean 4.33.0 kernel',
                    'axioms: ' + ', '.join(sorted({a for ax in axioms.values() if ax for a in ax}) or ['none']),
                    'correspondence harness harness/core.py + harness/props/%s.py (differential testing)'
                    % prop_id.lower(),
                    'table translator harness/tables.py', 'Lean compiler/runtime executing the model driver',
                ] + list(getattr(mod, 'TRUSTED', [])),
                'leanchecker': leancheck,
                'lean_sources_audited': getattr(lean, 'sources', []),
                'theorems': {t: ('ok ' + str(ax) if ax is not None else 'NOT CHECKED') for t, ax in axioms.items()},
                'evaluations': len(results), 'distinct_nontrivial': nontrivial, 'rule': mod.RULE,
                'samples': samples,
                'distribution': dict(sorted(buckets.items())),
                'correspondence': {'compared': 0 if driver_err else len(results),
                                   'disagreements': len(disagreements),
                                   'known_finding_classes_hit': sorted(known_hit),
                                   'governed_cases': sum(1 for r in results if mod.governed(r.case))},
                'oracle_failures': len(oracle_fail),
                'explanation': getattr(mod, 'EXPLANATION', ''),
                'exhaustive': bool(getattr(mod, 'EXHAUSTIVE', False)),
            },
            'assumptions': list(mod.ASSUMPTIONS),
            'wall_s': round(wall, 2),
            'violations': sum(1 for l in lines_out if l.startswith('VIOLATION')),
        }
        # evidence/<id>.json describes runs against /repo only; a development run against another tree (PYCEL_REPO)
        # must not overwrite it
        ev_dir = os.path.join(VERIF, 'evidence') if os.path.realpath(REPO) == '/repo' else \
            os.path.join(VERIF, 'replays', '_scratch_evidence')
        os.makedirs(ev_dir, exist_ok=True)
        with open(os.path.join(ev_dir, f'{prop_id}.json'), 'w', encoding='utf-8') as f:
            json.dump(evidence, f, indent=1, sort_keys=True, ensure_ascii=False)
    for l in lines_out:
        print(l)
    print(f'{prop_id} tier={args.tier} seed={seed}: theorems {discharged}/{len(mod.THEOREMS)}, '
          f'cases {len(results)} (nontrivial {nontrivial}), disagreements {len(disagreements)}, '
          f'oracle failures {len(oracle_fail)}, known classes {len(known_hit)}, '
          f'exit {exit_code}, {wall:.1f}s')
    return exit_code

"""
Helpers that drive the real pycel (imported from /repo/src) at its public observation points.

  eval_formula(formula, cells)  evaluate one Excel formula string through ExcelFormula + build_eval_context, with cell
                                and range reads answered from the dict `cells` ({'A1': value, ...}); this is exactly
                                the path a workbook cell takes minus the workbook.
  lib_call(name, *args)         call a library function wrapped with its excel_helper metadata, as formulas call it.
  compiler_from(cells)          ExcelCompiler over an in-memory openpyxl workbook {'Sheet1!A1': value-or-formula}.
"""
import importlib
import logging

logging.getLogger('pycel').setLevel(logging.CRITICAL)


def _pycel():
    from pycel import excelformula, excelutil
    return excelformula, excelutil


_NS = {}


def lib_call(name, *args):
    excelformula, _ = _pycel()
    from pycel.lib.function_helpers import load_functions
    if name not in _NS:
        modules = tuple(importlib.import_module(m) for m in excelformula.ExcelFormula.default_modules)
        ns = {'_C_': lambda a: None, '_R_': lambda a: None}
        missing = load_functions([name], ns, modules)
        if missing:
            raise NameError(name)
        _NS[name] = ns[name]
    return _NS[name](*args)


def eval_formula(formula, cells=None, ranges=None):
    """cells: {'A1': v}; ranges: {'A1:B2': ((..),(..))}.  Addresses are matched without sheet."""
    excelformula, excelutil = _pycel()
    cells = cells or {}
    ranges = ranges or {}

    def strip(addr):
        addr = str(addr)
        return addr.split('!')[-1].replace('$', '')

    def evaluate(addr):
        return cells.get(strip(addr))

    def evaluate_range(addr):
        key = strip(addr)
        if key in ranges:
            return ranges[key]
        rng = excelutil.AddressRange(key) if isinstance(addr, str) else addr
        if isinstance(rng, excelutil.AddressCell):
            return cells.get(strip(rng.address))
        return tuple(tuple(cells.get(strip(c.address)) for c in row) for row in rng.rows)

    ctx = excelformula.ExcelFormula.build_eval_context(evaluate, evaluate_range)
    return ctx(excelformula.ExcelFormula(formula))


def compiler_from(cells, cycles=None, **kwargs):
    """cells: {'Sheet1!A1': value | '=formula'} -> ExcelCompiler over an in-memory workbook"""
    import openpyxl
    from pycel import ExcelCompiler
    from pycel.excelutil import AddressCell
    wb = openpyxl.Workbook()
    sheets = {}
    first = True
    for addr, v in cells.items():
        a = AddressCell(addr)
        sheet = a.sheet or 'Sheet1'
        if sheet not in sheets:
            if first:
                ws = wb.active
                ws.title = sheet
                first = False
            else:
                ws = wb.create_sheet(sheet)
            sheets[sheet] = ws
        sheets[sheet][a.coordinate] = v
    if cycles is not None:
        kwargs['cycles'] = cycles
    return ExcelCompiler(excel=wb, **kwargs)

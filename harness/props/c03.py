"""C03 — persisted models are observationally equivalent (excelcompiler.py to_file/from_file/_to_text/_from_text,
_CompiledImporter).  DESIGN.md §7 C03.

A case is one workbook (c01-style nodes in topological order + a block of "hostile" scalar cells), what is done to it
before it is saved, how it is saved and loaded, and the history run on the loaded model:

    {'nodes': [['I', addr, valtok] | ['F', addr, kind, args] | ['R', range_addr, rows, cols, [members]]
               | ['X', addr, formula_text]      (formula outside the modelled language / CSE array: no history)],
     'names': {defined name: node}, 'src': 'mem' | 'xlsx', 'cycles': 0 | 1,
     'pre':  [['E', node] | ['S', node, valtok]]    before the save (evaluation order = build order of the cell map),
     'fmt': 'yml' | 'json' | 'pkl', 'mode': 'same' | 'thread' | 'proc', 'extra': None | json-typed dict,
     'ops':  [['S', node, valtok] | ['E', node]]    after the load}

`impl` drives the REAL ExcelCompiler: build, run `pre`, to_file twice (bytes compared), from_file in this thread / a
fresh thread / a fresh subprocess, run `ops` there, to_file of the loaded model (content compared), carried fields.
`model_lines` sends the saved model (nodes with their python code and values at save time, the real insertion order of
the cell map) and the history to the Lean driver.  `oracles` restates the property on the implementation alone: the
loaded model answers every evaluate as the ORIGINAL model does under the same history, the second save is
byte-identical, the pickle is not rewritten, the re-saved content is the same mapping, the settings survive.
"""
import json
import os
import subprocess
import sys
import tempfile
import threading

from harness import core
from harness.props import c01

ID = 'C03'
LEAN_MODULE = 'Pycel.Props.C03'
NS = 'Pycel.Persist.'
THEOREMS = [NS + t for t in (
    'C03_cell_roundtrip_partial', 'C03_code_roundtrip', 'C03_text_eq_counterexample', 'C03_eq_hypothesis_forced',
    'C03_serialize_content', 'C03_serialize_sorted',
    'C03_order_independent_map', 'C03_order_independent_bytes', 'C03_order_counterexample',
    'C03_doc_keys', 'C03_doc_keys_after_add', 'C03_save_twice_identical', 'C03_pickle_not_rewritten', 'C03_pickle_not_rewritten_digest', 'C03_pickle_fresh_step',
    'C03_pickle_fresh', 'C03_weak_digest_counterexample', 'C03_save_twice_asWritten_counterexample',
    'C03_idempotent_map', 'C03_idempotent_bytes', 'C03_idempotent_counterexample',
    'C03_carried', 'C03_resave_settings', 'C03_resave_identical',
    'C03_loaded_preserves', 'C03_loaded_inv', 'C03_observational', 'C03_observational_outputs', 'C03_alike',
    'C03_observational_X', 'C03_saved_values',
    'wf_of_viewCheck', 'tableView_local', 'C03_observational_inst')]
DESIGN_REF = 'DESIGN.md §7 C03'
RULE = ('c01 DAG workbooks (2-14 cells, ranges, cross-sheet, defined names) extended by 1-4 hostile value cells in '
        'column E (pool: 1e-7, 1e22, -0.0, 0.1, big ints, "yes", "null", "1e5", "- a: b", "=text", "#N/A", "TRUE", '
        'multi-line, unicode incl. NEL/LS/astral, leading/trailing spaces, 300-char text, yaml/json syntax), =ref of '
        'them, their range with INDEX and COUNT; pre-save: every node evaluated in a random order (the build order), '
        'then 0-4 set_values (also of hostile scalars); x {yml, json, pkl} x {cycles off, on} x {same thread, fresh '
        'thread, fresh subprocess} x {in-memory workbook, .xlsx with stored results} x extra_data {None, json-typed '
        'dict}; post-load history of 1-25 operations (set_value of a cell / a range address / a list of cells, evaluate '
        'of an address / a list) + an evaluate of every node; 1 case in 5 is a c01 near-equal-number workbook (a-b, a=b '
        'over numbers 1 ulp apart), 1 in 10 SUMs of 3-6 non-dyadic floats. Deterministic core: every '
        'hostile scalar x 3 formats in a fixed 3-cell workbook; a CSE array whose top-left cell is built before / '
        'after the range; the iterative fixture in a fresh thread and a fresh process. Non-trivial: an evaluate of a '
        'formula/range node follows a post-load set_value of one of its precedents.')
ASSUMPTIONS = [
    'the saved model is dependency closed (every cell it evaluated, with all precedents): cells never built are not '
    'part of "every saved cell"',
    'extra_data is json-typed (string keys, lists, no tuples) and does not use the keys cycles/excel_hash/cell_map/filename',
    'formula language of the evaluated histories: =ref, &, +, -, =, SUM, COUNT, INDEX (c01); cases whose nodes or '
    'operations fall outside the whitelist KINDS/OPS of this module (future c01 generator extensions) are not emitted; '
    'model vs implementation compares numbers up to float rounding of sums (rel 1e-12), loaded vs original exactly; '
    'hostile scalars only flow '
    'through =ref, ranges, INDEX, COUNT(range); iterative mode is exercised on acyclic workbooks (same values) and '
    'on the cyclic fixture only through the implementation-only oracle',
    'the text codecs satisfy dec(enc v) = v outside the listed findings (yaml: U+0085; json: characters beyond the BMP)',
    'the python code and the build order of the original model are inputs of the persistence model (read from the '
    'original compiler), not something it predicts',
]
TRUSTED = ['md5 (hashlib) of the WHOLE file as the digest of to_file/hash_matches: assumed contract DigestFaithful '
           '(equal digest => equal text) of theorems C03_pickle_fresh*; a digest outside it is C03_weak_digest_counterexample',
           'modelled, not verified: ruamel.yaml, json, pickle/marshal codecs (contract + hostile pool), openpyxl, '
           'networkx; the engine model is the C01 one']
REQUIRED_BUCKETS = ['yml:same', 'json:same', 'pkl:same', 'yml:thread', 'yml:proc', 'json:proc', 'pkl:proc',
                    'pkl:thread', 'json:thread', 'pool', 'cse', 'iter-fixture', 'hash:none', 'hash:before-save',
                    'hash:after-save', 'hash:after-load', 'pk:small', 'pk:large', 'xd', 'unbounded', 'failed-save']
EXHAUSTIVE = False
EXPLANATION = ('theorems: persistence model + C01 engine, all cell maps/codecs/histories; correspondence: file content, '
               'save-twice, re-save and post-load history of the real ExcelCompiler vs the compiled model; '
               'implementation-only oracle: loaded vs original model under the same history')

_INFO = {}


def _key(case):
    return json.dumps(case, sort_keys=True)


# ---------------------------------------------------------------------------------------------------------------
# building the original model

def _build(cells, names, cycles, src, tmp):
    import openpyxl
    from openpyxl.workbook.defined_name import DefinedName
    from pycel import ExcelCompiler
    from pycel.excelutil import AddressCell
    cyc = True if cycles else None
    if src == 'xlsx':
        from harness import xlsxwriter_min as xw
        path = os.path.join(tmp, 'book.xlsx')
        xw.write_xlsx(path, cells, xw.stored_results(cells, c01.build_compiler(cells, names)), names)
        # the minimal .xlsx has no <calcPr>: ask for iteration with explicit settings (honoured since 8e8e9ed)
        return ExcelCompiler(filename=path, cycles={'iterations': 100, 'tolerance': 0.001} if cycles else None)
    wb = openpyxl.Workbook()
    sheets = {}
    for addr, v in cells.items():
        a = AddressCell(addr)
        if a.sheet not in sheets:
            if not sheets:
                ws = wb.active
                ws.title = a.sheet
            else:
                ws = wb.create_sheet(a.sheet)
            sheets[a.sheet] = ws
        sheets[a.sheet][a.coordinate] = v
    for k, dest in (names or {}).items():
        wb.defined_names[k] = DefinedName(k, attr_text=dest)
    return ExcelCompiler(excel=wb, cycles=cyc)


def _cse_workbook():
    import openpyxl
    from openpyxl.worksheet.formula import ArrayFormula
    from pycel import ExcelCompiler
    wb = openpyxl.Workbook()
    ws = wb.active
    ws.title = 'Sheet1'
    ws['A1'], ws['A2'], ws['B1'], ws['B2'] = 1, 2, 3, 4
    ws['C1'] = ArrayFormula('C1:C2', '=A1:A2*B1:B2')
    ws['D1'] = '=SUM(C1:C2)'
    return ExcelCompiler(excel=wb)


def _cells_of(case):
    nodes = case['nodes']
    plain = [n if n[0] != 'X' else ['I', n[1], 'z'] for n in nodes]
    cells = c01.cells_of(plain, names=case.get('names'))
    for n in nodes:
        if n[0] == 'X':
            cells[n[1]] = n[2]
    return cells


def _enc_result(nodes, i, v):
    if nodes[i][0] == 'X':
        return core.enc(v)
    return c01.enc_result(nodes, i, v)


def _neg_zero(v):
    """the protocol carries numbers as exact fractions, which have no -0: the implementation-only oracle marks it"""
    import math
    if isinstance(v, float) and v == 0 and math.copysign(1.0, v) < 0:
        return '[-0]'
    if isinstance(v, tuple):
        return ''.join(_neg_zero(x) for x in v)
    return ''


def _run_ops(comp, nodes, ops, strict=False):
    out = []
    for op in ops:
        if op[0] == 'S':
            try:
                comp.set_value(nodes[op[1]][1], c01._py(op[2]))
                out.append('ok')
            except AssertionError:
                out.append('rej')
            except Exception as exc:   # noqa
                out.append(core.canon_exc(exc))
        elif op[0] == 'SR':
            # set_value(<range address> | [cell addresses], [values]) (flat or nested values)
            vals = [c01._py(t) for t in op[3]]
            arg = vals
            if len(op) > 4 and op[4]:
                arg = [vals[k:k + op[4]] for k in range(0, len(vals), op[4])]
            try:
                comp.set_value(op[1], arg)
                out.append('ok')
            except AssertionError:
                out.append('rej')
            except Exception as exc:   # noqa
                out.append(core.canon_exc(exc))
        elif op[0] == 'EL':
            try:
                addrs = [nodes[a][1] for a in op[1]]
                res = comp.evaluate(addrs if len(op[1]) % 2 else tuple(addrs))
                out.append('&'.join(_enc_result(nodes, a, v) + (_neg_zero(v) if strict else '')
                                    for a, v in zip(op[1], res)))
            except Exception as exc:   # noqa
                out.append(core.canon_exc(exc))
        else:
            try:
                v = comp.evaluate(nodes[op[1]][1])
                out.append(_enc_result(nodes, op[1], v) + (_neg_zero(v) if strict else ''))
            except Exception as exc:   # noqa
                out.append(core.canon_exc(exc))
    return out


def _canon_addr(addr):
    from pycel.excelutil import AddressRange
    return AddressRange(addr).address


def _file_map(path):
    """ordered [(address, python value)] of the cell_map section, parsed the way pycel parses it"""
    from ruamel.yaml import YAML
    with open(path, 'r') as f:
        data = YAML().load(f)
    return [(k, v) for k, v in data['cell_map'].items()], [k for k in data]


def _jsonable(x):
    if isinstance(x, dict):
        return {str(k): _jsonable(v) for k, v in x.items()}
    if isinstance(x, (list, tuple)):
        return [_jsonable(v) for v in x]
    if isinstance(x, float):
        return float(x)
    return x


RESERVED = ('cycles', 'excel_hash', 'cell_map', 'filename')


def load_and_run(job):
    """runs in this thread, a fresh thread or a fresh process: from_file, history, carried fields, re-save"""
    from pycel import ExcelCompiler
    nodes = job['nodes']
    res = {}
    loaded = ExcelCompiler.from_file(job['load'])
    res['cycles'] = _jsonable(loaded.cycles) if loaded.cycles else False
    res['filename'] = loaded.filename
    res['hash'] = loaded._excel_file_md5_digest
    res['hash_matches'] = bool(loaded.hash_matches)
    res['extra'] = {k: v for k, v in _jsonable(dict(loaded.extra_data or {})).items() if k not in RESERVED}
    res['saved'] = _run_ops(loaded, nodes, [['E', i] for i in job['saved']], strict=True)
    loaded.to_file(job['resave'])          # before the history: "saving a loaded model reproduces the same content"
    res['ops_strict'] = _run_ops(loaded, nodes, job['ops'], strict=True)
    res['ops'] = [t.replace('[-0]', '') for t in res['ops_strict']]
    return res


def worker_main():
    job = json.load(sys.stdin)
    try:
        out = {'ok': load_and_run(job)}
    except Exception as exc:   # noqa
        out = {'exc': core.canon_exc(exc)}
    sys.stdout.write('\n@@RESULT@@' + json.dumps(out))


def _in_mode(mode, job):
    if mode == 'same':
        return load_and_run(job)
    if mode == 'thread':
        box = {}

        def target():
            try:
                box['ok'] = load_and_run(job)
            except Exception as exc:   # noqa
                box['exc'] = exc
        t = threading.Thread(target=target)
        t.start()
        t.join()
        if 'exc' in box:
            raise box['exc']
        return box['ok']
    env = dict(os.environ)
    env['PYCEL_REPO'] = core.REPO
    p = subprocess.run(['/venv/bin/python', '-c',
                        f'import sys; sys.path.insert(0, {core.VERIF!r}); from harness.props import c03; c03.worker_main()'],
                       input=json.dumps(job), capture_output=True, text=True, timeout=300, env=env, cwd=job['tmp'])
    if '@@RESULT@@' not in p.stdout:
        raise RuntimeError(f'worker died rc={p.returncode}: {p.stderr[-400:]}')
    out = json.loads(p.stdout.split('@@RESULT@@')[-1])
    if 'exc' in out:
        return out
    return out['ok']


def impl(case):
    key = _key(case)
    _INFO.pop(key, None)
    with tempfile.TemporaryDirectory(prefix='c03-') as tmp:
        if case.get('kind') == 'hash':
            return _impl_hash(case, key, tmp)
        if case.get('kind') == 'pk':
            return _impl_pk(case, key, tmp)
        if case.get('kind') == 'xd':
            return _impl_xd(case, key, tmp)
        if case.get('kind') == 'fs':
            return _impl_fs(case, key, tmp)
        return _impl(case, key, tmp)


# ---------------------------------------------------------------------------------------------------------------
# failed saves: a to_file that raises (caught by the caller) must not change what any later save in the process writes

class _Opaque:
    """something no text format can represent"""


def _bad_value(kind):
    import numpy as np
    return {'set': {1, 2}, 'object': _Opaque(), 'numpy': np.int64(3), 'lambda': (lambda: 0)}[kind]


FS_A = {'Sheet1!A1': 1, 'Sheet1!A2': 2, 'Sheet1!B1': '=SUM(A1:A2)', 'Sheet1!B2': '=B1*10'}
FS_B = {'Sheet1!A1': 5, 'Sheet1!A2': 'x', 'Sheet1!B1': '=A1&"|"&A2', 'Sheet1!C1': '=A1+1', 'Sheet1!C2': 0.1}


def _fs_model(cells, extra):
    from harness import pyc
    comp = pyc.compiler_from(cells)
    for a in cells:
        comp.evaluate(a)
    if extra is not None:
        comp.extra_data = json.loads(json.dumps(extra))
    return comp


def _fs_save_all(comp, d):
    """save in every format into directory d -> {name: bytes of the text file}"""
    os.makedirs(d, exist_ok=True)
    out = {}
    comp.to_file(os.path.join(d, 'b.yml'))
    comp.to_file(os.path.join(d, 'b.json'))
    comp.to_file(os.path.join(d, 'bp'), file_types=('pkl', 'yml'))
    for n in ('b.yml', 'b.json', 'bp.yml'):
        out[n] = open(os.path.join(d, n), 'rb').read()
    return out


def fs_fresh_main():
    """fresh process: build model B and save it in every format; print the text files"""
    job = json.load(sys.stdin)
    import base64
    os.chdir(job['tmp'])
    comp = _fs_model(FS_B, job['extra'])
    out = _fs_save_all(comp, job['dir'])
    sys.stdout.write('\n@@RESULT@@' + json.dumps({k: base64.b64encode(v).decode() for k, v in out.items()}))


def _impl_fs(case, key, tmp):
    import base64
    from pycel import ExcelCompiler
    info = {'kind': 'fs', 'fails': []}
    _INFO[key] = info
    fails = info['fails']
    cwd = os.getcwd()
    os.chdir(tmp)                # in-memory workbooks record <cwd>/Unknown as their file name
    try:
        a = _fs_model(FS_A, {'owner': 'a'})
        b = _fs_model(FS_B, case['extra'])
        fmt_a = case['fmt_a']
        a_target = os.path.join(tmp, 'a') if fmt_a == 'pkl' else os.path.join(tmp, 'a.' + fmt_a)
        a_kw = {'file_types': ('pkl', 'yml')} if fmt_a == 'pkl' else {}
        a_text = os.path.join(tmp, 'a.yml') if fmt_a == 'pkl' else a_target
        a.to_file(a_target, **a_kw)
        a1 = open(a_text, 'rb').read()
        pk1 = os.stat(os.path.join(tmp, 'a.pkl')).st_mtime_ns if fmt_a == 'pkl' else None
        before = _fs_save_all(b, os.path.join(tmp, 'before'))
        # the failing save of B
        how, ffmt = case['fail'], case['fmt_fail']
        target = os.path.join(tmp, 'bad', 'b') if ffmt == 'pkl' else os.path.join(tmp, 'bad', 'b.' + ffmt)
        kw = {'file_types': ('pkl', 'yml')} if ffmt == 'pkl' else {}
        os.makedirs(os.path.join(tmp, 'bad'))
        keep = b.extra_data
        if how in ('set', 'object', 'numpy', 'lambda'):
            if b.extra_data is None:
                b.extra_data = {}
            b.extra_data['bad'] = _bad_value(how)
        elif how == 'nodir':
            target = target.replace(os.sep + 'bad' + os.sep, os.sep + 'missing' + os.sep)
        elif how == 'filedir':
            open(os.path.join(tmp, 'plain'), 'w').close()
            target = target.replace(os.sep + 'bad' + os.sep, os.sep + 'plain' + os.sep)
        elif how == 'badext':
            target, kw = os.path.join(tmp, 'bad', 'b'), {'file_types': ('xyz',)}
        try:
            b.to_file(target, **kw)
            raised = None
        except Exception as exc:   # noqa
            raised = type(exc).__name__
        info['raised'] = raised
        # the correction: the offending entry is removed (in place, or the dict is replaced)
        if how in ('set', 'object', 'numpy', 'lambda'):
            if case['repair'] == 'inplace':
                b.extra_data.pop('bad', None)
                if case['extra'] is None:
                    for k in RESERVED:
                        b.extra_data.pop(k, None)
                    if not b.extra_data:
                        b.extra_data = None
            else:
                b.extra_data = None if case['extra'] is None else json.loads(json.dumps(case['extra']))
        # A again: byte-identical, pickle untouched
        try:
            a.to_file(a_target, **a_kw)
            if open(a_text, 'rb').read() != a1:
                fails.append(f'after a failed save ({how}/{ffmt}: {raised}) of another model, saving the unchanged model '
                             f'A again changed its text file')
            elif pk1 is not None and os.stat(os.path.join(tmp, 'a.pkl')).st_mtime_ns != pk1:
                fails.append('… rewrote the pickle of the unchanged model A')
        except Exception as exc:   # noqa
            fails.append(f'after a failed save ({how}/{ffmt}: {raised}) of another model, to_file({fmt_a}) of model A '
                         f'raises {type(exc).__name__}: {str(exc)[:80]}')
        # B corrected: every format, same bytes as before the failure
        ok = []
        try:
            after = _fs_save_all(b, os.path.join(tmp, 'after'))
        except Exception as exc:   # noqa
            after = None
            fails.append(f'after its failed save ({how}/{ffmt}: {raised}) the corrected model can no longer be saved: '
                         f'{type(exc).__name__}: {str(exc)[:80]}')
        for n in ('b.yml', 'b.json', 'bp.yml'):
            same_bytes = after is not None and after[n] == before[n]
            ok.append('1' if same_bytes else '0')
            if after is not None and not same_bytes:
                fails.append(f'{n}: the save after the failed one differs from the same save before it '
                             f'(top-level keys {list(_doc_of_bytes(before[n]))} -> {list(_doc_of_bytes(after[n]))})')
        fresh = '-'
        if case.get('fresh') and after is not None:
            env = dict(os.environ)
            env['PYCEL_REPO'] = core.REPO
            p = subprocess.run(['/venv/bin/python', '-c', f'import sys; sys.path.insert(0, {core.VERIF!r}); '
                                'from harness.props import c03; c03.fs_fresh_main()'],
                               input=json.dumps({'extra': case['extra'], 'dir': os.path.join(tmp, 'fresh'), 'tmp': tmp}),
                               capture_output=True, text=True, timeout=300, env=env, cwd=tmp)
            if '@@RESULT@@' not in p.stdout:
                raise RuntimeError(f'fresh saver died: {p.stderr[-300:]}')
            got = {k: base64.b64decode(v) for k, v in json.loads(p.stdout.split('@@RESULT@@')[-1]).items()}
            fresh = '1' if got == after else '0'
            if got != after:
                fails.append('the saves after the failed one differ from the same saves done in a fresh process: ' +
                             ', '.join(n for n in got if got[n] != after[n]))
        # load what was written after the failure; loaded vs original under a small history
        if after is not None:
            watch = list(FS_B)
            for n in ('b.yml', 'b.json', 'bp.pkl'):
                try:
                    l = ExcelCompiler.from_file(os.path.join(tmp, 'after', n))
                    for m in (l, b):
                        m.set_value('Sheet1!A1', 7)
                    x, y = [core.enc(l.evaluate(w)) for w in watch], [core.enc(b.evaluate(w)) for w in watch]
                    for m in (l, b):
                        m.set_value('Sheet1!A1', 5)
                    if x != y:
                        fails.append(f'{n} written after the failed save: loaded {x}, original {y}')
                except Exception as exc:   # noqa
                    fails.append(f'{n} written after the failed save cannot be loaded/evaluated: {type(exc).__name__}')
        _ = keep
        return f'again:{0 if any("model A" in f for f in fails) else 1};b:{"".join(ok)};fresh:{fresh}'
    finally:
        os.chdir(cwd)


# ---------------------------------------------------------------------------------------------------------------
# extra_data histories: the user's dict is mutated IN PLACE between saves; save / load / re-save

def _impl_xd(case, key, tmp):
    from pycel import ExcelCompiler
    from harness import pyc
    fmt = case['fmt']
    comp = pyc.compiler_from({'Sheet1!A1': 1, 'Sheet1!B1': '=A1*2'})
    comp.evaluate('Sheet1!B1')
    mirror = None if case['extra'] is None else json.loads(json.dumps(case['extra']))
    if mirror is not None:
        comp.extra_data = json.loads(json.dumps(mirror))
    info = {'kind': 'xd', 'fails': []}
    _INFO[key] = info
    base = os.path.join(tmp, 'model')
    text, pkl = f'{base}.{fmt}', base + '.pkl'
    keys_out, prev, clean = [], None, False
    for k, st in enumerate(case['steps']):
        if st[0] == 'SAVE':
            comp.to_file(base, file_types=('pkl', fmt))
            b = open(text, 'rb').read()
            pst = os.stat(pkl)
            cur = (b, pst.st_mtime_ns, pst.st_ino)
            doc = _doc_of(text)
            keys_out.append(' '.join(core.enc_text(str(x)) for x in doc))
            if clean and prev is not None:
                if prev[0] != b:
                    info['fails'].append(f'step {k}: saving the unchanged {"loaded " if clean == "loaded" else ""}model '
                                         f'changed the text file (top-level keys {list(_doc_of_bytes(prev[0]))} -> {list(doc)})')
                elif prev[1:] != cur[1:]:
                    info['fails'].append(f'step {k}: the pickle was rewritten although the text did not change')
            user = {x: v for x, v in _jsonable(dict(doc)).items() if x not in RESERVED}
            if user != (mirror or {}):
                info['fails'].append(f'step {k}: the file holds extra_data {user}, the model {mirror}')
            prev, clean = cur, 'saved'
            saved_mirror = json.loads(json.dumps(mirror))
        elif st[0] == 'LOAD':
            comp = ExcelCompiler.from_file({'pkl': pkl, 'text': text, 'bare': base}[st[1]])
            mirror = json.loads(json.dumps(saved_mirror))      # what was not saved is gone
            got = {x: v for x, v in _jsonable(dict(comp.extra_data or {})).items() if x not in RESERVED}
            if got != (mirror or {}):
                info['fails'].append(f'step {k}: from_file({st[1]}) gives extra_data {got}, saved {mirror}')
            if comp.evaluate('Sheet1!B1') != 2:
                info['fails'].append(f'step {k}: loaded model evaluates B1 to {comp.evaluate("Sheet1!B1")}')
            clean = 'loaded'
        else:
            if comp.extra_data is None:
                comp.extra_data = {}
            if mirror is None:
                mirror = {}
            if st[0] == 'ADD':
                comp.extra_data[st[1]] = json.loads(json.dumps(st[2]))
                mirror[st[1]] = json.loads(json.dumps(st[2]))
            elif st[0] == 'DEL':
                comp.extra_data.pop(st[1], None)
                mirror.pop(st[1], None)
            elif st[0] == 'NEST':          # mutate a nested dict / list in place
                for d in (comp.extra_data, mirror):
                    v = d.get(st[1])
                    if isinstance(v, dict):
                        v[st[2]] = st[3]
                    elif isinstance(v, list):
                        v.append(st[3])
                    else:
                        d[st[1]] = {st[2]: st[3]}
            clean = False
    return '/'.join(keys_out)


def _doc_of_bytes(b):
    import io
    from ruamel.yaml import YAML
    return YAML().load(io.StringIO(b.decode('utf-8')))


# ---------------------------------------------------------------------------------------------------------------
# the source-hash clause: a workbook file that is (or is not) modified between compile, save, load and re-save

def _doc_of(path):
    from ruamel.yaml import YAML
    with open(path, 'r') as f:
        return YAML().load(f)


def _impl_hash(case, key, tmp):
    from pycel import ExcelCompiler
    from harness import xlsxwriter_min as xw
    nodes, fmt, edit = case['nodes'], case['fmt'], case['edit']
    cells = _cells_of(case)
    path = os.path.join(tmp, 'book.xlsx')
    xw.write_xlsx(path, cells, xw.stored_results(cells, c01.build_compiler(cells, None)), None)
    comp = ExcelCompiler(filename=path)
    h0 = comp._excel_file_md5_digest
    ids = {h0: '0', None: '-'}

    def hid(h):
        return ids.setdefault(h, str(len(ids) - 1))

    def modify():
        changed = dict(cells)
        first = next(a for a, v in cells.items() if not (isinstance(v, str) and v.startswith('=')))
        changed[first] = 987654
        xw.write_xlsx(path, changed, xw.stored_results(changed, c01.build_compiler(changed, None)), None)

    def current():
        return hid(ExcelCompiler._compute_file_md5_digest(path))

    _run_ops(comp, nodes, case['pre'])
    if case.get('extra') is not None:
        comp.extra_data = json.loads(json.dumps(case['extra']))
    info = {'kind': 'hash', 'fails': []}
    _INFO[key] = info
    if edit == 'before-save':
        modify()
    base = os.path.join(tmp, 'model')
    if fmt == 'pkl':
        text, target, load, kw = base + '.yml', base, base + '.pkl', {'file_types': ('pkl', 'yml')}
    else:
        text = target = load = f'{base}.{fmt}'
        kw = {}
    comp.to_file(target, **kw)
    b1 = open(text, 'rb').read()
    f1 = hid(_doc_of(text)['excel_hash'])
    comp.to_file(target, **kw)
    if open(text, 'rb').read() != b1:
        info['fails'].append('saving the unchanged model a second time changed the text file')
    expect_orig = current() == '0'
    if bool(comp.hash_matches) != expect_orig:
        info['fails'].append(f'original model: hash_matches is {comp.hash_matches} although the workbook file is '
                             f'{"unchanged" if expect_orig else "modified"} since it was compiled')
    if edit == 'after-save':
        modify()
    loaded = ExcelCompiler.from_file(load)
    cur1 = current()
    hm = [bool(loaded.hash_matches)]
    if edit == 'after-load':
        modify()
    cur2 = current()
    hm.append(bool(loaded.hash_matches))
    resave = os.path.join(tmp, 'again.' + ('yml' if fmt == 'pkl' else fmt))
    loaded.to_file(resave)
    f2 = hid(_doc_of(resave)['excel_hash'])
    if open(resave, 'rb').read() != b1:
        info['fails'].append('saving the loaded model wrote a different text file (excel_hash '
                             f'{_doc_of(text)["excel_hash"]} -> {_doc_of(resave)["excel_hash"]})')
    h3 = hid(ExcelCompiler.from_file(resave)._excel_file_md5_digest)
    if loaded.filename != comp.filename:
        info['fails'].append('filename did not survive')
    info['curs'] = [cur1, cur2]
    return f'file:{f1};file2:{f2};hash3:{h3};hm:' + ''.join('1' if b else '0' for b in hm)


# ---------------------------------------------------------------------------------------------------------------
# "pickle only rewritten when text changed" as a history: to_file (pkl + text), set_value, to_file, from_file of every
# extension and of the bare name

def _pk_cells(case):
    n, width = case['block']
    cells = {'Sheet1!A1': 5, 'Sheet1!A2': '=A1&"|"&C1&"|"', 'Sheet1!C1': 5}
    for r in range(1, n + 1):
        cells[f'Sheet1!B{r}'] = chr(97 + r % 26) * width
    cells[case['cell']] = c01._py(case['edit'][0])
    return cells, n


def _impl_pk(case, key, tmp):
    import hashlib
    from pycel import ExcelCompiler
    from harness import pyc
    cells, n = _pk_cells(case)
    fmt2 = case['fmt']
    comp = pyc.compiler_from(cells)
    comp.evaluate('Sheet1!A2')
    comp.evaluate(f'Sheet1!B1:B{n}')
    watch = ['Sheet1!A1', 'Sheet1!C1', 'Sheet1!A2', 'Sheet1!B1', f'Sheet1!B{n}']
    info = {'kind': 'pk', 'fails': []}
    _INFO[key] = info
    base = os.path.join(tmp, 'model')
    text, pkl = f'{base}.{fmt2}', base + '.pkl'
    texts, rw, prev = [], [], None
    for step in ['save', 'edit', 'same']:
        if step == 'edit':
            comp.set_value(case['cell'], c01._py(case['edit'][1]))
        comp.to_file(base, file_types=('pkl', fmt2))
        texts.append(hashlib.sha256(open(text, 'rb').read()).hexdigest()[:16])
        st = os.stat(pkl)
        rw.append('0' if prev == (st.st_mtime_ns, st.st_ino) else '1')
        prev = (st.st_mtime_ns, st.st_ino)
    info['texts'] = texts
    info['size'] = os.path.getsize(text)
    # another writer (a loaded copy holding the value from before the edit) saves over the same path, then the
    # unchanged original model is saved there again: the files must be the original's again
    try:
        other = ExcelCompiler.from_file(text)
        other.set_value(case['cell'], c01._py(case['edit'][0]))
        other.evaluate('Sheet1!A2')
        other.to_file(base, file_types=('pkl', fmt2))
        comp.to_file(base, file_types=('pkl', fmt2))
        again = hashlib.sha256(open(text, 'rb').read()).hexdigest()[:16]
        if again != texts[-1]:
            info['fails'].append(f'after a copy holding {core.show(case["edit"][0])} in {case["cell"]} was saved over the '
                                 f'same path, saving the unchanged original again leaves a different text file')
    except Exception as exc:   # noqa
        info['fails'].append(f'foreign-writer history raised {core.canon_exc(exc)}')

    def values(m):
        out = []
        for a in watch:
            try:
                out.append(core.enc(m.evaluate(a)))
            except Exception as exc:   # noqa
                out.append(core.canon_exc(exc))
        return out
    orig = values(comp)
    got = {}
    for name, p in (('pkl', pkl), (fmt2, text), ('bare name', base)):
        try:
            got[name] = values(ExcelCompiler.from_file(p))
        except Exception as exc:   # noqa
            got[name] = [core.canon_exc(exc)]
        if got[name] != orig:
            k = next((i for i, (x, y) in enumerate(zip(got[name], orig)) if x != y), 0)
            info['fails'].append(f'after set_value({case["cell"]}, {core.show(case["edit"][1])}) and to_file, from_file('
                                 f'{name}) gives {watch[k]} = {core.show(got[name][k])}, the original model '
                                 f'{core.show(orig[k])} (text file {info["size"]} bytes)')
    return 'rw:' + ''.join(rw) + ';fresh:%d' % (got['pkl'] == got[fmt2])


def _ub_workbook(case):
    """A1:Ak numbers, B1 = SUM(A:A), B2 = 5, D1 = SUM(B1:B2), F5 = INDEX(1:1,2), G6 = SUM(2:2)"""
    import openpyxl
    from pycel import ExcelCompiler
    wb = openpyxl.Workbook()
    ws = wb.active
    ws.title = 'Sheet1'
    for n in case['nodes']:
        if n[0] == 'I':
            ws[n[1].split('!')[1]] = c01._py(n[2])
        elif n[0] == 'X':
            ws[n[1].split('!')[1]] = n[2]
    return ExcelCompiler(excel=wb)


def _impl(case, key, tmp):
    nodes = list(case['nodes'])
    fmt, mode = case['fmt'], case['mode']
    addr_index = {}
    for i, n in enumerate(nodes):
        addr_index[_canon_addr(n[1])] = i
    if case.get('fixture'):
        from pycel import ExcelCompiler
        import shutil
        path = os.path.join(tmp, os.path.basename(case['fixture']))
        shutil.copy(os.path.join(core.REPO, case['fixture']), path)
        comp = ExcelCompiler(filename=path)
    elif case.get('cse'):
        comp = _cse_workbook()
    elif case.get('ub'):
        comp = _ub_workbook(case)
    else:
        comp = _build(_cells_of(case), c01.names_of(case.get('names'), [n if n[0] != 'X' else ['I', n[1], 'z'] for n in nodes]),
                      case.get('cycles'), case.get('src', 'mem'), tmp)
    pre_out = _run_ops(comp, nodes, case['pre'])
    if case.get('extra') is not None:
        comp.extra_data = json.loads(json.dumps(case['extra']))
    info = {'pre': pre_out}
    # state of the original model at save time: insertion order, code, constants
    order, codes, consts = [], {}, {}
    for a, cell in comp.cell_map.items():
        i = addr_index.get(a)
        if i is None:
            # an address the generator did not name (the reference cell of an unbounded range, its bounded range,
            # the blank cells such a range covers): it joins the node list of this run
            i = len(nodes)
            addr_index[a] = i
            if cell.formula and cell.formula.python_code:
                nodes.append(['X', a, 'found'])
            elif ':' in a:
                nodes.append(['R', a, 0, 0, []])
            else:
                nodes.append(['I', a, core.enc(cell.value)])
        order.append(i)
        if cell.formula and cell.formula.python_code:
            codes[i] = cell.formula.python_code
        elif nodes[i][0] != 'R':
            consts[i] = core.enc(cell.value)
    info.update(order=order, codes=codes, consts=consts, nodes=nodes)
    _INFO[key] = info
    saved = [i for i in order if nodes[i][0] != 'R' or i in codes]
    # save twice
    base = os.path.join(tmp, 'model')
    if fmt == 'pkl':
        text, target, load = base + '.yml', base, base + '.pkl'
        kw = {'file_types': ('pkl', 'yml')}
    else:
        text = target = load = f'{base}.{fmt}'
        kw = {}
    comp.to_file(target, **kw)
    bytes1 = open(text, 'rb').read()
    pk1 = os.stat(load).st_mtime_ns if fmt == 'pkl' else None
    fmap, topkeys = _file_map(text)
    comp.to_file(target, **kw)
    bytes2 = open(text, 'rb').read()
    pk2 = os.stat(load).st_mtime_ns if fmt == 'pkl' else None
    info['twice'] = bytes1 == bytes2
    info['pickle_kept'] = pk1 == pk2
    if bytes1 != bytes2:
        info['twice_keys'] = (topkeys, _file_map(text)[1])
    # load + history + re-save (same thread / fresh thread / fresh process)
    resave = os.path.join(tmp, 'again.' + ('yml' if fmt == 'pkl' else fmt))
    job = {'nodes': nodes, 'load': load, 'ops': case['ops'], 'saved': saved, 'resave': resave, 'tmp': tmp}
    res = _in_mode(mode, job)
    if 'exc' in res:
        info['load_exc'] = res['exc']
        return res['exc']
    fmap2, _ = _file_map(resave)
    # the original under the same history
    info['orig_saved'] = _run_ops(comp, nodes, [['E', i] for i in saved], strict=True)
    info['orig_ops'] = _run_ops(comp, nodes, case['ops'], strict=True)
    info['loaded_saved'] = res['saved']
    info['loaded_ops'] = res['ops_strict']
    info['saved'] = saved
    carried = {
        'cycles': (res['cycles'], _jsonable(comp.cycles) if comp.cycles else False),
        'filename': (res['filename'], comp.filename),
        'hash': (res['hash'], comp._excel_file_md5_digest),
        'hash_matches': (res['hash_matches'], bool(comp.hash_matches)),
        'extra': (res['extra'], {k: v for k, v in _jsonable(case.get('extra') or {}).items() if k not in RESERVED}),
    }
    info['carried'] = carried

    def ent(items):
        return [(addr_index.get(_canon_addr(a), -1), core.enc(v)) for a, v in items]
    e1, e2 = ent(fmap), ent(fmap2)
    info['idemmap'] = dict(e1) == dict(e2) and len(e1) == len(e2)
    # "saving a loaded model reproduces the same content": when the cell map came back entry for entry, the whole
    # document (settings, user extra_data, their order) must be the same bytes
    if e1 == e2 and open(resave, 'rb').read() != bytes2:
        info['resave_keys'] = (topkeys, _file_map(resave)[1])
    parts = ['map:' + '~'.join(f'{i}={t}' for i, t in e1),
             'twice:%d' % info['twice'],
             'idem:%d' % (e1 == e2),
             'idemmap:%d' % info['idemmap'],
             'ops:' + ('^'.join(res['ops']) if case['ops'] and not case.get('noeval') else '-')]
    return ';'.join(parts)


# ---------------------------------------------------------------------------------------------------------------
# model side

def _key_toks(addr):
    from pycel.excelutil import AddressRange
    a = AddressRange(addr)
    if a.is_range:
        s, e = a.start, a.end
        return [core.enc_text(a.sheet), str(s.col_idx), str(s.row), f'{e.col_idx}:{e.row}']
    return [core.enc_text(a.sheet), str(a.col_idx), str(a.row), '-']


def model_lines(case):
    info = _INFO.get(_key(case))
    if case.get('kind') == 'hash':
        return ['c03 hash 0 ' + ' '.join((info or {}).get('curs', ['!']))]
    if case.get('kind') == 'pk':
        return ['c03 pk ' + ' '.join((info or {}).get('texts', ['!']))]
    if case.get('kind') == 'fs':
        return ['c03 fs ' + ('1' if case.get('fresh') else '0')]
    if case.get('kind') == 'xd':
        toks = ['c03', 'xd']
        toks += ['none'] if case['extra'] is None else [str(len(case['extra']))] + [core.enc_text(k) for k in case['extra']]
        for st in case['steps']:
            if st[0] in ('SAVE', 'LOAD'):
                toks.append(st[0])
            elif st[0] in ('ADD', 'DEL'):
                toks += [st[0], core.enc_text(st[1])]
            elif st[0] == 'NEST':
                toks += ['ADD', core.enc_text(st[1])]      # the key exists afterwards, in its old place if it did
        return [' '.join(toks)]
    if not info or 'order' not in info:
        return ['c03 !noinfo']
    nodes = info.get('nodes', case['nodes'])
    toks = ['c03', str(len(nodes))]
    for i, n in enumerate(nodes):
        toks += _key_toks(n[1])
        code = info['codes'].get(i)
        if n[0] == 'I':
            toks += ['I', info['consts'].get(i, n[2])]
        elif n[0] == 'F':
            kind, args = n[2], n[3]
            toks += ['F', core.enc_text(code or '')]
            if kind in ('cat', 'sum', 'cnt'):
                toks += [kind, str(len(args))] + [str(j) for j in args]
            else:
                toks += [kind] + [str(j) for j in args]
        elif n[0] == 'X':
            toks += ['X', core.enc_text(code)] if code is not None else ['I', info['consts'].get(i, 'z')]
        else:
            toks += ['R', str(n[2]), str(n[3])] + [str(j) for j in n[4]]
    toks += ['ORD', str(len(info['order']))] + [str(i) for i in info['order']]
    extra = case.get('extra')
    if extra is None:
        toks += ['EXTRA', 'none']
    else:
        toks += ['EXTRA', str(len(extra))] + [core.enc_text(k) for k in extra]
    toks.append('OPS')
    for op in ([] if case.get('noeval') else case['ops']):
        if op[0] == 'S':
            toks += ['S', str(op[1]), op[2]]
        elif op[0] == 'E':
            toks += ['E', str(op[1])]
        elif op[0] == 'SR':
            toks += ['M', str(len(op[2]))] + [t for j, v in zip(op[2], op[3]) for t in (str(j), v)]
        else:
            toks += ['X', str(len(op[1]))] + [str(a) for a in op[1]]
    return [' '.join(toks)]


def same(impl_out, model_out):
    """equal up to float rounding in the `ops` section (numbers travel exactly; the model adds exact rationals, pycel
    floats).  Only model-vs-implementation: the oracle compares loaded and original model exactly."""
    if impl_out == model_out:
        return True
    a, b = impl_out.split(';'), (model_out or '').split(';')
    if len(a) != len(b):
        return False
    for x, y in zip(a, b):
        if x == y:
            continue
        if not (x.startswith('ops:') and y.startswith('ops:')):
            return False
        xs, ys = x[4:].split('^'), y[4:].split('^')
        if len(xs) != len(ys):
            return False
        for p, q in zip(xs, ys):
            ps, qs = p.replace('&', ' ').split(' '), q.replace('&', ' ').split(' ')
            if len(ps) != len(qs) or not all(u == v or core.num_close(u, v) for u, v in zip(ps, qs)):
                return False
    return True


def governed(case):
    return True      # the property fixes file content (as a mapping), idempotence, and every post-load value


# ---------------------------------------------------------------------------------------------------------------
# oracle: loaded vs original, implementation only

def _op_nodes(op):
    return list(op[2]) if op[0] == 'SR' else list(op[1]) if op[0] == 'EL' else [op[1]]


def _op_text(nodes, op):
    return f'{op[0]}({",".join(nodes[j][1] for j in _op_nodes(op))})'


def _oracle_failures(case, info):
    """-> list of (text, node or None)"""
    out = []
    if 'load_exc' in info:
        return [(f'from_file/history in mode {case["mode"]} raised {info["load_exc"]}', None)]
    if 'orig_ops' not in info:
        return [('the case did not complete', None)]
    nodes = info.get('nodes', case['nodes'])
    if not info['twice']:
        out.append((f'saving the unchanged model a second time changed the text file (top-level keys '
                    f'{info.get("twice_keys")})', None))
    if not info['pickle_kept']:
        out.append(('the pickle was rewritten by the second save of an unchanged model', None))
    if not info['idemmap']:
        out.append(('saving the loaded model wrote a different cell_map content', None))
    if 'resave_keys' in info:
        out.append((f'saving the unchanged loaded model wrote a different text file although the cell map is the same '
                    f'(top-level keys {info["resave_keys"]})', None))
    for i, a, b in zip(info['saved'], info['loaded_saved'], info['orig_saved']):
        if a != b:
            out.append((f'saved cell {nodes[i][1]}: loaded model gives {core.show(a)}, original {core.show(b)}', i))
    for k, (a, b) in enumerate(zip(info['loaded_ops'], info['orig_ops'])):
        if a != b:
            op = case['ops'][k]
            text = f'post-load op #{k} {_op_text(nodes, op)}: loaded {core.show(a)}, original {core.show(b)}'
            out.extend((text, j) for j in _op_nodes(op))
            break
    for name, (a, b) in info['carried'].items():
        if a != b:
            out.append((f'{name} did not survive: loaded {a!r}, original {b!r}', None))
    return out


def oracles(results):
    for r in results:
        info = _INFO.get(_key(r.case))
        if info is None:
            yield r.case, f'implementation failed before the model was saved: {r.impl[:200]}'
            continue
        if info.get('kind') in ('hash', 'pk', 'xd', 'fs'):
            if info['fails']:
                yield r.case, '; '.join(info['fails'][:3])
            continue
        fails = _oracle_failures(r.case, info)
        if fails:
            yield r.case, '; '.join(list(dict.fromkeys(t for t, _ in fails))[:3])


# ---------------------------------------------------------------------------------------------------------------
# known finding classes (narrow: every failing observation must be at a cell reached by the poisoned constant)

def _text_of(tok):
    v = core.dec(tok) if tok.startswith('s:') else None
    return v if isinstance(v, str) else None


def _poisoned(case, info, pred):
    nodes = case['nodes']
    src = {i for i, tok in info.get('consts', {}).items() if _text_of(tok) is not None and pred(_text_of(tok))}
    if not src:
        return set()
    plain = [n if n[0] != 'X' else ['I', n[1], 'z'] for n in nodes]
    clo = c01._precedents(plain)
    p = src | {i for i in range(len(nodes)) if clo[i] & src}
    # a multi-cell set_value that touches such a cell is aborted there by the model (the cell is code, not a value
    # cell) while pycel writes on: its other members and their dependants are affected too
    while True:
        more = set()
        for op in case['ops']:
            if op[0] == 'SR' and set(op[2]) & p:
                more |= set(op[2])
        more |= {i for i in range(len(nodes)) if clo[i] & more}
        if more <= p:
            return p
        p |= more


def _diff_nodes(case, info, impl_out, model_out):
    """groups of nodes at which implementation and model outputs differ (one group per differing observation: the
    nodes a multi-cell operation touches form one group); None when the difference cannot be localised"""
    a = dict(p.split(':', 1) for p in (impl_out or '').split(';') if ':' in p)
    b = dict(p.split(':', 1) for p in (model_out or '').split(';') if ':' in p)
    if set(a) != set(b) or 'ops' not in a:
        return None
    bad = []
    for sec in a:
        if a[sec] == b[sec]:
            continue
        if sec == 'ops':
            xs, ys = a[sec].split('^'), b[sec].split('^')
            if len(xs) != len(ys):
                return None
            for k, (x, y) in enumerate(zip(xs, ys)):
                if x != y and not same('ops:' + x, 'ops:' + y):
                    bad.append(set(_op_nodes(case['ops'][k])))
        elif sec == 'map':
            xs, ys = a[sec].split('~'), b[sec].split('~')
            if len(xs) != len(ys):
                return None
            for x, y in zip(xs, ys):
                if x != y:
                    if x.split('=')[0] != y.split('=')[0]:
                        return None
                    bad.append({int(x.split('=')[0])})
        elif sec not in ('idem', 'idemmap'):     # consequences of a changed constant, localised by map/ops
            return None
    return bad


def finding_key(case, impl_out, model_out):
    info = _INFO.get(_key(case))
    if not info or 'consts' not in info or case.get('kind'):
        return None
    classes = [('text.eq-prefix', lambda s: s.startswith('='), ('yml', 'json', 'pkl')),
               ('yaml.nel', lambda s: '\x85' in s, ('yml', 'pkl')),
               ('json.astral', lambda s: any(ord(c) > 0xFFFF for c in s), ('json',))]
    if case['fmt'] == 'pkl' and impl_out == '!exc:bare:PicklingError' and 'twice' not in info and \
            _poisoned(case, info, classes[0][1]):
        return 'text.eq-prefix'     # to_file itself fails: the text constant became code naming a library function
    groups = []
    if model_out is not None and impl_out != model_out:
        d = _diff_nodes(case, info, impl_out, model_out)
        if d is None:
            return None
        groups += d
    by_text = {}
    for text, node in _oracle_failures(case, info):
        if node is None:
            if 'cell_map content' in text or 'although the cell map is the same' in text:
                continue            # consequence of a changed constant; localised by the per-cell comparison
            return None
        by_text.setdefault(text, set()).add(node)
    groups += list(by_text.values())
    if not groups:
        return None
    hit = None
    for g in groups:
        explained = False
        for name, pred, fmts in classes:
            if case['fmt'] in fmts and _poisoned(case, info, pred) & g:
                hit = hit or name
                explained = True
                break
        if not explained:
            return None
    return hit


# ---------------------------------------------------------------------------------------------------------------
# coverage

def nontrivial(case):
    if case.get('kind') == 'hash':
        return case['edit'] != 'none'
    if case.get('kind') in ('pk', 'xd', 'fs'):
        return True
    nodes = case['nodes']
    if any(n[0] == 'X' for n in nodes):
        return bool(case['pre'])
    clo = c01._precedents(nodes)
    changed = set()
    for op in case['ops']:
        if op[0] in ('S', 'SR'):
            changed |= {j for j in _op_nodes(op) if nodes[j][0] == 'I'}
        elif any(clo[a] & changed for a in _op_nodes(op)):
            return True
    return False


def bucket(case):
    return case.get('tag') or f'{case["fmt"]}:{case["mode"]}'


# ---------------------------------------------------------------------------------------------------------------
# generators

HOSTILE = [1e-7, 1e22, -0.0, 0.1, 0.30000000000000004, 5e-324, 1.7976931348623157e308, 3.0, 12345678901234567890,
           -7, 2 ** 53 + 1, 1e16,
           'yes', 'no', 'null', '~', 'on', '1e5', '.5', '1_000', '0x10', '0o7', '1:30', '2001-01-01', '+1', '.inf', 'nan',
           '- a: b', 'a: b', '{a: 1}', '[1, 2]', '# c', 'a #b', '!tag', '&anc', '*ali', '%x', '@x', '`x', '| ', '> ',
           "'q'", '"dq"', '\\', '\\n', '=text', '=', '=1+1', '#N/A', '#VALUE!', 'TRUE', 'false', 'True',
           'a\nb', 'a\r\nb', 'a\rb', '\n', 'a\n\n  b\n', '\t', ' lead', 'trail ', '  ', ' ', '',
           'héllo ✓', '日本語', 'a b', 'a b', '\x85', 'a\x85b', '\U0001F600', 'x\U00010000y',
           '\x00', '\x1b[0m', '\x7f', '﻿', '￾', 'x' * 300, 'word ' * 60, ('long line ' * 20 + '\n') * 3,
           True, False, None]
FINDING_TEXT = {'=text', '=', '=1+1', '\x85', 'a\x85b', '\U0001F600', 'x\U00010000y'}


def _tok(v):
    return core.enc(v) if isinstance(v, str) and v in core.ERR_TAGS else c01._tok(v)


def _initial_ok(v):
    """can be a cell value of the workbook the model is compiled from (openpyxl reads '=…' as a formula and refuses
    control characters); everything else enters through set_value"""
    if not isinstance(v, str):
        return True
    return not v.startswith('=') and not any(ord(c) < 32 and c not in '\t\n\r' for c in v) and \
        not any(0xFFFE <= ord(c) <= 0xFFFF for c in v)


def add_hostile(rng, nodes, values=None):
    """append hostile value cells E1..Ek (sheet of node 0), =ref formulas in F, their range, INDEX and COUNT in G"""
    k = len(values) if values else rng.randint(1, 4)
    vals = values or [rng.choice(HOSTILE) for _ in range(k)]
    base = len(nodes)
    sheet = 'Sheet1'
    for r, v in enumerate(vals, 1):
        nodes.append(['I', f'{sheet}!E{r}', _tok(v)])
    hostile = list(range(base, base + k))
    for r, j in enumerate(hostile, 1):
        if values or rng.random() < 0.6:
            nodes.append(['F', f'{sheet}!F{r}', 'ref', [j]])
    if k >= 2:
        nodes.append(['R', f'{sheet}!E1:E{k}', k, 1, hostile])
        rn = len(nodes) - 1
        nodes.append(['F', f'{sheet}!G1', 'idx', [rn, rng.randint(1, k), 1]])
        nodes.append(['F', f'{sheet}!G2', 'cnt', [rn]])
    return hostile


def _json_extra(rng):
    r = rng.random()
    if r < 0.4:
        return None
    if r < 0.5:
        return {}
    pool = [1, 2.5, 'x', None, True, [1, 'a', None], {'n': [1, 2], 'm': {'z': 'y'}}, 'hé', 'yes', '1e5', -0.5, []]
    keys = ['k', 'note', 'Z', 'a b', '1', 'on', 'owner', 'cycle']
    rng.shuffle(keys)
    return {key: rng.choice(pool) for key in keys[:rng.randint(1, 4)]}


KINDS = {'ref', 'cat', 'add', 'sub', 'eq', 'sum', 'cnt', 'idx'}       # what Drv/C03.lean parses (EngineInst.Fml)
OPS = {'S': 3, 'E': 2, 'SR': 5, 'EL': 2}


def supported(case):
    """the workbook and both histories only use node kinds and operations the model driver understands: a case that
    the (shared, evolving) c01 generators produce outside this whitelist is never emitted"""
    if case.get('kind') in ('pk', 'xd', 'fs'):
        return True
    for n in case['nodes']:
        if n[0] not in ('I', 'F', 'R', 'X') or (n[0] == 'F' and n[2] not in KINDS):
            return False
    for op in case['pre'] + case['ops']:
        if op[0] not in OPS or len(op) != OPS[op[0]]:
            return False
    return True


def gen_case(rng, fmt, mode, cycles, near=False):
    for _ in range(40):
        try:
            case = _gen_case(rng, fmt, mode, cycles, near)
        except Exception:   # noqa  (the shared c01 generators evolve; a crash there must not stop this check)
            continue
        if supported(case):
            return case
        case['ops'] = [op for op in case['ops'] if op[0] in OPS and len(op) == OPS[op[0]]]
        if supported(case):
            return case
    return None


FLOAT_BASES = [4096.25, 0.1, 1e-3, 0.5, 1000000, 123456789, 1e16, -250000, 0.7, 1 / 3]


def gen_floatsum(rng):
    """3-6 non-dyadic floats, SUM over their range / over the cells / a+b: Python's sum() compensates only exact
    floats, so the TYPE a number is loaded as (ruamel ScalarFloat) is observable in the last bit"""
    k = rng.randint(3, 6)
    nodes = [['I', f'Sheet1!A{r}', _tok(rng.choice(FLOAT_BASES) * (1 + rng.choice([0, 1, -1]) * 2.0 ** -rng.randint(20, 50)))]
             for r in range(1, k + 1)]
    nodes.append(['R', f'Sheet1!A1:A{k}', k, 1, list(range(k))])
    nodes.append(['F', 'Sheet1!B1', 'sum', [k]])
    nodes.append(['F', 'Sheet1!B2', 'sum', rng.sample(range(k), 3)])
    nodes.append(['F', 'Sheet1!B3', 'add', rng.sample(range(k), 2)])
    nodes.append(['F', 'Sheet1!B4', 'sub', rng.sample(range(k), 2)])
    ops = [['E', i] for i in range(len(nodes))]
    for _ in range(rng.randint(1, 4)):
        ops.append(['S', rng.randrange(k), _tok(rng.choice(FLOAT_BASES) * (1 + 2.0 ** -rng.randint(20, 50)))])
        ops += [['E', k + 1], ['E', k + 2], ['EL', [k + 3, k + 4, k]]]
    return nodes, ops


def _gen_case(rng, fmt, mode, cycles, near):
    if near == 2:
        nodes, near_ops = gen_floatsum(rng)
    elif near:
        nodes, near_ops = c01.gen_near(rng)
    else:
        nodes = c01.gen_workbook(rng, free_ranges=rng.random() < 0.3)
    names = {}
    if not near and rng.random() < 0.25:
        pool = ['name_a', 'rate_b', 'total_c']
        used = sorted({j for n in nodes if n[0] == 'F' for j in (n[3][:1] if n[2] == 'idx' else n[3])})
        # (as in c01: a defined name whose destination sheet has an apostrophe is not resolved by pycel — the formula
        #  gives #NAME? on the original and the loaded model alike; C04/C11's subject)
        used = [j for j in used if "''" not in nodes[j][1]]
        for j in rng.sample(used, min(len(used), rng.randint(1, 3))):
            names[pool[len(names)]] = j
    hostile = add_hostile(rng, nodes)
    inputs = [i for i, n in enumerate(nodes) if n[0] == 'I']
    order = list(range(len(nodes)))
    rng.shuffle(order)
    pre = [['E', i] for i in order]
    for j in hostile:
        if not _initial_ok(c01._py(nodes[j][2])):
            pre.append(['S', j, nodes[j][2]])
            nodes[j][2] = _tok(0)
    for _ in range(rng.randint(0, 4)):
        if rng.random() < 0.6:
            pre.append(['S', rng.choice(hostile), _tok(rng.choice(HOSTILE))])
        else:
            pre.append(['S', rng.choice(inputs), _tok(c01.rand_value(rng))])
    ops = (near_ops + [['E', i] for i in range(len(nodes))]) if near else c01.gen_history(rng, nodes, True)
    for _ in range(rng.randint(0, 3)):
        pos = rng.randrange(len(ops) - len(nodes) + 1)
        ops.insert(pos, ['S', rng.choice(hostile), _tok(rng.choice(HOSTILE))])
    if cycles:
        # a range evaluated DIRECTLY in iterative mode returns its cached tuple (C06 territory: `_evaluate` only
        # recomputes a range that `needs_calc`), which differs between a model that cached it before a set_value
        # and one that was just loaded
        ops = [op for op in ops if not (op[0] == 'E' and nodes[op[1]][0] == 'R')]
        ops = [[op[0], [a for a in op[1] if nodes[a][0] != 'R']] if op[0] == 'EL' else op for op in ops]
        ops = [op for op in ops if not (op[0] == 'EL' and not op[1])]
    case = {'nodes': nodes, 'fmt': fmt, 'mode': mode, 'cycles': cycles, 'pre': pre, 'ops': ops,
            'src': 'xlsx' if rng.random() < 0.2 else 'mem', 'extra': _json_extra(rng)}
    if names:
        case['names'] = names
    if near:
        case['near'] = near
    return case


def pool_cases():
    """every hostile scalar x format, four at a time in a fixed workbook, same thread"""
    import random
    rng = random.Random(7)
    for fmt in ('yml', 'json', 'pkl'):
        for k in range(0, len(HOSTILE), 4):
            vals = HOSTILE[k:k + 4]
            nodes = [['I', 'Sheet1!A1', _tok(5)], ['F', 'Sheet1!B1', 'add', [0, 0]]]
            hostile = add_hostile(rng, nodes, values=[0] * len(vals))
            pre = [['E', i] for i in range(len(nodes))] + [['S', j, _tok(v)] for j, v in zip(hostile, vals)]
            ops = [['E', i] for i in range(len(nodes))] + [['S', hostile[0], _tok('z')], ['S', 0, _tok(7)]] + \
                  [['E', i] for i in reversed(range(len(nodes)))]
            yield {'nodes': nodes, 'fmt': fmt, 'mode': 'same', 'cycles': 0, 'pre': pre, 'ops': ops, 'src': 'mem',
                   'extra': None, 'tag': 'pool'}


def cse_cases():
    """a CSE array C1:C2 whose top-left cell is built before / after the range: equal sort keys"""
    nodes = [['I', 'Sheet1!A1', _tok(1)], ['I', 'Sheet1!A2', _tok(2)], ['I', 'Sheet1!B1', _tok(3)], ['I', 'Sheet1!B2', _tok(4)],
             ['R', 'Sheet1!A1:A2', 2, 1, [0, 1]], ['R', 'Sheet1!B1:B2', 2, 1, [2, 3]],
             ['X', 'Sheet1!C1:C2', 'CSE'], ['X', 'Sheet1!C1', 'member'], ['X', 'Sheet1!C2', 'member'],
             ['X', 'Sheet1!D1', '=SUM(C1:C2)']]
    for fmt in ('yml', 'json', 'pkl'):
        for pre in ([7, 9], [6, 7], [9, 8, 7], [7, 6, 8]):
            yield {'nodes': nodes, 'fmt': fmt, 'mode': 'same', 'cycles': 0, 'pre': [['E', i] for i in pre], 'ops': [],
                   'src': 'mem', 'extra': None, 'tag': 'cse', 'cse': 1}


def fixture_cases():
    """the iterative (circular) fixture of the test-suite: load in a fresh thread / process before anything was
    evaluated there (witness of fixed: fe2277f)"""
    cells = ['B8', 'B1', 'B2', 'A2', 'B3', 'B6', 'A5', 'A6', 'B5']
    nodes = [['X', 'Sheet1!' + c, 'fixture'] for c in cells]
    for fmt, modes in (('yml', ('same', 'thread', 'proc')), ('json', ('thread', 'proc')), ('pkl', ('thread', 'proc'))):
        for mode in modes:
            yield {'nodes': nodes, 'fmt': fmt, 'mode': mode, 'cycles': 1, 'pre': [['E', 0], ['E', 2], ['E', 5]],
                   'ops': [['S', 3, _tok(0.1)], ['E', 2], ['E', 0]], 'noeval': 1, 'src': 'mem', 'extra': {'k': 1},
                   'tag': 'iter-fixture', 'fixture': 'tests/fixtures/circular.xlsx'}


def hash_cases(rng, count):
    """.xlsx-backed models; the workbook file is left alone / rewritten before the save / between save and load /
    between load and re-save"""
    k = 0
    for _ in range(count):
        for edit in ('none', 'before-save', 'after-save', 'after-load'):
            for fmt in ('yml', 'json', 'pkl'):
                k += 1
                if count == 1 or k % 3 == rng.randrange(3) or edit == 'before-save':
                    nodes = None
                    for _ in range(40):
                        try:
                            nodes = c01.gen_workbook(rng, free_ranges=False)
                        except Exception:   # noqa
                            continue
                        if all(n[0] != 'F' or n[2] in KINDS for n in nodes):
                            break
                        nodes = None
                    if nodes is None:
                        continue
                    case = {'kind': 'hash', 'tag': 'hash:' + edit, 'nodes': nodes, 'fmt': fmt, 'edit': edit,
                            'pre': [['E', i] for i in range(len(nodes))], 'ops': [],
                            'extra': _json_extra(rng) if rng.random() < 0.5 else None}
                    if supported(case):
                        yield case


def pk_cases(thorough):
    """small and large (text over 1 MiB / 3.5 MiB) models, the edited cell first / last in the file, edits that keep
    the length of the text (1 -> 2, "a" -> "b") and that change it"""
    edits = [[_tok(1), _tok(2)], [_tok('a'), _tok('b')], [_tok(1), _tok(10)], [_tok('a'), _tok('abc')]]
    blocks = [((3, 10), 'small')]
    big = [((40, 30000), 'large')] + ([((120, 30000), 'huge')] if thorough else [])
    for (block, size) in blocks + big:
        for cell in ('Sheet1!A1', 'Sheet1!C1'):
            for e, edit in enumerate(edits):
                for fmt in ('yml', 'json'):
                    if size != 'small' and not thorough and not (cell == 'Sheet1!C1' and e == 0):
                        continue        # quick: the multi-MiB model once per format (late cell, 1 -> 2)
                    if size == 'huge' and not (e < 2 and fmt == 'yml'):
                        continue
                    yield {'kind': 'pk', 'tag': 'pk:' + size, 'block': list(block), 'cell': cell, 'edit': edit,
                           'fmt': fmt, 'nodes': [], 'pre': [], 'ops': []}


XD_KEYS = ['owner', 'note', 'aaa', 'zzz', 'Zed', 'a b', 'dict', 'list', 'k1', 'k2']
XD_VALS = [1, 'alice', 2.5, None, True, [1, 'a'], {'n': 1, 'm': {'z': 'y'}}, 'yes', []]


def xd_cases(rng, count):
    def case(fmt, extra, steps):
        return {'kind': 'xd', 'tag': 'xd', 'fmt': fmt, 'extra': extra, 'steps': steps, 'nodes': [], 'pre': [], 'ops': []}
    for fmt in ('yml', 'json'):
        for how in ('pkl', 'text', 'bare'):
            # set a dict, save, add a key in place, save, save, load, save (twice)
            yield case(fmt, {'owner': 'alice'}, [['SAVE'], ['ADD', 'note', 'reviewed'], ['SAVE'], ['SAVE'],
                                                 ['LOAD', how], ['SAVE'], ['SAVE']])
        yield case(fmt, None, [['SAVE'], ['ADD', 'zzz', 1], ['SAVE'], ['LOAD', 'text'], ['SAVE'], ['ADD', 'aaa', 2],
                               ['SAVE'], ['LOAD', 'pkl'], ['SAVE']])
        yield case(fmt, {'aaa': 1, 'zzz': {'n': 1}}, [['SAVE'], ['DEL', 'aaa'], ['NEST', 'zzz', 'm', 2], ['SAVE'],
                                                      ['LOAD', 'bare'], ['SAVE'], ['ADD', 'aaa', 3], ['SAVE'], ['SAVE']])
    for _ in range(count):
        fmt = rng.choice(['yml', 'json'])
        keys = rng.sample(XD_KEYS, rng.randint(0, 3))
        extra = None if rng.random() < 0.25 else {k: rng.choice(XD_VALS) for k in keys}
        have = set(extra or {})
        steps = []
        for _ in range(rng.randint(4, 12)):
            r = rng.random()
            if r < 0.35:
                steps.append(['SAVE'])
            elif r < 0.5 and any(st[0] == 'SAVE' for st in steps):
                steps.append(['LOAD', rng.choice(['pkl', 'text', 'bare'])])
            elif r < 0.7 or not have:
                k = rng.choice(XD_KEYS)
                steps.append(['ADD', k, rng.choice(XD_VALS)])
                have.add(k)
            elif r < 0.85:
                k = rng.choice(sorted(have))
                steps.append(['DEL', k])
                have.discard(k)
            else:
                steps.append(['NEST', rng.choice(sorted(have)), rng.choice(['n', 'm', 'q']), rng.choice([1, 'x', None])])
        steps += [['SAVE'], ['LOAD', rng.choice(['pkl', 'text', 'bare'])], ['SAVE'], ['SAVE']]
        yield case(fmt, extra, steps)


def ub_cases(rng, count):
    """formulas over unbounded ranges (SUM(A:A), INDEX(1:1,2), SUM(2:2)), one of them a member of a range another
    formula reads; some formulas evaluated before the save and some not; every format; post-load set_value of cells
    of those ranges"""
    def case(fmt, mode, k, pre, ops):
        nodes = [['I', f'Sheet1!A{r}', _tok(r)] for r in range(1, k + 1)]
        nodes += [['I', 'Sheet1!B2', _tok(5)], ['X', 'Sheet1!B1', '=SUM(A:A)'], ['X', 'Sheet1!D1', '=SUM(B1:B2)'],
                  ['X', 'Sheet1!F5', '=INDEX(1:1,2)'], ['X', 'Sheet1!G6', '=SUM(2:2)']]
        return {'nodes': nodes, 'fmt': fmt, 'mode': mode, 'cycles': 0, 'pre': [['E', k + 1 + j] for j in pre],
                'ops': [['S', i, _tok(v)] if kind == 'S' else ['E', k + 1 + i] if kind == 'E' else
                        ['EL', [k + 1 + j for j in i]] for kind, i, v in ops],
                'noeval': 1, 'src': 'mem', 'extra': None, 'tag': 'unbounded', 'ub': 1}
    for fmt in ('pkl', 'yml', 'json'):
        # B1 = SUM(A:A) is computed by the save itself (member of B1:B2); then A1 changes after the load
        yield case(fmt, 'same', 3, [1], [('E', 1, 0), ('S', 0, 10), ('EL', [0, 1], 0), ('S', 3, 7), ('E', 1, 0)])
        yield case(fmt, 'thread', 3, [2, 1], [('S', 0, 10), ('E', 2, 0), ('E', 1, 0), ('S', 1, 4), ('EL', [2, 1, 0], 0)])
    for _ in range(count):
        k = rng.randint(2, 4)
        pre = rng.sample(range(4), rng.randint(1, 4))
        ops = []
        for _ in range(rng.randint(2, 8)):
            if rng.random() < 0.5:
                ops.append(('S', rng.randrange(k + 1), rng.choice([10, 0, -3, 2.5, None, 'x', True])))
            elif rng.random() < 0.7:
                ops.append(('E', rng.choice(pre), 0))
            else:
                ops.append(('EL', [rng.choice(pre) for _ in range(rng.randint(1, 3))], 0))
        ops += [('E', j, 0) for j in pre]
        yield case(rng.choice(['pkl', 'pkl', 'yml', 'json']), rng.choice(['same', 'same', 'thread']), k, pre, ops)


def fs_cases(rng, thorough):
    """a save that raises (caught), then: model A saved again, the corrected model saved in every format, loaded"""
    hows = ['set', 'object', 'numpy', 'lambda', 'nodir', 'filedir', 'badext']
    k = 0
    for how in hows:
        for ffmt in ('yml', 'json', 'pkl'):
            for fmt_a in (('yml', 'json', 'pkl') if thorough else ('yml', 'pkl') if ffmt == 'yml' else ('yml',)):
                k += 1
                yield {'kind': 'fs', 'tag': 'failed-save', 'fail': how, 'fmt_fail': ffmt, 'fmt_a': fmt_a,
                       'extra': rng.choice([None, {'owner': 'me'}, {'zzz': [1, 2], 'aaa': {'n': 1}}]),
                       'repair': rng.choice(['inplace', 'replace']),
                       'fresh': 1 if (k % (5 if thorough else 12) == 1) else 0, 'nodes': [], 'pre': [], 'ops': []}


def cases(tier, rng):
    thorough = tier == 'thorough'
    yield from fs_cases(rng, thorough)          # first: what a failed save leaves behind in the process meets every later case
    yield from pool_cases()
    yield from xd_cases(rng, 120 if thorough else 12)
    yield from ub_cases(rng, 150 if thorough else 15)
    yield from hash_cases(rng, 6 if thorough else 1)
    yield from pk_cases(thorough)
    yield from cse_cases()
    yield from fixture_cases()
    n = 1800 if thorough else 240
    fmts = ['yml', 'json', 'pkl']
    for k in range(n):
        fmt = fmts[k % 3]
        r = rng.random()
        mode = 'proc' if k % (24 if thorough else 80) < 3 else ('thread' if r < 0.45 else 'same')
        case = gen_case(rng, fmt, mode, 1 if rng.random() < 0.35 else 0, near=1 if k % 5 == 4 else 2 if k % 10 == 3 else 0)
        if case is not None:
            yield case

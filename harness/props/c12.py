"""C12 — validate_calcs reports exactly the stored results that disagree (excelcompiler.py validate_calcs,
_CellBase.close_enough; excelwrapper.py stored results).  DESIGN.md §7 C12.

A case is one .xlsx FILE (written under a temporary directory by harness/xlsxwriter_min.py with consistent stored
results, then at most one stored result perturbed) + one call of validate_calcs:

    {'nodes': [['I', addr, valtok] | ['F', addr, kind, args] | ['R', range_addr, rows, cols, [members]]
               | ['X', addr, 'exc'|'nimpl', valtok, args, 'plug'|'unk']],      (topological; C01's workbook format)
     'outs': 'all' | [node, ...] | ['str', node],    output_addrs=None | list | a single address
     'tree': 0|1, 'tol': None | 'p/q',
     'pert': None | [node, kind, valtok]}            stored result of `node` replaced (valtok 'z' = no <v>)

X nodes are formulas pycel cannot evaluate: a plugin function that raises ValueError ('exceptions') or
NotImplementedError ('not-implemented') after evaluating its arguments, or `=SUM(args)+FOOBARX()` (unknown function,
'not-implemented').  Their stored result is the constant in the node; the stored results of their dependants are
computed from it.

impl  = report of the real validate_calcs: mismatch dict (node -> original, calced), the 'exceptions' and
        'not-implemented' address lists (duplicates kept).
model = the same from the Lean driver (lean/Pycel/Drv/C12.lean, model lean/Pycel/Model/Validate.lean).
oracles (implementation only): empty report on consistent files; the perturbed cell is named with (stored,
recomputed) when reachable and evaluable; every other mismatch is a descendant of it in the REAL dep_graph; reachable
X cells are listed in their class.
"""
import atexit
import json
import os
import shutil
import sys
import tempfile
from fractions import Fraction

from harness import core
from harness import xlsxwriter_min as xw
from harness.props import c01 as W        # workbook generator / formula writer of the engine property (read only)

ID = 'C12'
LEAN_MODULE = 'Pycel.Props.C12'
NS = 'Pycel.Validate.'
THEOREMS = [NS + t for t in (
    'C12_sound', 'C12_sound_mismatch', 'C12_sound_engine', 'C12_complete', 'C12_blame', 'C12_blame_total',
    'C12_failed_justified', 'C12_failed_blame', 'C12_failed_blame_set', 'C12_no_skip', 'C12_no_skip_reach', 'C12_terminates',
    'closeVal_refl', 'closeVal_logical_number', 'closeVal_tol_zero', 'C12_strict_tol_counterexample',
    'C12_sound_inst')]
DESIGN_REF = 'DESIGN.md §7 C12'
RULE = ('random DAG workbook files (C01 generator: 2-14 cells on one or two sheets, ranges, cross-sheet references; '
        'formulas =ref, &, +, -, =, SUM, COUNT, INDEX; up to two cells that raise: plugin ValueError / NotImplementedError / '
        'unknown function) with stored results from a fresh pycel evaluation; per workbook: the consistent file and each '
        'formula cell in turn perturbed (number far / just beyond / within tolerance, text, logical, logical<->equal '
        'number, error value, blank, empty text, the formula text) x tolerance {None, 0, 1/1024, 1/2, 2} x outputs '
        '{all, one leaf, one root, random list, single address} x verify_tree on/off.  Deterministic core: three fixed '
        'workbooks x every formula cell x every perturbation kind x every tolerance x outputs {all, root} x tree.  '
        'Magnitudes: stored numbers 1e-12..1e-7, around 1, 1e6..1e15 and 0 (17 values), each perturbed just inside / '
        'outside every branch of the closeness rule (relative 0.9e-5 / 1.1e-5, zero vs 0.9e-8 / 1.1e-8, 0.9 / 1.1 of an '
        'explicit tolerance, one ulp at tolerance 0, x1.5, to zero) for every tolerance setting.  '
        'Oracle-only stream: 6 workbooks with precedents behind A:A / 1:1 / A:B references and 18-36 workbooks with a '
        'broken-build formula (offending reference first / last / in the middle, directly checked or behind another '
        'output), each formula cell behind them perturbed (number, text, error) or made unevaluable.  '
        'Non-trivial = a perturbed cell that is reachable from the outputs, or a file with a raising cell.')
ASSUMPTIONS = [
    'non-iterative workbooks; the openpyxl wrapper (the only one shipped); raise_exceptions=False',
    'formula language of the correspondence: =ref, &, +, -, =, SUM, COUNT, INDEX over cells and ranges (workbooks of '
    'the shared C01 generator with any other formula kind are skipped by `supported`); integers, text, '
    'logicals, blank inputs; no CSE arrays, no computed references (OFFSET/INDIRECT)',
    'ORACLE-ONLY (not carried by the Lean model, decided by the implementation-only oracles: empty report, altered '
    'cell named with (stored, recomputed), blame inside dep_graph descendants, unevaluable cells listed): workbooks '
    'whose precedents are reached only through whole-column / whole-row references (SUM(A:A), INDEX(1:1,2), '
    'SUM(A:B), other sheet), and formulas whose graph BUILD raises (missing sheet, range on a missing sheet, external '
    'workbook) with formula precedents before / after / around the offending reference; SEQUENCES of two '
    'validate_calcs calls with the SAME output_addrs object in every form the API accepts (str, AddressCell, list / '
    'tuple of str, list / tuple of AddressCell, nested list, generator): the argument is unchanged by a call and every '
    'report equals the one obtained with a freshly built argument (an exhausted generator is not reused)',
    'cells that raise are not members of a range node (the order in which _process_gen_graph evaluates several new '
    'ranges is not modelled; it is only observable when one of them raises)',
    'a stored text that spells an error code is not generated (pycel holds error values as strings)',
    'reading of "altered by more than the tolerance" for numbers (completeness oracle `rule_close`): the documented '
    'rule of close_enough - with a tolerance t, |a-b| > (1+1e-5)*t; with the default, relative 1e-5 of the larger '
    'magnitude when both values are non-zero and absolute 1e-8 when one is zero; a change of type is always an alteration',
    'numeric perturbations stay away from the closeness boundary by 10% or more (float vs exact arithmetic); '
    'non-integral perturbations are not applied to cells with & or = dependants',
    'the per-class address lists are compared as multisets; exception messages/keys are not compared',
]
TRUSTED = ['modelled, not verified: openpyxl reading the file (data_only values), networkx, the formula evaluator of '
           'pycel on the generated language (compared through the recomputed values of the report)']
REQUIRED_BUCKETS = ['consistent', 'consistent:raising', 'pert:far', 'pert:near', 'pert:text', 'pert:logical',
                    'pert:lognum', 'pert:error', 'pert:blank', 'fixed', 'oo:unbounded', 'oo:broken-build', 'oo:sequence',
                    'mag:tiny', 'mag:unit', 'mag:large', 'mag:zero']
EXHAUSTIVE = False
EXPLANATION = ('theorems: generic model of validate_calcs over every workbook DAG / value type / formula semantics '
               'with exceptions; correspondence: real validate_calcs on .xlsx files vs compiled model, plus '
               'implementation-only oracles (empty report, perturbed cell named, blame within real dep_graph descendants)')

TMP = tempfile.mkdtemp(prefix='c12-')
atexit.register(shutil.rmtree, TMP, ignore_errors=True)
_SIDE = {}      # case key -> {'desc': set(node), ...} from the real compiler, for the oracles
_STORED = {}    # workbook key -> {addr: value}
PLUGIN = 'harness.props.c12'
if core.VERIF not in sys.path:
    sys.path.insert(0, core.VERIF)


# plugin functions (pycel loads them from this module: ExcelCompiler(plugins=[PLUGIN]))
def c12boom(*args):
    raise ValueError('boom')


def c12nimp(*args):
    raise NotImplementedError('nope')


# ---------------------------------------------------------------------------------------------------------------
# workbook -> cells

def _ref(nodes, i, j):
    sheet = nodes[i][1].partition('!')[0]
    return W._addr_of(nodes, j, sheet, i, None)


def formula_of(nodes, i):
    n = nodes[i]
    if n[0] == 'F':
        return W.formula_of(nodes, i, None)
    args = ','.join(_ref(nodes, i, j) for j in n[4])
    if n[5] == 'unk':
        return f'=SUM({args})+FOOBARX()' if args else '=FOOBARX()'
    return f'={"C12BOOM" if n[2] == "exc" else "C12NIMP"}({args})'


def cells_of(nodes, x_as_const=False):
    cells = {}
    for i, n in enumerate(nodes):
        if n[0] == 'I':
            cells[n[1]] = W._py(n[2])
        elif n[0] == 'F':
            cells[n[1]] = formula_of(nodes, i)
        elif n[0] == 'X':
            cells[n[1]] = W._py(n[3]) if x_as_const else formula_of(nodes, i)
    return cells


def deps_of(n):
    if n[0] == 'I':
        return []
    if n[0] == 'F':
        return list(n[3][:1]) if n[2] == 'idx' else list(n[3])
    if n[0] == 'R':
        return list(n[4])
    return list(n[4])


def closure(nodes):
    clo = []
    for n in nodes:
        c = set()
        for j in deps_of(n):
            c.add(j)
            c |= clo[j]
        clo.append(c)
    return clo


def is_formula(n):
    return n[0] in ('F', 'X')


def stored_of(nodes):
    """consistent stored results {addr: value}: fresh pycel evaluation with the X cells as constants"""
    k = json.dumps(nodes)
    if k not in _STORED:
        if len(_STORED) > 2000:
            _STORED.clear()
        variant = cells_of(nodes, x_as_const=True)
        comp = W.build_compiler(variant)
        out = {}
        for i, n in enumerate(nodes):
            if n[0] == 'F':
                v = comp.evaluate(n[1])
                if hasattr(v, 'item'):
                    v = v.item()
                out[n[1]] = v
            elif n[0] == 'X':
                out[n[1]] = W._py(n[3])
        _STORED[k] = out
    return _STORED[k]


def all_outputs(nodes):
    """formula_cells(): sheets in file order, rows ascending, columns ascending"""
    sheets = []
    items = []
    for i, n in enumerate(nodes):
        if n[0] == 'R':
            continue
        sheet, col_s, col, row = xw._split(n[1])
        if sheet not in sheets:
            sheets.append(sheet)
        if is_formula(n):
            items.append((sheets.index(sheet), row, col, i))
    # sheet order = first appearance among ALL cells, so index again after the scan
    return [i for _, _, _, i in sorted((s, r, c, i) for s, r, c, i in items)]


def outs_of(case):
    o = case['outs']
    if o == 'all':
        return all_outputs(case['nodes'])
    if o and o[0] == 'str':
        return [o[1]]
    return list(o)


# ---------------------------------------------------------------------------------------------------------------
# implementation side

def _tol(case):
    return None if case['tol'] is None else float(Fraction(case['tol']))


def impl(case):
    if case.get('oo'):
        return oo_impl(case)
    from pycel import ExcelCompiler
    import contextlib
    import io
    import networkx as nx
    nodes = case['nodes']
    cells = cells_of(nodes)
    cached = dict(stored_of(nodes))
    pert = case.get('pert')
    if pert:
        cached[nodes[pert[0]][1]] = W._py(pert[2])
    path = os.path.join(TMP, f'wb{os.getpid()}.xlsx')
    xw.write_xlsx(path, cells, cached)
    comp = ExcelCompiler(filename=path, plugins=[PLUGIN])
    index = {}
    for i, n in enumerate(nodes):
        from pycel.excelutil import AddressRange
        index[AddressRange(n[1]).address] = i
    o = case['outs']
    if o == 'all':
        arg = None
    elif o and o[0] == 'str':
        arg = nodes[o[1]][1]
    else:
        arg = [nodes[j][1] for j in o]
    with contextlib.redirect_stdout(io.StringIO()):
        rep = comp.validate_calcs(output_addrs=arg, verify_tree=bool(case['tree']), tolerance=_tol(case))
    key = json.dumps(case, sort_keys=True)
    side = {}
    if pert:
        cell = comp.cell_map.get(AddressRange(nodes[pert[0]][1]).address)
        if cell is not None and cell in comp.dep_graph:
            side['desc'] = {index.get(str(d.address.address) if hasattr(d.address, 'address') else str(d.address))
                            for d in nx.descendants(comp.dep_graph, cell)}
        else:
            side['desc'] = set()
    _SIDE[key] = side
    extra = sorted(set(rep) - {'mismatch', 'exceptions', 'not-implemented'})
    if extra:
        return '!keys:' + ','.join(extra)
    ms = []
    for addr, m in rep.get('mismatch', {}).items():
        ms.append((index[AddressRange(addr).address], core.enc(m.original), core.enc(m.calced)))
    xs = sorted(index[AddressRange(e[0]).address] for lst in rep.get('exceptions', {}).values() for e in lst)
    ns = sorted(index[AddressRange(e[0]).address] for lst in rep.get('not-implemented', {}).values() for e in lst)
    return ';'.join([' '.join(['M'] + [f'{i}:{a}:{b}' for i, a, b in sorted(ms)]),
                     ' '.join(['X'] + [str(i) for i in xs]),
                     ' '.join(['N'] + [str(i) for i in ns])])


# ---------------------------------------------------------------------------------------------------------------
# model side

def model_lines(case):
    if case.get('oo'):
        return ['ping']          # oracle-only stream: not carried by the Lean model, the driver just answers
    nodes = case['nodes']
    tol = 'z' if case['tol'] is None else 'n:' + case['tol']
    toks = ['c12', str(case['tree']), tol, str(len(nodes))]
    for n in nodes:
        if n[0] == 'I':
            toks += ['I', n[2]]
        elif n[0] == 'F':
            kind, args = n[2], n[3]
            if kind in ('cat', 'sum', 'cnt'):
                toks += ['F', kind, str(len(args))] + [str(j) for j in args]
            else:
                toks += ['F', kind] + [str(j) for j in args]
        elif n[0] == 'R':
            toks += ['R', str(n[2]), str(n[3])] + [str(j) for j in n[4]]
        else:
            toks += ['X', 'unk' if n[5] == 'unk' else n[2], n[3], str(len(n[4]))] + [str(j) for j in n[4]]
    pert = case.get('pert')
    if pert:
        toks += ['P', str(pert[0]), pert[2]]
        if pert[1] == 'ftext':
            toks += ['T', str(pert[0]), pert[2]]
        else:
            toks += ['T', '-', '-']
    else:
        toks += ['P', '-', '-', 'T', '-', '-']
    outs = outs_of(case)
    toks += ['O', str(len(outs))] + [str(j) for j in outs]
    return [' '.join(toks)]


FAR = ('far', 'edge', 'text', 'logical', 'lognum', 'error', 'ftext', 'empty')


def _items(out):
    m, x, n = out.split(';')
    return m.split(' '), x, n


def _close_tok(a, b):
    """numbers recomputed with float arithmetic vs exactly (sums with cancellation): 1e-9 relative or 1e-12 absolute"""
    if a.startswith('n:') and b.startswith('n:'):
        x, y = core.dec(a), core.dec(b)
        return abs(x - y) <= max(Fraction(1, 10**9) * max(abs(x), abs(y)), Fraction(1, 10**12))
    return False


def same(impl_out, model_out):
    """equal reports; numbers (recomputed by float arithmetic on one side, exactly on the other) up to 1e-12 relative"""
    if impl_out == model_out:
        return True
    if impl_out is not None and impl_out.startswith('O|'):
        return model_out == 'pong'
    if impl_out is None or model_out is None or impl_out.startswith('!') or model_out.startswith('!'):
        return False
    (ma, xa, na), (mb, xb, nb) = _items(impl_out), _items(model_out)
    if (xa, na) != (xb, nb) or len(ma) != len(mb):
        return False
    for a, b in zip(ma[1:], mb[1:]):
        ia, _, ra = a.partition(':')
        ib, _, rb = b.partition(':')
        if ia != ib:
            return False
        for ta, tb in zip(split_two_tokens(ra), split_two_tokens(rb)):
            if ta != tb and not _close_tok(ta, tb):
                return False
    return True


def rule_close(a, b, tol):
    """THE reading of "within the tolerance" used by the completeness oracle: the documented rule of close_enough
    (rel=0.00001): with a tolerance t, |a-b| <= (1+rel)*t; with the default (None), relative 1e-5 of the larger
    magnitude when both values are non-zero, absolute 1e-8 when one of them is zero.  Exact arithmetic."""
    a, b = Fraction(a), Fraction(b)
    if tol is not None:
        return abs(a - b) <= (1 + Fraction(1, 100000)) * Fraction(tol)
    if a != 0 and b != 0:
        return abs(a - b) <= Fraction(1, 100000) * max(abs(a), abs(b))
    return abs(a - b) <= Fraction(1, 10 ** 8)


def beyond(case):
    """is the perturbation of the case an alteration beyond the tolerance (so that the property demands a report)"""
    pert = case.get('pert')
    if not pert:
        return False
    if pert[1] in FAR:
        return True
    if pert[1].startswith('mag'):
        old = stored_of(case['nodes'])[case['nodes'][pert[0]][1]]
        new = core.dec(pert[2])
        return not rule_close(new, old, case['tol'])
    return False


def governed(case):
    """the property fixes the report of a consistent file and of an alteration beyond the tolerance; what happens for
    an alteration within the tolerance or to "no stored result" is the code's choice (model follows the code)"""
    pert = case.get('pert')
    return pert is None or beyond(case) or bool(case.get('oo'))


# ---------------------------------------------------------------------------------------------------------------
# oracles on the implementation output alone

def parse_report(out):
    m, x, n = out.split(';')
    ms = {}
    for item in m.split(' ')[1:]:
        # tokens contain ':' themselves: i:<tok>:<tok> where tok = z | k:body
        parts = item.split(':')
        i = int(parts[0])
        rest = item[len(parts[0]) + 1:]
        a, b = split_two_tokens(rest)
        ms[i] = (a, b)
    return ms, [int(t) for t in x.split(' ')[1:]], [int(t) for t in n.split(' ')[1:]]


def split_two_tokens(s):
    """'<tok>:<tok>' where a token is z | k:body (body has no ':')"""
    def take(t):
        if t.startswith('z'):
            return 'z', t[1:]
        kind, _, rest = t.partition(':')
        body, sep, rest2 = rest.partition(':')
        return kind + ':' + body, sep + rest2
    a, rest = take(s)
    b, _ = take(rest[1:])
    return a, b


def reachable(case):
    nodes = case['nodes']
    outs = outs_of(case)
    if not case['tree']:
        return set(outs)
    clo = closure(nodes)
    r = set(outs)
    for o in outs:
        r |= clo[o]
    return r


def oracles(results):
    for r in results:
        case = r.case
        if case.get('oo'):
            yield from oo_oracles(r)
            continue
        if r.impl.startswith('!'):
            yield case, f'validate_calcs raised / returned an unknown report: {r.impl}'
            continue
        nodes = case['nodes']
        ms, xs, ns = parse_report(r.impl)
        pert = case.get('pert')
        has_x = any(n[0] == 'X' for n in nodes)
        reach = reachable(case)
        clo = closure(nodes)
        if pert is None:
            if ms:
                yield case, f'consistent file, yet mismatch reported for {[nodes[i][1] for i in ms]}'
            if not has_x and (xs or ns):
                yield case, 'consistent file without raising cells, yet exceptions reported'
        for i, n in enumerate(nodes):
            if n[0] == 'X' and i in reach and not (pert and pert[0] == i and pert[1] == 'ftext'):
                # (the class is that of the first exception met: a precedent without a value may raise first)
                if i not in xs and i not in ns:
                    yield case, (f'raising cell {n[1]} is reachable from the outputs but listed neither under '
                                 f'exceptions nor under not-implemented')
        for i in xs + ns:
            if not ({i} | clo[i]) & {k for k, n in enumerate(nodes) if n[0] == 'X'}:
                yield case, f'{nodes[i][1]} reported under exceptions but no cell it reads raises'
        if pert:
            c, kind = pert[0], pert[1]
            evaluable = nodes[c][0] == 'F' and not any(nodes[j][0] == 'X' for j in clo[c])
            if beyond(case) and c in reach and evaluable:
                want = core.enc(stored_of(nodes)[nodes[c][1]])
                got = ms.get(c)
                if got is None:
                    yield case, (f'stored result of {nodes[c][1]} altered to {core.show(pert[2])} ({kind}) and the cell '
                                 f'is reachable from the outputs, but it is not reported as a mismatch')
                elif got != (pert[2], want):
                    yield case, (f'{nodes[c][1]} reported with {core.show(got[0])} -> {core.show(got[1])}, expected '
                                 f'stored {core.show(pert[2])} -> recomputed {core.show(want)}')
            desc = _SIDE.get(json.dumps(case, sort_keys=True), {}).get('desc')
            if desc is not None:
                for i in ms:
                    if i != c and i not in desc:
                        yield case, (f'{nodes[i][1]} is reported as a mismatch but is not a descendant of the altered '
                                     f'cell {nodes[c][1]} in dep_graph')


def _code_close(a, b, tol):
    """close_enough of the code on two numbers (used only to narrow the finding class)"""
    import math
    if tol is not None:
        return abs(a - b) <= (1 + 1e-5) * tol
    if a and b:
        return math.isclose(a, b, rel_tol=1e-5)
    return math.isclose(a, b, abs_tol=1e-8)


def finding_key(case, impl_out, model_out):
    if case.get('oo'):
        return None
    pert = case.get('pert')
    if pert and impl_out and not impl_out.startswith('!'):
        if pert[0] in parse_report(impl_out)[0]:
            return None          # the altered cell IS named: whatever failed is not one of the known classes
    if pert and pert[1] in ('logical', 'lognum'):
        old = stored_of(case['nodes'])[case['nodes'][pert[0]][1]]
        new = W._py(pert[2])
        num = lambda v: isinstance(v, (bool, int, float))   # noqa
        if (isinstance(old, bool) or isinstance(new, bool)) and num(old) and num(new) and \
                _code_close(float(old), float(new), _tol(case)):
            return 'logical.as-number'
    if pert and pert[1] == 'empty':
        return 'stored.emptytext'
    if pert and pert[1] == 'ftext':
        return 'stored.formula-text'
    return None


# ---------------------------------------------------------------------------------------------------------------
# coverage

def nontrivial(case):
    if case.get('oo'):
        return bool(case.get('pert')) or bool(case.get('unev'))
    pert = case.get('pert')
    if pert:
        return pert[0] in reachable(case)
    return any(n[0] == 'X' for n in case['nodes'])


def bucket(case):
    if case.get('oo'):
        return 'oo:' + case['oo']
    if case.get('mag'):
        return 'mag:' + case['mag']
    if case.get('fixed'):
        return 'fixed'
    pert = case.get('pert')
    if pert is None:
        return 'consistent:raising' if any(n[0] == 'X' for n in case['nodes']) else 'consistent'
    k = pert[1]
    return 'pert:' + ('far' if k in ('far', 'edge') else k)


# ---------------------------------------------------------------------------------------------------------------
# generators

TOLS = [None, '0/1', '1/1024', '1/2', '2/1']
KINDS = ['far', 'edge', 'near', 'text', 'logical', 'lognum', 'error', 'blank', 'empty', 'ftext']


def perturb(nodes, c, kind, tol, rng=None):
    """-> valtok of the altered stored result of formula node c, or None when the kind does not apply"""
    old = stored_of(nodes)[nodes[c][1]]
    t = None if tol is None else Fraction(tol)
    isnum = isinstance(old, (int, float)) and not isinstance(old, bool)
    if kind == 'far':
        return core.enc((old + 1000) if isnum else 12345)
    if kind in ('edge', 'near'):
        if not isnum:
            return None
        if any(n[0] == 'F' and n[2] in ('cat', 'eq') and c in clo for n, clo in zip(nodes, closure(nodes))):
            return None      # a non-integral number would be rendered as text (C10/C20 territory) or compared
                             # exactly after float arithmetic by a dependant
        if t is None:
            if old == 0:
                d = 4e-8 if kind == 'edge' else 2.5e-9
            else:
                d = abs(old) * (4e-5 if kind == 'edge' else 2.5e-6)
        else:
            if t == 0:
                if kind == 'near':
                    return None
                d = 2.0 ** -20
            else:
                d = float(t) * (2.5 if kind == 'edge' else 0.25)
        return core.enc(float(old) + d)
    if kind == 'text':
        return core.enc_text('zz' if old != 'zz' else 'yy')
    if kind == 'logical':
        if isinstance(old, bool):
            return core.enc(not old)
        if isnum and old in (0, 1):
            return core.enc(bool(old))        # the number replaced by the logical it "equals"
        return core.enc(True)
    if kind == 'lognum':
        if isinstance(old, bool):
            return core.enc(int(old))         # the logical replaced by the number it "equals"
        return None
    if kind == 'error':
        return core.enc('#N/A' if old != '#N/A' else '#DIV/0!')
    if kind == 'blank':
        return 'z'
    if kind == 'empty':
        return core.enc_text('') if old != '' else None
    if kind == 'ftext':
        return core.enc_text(formula_of(nodes, c))
    raise ValueError(kind)


def add_raising(rng, nodes, k):
    """turn up to k formula nodes that are not range members into raising nodes"""
    members = {j for n in nodes if n[0] == 'R' for j in n[4]}
    cand = [i for i, n in enumerate(nodes) if n[0] == 'F' and i not in members and n[2] != 'idx']
    rng.shuffle(cand)
    nodes = [list(n) for n in nodes]
    for i in cand[:k]:
        n = nodes[i]
        cls = rng.choice(['exc', 'nimpl'])
        variant = 'unk' if cls == 'nimpl' and rng.random() < 0.5 else 'plug'
        val = rng.choice([7, 0, 1, -2])
        nodes[i] = ['X', n[1], cls, core.enc(val), list(n[3]), variant]
    return nodes


def out_choices(rng, nodes):
    fs = [i for i, n in enumerate(nodes) if is_formula(n)]
    clo = closure(nodes)
    used = set().union(*clo) if clo else set()
    roots = [i for i in fs if i not in used] or fs
    leaves = [i for i in fs if not any(is_formula(nodes[j]) for j in clo[i])] or fs
    return ['all', [rng.choice(roots)], [rng.choice(leaves)], ['str', rng.choice(roots)],
            rng.sample(fs, min(len(fs), rng.randint(1, 3)))]


F_KINDS = {'ref': 1, 'cat': None, 'add': 2, 'sub': 2, 'eq': 2, 'sum': None, 'cnt': None, 'idx': 3}


def supported(nodes):
    """only node shapes the driver (lean/Pycel/Drv/C12.lean) parses: a workbook from the shared generator with a
    formula kind this module does not know is skipped, never reported"""
    for n in nodes:
        if n[0] == 'I' and len(n) == 3:
            continue
        if n[0] == 'R' and len(n) == 5:
            continue
        if n[0] == 'X' and len(n) == 6:
            continue
        if n[0] == 'F' and len(n) == 4 and n[2] in F_KINDS and (F_KINDS[n[2]] is None or len(n[3]) == F_KINDS[n[2]]):
            continue
        return False
    return True


def _fixed():
    t = W._tok
    w1 = [['I', 'Sheet1!A1', t(5)], ['F', 'Sheet1!B1', 'add', [0, 0]], ['F', 'Sheet1!C1', 'cat', [1]],
          ['F', 'Sheet1!D1', 'add', [1, 0]], ['F', 'Sheet1!E1', 'add', [3, 0]], ['F', 'Sheet1!F1', 'cat', [2, 1]]]
    w2 = [['I', 'Sheet1!A1', t(True)], ['F', 'Sheet1!A2', 'ref', [0]], ['R', 'Sheet1!A1:A2', 2, 1, [0, 1]],
          ['F', 'Sheet1!B1', 'cnt', [2, 0]], ['F', 'Sheet1!B2', 'add', [1, 3]], ['F', 'Sheet1!C1', 'sum', [2, 4]]]
    w3 = [['I', 'Sheet1!A1', t(2)], ['F', 'Sheet1!B1', 'add', [0, 0]],
          ['X', 'Sheet1!C1', 'nimpl', t(7), [1], 'unk'], ['F', 'Sheet1!D1', 'add', [2, 1]],
          ['X', 'Sheet1!E1', 'exc', t(1), [3, 0], 'plug'], ['F', 'Sheet1!F1', 'cat', [4, 3]]]
    return [w1, w2, w3]


def fixed_cases(thorough):
    for w in _fixed():
        fs = [i for i, n in enumerate(w) if is_formula(n)]
        root = fs[-1]
        for tol in TOLS:
            for outs in ('all', [root]):
                for tree in (1, 0):
                    yield {'nodes': w, 'outs': outs, 'tree': tree, 'tol': tol, 'pert': None, 'fixed': 1}
                    for c in fs:
                        for kind in KINDS:
                            if not thorough and tree == 0 and kind not in ('far', 'lognum'):
                                continue
                            v = perturb(w, c, kind, tol)
                            if v is not None:
                                yield {'nodes': w, 'outs': outs, 'tree': tree, 'tol': tol, 'pert': [c, kind, v],
                                       'fixed': 1}


def cases(tier, rng):
    thorough = tier == 'thorough'
    yield from fixed_cases(thorough)
    yield from oo_cases(thorough, rng)
    yield from mag_cases(thorough, rng)
    yield from seq_cases(thorough, rng)
    yield from hist_cases(thorough)
    n_wb = 150 if thorough else 22
    for k in range(n_wb):
        nodes = W.gen_workbook(rng, free_ranges=False)
        if not any(n[0] == 'F' for n in nodes) or not supported(nodes):
            continue
        if k % 3 == 2:
            nodes = add_raising(rng, nodes, rng.randint(1, 2))
        fs = [i for i, n in enumerate(nodes) if is_formula(n)]
        try:
            stored_of(nodes)
        except Exception:      # noqa: a workbook pycel cannot evaluate from scratch is no consistent file
            continue
        choices = out_choices(rng, nodes)
        for tol in (TOLS if thorough else [rng.choice(TOLS), rng.choice(TOLS)]):
            outs = rng.choice(choices)
            tree = 1 if rng.random() < 0.75 else 0
            yield {'nodes': nodes, 'outs': outs, 'tree': tree, 'tol': tol, 'pert': None}
            for c in fs:
                kinds = KINDS if thorough else rng.sample(KINDS, 3)
                for kind in kinds:
                    v = perturb(nodes, c, kind, tol, rng)
                    if v is None:
                        continue
                    outs = rng.choice(choices)
                    tree = 1 if rng.random() < 0.75 else 0
                    yield {'nodes': nodes, 'outs': outs, 'tree': tree, 'tol': tol, 'pert': [c, kind, v]}


# ---------------------------------------------------------------------------------------------------------------
# magnitudes: stored / recomputed numbers from 1e-12 to 1e15 and perturbations just inside / outside each branch of the
# closeness rule at each magnitude, for every tolerance setting (model-carried: the Lean closeVal decides exactly)

MAGS = {'tiny': [1e-12, 3e-10, 6e-9, -9e-9, 5e-8, 1e-7],
        'unit': [1.0, 2.5, -7.25, 0.3],
        'large': [1e6, -123456789.0, 4.5e9, 1e12, 1e15],
        'zero': [0]}


def mag_workbook(x):
    t = W._tok
    # B1 == A1 ; B2 == A1+A2 (x+0: exact) ; C1 == B1 (dependant of B1 without arithmetic)
    return [['I', 'Sheet1!A1', t(x)], ['I', 'Sheet1!A2', t(0)], ['F', 'Sheet1!B1', 'ref', [0]],
            ['F', 'Sheet1!B2', 'add', [0, 1]], ['F', 'Sheet1!C1', 'ref', [2]]]


def mag_perts(x, tol):
    """(kind, new stored value) around the closeness boundary for the stored number x"""
    import math
    x = float(x)
    out = []
    if tol is None:
        if x != 0:
            for k, f in (('in', 0.9e-5), ('out', 1.1e-5)):
                out += [(f'mag-rel-{k}', x * (1 + f)), (f'mag-rel-{k}', x * (1 - f))]
            out += [('mag-far', x * 1.5), ('mag-to-zero', 0.0)]
        else:
            for k, d in (('in', 0.9e-8), ('out', 1.1e-8)):
                out += [(f'mag-abs-{k}', d), (f'mag-abs-{k}', -d)]
            out += [('mag-tiny', 6e-9), ('mag-tiny', 1e-12), ('mag-far', 5e-8)]
    else:
        t = float(Fraction(tol))
        if t == 0:
            out += [('mag-ulp', math.nextafter(x, math.inf)), ('mag-rel-out', x * (1 + 1.1e-5) if x else 1.1e-8)]
        else:
            for k, f in (('in', 0.9), ('out', 1.1)):
                out += [(f'mag-tol-{k}', x + f * t), (f'mag-tol-{k}', x - f * t)]
            out += [('mag-rel-out', x * (1 + 1.1e-5) if x else 1.1e-8)]
    return [(k, v) for k, v in out if v != x]


def mag_cases(thorough, rng):
    for mag, xs in MAGS.items():
        for x in xs:
            nodes = mag_workbook(x)
            for tol in TOLS:
                cells = [2, 3, 4] if thorough else [rng.choice([2, 3]), 4][:2 if tol is None else 1]
                yield {'nodes': nodes, 'outs': 'all', 'tree': 1, 'tol': tol, 'pert': None, 'mag': mag}
                for c in cells:
                    for kind, v in mag_perts(x, tol):
                        yield {'nodes': nodes, 'outs': 'all' if c != 4 else [4], 'tree': 1, 'tol': tol,
                               'pert': [c, kind, core.enc(v)], 'mag': mag}


# ---------------------------------------------------------------------------------------------------------------
# oracle-only stream (not carried by the Lean model; decided by the implementation-only oracles, like C05's CSE cases):
#   'unbounded'    precedents reached ONLY through a whole-column / whole-row reference (SUM(A:A), INDEX(1:1,2)); the
#                  reference is a synthetic alias cell (`_Cell` with an unbounded address) that validate_calcs does not
#                  compare but must walk through
#   'broken-build' a formula whose graph BUILD raises (sheet that is not in the file, external workbook) naming further
#                  formula precedents before / after the offending reference
# case: {'oo': kind, 'cells': {addr: value | '=formula'}, 'const': {addr: stored constant of a cell pycel cannot
#        evaluate}, 'nostore': [addr], 'outs': [addr], 'tree': 1, 'tol': None|'p/q', 'pert': [addr, kind, valtok]|None,
#        'unev': [addr that must be listed under exceptions / not-implemented]}

_OO_STORED = {}


def oo_stored(case):
    """consistent stored results: fresh in-memory pycel evaluation, unevaluable cells replaced by their constant"""
    k = json.dumps([case['cells'], case['const']], sort_keys=True)
    if k not in _OO_STORED:
        if len(_OO_STORED) > 2000:
            _OO_STORED.clear()
        variant = {a: (case['const'][a] if a in case['const'] else v) for a, v in case['cells'].items()
                   if a not in case['nostore']}
        comp = W.build_compiler(variant)
        out = {}
        for a, v in case['cells'].items():
            if a in case['const']:
                out[a] = case['const'][a]
            elif a in case['nostore']:
                continue
            elif isinstance(v, str) and v.startswith('='):
                r = comp.evaluate(a)
                out[a] = r.item() if hasattr(r, 'item') else r
        _OO_STORED[k] = out
    return _OO_STORED[k]


def oo_impl(case):
    if case['oo'] == 'sequence':
        return seq_impl(case)
    if case['oo'] == 'history':
        return hist_impl(case)
    from pycel import ExcelCompiler
    from pycel.excelutil import AddressRange
    import contextlib
    import io
    import networkx as nx
    cached = dict(oo_stored(case))
    pert = case.get('pert')
    if pert:
        cached[pert[0]] = W._py(pert[2])
    path = os.path.join(TMP, f'oo{os.getpid()}.xlsx')
    xw.write_xlsx(path, case['cells'], cached)
    comp = ExcelCompiler(filename=path, plugins=[PLUGIN])
    with contextlib.redirect_stdout(io.StringIO()):
        rep = comp.validate_calcs(output_addrs=list(case['outs']), verify_tree=bool(case['tree']),
                                  tolerance=_tol(case))
    side = {}
    if pert:
        cell = comp.cell_map.get(AddressRange(pert[0]).address)
        side['desc'] = ({str(d.address) for d in nx.descendants(comp.dep_graph, cell)}
                        if cell is not None and cell in comp.dep_graph else set())
    _SIDE[json.dumps(case, sort_keys=True)] = side
    ms = sorted(f'{a}={core.enc(m.original)}>{core.enc(m.calced)}' for a, m in rep.get('mismatch', {}).items())
    xs = sorted(e[0] for lst in rep.get('exceptions', {}).values() for e in lst)
    ns = sorted(e[0] for lst in rep.get('not-implemented', {}).values() for e in lst)
    return 'O|' + ';'.join([' '.join(['M'] + ms), ' '.join(['X'] + xs), ' '.join(['N'] + ns)])


def oo_oracles(r):
    case = r.case
    if case['oo'] == 'sequence':
        yield from seq_oracles(r)
        return
    if case['oo'] == 'history':
        yield from hist_oracles(r)
        return
    if not r.impl.startswith('O|'):
        yield case, f'validate_calcs raised: {r.impl}'
        return
    m, x, n = r.impl[2:].split(';')
    ms = {}
    for item in m.split(' ')[1:]:
        a, _, rest = item.partition('=')
        o, _, c = rest.partition('>')
        ms[a] = (o, c)
    listed = set(x.split(' ')[1:]) | set(n.split(' ')[1:])
    pert = case.get('pert')
    if pert is None and ms:
        yield case, f'consistent file, yet mismatch reported for {sorted(ms)}'
    if pert is None and not case['unev'] and listed:
        yield case, f'consistent file every cell of which evaluates, yet {sorted(listed)} listed under exceptions'
    for a in case['unev']:
        if a not in listed:
            yield case, (f'{a} cannot be evaluated and is reachable from the outputs {case["outs"]} but is listed '
                         f'neither under exceptions nor under not-implemented (silently skipped)')
    import re
    tainted = set(case['unev'])          # cells that read (transitively, by the formula text) a cell that cannot be evaluated
    grew = True
    while grew:
        grew = False
        for a, v in case['cells'].items():
            if a not in tainted and isinstance(v, str) and v.startswith('=') and any(
                    t.rpartition('!')[2] in re.findall(r'[A-Z]+[0-9]+', v) and
                    ('!' not in v or t.rpartition('!')[0] in v or t.rpartition('!')[0] == a.rpartition('!')[0])
                    for t in tainted):
                tainted.add(a)
                grew = True
    for a in listed:
        if a in case['cells'] and a not in tainted:
            yield case, f'{a} listed under exceptions although it and everything it reads evaluates'
    if pert:
        c = pert[0]
        want = core.enc(oo_stored(case)[c])
        got = ms.get(c)
        if got is None:
            yield case, (f'stored result of {c} altered to {core.show(pert[2])} and {c} is a precedent of the checked '
                         f'outputs {case["outs"]}, but it is not reported as a mismatch (report: {r.impl[2:]})')
        elif got[0] != pert[2] or not (got[1] == want or _close_tok(got[1], want)):
            yield case, f'{c} reported with {core.show(got[0])} -> {core.show(got[1])}, expected {core.show(pert[2])} -> {core.show(want)}'
        desc = _SIDE.get(json.dumps(case, sort_keys=True), {}).get('desc')
        if desc is not None:
            for a in ms:
                if a != c and a not in desc:
                    yield case, f'{a} reported as a mismatch but is not a descendant of the altered cell {c} in dep_graph'


def _oo_perts(case, targets, tols, kinds=('far', 'text', 'error')):
    st = oo_stored(case)
    for tol in tols:
        base = dict(case, tol=tol)
        yield dict(base, pert=None)
        for c in targets:
            old = st[c]
            for kind in kinds:
                if kind == 'far':
                    v = core.enc(old + 1000 if isinstance(old, (int, float)) and not isinstance(old, bool) else 12345)
                elif kind == 'text':
                    v = core.enc_text('zz')
                else:
                    v = core.enc('#N/A')
                yield dict(base, pert=[c, kind, v])


def oo_cases(thorough, rng):
    tols = TOLS if thorough else [None, '1/2']
    # --- precedents only behind a whole-column / whole-row reference
    unb = [
        # (cells, outputs, perturbable formula cells reached only through the unbounded reference)
        ({'Sheet1!A1': 1, 'Sheet1!A2': 2, 'Sheet1!A3': '=A1+A2', 'Sheet1!B1': 5, 'Sheet1!C1': '=SUM(A:A)+B1'},
         ['Sheet1!C1'], ['Sheet1!A3']),
        ({'Sheet1!A1': 1, 'Sheet1!A2': '=A1*3', 'Sheet1!A3': '=A2+A1', 'Sheet1!C5': '=INDEX(A:A,3)', 'Sheet1!D5': '=C5&"|"'},
         ['Sheet1!D5'], ['Sheet1!A2', 'Sheet1!A3']),
        ({'Sheet1!A1': 4, 'Sheet1!B1': '=A1+1', 'Sheet1!C1': '=B1*2', 'Sheet1!A3': 7, 'Sheet1!B3': '=SUM(1:1)+A3'},
         ['Sheet1!B3'], ['Sheet1!B1', 'Sheet1!C1']),
        ({'Sheet1!A1': 4, 'Sheet1!B1': '=A1+1', 'Sheet1!A3': '=INDEX(1:1,2)', 'Sheet1!A4': '=A3+A3'},
         ['Sheet1!A4'], ['Sheet1!B1']),
        ({'Sheet1!A1': 2, 'Sheet1!A2': '=A1+A1', 'Data!B2': '=SUM(Sheet1!A:A)', 'Data!C2': '=B2-1'},
         ['Data!C2'], ['Sheet1!A2']),
        ({'Sheet1!A1': 1, 'Sheet1!A2': '=A1+1', 'Sheet1!B2': '=A2+1', 'Sheet1!D4': '=SUM(A:B)', 'Sheet1!E4': '=D4=6'},
         ['Sheet1!E4', 'Sheet1!D4'], ['Sheet1!A2', 'Sheet1!B2']),
    ]
    for cells, outs, targets in unb:
        base = {'oo': 'unbounded', 'cells': cells, 'const': {}, 'nostore': [], 'outs': outs, 'tree': 1,
                'unev': []}
        yield from _oo_perts(base, targets, tols)
    # --- a formula whose graph build raises, with formula precedents before / after the offending reference
    bad_refs = ['Other!A1', 'SUM(Other!A1:A2)', '[1]Sheet1!A1'] if thorough else ['Other!A1', '[1]Sheet1!A1']
    for bad in bad_refs:
        for order in ('bad-first', 'bad-last', 'bad-middle'):
            for c1 in ('=B1*2', '=B1+A1'):
                e1 = {'bad-first': f'={bad}+C1', 'bad-last': f'=C1+{bad}', 'bad-middle': f'=D1+{bad}+C1'}[order]
                cells = {'Sheet1!A1': 1, 'Sheet1!B1': 3, 'Sheet1!C1': c1, 'Sheet1!D1': '=A1+B1', 'Sheet1!E1': e1}
                for via in (False, True):
                    cs = dict(cells)
                    outs = ['Sheet1!E1']
                    if via:
                        cs['Sheet1!F1'] = '=E1+1'
                        outs = ['Sheet1!F1']
                    targets = ['Sheet1!C1'] + (['Sheet1!D1'] if order == 'bad-middle' else [])
                    base = {'oo': 'broken-build', 'cells': cs, 'const': {'Sheet1!E1': 7}, 'nostore': [],
                            'outs': outs, 'tree': 1, 'unev': ['Sheet1!E1']}
                    yield from _oo_perts(base, targets, tols if thorough else [None], kinds=('far', 'text'))
                    # the precedent behind the broken reference cannot be evaluated either (no stored result)
                    cs2 = dict(cs)
                    cs2['Sheet1!C1'] = '=FOOBARX(B1)'
                    yield {'oo': 'broken-build', 'cells': cs2, 'const': {'Sheet1!E1': 7}, 'nostore': ['Sheet1!C1'],
                           'outs': outs, 'tree': 1, 'tol': None, 'pert': None,
                           'unev': ['Sheet1!E1', 'Sheet1!C1']}


# ---------------------------------------------------------------------------------------------------------------
# sequences (oracle-only): two validate_calcs calls with the SAME output_addrs object

SEQ_FORMS = ['str', 'cell', 'list-str', 'tuple-str', 'list-cell', 'tuple-cell', 'nested', 'gen']


def _seq_arg(form, outs):
    from pycel.excelutil import AddressCell
    if form == 'str':
        return outs[0]
    if form == 'cell':
        return AddressCell(outs[0])
    if form == 'list-str':
        return list(outs)
    if form == 'tuple-str':
        return tuple(outs)
    if form == 'list-cell':
        return [AddressCell(a) for a in outs]
    if form == 'tuple-cell':
        return tuple(AddressCell(a) for a in outs)
    if form == 'nested':
        return [[a] for a in outs]
    return (a for a in outs)


def _seq_snapshot(arg):
    import copy
    return copy.deepcopy(arg) if isinstance(arg, (list, tuple)) else arg


def _seq_report(rep):
    ms = sorted(f'{a}={core.enc(m.original)}>{core.enc(m.calced)}' for a, m in rep.get('mismatch', {}).items())
    xs = sorted(e[0] for lst in rep.get('exceptions', {}).values() for e in lst)
    ns = sorted(e[0] for lst in rep.get('not-implemented', {}).values() for e in lst)
    return ';'.join([' '.join(['M'] + ms), ' '.join(['X'] + xs), ' '.join(['N'] + ns)])


def seq_impl(case):
    """call 1 on the consistent file, call 2 with the same argument object on a fresh compiler of the altered file
    ('fresh') or on the same compiler ('same'; then both calls are on the altered file); the reference run does the
    same with a freshly built argument for every call"""
    from pycel import ExcelCompiler
    import contextlib
    import io
    good = dict(oo_stored(case))
    bad = dict(good)
    bad[case['pert'][0]] = W._py(case['pert'][2])
    paths = {}
    for name, cached in (('good', good), ('bad', bad)):
        paths[name] = os.path.join(TMP, f'seq{os.getpid()}-{name}.xlsx')
        xw.write_xlsx(paths[name], case['cells'], cached)
    first = 'good' if case['second'] == 'fresh' else 'bad'

    def run(shared):
        arg = _seq_arg(case['form'], case['outs']) if shared else None
        snap = _seq_snapshot(arg)
        reps, same_arg = [], True
        comp = ExcelCompiler(filename=paths[first])
        for k in range(2):
            if k == 1 and case['second'] == 'fresh':
                comp = ExcelCompiler(filename=paths['bad'])
            if shared and case['form'] == 'gen' and k == 1:
                a = _seq_arg(case['form'], case['outs'])       # an exhausted generator is not reused
            else:
                a = arg if shared else _seq_arg(case['form'], case['outs'])
            with contextlib.redirect_stdout(io.StringIO()):
                reps.append(_seq_report(comp.validate_calcs(output_addrs=a, verify_tree=bool(case['tree']))))
            if shared and isinstance(arg, (list, tuple)) and not (type(arg) is type(snap) and arg == snap):
                same_arg = False
        return reps, same_arg

    reps, same_arg = run(True)
    refs, _ = run(False)
    return 'O|' + '|'.join([f'arg={int(same_arg)}'] + reps + refs)


def seq_oracles(r):
    case = r.case
    if not r.impl.startswith('O|arg='):
        yield case, f'validate_calcs raised: {r.impl}'
        return
    parts = r.impl[2:].split('|')
    arg_ok, r1, r2, f1, f2 = parts[0] == 'arg=1', parts[1], parts[2], parts[3], parts[4]
    what = f'output_addrs given as {case["form"]} {case["outs"]}'
    if not arg_ok:
        yield case, f'{what}: the caller\'s argument object was modified by validate_calcs'
    if r1 != f1:
        yield case, f'{what}: first report {r1} differs from the report with a freshly built argument {f1}'
    if r2 != f2:
        yield case, (f'{what}: second call with the SAME argument object reports {r2}, with a freshly built argument '
                     f'{f2} (stored {case["pert"][0]} altered to {core.show(case["pert"][2])})')
    if case['second'] == 'fresh' and (case['pert'][0] + '=') not in f2:
        yield case, f'{what}: altered {case["pert"][0]} not named even with a fresh argument: {f2}'


def seq_cases(thorough, rng):
    books = [
        ({'Sheet1!A1': 1, 'Sheet1!A2': 2, 'Sheet1!A3': '=A1+A2', 'Sheet1!B1': 5, 'Sheet1!C1': '=A3+B1',
          'Sheet1!D1': '=C1*2'}, [['Sheet1!D1'], ['Sheet1!D1', 'Sheet1!C1']], 'Sheet1!A3'),
        ({'Sheet1!A1': 3, 'Sheet1!B1': '=A1&"x"', 'Sheet1!C1': '=B1&"y"', 'Data!A1': '=Sheet1!A1+1'},
         [['Sheet1!C1', 'Data!A1'], ['Sheet1!C1', 'Data!A1', 'Sheet1!B1']], 'Sheet1!B1'),
    ]
    for cells, outss, c in (books if thorough else books[:1] + [(books[1][0], books[1][1][:1], books[1][2])]):
        for outs in outss:
            for form in SEQ_FORMS:
                for second in ('fresh', 'same'):
                    base = {'oo': 'sequence', 'cells': cells, 'const': {}, 'nostore': [], 'outs': outs, 'tree': 1,
                            'tol': None, 'unev': [], 'form': form, 'second': second}
                    old = oo_stored(base)[c]
                    v = core.enc(old + 1000) if isinstance(old, (int, float)) else core.enc_text('zz')
                    yield dict(base, pert=[c, 'far', v])


# ---------------------------------------------------------------------------------------------------------------
# histories (oracle-only): harmless public calls on the compiler BEFORE the report call.  The report on an altered file
# must be the report a fresh compiler gives for the same call:
#   sheet-twice / cells-then-sheet   validate_calcs(sheet=S) a second time, or after formula_cells(S)
#   eq-float / eq-int                set_value(input, the value it already holds, as the other numeric type) first

def hist_impl(case):
    """subject run vs reference run on two fresh compilers of the same altered file.  sheet-twice: the subject calls
    validate_calcs(sheet=S) twice, the reference validate_calcs(output_addrs=<the formula cells of S>) twice (a second
    report on one compiler legitimately differs from the first: the first call recomputed the cells).  cells-then-sheet:
    formula_cells(S) / formula_cells() before the one call.  eq-float / eq-int: both runs evaluate the outputs (set_value
    needs built cells); the subject then writes every numeric input with the value it already holds, as that type."""
    from pycel import ExcelCompiler
    import contextlib
    import io
    bad = dict(oo_stored(case))
    bad[case['pert'][0]] = W._py(case['pert'][2])
    path = os.path.join(TMP, f'hist{os.getpid()}.xlsx')
    xw.write_xlsx(path, case['cells'], bad)
    prior = case['prior']
    tree = bool(case['tree'])
    fcells = [a for a, v in case['cells'].items() if isinstance(v, str) and v.startswith('=')
              and a.startswith(case['sheet'] + '!')]
    # formula_cells(sheet) lists them row by row (the report depends on the order of the work list)
    fcells.sort(key=lambda a: (int(''.join(ch for ch in a.rpartition('!')[2] if ch.isdigit())),
                               len(a.rpartition('!')[2]), a.rpartition('!')[2]))

    def run(subject):
        comp = ExcelCompiler(filename=path)
        reps = []
        with contextlib.redirect_stdout(io.StringIO()):
            if prior == 'sheet-twice':
                for _ in range(2):
                    rep = (comp.validate_calcs(sheet=case['sheet'], verify_tree=tree) if subject else
                           comp.validate_calcs(output_addrs=list(fcells), verify_tree=tree))
                    reps.append(_seq_report(rep))
            elif prior == 'cells-then-sheet':
                if subject:
                    comp.formula_cells(case['sheet'])
                    comp.formula_cells()
                reps.append(_seq_report(comp.validate_calcs(sheet=case['sheet'], verify_tree=tree)))
            else:
                for a in case['outs']:
                    comp.evaluate(a)
                if subject:
                    for a, v in case['cells'].items():
                        if isinstance(v, bool) or not isinstance(v, (int, float)):
                            continue
                        w = float(v) if prior == 'eq-float' else int(v)
                        if w == v and a in {str(k) for k in comp.cell_map}:
                            comp.set_value(a, w)
                reps.append(_seq_report(comp.validate_calcs(output_addrs=list(case['outs']), verify_tree=tree)))
        return reps

    ref, got = run(False), run(True)
    return 'O|' + '|'.join(ref + got)


def hist_oracles(r):
    case = r.case
    if not r.impl.startswith('O|'):
        yield case, f'validate_calcs raised: {r.impl}'
        return
    parts = r.impl[2:].split('|')
    n = len(parts) // 2
    ref, got = parts[:n], parts[n:]
    what = f'{case["prior"]} (stored {case["pert"][0]} altered to {core.show(case["pert"][2])})'
    if (case['pert'][0] + '=') not in ref[0]:
        yield case, f'{what}: the reference run does not name the altered cell: {ref[0]}'
    for k, (a, b) in enumerate(zip(got, ref), start=1):
        if a != b:
            yield case, f'{what}: report of call {k} is {a}, the reference run (fresh compiler, explicit cells) reports {b}'
            break


def hist_cases(thorough):
    books = [
        ({'Sheet1!A1': 1, 'Sheet1!A2': 2, 'Sheet1!A3': '=A1+A2', 'Sheet1!B1': 5, 'Sheet1!C1': '=A3+B1',
          'Sheet1!D1': '=C1*2'}, ['Sheet1!D1'], 'Sheet1', ['Sheet1!A3', 'Sheet1!C1']),
        ({'Sheet1!A1': 3, 'Sheet1!B1': '=A1+1', 'Sheet1!C1': '=B1*2', 'Data!A1': '=Sheet1!A1+1', 'Data!B1': 2.0,
          'Data!C1': '=B1+A1'}, ['Sheet1!C1', 'Data!C1'], 'Data', ['Data!A1', 'Data!C1']),
    ]
    for cells, outs, sheet, perts in books:
        for c in (perts if thorough else perts[:1]):
            for prior in ('sheet-twice', 'cells-then-sheet', 'eq-float', 'eq-int'):
                base = {'oo': 'history', 'cells': cells, 'const': {}, 'nostore': [], 'outs': outs, 'tree': 1,
                        'tol': None, 'unev': [], 'prior': prior, 'sheet': sheet}
                old = oo_stored(base)[c]
                yield dict(base, pert=[c, 'far', core.enc(old + 1000)])

"""C13 — array (CSE) formulas: pointwise lifting and exact target shape.  DESIGN.md §7 C13.

Observation points: `eval_formula` (ExcelFormula + build_eval_context, i.e. build_operator_operand_fixup and the
excel_helper wrappers exactly as a workbook cell uses them) for operator / function lifting, and real workbooks with
openpyxl `ArrayFormula` cells through ExcelCompiler for evaluate(target range) and evaluate(member cell).

Case shapes (JSON):
  {"k":"op", "op":<PyOpName>, "L":<opnd>, "R":<opnd>, "mode":"range"|"const"}
  {"k":"fn", "fn":<name>, "args":[<opnd>…]}
  {"k":"fit", "h":h, "w":w, "res":<opnd>}                       fit_to_range in the context of an h×w target
  {"k":"wb", "h":h, "w":w, "form":{"t":"op"|"fn"|"val", …}}     array formula over the h×w target at P3
       optional "mf":true  member cells are evaluated before the target range;  "file":true  the workbook is saved as
       .xlsx and compiled from the file (ExcelOpxWrapper.load) instead of from the in-memory Workbook
<opnd> = one protocol token (scalar) or a list of rows of tokens (array).
"""
import itertools
import json
import os
import re
import tempfile

from harness import core, pyc

ID = 'C13'
LEAN_MODULE = 'Pycel.Props.C13'
NS = 'Pycel.Arrays.'
THEOREMS = [NS + t for t in (
    'C13_pointwise_op', 'C13_op_same_shape', 'C13_op_scalar_left', 'C13_op_scalar_right', 'C13_op_single_row',
    'C13_op_single_col', 'C13_op_col_row', 'C13_op_incompatible',
    'C13_pointwise_fn', 'C13_fn_scalar', 'C13_fn_binary', 'C13_fn_unequal_shapes_witness',
    'C13_fit_shape', 'C13_fit_elem', 'C13_fit_trim', 'C13_fit_scalar', 'C13_fit_single_row', 'C13_fit_single_col',
    'C13_fit_uncovered', 'C13_fit_subtarget',
    'C13_ctx_stack', 'C13_nested_fit', 'C13_member_range', 'C13_member', 'C13_member_nonblank', 'C13_members_table', 'C13_single_cell', 'C13_cse_meta')]
DESIGN_REF = 'DESIGN.md §7 C13'
RULE = ('quick: every pair of operand shapes (scalar or h×w, 1≤h,w≤4: 17² pairs, incompatible pairs included) for '
        'every binary operator + unary minus through eval_formula (elements drawn by the seeded rng from a pool of '
        'small integers, two texts, two errors, TRUE, blank; array constants instead of ranges on a subset); six '
        'cse-wrapped library functions on every shape with scalar / equal-shape / unequal-shape partners (+ further '
        'functions checked by the implementation-only oracle); fit_to_range for every result shape × target shape; real '
        'workbooks with an openpyxl ArrayFormula over every target shape ≤4×4 for every result shape (17×16, value '
        'formulas), plus operator / function formulas on sampled operand shapes, evaluating the target range and every '
        'member cell; `^` on every compatible shape pair with operands reaching every outcome class of the scalar '
        'kernel (number, #DIV/0!, overflow and complex -> #NUM!, #VALUE!, error passthrough; float results compared '
        'with rel. 1e-12 against the model, exactly against the scalar application), postfix % and unary minus on '
        'every shape; operands of magnitude around 2^31/2^53/2^63/2^64 with int/float typing mixed (exact against the '
        'scalar application); arrays mixing a value with its typed twins (7/"7"/7.0, 1/TRUE/"1", 0/FALSE/blank/""/"0") '
        'under type-sensitive functions and operators; workbooks whose operands are reached through chains of 0..3 '
        'uncomputed formula cells (also after set_value on the deepest input, also through a nested identity array '
        'formula), result shape ≠ target, members first or target first. thorough: several element drawings per shape pair and every operand-shape pair × every target in '
        'workbooks. A case is non-trivial when an array of more than one cell takes part; distinct = distinct case.')
ASSUMPTIONS = [
    'operands are scalars or rectangular 2-D arrays with 1..4 rows and columns (what ranges and array constants give)',
    'scalar operator semantics are C10\'s model (Pycel.Ops.fixupPy); the element pool avoids C10\'s known findings '
    '(text spelling TRUE/FALSE) and non-integers except quotients',
    'cse_array_wrapper picks `next(iter(set))`: modelled as the lowest-index array argument (CPython small-int set '
    'order, fewer than 8 arguments)',
    'numpy broadcasting of object arrays and openpyxl\'s ArrayFormula / worksheet.array_formulae are modelled by hand '
    'and validated only by this differential run',
]
TRUSTED = ['modelled, not verified: numpy.broadcast on object arrays, openpyxl ArrayFormula storage, '
           'CPython set iteration order of small ints']
REQUIRED_BUCKETS = ['op:scalar-scalar', 'op:scalar-array', 'op:same-shape', 'op:single-row', 'op:single-col',
                    'op:row-col', 'op:incompatible', 'fn:scalars', 'fn:array+scalar', 'fn:equal-shapes',
                    'fn:unequal-shapes', 'fn:oracle-only', 'fit', 'wb:val', 'wb:op', 'wb:fn', 'wb:1x1',
                    'op:big', 'op:twins', 'op:pow', 'op:large', 'fn:large', 'wb:large', 'wb:hostile-text', 'fn:twins', 'wb:chain0', 'wb:chain1', 'wb:chain2', 'wb:chain3',
                    'wb:chain2:set_value', 'wb:chain3:set_value']
EXHAUSTIVE = False
EXPLANATION = ('Shapes are enumerated exhaustively up to 4×4 (operands, results and targets); element values are '
               'sampled. The Lean theorems hold for all shapes and every scalar operation.')

OPS = {'Add': '+', 'Sub': '-', 'Mult': '*', 'Div': '/', 'BitAnd': '&', 'Eq': '=', 'NotEq': '<>', 'Lt': '<',
       'LtE': '<=', 'Gt': '>', 'GtE': '>=', 'USub': '-', 'Pow': '^', 'Pct': '%'}
# `x%` is compiled to `x / 100`: the model line is `op Div x 100`
# modelled functions (Drv/C13.lean scalarFn): name -> (Excel name, arity)
FNS = {'mod': ('MOD', 2), 'if_': ('IF', 3), 'isnumber': ('ISNUMBER', 1), 'sign': ('SIGN', 1), 'abs_': ('ABS', 1),
       'exact': ('EXACT', 2)}
# further lifted functions, checked by the implementation-only pointwise oracle (no scalar model here)
ORACLE_FNS = {'power': ('POWER', 2), 'round_': ('ROUND', 2), 'bitand': ('BITAND', 2), 'left': ('LEFT', 2),
              'iseven': ('ISEVEN', 1), 'n': ('N', 1), 'istext': ('ISTEXT', 1), 'int_': ('INT', 1),
              'trunc': ('TRUNC', 2), 'find': ('FIND', 2), 'match': ('MATCH', 3), 'isnontext': ('ISNONTEXT', 1),
              'islogical': ('ISLOGICAL', 1), 'isblank': ('ISBLANK', 1), 'isodd': ('ISODD', 1)}
TYPE_SENSITIVE = ['isnumber', 'istext', 'isnontext', 'islogical', 'isblank', 'n', 'if_', 'exact', 'mod', 'sign',
                  'abs_', 'iseven', 'isodd']
POOL = ['n:1/1', 'n:2/1', 'n:3/1', 'n:0/1', 'n:-1/1', 'n:7/1', 's:97', 's:66', 'e:div0', 'e:na', 'b:1', 'z']
WEIGHTS = [5, 5, 4, 3, 3, 3, 2, 1, 2, 2, 1, 2]
# (a) magnitudes around and beyond 2^31 / 2^53 / 2^63 / 2^64, all whole numbers (Python ints are exact)
BIG = ['n:4000000000/1', 'n:2147483648/1', 'n:2147483647/1', 'n:-2147483649/1', 'n:9007199254740992/1',
       'n:9007199254740993/1', 'n:4611686018427387904/1', 'n:9223372036854775807/1', 'n:-9223372036854775808/1',
       'n:9000000000000000000/1', 'n:18446744073709551616/1', 'n:3/1', 'n:-1/1', 'n:0/1']
# the same with some of them typed as Python floats (exactly representable ones; integral floats become ints again)
BIGMIX = BIG + ['nf:4000000000/1', 'nf:9007199254740992/1', 'nf:9000000000000000000/1', 'nf:3/1', 'nf:-2147483648/1']
# small numbers with dyadic fractions, ints and floats mixed (float arithmetic exact or correctly rounded)
FRAC = ['n:1/2', 'n:5/2', 'n:-1/4', 'n:3/1', 'n:2/1', 'nf:2/1', 'n:0/1', 'n:7/1', 'nf:7/1', 'n:-3/1']
# (b) a value next to its differently typed twins
TWINS = ['n:7/1', 's:55', 'n:1/1', 'b:1', 's:49', 'n:0/1', 'b:0', 'z', 's:', 's:48', 'n:5/2', 's:50,46,53',
         'nf:7/1', 's:78,111,110,101']          # … "7", "1", "0", "", "2.5", 7.0, "None"
TWINS_WB = [t for t in TWINS if t not in ('s:',)]
NOBLANK = [t for t in POOL if t != 'z']
# no size ceiling for a size-triggered code path to hide behind: large shapes and sweeps around typical thresholds
LARGE = [(1, 64), (64, 1), (8, 8), (1, 100), (100, 1), (16, 16), (3, 50)]
SWEEP = list(range(60, 71)) + list(range(250, 261))
# operands of `^` reaching every outcome class of the scalar kernel (C10): a number, ZeroDivisionError -> #DIV/0!,
# OverflowError -> #NUM!, complex -> #NUM!, non-number -> #VALUE!, error operand passed through
POW_BASE = ['n:-8/1', 'n:-1/1', 'n:0/1', 'n:2/1', 'n:4/1', 'n:21/2', 'n:1/4', 'n:7/1', 'nf:-8/1', 's:97', 'z',
            'e:div0', 'b:1', 'n:-1/4']
POW_EXP = ['n:1/2', 'n:-1/1', 'n:2/1', 'n:3/1', 'n:400/1', 'n:-1/2', 'n:0/1', 's:97', 'z', 'e:na', 'n:1/3', 'nf:2/1']
SHAPES = [None] + [(h, w) for h in range(1, 5) for w in range(1, 5)]      # None = scalar
ANCHORS = ['A', 'F', 'K']            # top-left columns of the operand blocks (rows 1..4)
TARGET_ROW, TARGET_COL = 3, 16       # P3


# ---------------------------------------------------------------------------------------------------------------
# operands

def is_arr(o):
    return isinstance(o, list)


def shape(o):
    return (len(o), len(o[0])) if is_arr(o) else None


def norm(tok):
    """protocol form of a case token: `nf:p/q` (a number handed to pycel as a Python FLOAT) is the number p/q"""
    return 'n:' + tok[3:] if tok.startswith('nf:') else tok


def proto(o):
    if is_arr(o):
        return ' '.join([f'a:{len(o)}:{len(o[0])}'] + [norm(t) for row in o for t in row])
    return norm(o)


def pyval(tok):
    if tok.startswith('nf:'):
        return float(core.dec('n:' + tok[3:]))
    v = core.dec(tok)
    from fractions import Fraction
    if isinstance(v, Fraction):
        return int(v) if v.denominator == 1 else float(v)
    return v


def pyopnd(o):
    if is_arr(o):
        return tuple(tuple(pyval(t) for t in row) for row in o)
    return pyval(o)


def draw(rng, shp, pool=None):
    if pool is None:
        pick = lambda: rng.choices(POOL, WEIGHTS)[0]     # noqa
    else:
        pick = lambda: rng.choice(pool)     # noqa
        if 'z' not in pool and shp == (1, 1):
            return [[pick()]]
    if shp is None:
        return pick()
    if shp == (1, 1):
        # a 1×1 range reference `A1:A1` is compiled as the cell `A1` (a scalar); a genuine 1×1 array only arises from
        # an array constant `{v}`, which cannot hold a blank
        while True:
            t = pick()
            if t != 'z':
                return [[t]]
    return [[pick() for _ in range(shp[1])] for _ in range(shp[0])]


def col(n):
    s = ''
    while n:
        n, r = divmod(n - 1, 26)
        s = chr(65 + r) + s
    return s


def col_idx(letters):
    n = 0
    for ch in letters:
        n = n * 26 + ord(ch) - 64
    return n


def block_ref(anchor, o):
    """A1-style reference of the block holding operand `o` whose top-left column is `anchor`"""
    if not is_arr(o):
        return f'{anchor}1'
    h, w = shape(o)
    return f'{anchor}1:{col(col_idx(anchor) + w - 1)}{h}'


def const_text(tok):
    v = pyval(tok)
    if isinstance(v, bool):
        return 'TRUE' if v else 'FALSE'
    if isinstance(v, str):
        return v if v in core.ERR_TAGS else '"' + v.replace('"', '""') + '"'
    return str(v)


def const_ok(o):
    toks = [t for row in o for t in row] if is_arr(o) else [o]
    return all(t != 'z' and not t.startswith('nf:') for t in toks)


def const_ref(o):
    if is_arr(o):
        return '{' + ';'.join(','.join(const_text(t) for t in row) for row in o) + '}'
    return const_text(o)


def operands_of(form):
    t = form['t']
    if t == 'val':
        return [form['res']]
    if t == 'op':
        return [form['R']] if form['op'] == 'USub' else [form['L']] if form['op'] == 'Pct' else [form['L'], form['R']]
    return form['args']


def anchors_for(opnds):
    """top-left columns of the operand blocks: A, F, K for operands up to 4 columns wide, further apart for wider ones;
    also returns the first free column after the blocks"""
    out, start = [], 1
    for o in opnds:
        out.append(col(start))
        start += max(shape(o)[1] if is_arr(o) else 1, 4) + 1
    return out, start


def target_col(form):
    return max(TARGET_COL, anchors_for(operands_of(form))[1] + 1)


def formula_of(form, mode='range'):
    """(formula text, cells, ranges) for eval_formula; operands sit in the blocks at A1, F1, K1"""
    t = form['t']
    if t == 'val':
        opnds = [form['res']]
    elif t == 'op':
        opnds = [form['R']] if form['op'] == 'USub' else [form['L']] if form['op'] == 'Pct' else \
            [form['L'], form['R']]
    else:
        opnds = form['args']
    cells, ranges, refs = {}, {}, []
    for anchor, o in zip(anchors_for(opnds)[0], opnds):
        if mode == 'const' or (is_arr(o) and shape(o) == (1, 1)):
            refs.append(const_ref(o))
            continue
        ref = block_ref(anchor, o)
        refs.append(ref)
        if is_arr(o):
            ranges[ref] = pyopnd(o)
            for i, row in enumerate(o):
                for j, tok in enumerate(row):
                    cells[f'{col(col_idx(anchor) + j)}{i + 1}'] = pyval(tok)
        else:
            cells[ref] = pyval(o)
    if t == 'op' and form.get('rlit') and len(refs) == 2:
        # the right operand is written INTO the formula text: a text literal, or a number as a percentage
        v = pyval(form['R'])
        refs[1] = ('%g%%' % (v * 100)) if form['rlit'] == 'pct' else const_text(form['R'])
        cells.pop(block_ref(anchors_for(opnds)[0][1], form['R']), None)
    if t == 'val':
        f = '=' + refs[0]
    elif t == 'op':
        f = ('=-' + refs[0]) if form['op'] == 'USub' else f'={refs[0]}%' if form['op'] == 'Pct' else \
            f'={refs[0]}{OPS[form["op"]]}{refs[1]}'
    else:
        name = (FNS.get(form['fn']) or ORACLE_FNS[form['fn']])[0]
        f = f'={name}({",".join(refs)})'
    return f, cells, ranges


def eval_form(form, mode='range'):
    """raw value of the formula through eval_formula (python value), or '!raise'"""
    from pycel.excelformula import FormulaEvalError
    f, cells, ranges = formula_of(form, mode)
    try:
        return pyc.eval_formula(f, cells, ranges)
    except FormulaEvalError:
        return '!raise'


# ---------------------------------------------------------------------------------------------------------------
# cases

def bdim(m, n):
    return m if m == n else n if m == 1 else m if n == 1 else None


def bshape(sa, sb):
    a, b = sa or (1, 1), sb or (1, 1)
    h, w = bdim(a[0], b[0]), bdim(a[1], b[1])
    return None if h is None or w is None else (h, w)


def cases(tier, rng):
    thorough = tier == 'thorough'
    reps = 4 if thorough else 1
    binops = [o for o in OPS if o not in ('USub', 'Pct', 'Pow')]     # `^` has its own operand pools below
    # --- operators: every shape pair x every operator
    for rep in range(reps):
        for sa, sb in itertools.product(SHAPES, SHAPES):
            compatible = bshape(sa, sb) is not None
            # incompatible pairs raise whatever the operator: two operators each; compatible pairs: all operators,
            # two element drawings each
            for op in (binops if compatible else rng.sample(binops, 2)):
                for _ in range(2 if compatible else 1):
                    L, R = draw(rng, sa), draw(rng, sb)
                    yield {'k': 'op', 'op': op, 'L': L, 'R': R, 'mode': 'range'}
            # the same pair once with array constants (no blank elements there)
            L, R = draw(rng, sa), draw(rng, sb)
            if const_ok(L) and const_ok(R):
                yield {'k': 'op', 'op': rng.choice(binops), 'L': L, 'R': R, 'mode': 'const'}
        for sb in SHAPES:
            yield {'k': 'op', 'op': 'USub', 'L': 'z', 'R': draw(rng, sb), 'mode': 'range'}
            yield {'k': 'op', 'op': 'Pct', 'L': draw(rng, sb), 'R': 'n:100/1', 'mode': 'range'}
        # `^`: every compatible shape pair, operands reaching every outcome class of the scalar kernel
        for sa, sb in itertools.product(SHAPES, SHAPES):
            if bshape(sa, sb) is not None:
                for _ in range(2):
                    yield {'k': 'op', 'op': 'Pow', 'L': draw(rng, sa, POW_BASE), 'R': draw(rng, sb, POW_EXP),
                           'mode': 'range', 'pool': 'pow'}
        # each outcome class next to each other in one array, for `^`, `/`, unary minus and `%`
        yield {'k': 'op', 'op': 'Pow', 'L': [['n:-8/1', 'n:0/1', 'n:21/2', 'n:4/1', 's:97', 'e:div0', 'z']],
               'R': [['n:1/2', 'n:-1/1', 'n:400/1', 'n:1/2', 'n:2/1', 'n:2/1', 'n:-1/2']], 'mode': 'range', 'pool': 'pow'}
        yield {'k': 'op', 'op': 'Pow', 'L': [['n:-8/1', 'n:4/1', 'n:-1/4']], 'R': 'n:1/2', 'mode': 'range', 'pool': 'pow'}
        yield {'k': 'op', 'op': 'Pow', 'L': 'n:-8/1', 'R': [['n:1/2'], ['n:2/1'], ['n:1/3']], 'mode': 'range',
               'pool': 'pow'}
        yield {'k': 'op', 'op': 'Pow', 'L': [['n:-8/1', 'n:4/1']], 'R': [['n:1/2', 'n:1/2']], 'mode': 'const',
               'pool': 'pow'}
        yield {'k': 'op', 'op': 'Div', 'L': [['n:1/1', 'n:0/1', 's:97', 'e:na', 'z', 'b:1']],
               'R': [['n:0/1', 'n:0/1', 'n:2/1', 'n:0/1', 'z', 'n:4/1']], 'mode': 'range'}
        yield {'k': 'op', 'op': 'USub', 'L': 'z', 'R': [['n:1/2', 's:97', 'e:na', 'z', 'b:1', 's:55']], 'mode': 'range'}
        yield {'k': 'op', 'op': 'Pct', 'L': [['n:7/1', 's:97', 'e:na', 'z', 'b:1', 's:55']], 'R': 'n:100/1',
               'mode': 'range'}
        for (h, w) in [(1, 3), (2, 2), (3, 1), (4, 4), (2, 3)]:
            yield {'k': 'wb', 'h': h, 'w': w, 'form': {'t': 'op', 'op': 'Pow', 'L': draw(rng, (1, 3), POW_BASE),
                                                       'R': draw(rng, rng.choice([None, (1, 3)]), POW_EXP)}}
    # scalar error operands against arrays holding errors (the order of the error checks matters)
    for e in ('e:na', 'e:div0'):
        for arr in ([['e:div0', 'n:1/1']], [['n:1/1'], ['e:na']], [['n:1/1', 'n:2/1'], ['n:3/1', 'e:value']]):
            for op in ('Add', 'Eq', 'BitAnd'):
                yield {'k': 'op', 'op': op, 'L': arr, 'R': e, 'mode': 'range'}
                yield {'k': 'op', 'op': op, 'L': e, 'R': arr, 'mode': 'range'}
    # empty results: a scalar is displayed as 0 (eval_func), an array element stays empty
    yield {'k': 'fn', 'fn': 'if_', 'args': ['n:1/1', 'z', 's:97']}
    yield {'k': 'fn', 'fn': 'if_', 'args': ['n:0/1', 's:97', 'z']}
    yield {'k': 'fn', 'fn': 'if_', 'args': [[['n:1/1', 'n:0/1']], 'z', 's:97']}
    yield {'k': 'wb', 'h': 2, 'w': 2, 'form': {'t': 'fn', 'fn': 'if_', 'args': [[['n:1/1', 'n:0/1']], 'z', 's:97']}}
    yield {'k': 'wb', 'h': 1, 'w': 1, 'form': {'t': 'fn', 'fn': 'if_', 'args': ['n:1/1', 'z', 's:97']}}
    yield {'k': 'wb', 'h': 1, 'w': 1, 'form': {'t': 'val', 'res': [['z', 'n:1/1']]}}
    yield {'k': 'wb', 'h': 1, 'w': 1, 'form': {'t': 'val', 'res': 'z'}}
    # --- functions
    for _ in range(reps):
        for name, (_, arity) in FNS.items():
            for sa in SHAPES:
                if arity == 1:
                    yield {'k': 'fn', 'fn': name, 'args': [draw(rng, sa)]}
                    continue
                partners = [None, sa] if sa else [None]
                for sp in partners:                      # scalar partner, equally shaped partner
                    args = [draw(rng, sa)] + [draw(rng, sp) for _ in range(arity - 1)]
                    yield {'k': 'fn', 'fn': name, 'args': args}
                    if sp is not None or sa is None:
                        rot = args[1:] + args[:1]        # the array in another position
                        yield {'k': 'fn', 'fn': name, 'args': rot}
                if arity == 3 and sa:
                    yield {'k': 'fn', 'fn': name, 'args': [draw(rng, None), draw(rng, sa), draw(rng, sa)]}
                    yield {'k': 'fn', 'fn': name, 'args': [draw(rng, sa), draw(rng, None), draw(rng, sa)]}
            # unequal shapes (outside the statement): first array argument gives the shape
            for sa, sb in [((1, 1), (1, 2)), ((1, 2), (1, 1)), ((2, 2), (3, 3)), ((3, 3), (2, 2)), ((2, 3), (3, 2)),
                           ((1, 3), (3, 1)), ((4, 1), (4, 2)), ((2, 1), (2, 4))]:
                if arity >= 2:
                    args = [draw(rng, sa), draw(rng, sb)] + [draw(rng, None) for _ in range(arity - 2)]
                    yield {'k': 'fn', 'fn': name, 'args': args}
        for name, (_, arity) in ORACLE_FNS.items():
            if name == 'match':
                continue            # needs a lookup table argument: generated below
            for sa in SHAPES[1:] if thorough else [(1, 1), (1, 3), (2, 2), (3, 1), (4, 4), (2, 3)]:
                args = [draw(rng, sa)] + [rng.choice(['n:1/1', 'n:2/1', 'n:0/1']) for _ in range(arity - 1)]
                yield {'k': 'fn', 'fn': name, 'args': args}
                if arity == 2:
                    yield {'k': 'fn', 'fn': name, 'args': [draw(rng, sa), draw(rng, sa)]}
        # (a) big magnitudes and mixed int/float typing: exact against Python's own scalar arithmetic
        compat = [(sa, sb) for sa, sb in itertools.product(SHAPES, SHAPES)
                  if bshape(sa, sb) is not None and (sa or sb)]
        for sa, sb in (compat if thorough else rng.sample(compat, 60) + [((4, 1), (4, 1)), ((1, 2), None),
                                                                         (None, (2, 2)), ((2, 2), (2, 2))]):
            for op in ('Add', 'Sub', 'Mult', rng.choice(['Div', 'Eq', 'Lt', 'GtE', 'BitAnd'])):
                pool = rng.choice([BIG, BIG, BIGMIX, FRAC])
                yield {'k': 'op', 'op': op, 'L': draw(rng, sa, pool), 'R': draw(rng, sb, pool), 'mode': 'range',
                       'pool': 'big'}
        # (b) typed twins under type-sensitive lifted functions and operators; repeated elements
        for name in TYPE_SENSITIVE:
            arity = (FNS.get(name) or ORACLE_FNS[name])[1]
            for sa in [(1, 4), (2, 2), (4, 4), (3, 1), (4, 3)]:
                args = [draw(rng, sa, TWINS)] + [draw(rng, rng.choice([None, sa]), TWINS) for _ in range(arity - 1)]
                yield {'k': 'fn', 'fn': name, 'args': args, 'pool': 'twins'}
            # every twin once in a single row, in both orders (a cache keyed on == or str() meets them in turn)
            row = [list(TWINS)[:4], list(TWINS)[4:8], list(TWINS)[8:12]]
            for arr in (row, [r[::-1] for r in row][::-1]):
                args = [arr] + [rng.choice(['n:1/1', 'n:2/1']) for _ in range(arity - 1)]
                yield {'k': 'fn', 'fn': name, 'args': args, 'pool': 'twins'}
        for sa, sb in rng.sample(compat, 40):
            yield {'k': 'op', 'op': rng.choice(['Eq', 'NotEq', 'Lt', 'GtE', 'Add', 'Mult', 'BitAnd']),
                   'L': draw(rng, sa, TWINS), 'R': draw(rng, sb, TWINS), 'mode': 'range', 'pool': 'twins'}
        table = [['n:1/1'], ['n:2/1'], ['n:3/1'], ['s:97']]
        for sa in SHAPES:
            yield {'k': 'fn', 'fn': 'match', 'args': [draw(rng, sa), table, 'n:0/1']}
    # --- fit_to_range: every result shape x target shape
    for _ in range(reps):
        for sr in SHAPES:
            for (h, w) in SHAPES[1:]:
                yield {'k': 'fit', 'h': h, 'w': w, 'res': draw(rng, sr)}
    # --- workbooks: every result shape x every target shape with a value formula
    n = 0
    for sr in SHAPES:
        for (h, w) in SHAPES[1:]:
            n += 1
            c = {'k': 'wb', 'h': h, 'w': w, 'form': {'t': 'val', 'res': draw(rng, sr)}}
            if n % 2:
                c['mf'] = True          # evaluate the member cells before the target range
            if n % (3 if thorough else 7) == 0:
                c['file'] = True        # save as .xlsx and load from the file
            yield c
    # operator formulas in workbooks
    pairs = list(itertools.product(SHAPES, SHAPES))
    for (h, w) in SHAPES[1:]:
        chosen = pairs if thorough else rng.sample(pairs, 24) + [((2, 2), (1, 3)), (None, (h, w)), ((h, 1), (1, w))]
        for sa, sb in chosen:
            c = {'k': 'wb', 'h': h, 'w': w,
                 'form': {'t': 'op', 'op': rng.choice(binops), 'L': draw(rng, sa), 'R': draw(rng, sb)}}
            if rng.random() < 0.5:
                c['mf'] = True
            if rng.random() < (0.05 if thorough else 0.1):
                c['file'] = True
            yield c
        yield {'k': 'wb', 'h': h, 'w': w, 'form': {'t': 'op', 'op': 'USub', 'L': 'z', 'R': draw(rng, (h, w))}}
        for name, (_, arity) in FNS.items():
            for sa in ([(h, w), (1, w), (h, 1), (4, 4)] if not thorough else SHAPES[1:]):
                args = [draw(rng, sa)] + [draw(rng, rng.choice([None, sa])) for _ in range(arity - 1)]
                yield {'k': 'wb', 'h': h, 'w': w, 'form': {'t': 'fn', 'fn': name, 'args': args}}

    # (d) LARGE shapes with typed-twin-rich element sequences (==-equal values of different type at many positions)
    sweep = [((1, n) if n % 2 else (n, 1)) for n in SWEEP]
    big_fns = ['isnumber', 'islogical', 'istext', 'n', 'if_', 'exact', 'mod', 'isblank', 'isnontext']
    for shp in LARGE + sweep:
        swept = shp in sweep
        for name in (big_fns if not swept or thorough else ['isnumber', 'islogical', 'n', 'exact']):
            arity = (FNS.get(name) or ORACLE_FNS[name])[1]
            args = [draw(rng, shp, TWINS)] + [draw(rng, rng.choice([None, shp]), TWINS) for _ in range(arity - 1)]
            yield {'k': 'fn', 'fn': name, 'args': args, 'pool': 'large'}
        for op in (['Add', 'Eq', 'BitAnd', 'Mult', 'Lt'] if not swept or thorough else ['Eq', 'Add']):
            yield {'k': 'op', 'op': op, 'L': draw(rng, shp, TWINS), 'R': draw(rng, rng.choice([None, shp]), TWINS),
                   'mode': 'range', 'pool': 'large'}
        yield {'k': 'op', 'op': 'Mult', 'L': draw(rng, shp, BIG), 'R': draw(rng, shp, BIG), 'mode': 'range',
               'pool': 'large'}
        yield {'k': 'fit', 'h': 3, 'w': 5, 'res': draw(rng, shp, TWINS)}
        yield {'k': 'fit', 'h': shp[0] + 1, 'w': shp[1] + 1, 'res': draw(rng, rng.choice([None, (1, shp[1]), (shp[0], 1)]),
                                                                          TWINS)}
    yield {'k': 'op', 'op': 'Eq', 'L': draw(rng, (64, 1), TWINS), 'R': draw(rng, (1, 64), TWINS), 'mode': 'range',
           'pool': 'large'}
    # … and through real ArrayFormula workbooks: target = the large range, and a smaller target so that trim applies
    for shp in LARGE + [(1, 65), (63, 1), (256, 1), (1, 257)]:
        for (h, w) in (shp, (max(1, shp[0] // 2), max(1, shp[1] - 1))):
            name = rng.choice(['isnumber', 'islogical', 'n', 'exact'])
            arity = FNS.get(name, ORACLE_FNS.get(name))[1]
            if name in FNS:
                yield {'k': 'wb', 'h': h, 'w': w, 'large': True, 'form': {
                    't': 'fn', 'fn': name,
                    'args': [draw(rng, shp, TWINS_WB)] + [draw(rng, shp, TWINS_WB) for _ in range(arity - 1)]}}
            yield {'k': 'wb', 'h': h, 'w': w, 'large': True, 'mf': bool(rng.random() < 0.5), 'form': {
                't': 'op', 'op': rng.choice(['Eq', 'Add', 'BitAnd']), 'L': draw(rng, shp, TWINS_WB),
                'R': draw(rng, rng.choice([None, shp]), TWINS_WB)}}
            yield {'k': 'wb', 'h': h, 'w': w, 'large': True, 'form': {
                't': 'fn', 'fn': 'isnumber', 'args': [draw(rng, shp, TWINS_WB)]}}
    # (e) hostile FORMULA TEXT in array formulas: percent operator, and text literals holding percent signs, format
    # directives, braces, doubled quotes, backslashes, separators, very long text — single-cell and multi-cell
    # targets, target first / members first, in memory and through a file
    texts = ['%', '50%', '%s', '%d', '%(x)s', '%%', '100%s%d', '{}', '{0}', '{a', 'b}', '={1,2}', 'a"b', '""', "it's",
             'a\\b', '\\n', 'x,y', 'p;q', 'CSE_INDEX(1,1,1,1)', ',1,1,3,3)', 'é%ü', 'x' * 300, ('%s{}"' * 60)]
    n = 0
    for txt in texts:
        lit = core.enc_text(txt)
        for (h, w), shp in (((1, 1), (1, 3)), ((1, 3), (1, 3)), ((3, 2), (3, 1)), ((2, 2), None)):
            n += 1
            c = {'k': 'wb', 'h': h, 'w': w, 'hostile': True,
                 'form': {'t': 'op', 'op': rng.choice(['BitAnd', 'BitAnd', 'Eq', 'Lt']), 'L': draw(rng, shp or (2, 2), NOBLANK)
                          if shp else draw(rng, None, NOBLANK), 'R': lit, 'rlit': 'text'}}
            if n % 2:
                c['mf'] = True
            if n % 5 == 0:
                c['file'] = True
            yield c
        yield {'k': 'op', 'op': 'BitAnd', 'L': draw(rng, (2, 2), NOBLANK), 'R': lit, 'rlit': 'text', 'mode': 'range'}
    for (h, w), shp in (((1, 1), (1, 3)), ((1, 3), (1, 3)), ((3, 2), (3, 1)), ((4, 4), (2, 2)), ((2, 3), (1, 1))):
        for pct, op in (('n:1/2', 'Mult'), ('n:1/4', 'Add'), ('n:2/1', 'Div'), ('n:1/1', 'Eq')):
            yield {'k': 'wb', 'h': h, 'w': w, 'hostile': True, 'mf': bool(rng.random() < 0.5),
                   'form': {'t': 'op', 'op': op, 'L': draw(rng, shp, NOBLANK), 'R': pct, 'rlit': 'pct'}}
        yield {'k': 'wb', 'h': h, 'w': w, 'hostile': True, 'form': {'t': 'op', 'op': 'Pct', 'L': draw(rng, shp, NOBLANK),
                                                                    'R': 'n:100/1'}}
        yield {'k': 'wb', 'h': h, 'w': w, 'hostile': True, 'file': True,
               'form': {'t': 'op', 'op': 'Pct', 'L': draw(rng, shp, NOBLANK), 'R': 'n:100/1'}}
    # (c) nested evaluation contexts: the operands are reached through chains of 0..3 uncomputed formula cells
    # (in-memory workbook, no stored values), optionally after set_value on the deepest input, optionally with an
    # operand block that is itself the target of an (identity) array formula; result shape ≠ target shape
    for _ in range(reps):
        for (h, w) in SHAPES[1:]:
            for d in range(4):
                others = [sh for sh in SHAPES if sh != (h, w)]
                forms = [{'t': 'val', 'res': draw(rng, rng.choice(others), NOBLANK)}]
                sa, sb = rng.choice([p for p in compat if bshape(*p) != (h, w)])
                forms.append({'t': 'op', 'op': rng.choice(binops), 'L': draw(rng, sa, NOBLANK),
                              'R': draw(rng, sb, NOBLANK)})
                name = rng.choice(list(FNS))
                sa = rng.choice(others[1:])
                forms.append({'t': 'fn', 'fn': name,
                              'args': [draw(rng, sa, NOBLANK)] + [draw(rng, rng.choice([None, sa]), NOBLANK)
                                                                  for _ in range(FNS[name][1] - 1)]})
                forms.append({'t': 'op', 'op': rng.choice(['Add', 'Mult']), 'L': draw(rng, rng.choice(others[1:]), BIG),
                              'R': draw(rng, None, BIG)})
                forms.append({'t': 'fn', 'fn': rng.choice(['isnumber', 'if_', 'exact']),
                              'args': [draw(rng, rng.choice(others[1:]), TWINS_WB), 'n:1/1', 's:55']})
                for form in forms:
                    if form['t'] == 'fn':
                        form['args'] = form['args'][:FNS[form['fn']][1]]
                    c = {'k': 'wb', 'h': h, 'w': w, 'form': form, 'chain': d}
                    if rng.random() < 0.5:
                        c['mf'] = True
                    if rng.random() < 0.4:
                        c['setv'] = True
                    if d and rng.random() < 0.3:
                        c['cseop'] = True
                    if form['t'] == 'fn' and 'z' in json.dumps(form) and d:
                        continue            # a blank reached through a reference formula is 0, not blank
                    yield c


# ---------------------------------------------------------------------------------------------------------------
# implementation

def enc_value(v):
    if v == '!raise':
        return v
    return core.enc(v)


def target_addr(h, w, tc=TARGET_COL):
    a = f'{col(tc)}{TARGET_ROW}'
    if h == 1 and w == 1:
        return a
    return f'{a}:{col(tc + w - 1)}{TARGET_ROW + h - 1}'


def run_workbook(c):
    """-> (target rows as tuple of tuples, member rows) or '!raise'"""
    import openpyxl
    from openpyxl.worksheet.formula import ArrayFormula
    from pycel import ExcelCompiler
    from pycel.excelformula import FormulaEvalError
    h, w = c['h'], c['w']
    tc = target_col(c['form'])
    f, cells, _ranges = formula_of(c['form'])
    wb = openpyxl.Workbook()
    ws = wb.active
    ws.title = 'Sheet1'
    d = c.get('chain', 0)
    hop = lambda a, k: re.sub(r'^[A-Z]+', lambda m: col(col_idx(m.group(0)) + 30 * k), a)     # noqa
    deep = {}
    for a, v in cells.items():
        for k in range(d):
            ws[hop(a, k)] = '=' + hop(a, k + 1)
        ws[hop(a, d)] = v
        deep[a] = hop(a, d)
    if c.get('cseop') and d:
        # first-level operand blocks become targets of identity array formulas over the next level
        for ref in _ranges:
            if ':' in ref:
                a0, a1 = ref.split(':')
                ws[a0] = ArrayFormula(ref, f'={hop(a0, 1)}:{hop(a1, 1)}')
    changed = None
    if c.get('setv') and cells:
        changed = sorted(cells)[0]
        ws[deep[changed]] = 99          # the value before set_value
    top = f'{col(tc)}{TARGET_ROW}'
    ws[top] = ArrayFormula(target_addr(h, w, tc), f)
    if c.get('file'):
        # through a real .xlsx: openpyxl writes the array formula, ExcelOpxWrapper.load reads it back
        fd, path = tempfile.mkstemp(suffix='.xlsx', prefix='c13-')
        os.close(fd)
        try:
            wb.save(path)
            comp = ExcelCompiler(filename=path)
        finally:
            os.unlink(path)
    else:
        comp = ExcelCompiler(excel=wb)

    def members():
        return tuple(tuple(comp.evaluate(f'Sheet1!{col(tc + j)}{TARGET_ROW + i}') for j in range(w))
                     for i in range(h))
    try:
        if changed is not None:
            # everything computed once with the old input, then the deep input changes
            comp.evaluate('Sheet1!' + target_addr(h, w, tc))
            members()
            comp.set_value('Sheet1!' + deep[changed], cells[changed])
        if c.get('mf'):                 # member cells first, then the target range
            mem = members()
            res = comp.evaluate('Sheet1!' + target_addr(h, w, tc))
        else:
            res = comp.evaluate('Sheet1!' + target_addr(h, w, tc))
            mem = members()
    except FormulaEvalError:
        return '!raise'
    # evaluate() trims excess dimensions: restore the h×w layout
    if h == 1 and w == 1:
        rows = ((res,),)
    elif w == 1:
        rows = tuple((x,) for x in res)
    elif h == 1:
        rows = (tuple(res),)
    else:
        rows = res
    return rows, mem


def impl(c):
    k = c['k']
    if k == 'op':
        return enc_value(eval_form({'t': 'op', **c}, c.get('mode', 'range')))
    if k == 'fn':
        return enc_value(eval_form({'t': 'fn', **c}))
    if k == 'fit':
        from pycel.excelutil import AddressRange, in_array_formula_context
        with in_array_formula_context(AddressRange('Sheet1!' + target_addr(c['h'], c['w']))):
            return core.enc(in_array_formula_context.fit_to_range(pyopnd(c['res'])))
    if k == 'wb':
        out = run_workbook(c)
        if out == '!raise':
            return out
        return core.enc(out[0]) + ' ; ' + core.enc(out[1])
    raise ValueError(k)


def form_line(form):
    if form['t'] == 'op':
        if form['op'] == 'Pct':
            return f"op Div {proto(form['L'])} n:100/1"
        return f"op {form['op']} {proto(form['L'])} {proto(form['R'])}"
    if form['t'] == 'fn':
        return f"fn {form['fn']} " + ' '.join(proto(a) for a in form['args'])
    return f"val {proto(form['res'])}"


def model_lines(c):
    k = c['k']
    if k == 'op':
        return ['c13 ' + form_line({'t': 'op', **c})]
    if k == 'fn':
        return ['c13 ' + form_line({'t': 'fn', **c})]
    if k == 'fit':
        return [f"c13 fit {c['h']} {c['w']} {proto(c['res'])}"]
    if 'chain' in c:
        return [f"c13 wbc {c['chain']} {TARGET_ROW} {target_col(c['form'])} {c['h']} {c['w']} {form_line(c['form'])}"]
    return [f"c13 wb {TARGET_ROW} {target_col(c['form'])} {c['h']} {c['w']} {form_line(c['form'])}"]


def same(impl_out, model_out):
    if model_out == '!unmodelled':          # oracle-only functions
        return True
    if '~' not in model_out:
        return impl_out == model_out
    # `~n:p/q`: a float result of `^` that C10's kernel model only approximates (C pow is not correctly rounded)
    a, b = impl_out.split(' '), model_out.split(' ')
    return len(a) == len(b) and all(
        x == y or (y.startswith('~') and (x == y[1:] or core.num_close(x, y[1:]))) for x, y in zip(a, b))


# ---------------------------------------------------------------------------------------------------------------
# classification

def form_of(c):
    if c['k'] == 'wb':
        return c['form']
    if c['k'] in ('op', 'fn'):
        return {'t': c['k'], **c}
    return {'t': 'val', 'res': c['res']}


def cse_positions(name):
    from harness.tablegen.c13 import cse_indices, find
    return cse_indices(find(name))


def fn_class(form):
    cse = cse_positions(form['fn'])
    shapes = [shape(a) for i, a in enumerate(form['args']) if i in cse and is_arr(a)]
    if not shapes:
        return 'scalars'
    if len(set(shapes)) > 1:
        return 'unequal-shapes'
    return 'equal-shapes' if len(shapes) > 1 else 'array+scalar'


def op_class(form):
    sa, sb = shape(form['L']), shape(form['R'])
    if form['op'] == 'USub':
        sa = None
    if sa is None and sb is None:
        return 'scalar-scalar'
    if bshape(sa, sb) is None:
        return 'incompatible'
    if sa is None or sb is None:
        return 'scalar-array'
    if sa == sb:
        return 'same-shape'
    (ha, wa), (hb, wb_) = sa, sb
    if ha == hb:
        return 'single-col'         # widths differ, one of them is 1
    if wa == wb_:
        return 'single-row'
    return 'row-col'                # both dimensions broadcast (row against column, or a 1×1 array)


def governed(c):
    """the statement fixes the outcome whenever shapes are compatible (operators) / equal (functions); raising on
    incompatible or unequal shapes is outside it (the model follows the code there)"""
    form = form_of(c)
    if form['t'] == 'op':
        return op_class(form) != 'incompatible'
    if form['t'] == 'fn':
        return fn_class(form) != 'unequal-shapes'
    return True


def bucket(c):
    form = form_of(c)
    if c['k'] == 'wb':
        if c.get('hostile'):
            return 'wb:hostile-text'
        if c.get('large'):
            return 'wb:large'
        if 'chain' in c:
            return f"wb:chain{c['chain']}" + (':set_value' if c.get('setv') else '')
        if c['h'] == 1 and c['w'] == 1:
            return 'wb:1x1'
        return 'wb:' + form['t']
    if c.get('pool'):
        return f"{c['k']}:{c['pool']}"
    if c['k'] == 'fit':
        return 'fit'
    if c['k'] == 'op':
        return 'op:' + op_class(form)
    if c['fn'] in ORACLE_FNS:
        return 'fn:oracle-only'
    return 'fn:' + fn_class(form)


def nontrivial(c):
    form = form_of(c)
    opnds = [form.get('L'), form.get('R')] if form['t'] == 'op' else form.get('args') or [form.get('res')]
    big = any(is_arr(o) and len(o) * len(o[0]) > 1 for o in opnds if o is not None)
    return big or (c['k'] in ('fit', 'wb') and c['h'] * c['w'] > 1)


def finding_key(c, impl_out, model_out):
    return None


# ---------------------------------------------------------------------------------------------------------------
# oracles: the property restated over implementation outputs only

_SCALAR_CACHE = {}


def scalar_apply(form, toks):
    """the scalar application the statement refers to: the same operator / function on scalar operands, through the
    same public path (eval_formula with cell references)"""
    key = (form['t'], form.get('op') or form.get('fn'), json.dumps(toks))
    if key not in _SCALAR_CACHE:
        if form['t'] == 'op':
            sform = {'t': 'op', 'op': form['op'], 'L': toks[0], 'R': toks[1]}
        else:
            sform = {'t': 'fn', 'fn': form['fn'], 'args': list(toks)}
        _SCALAR_CACHE[key] = enc_value(eval_form(sform))
    return _SCALAR_CACHE[key]


def elem(o, i, j):
    """broadcast element of an operand at (i, j)"""
    if not is_arr(o):
        return o
    h, w = shape(o)
    return o[0 if h == 1 else i][0 if w == 1 else j]


def parse_arr(text):
    """'a:h:w t…' -> (h, w, rows of tokens); a scalar token -> None"""
    toks = text.split(' ')
    if not toks[0].startswith('a:'):
        return None
    _, h, w = toks[0].split(':')
    h, w = int(h), int(w)
    vals = toks[1:]
    if len(vals) != h * w:
        return None
    return h, w, [vals[i * w:(i + 1) * w] for i in range(h)]


def expected_raw(form):
    """(h, w, rows) the statement demands for the raw value of an operator / function formula, computed from the
    implementation's own scalar applications; None when the statement does not speak"""
    if form['t'] == 'op':
        L, R = form['L'], form['R']
        if form['op'] == 'USub':
            L = 'z'
        if not is_arr(L) and not is_arr(R):
            return None
        bs = bshape(shape(L), shape(R))
        if bs is None:
            return None
        return bs[0], bs[1], [[scalar_apply(form, (elem(L, i, j), elem(R, i, j))) for j in range(bs[1])]
                              for i in range(bs[0])]
    if form['t'] == 'fn':
        cls = fn_class(form)
        if cls in ('scalars', 'unequal-shapes'):
            return None
        cse = cse_positions(form['fn'])
        shp = next(shape(a) for i, a in enumerate(form['args']) if i in cse and is_arr(a))
        # arrays at non-cse positions are handed to every scalar application whole
        return shp[0], shp[1], [[scalar_apply(form, tuple(a[i][j] if (is_arr(a) and k in cse) else a
                                                          for k, a in enumerate(form['args'])))
                                 for j in range(shp[1])] for i in range(shp[0])]
    return None


def fit_expect(raw, h, w):
    """the statement's target value from a raw value (h0, w0, rows): trim / repeat / #N/A"""
    rh, rw, rows = raw
    out = []
    for i in range(h):
        row = []
        for j in range(w):
            ii = 0 if rh == 1 else i
            jj = 0 if rw == 1 else j
            row.append(rows[ii][jj] if ii < rh and jj < rw else 'e:na')
        out.append(row)
    return out


def oracles(results):
    for r in results:
        c = r.case
        form = form_of(c)
        out = r.impl
        if out.startswith('!exc') or '!type' in out or '!nan' in out or '!inf' in out:
            yield c, f'evaluation failed or produced a non-Excel value: {out}'
            continue
        if c['k'] in ('op', 'fn'):
            exp = expected_raw(form)
            if exp is None:
                continue
            got = parse_arr(out)
            if any(t == '!raise' for row in exp[2] for t in row):
                continue            # the scalar application itself raises: the statement says nothing
            if out == '!raise':
                yield c, 'array operation raised although every scalar application yields a value'
                continue
            if got is None:
                # a scalar stands for itself at every position only if the statement's values are all that scalar
                if any(t != out for row in exp[2] for t in row):
                    yield c, (f'array operation returned the scalar {core.show(out)}; pointwise the scalar '
                              f'application gives {[[core.show(t) for t in row] for row in exp[2]]}')
                else:
                    yield c, f'array operation returned the scalar {core.show(out)} instead of a {exp[0]}×{exp[1]} array'
                continue
            if (got[0], got[1]) != (exp[0], exp[1]):
                yield c, f'result shape {got[0]}×{got[1]}, broadcast shape {exp[0]}×{exp[1]}'
                continue
            for i in range(exp[0]):
                for j in range(exp[1]):
                    # eval_formula shows an empty scalar result as 0 (eval_func); inside an array it stays empty
                    if got[2][i][j] != exp[2][i][j] and not (got[2][i][j] == 'z' and exp[2][i][j] == 'n:0/1'):
                        yield c, (f'position ({i},{j}): array result {core.show(got[2][i][j])}, scalar application '
                                  f'gives {core.show(exp[2][i][j])}')
                        break
                else:
                    continue
                break
        elif c['k'] in ('fit', 'wb'):
            h, w = c['h'], c['w']
            if out == '!raise':
                if governed(c):
                    yield c, 'array formula raised on compatible operands'
                continue
            parts = out.split(' ; ')
            tgt = parse_arr(parts[0])
            if tgt is None or (tgt[0], tgt[1]) != (h, w):
                yield c, f'target value is not {h}×{w}: {parts[0][:60]}'
                continue
            # the raw value the statement talks about
            if form['t'] == 'val':
                res = form['res']
                raw = (len(res), len(res[0]), [[norm(t) for t in row] for row in res]) if is_arr(res) \
                    else (1, 1, [[norm(res)]])
            else:
                raw = expected_raw(form)
                if raw is None:
                    v = enc_value(eval_form(form))
                    if v == '!raise':
                        continue
                    raw = parse_arr(v) or (1, 1, [[v]])
            exp = fit_expect(raw, h, w)
            single = c['k'] == 'wb' and h == 1 and w == 1
            for i in range(h):
                for j in range(w):
                    e, g = exp[i][j], tgt[2][i][j]
                    # display rule (eval_func): an empty scalar value is shown as 0; inside an array it stays empty
                    if g != e and not (single and e == 'z' and g == 'n:0/1') and not (g == 'z' and e == 'n:0/1'):
                        yield c, (f'target position ({i},{j}) holds {core.show(g)}; the statement gives '
                                  f'{core.show(e)} (trim / repeat / #N/A of the {raw[0]}×{raw[1]} result)')
                        break
                else:
                    continue
                break
            if c['k'] == 'wb':
                mem = parse_arr(parts[1])
                if mem is None or (mem[0], mem[1]) != (h, w):
                    yield c, 'member table has the wrong shape'
                    continue
                for i in range(h):
                    for j in range(w):
                        t, m = tgt[2][i][j], mem[2][i][j]
                        if m != t and not (t == 'z' and m == 'n:0/1'):
                            yield c, f'member ({i},{j}) shows {core.show(m)}, evaluate(target) holds {core.show(t)}'
                            break
                    else:
                        continue
                    break

"""C14 — aggregates over ranges (excellib._numerics/sum_/sumproduct, lib/stats average/count/max_/min_,
FunctionNode.func_subtotal).  DESIGN.md §7 C14.

A case is one rectangle (or one SUMPRODUCT / SUBTOTAL / scalar argument list) plus the derived arrangements the
property relates it to: permutations, a reshape, a two-part partition, the same cells without / with other ignorable
cells.  Each case is expanded by `queries` into a fixed list of aggregate evaluations; the implementation output and
the model output are the '|'-joined answers.  `via` selects the observation point:
    lib      pyc.lib_call(name, tuple-of-tuples…)            (the function as a formula calls it)
    formula  pyc.eval_formula('=SUM(A1:C3)', cells)           (compile + evaluate, range reads from a dict)
    wb       pyc.compiler_from({...}).evaluate('Sheet1!AB1')  (a real in-memory workbook, formulas in cells)
"""
import itertools
from fractions import Fraction

from harness import core, pyc

ID = 'C14'
LEAN_MODULE = 'Pycel.Props.C14'
NS = 'Pycel.Agg.'
THEOREMS = [NS + t for t in (
    'C14_nums_spec', 'C14_numeric_only', 'C14_ignore_remove', 'C14_ignore_replace', 'C14_first_error',
    'C14_error_cells', 'C14_count_ignores_errors', 'C14_perm', 'C14_perm_two_errors_counterexample', 'C14_perm_count', 'C14_reshape',
    'C14_sum_append', 'C14_sum_rows', 'C14_sum_partition', 'C14_sum_filter_partition', 'C14_count_append',
    'C14_average', 'C14_average_empty', 'C14_minmax_empty', 'C14_min_spec', 'C14_max_spec', 'C14_subtotal',
    'C14_subtotal_table', 'C14_subtotal_modelled', 'C14_sumproduct', 'C14_sumproduct_two',
    'C14_sumproduct_zero_fill', 'C14_sumproduct_error', 'C14_sumproduct_shape_mismatch')]
DESIGN_REF = 'DESIGN.md §7 C14'
RULE = ('rect cases: every assignment of an 8-value pool (2 numbers, numeric text, text, logical, blank, 2 errors) to '
        'all rectangles of <= 3 cells with ALL permutations, then every shape 1..5 x 1..5 with random fills in six '
        'styles (mixed / numbers only / no error / one error / nothing numeric / two different errors) over dyadic '
        'numbers k/2^j, numeric text, text, logicals, blanks and the 7 errors; each case evaluates SUM AVERAGE MIN MAX '
        'COUNT on the rectangle, on permutations (all for <= 4 cells), a reshape, a 2-part partition (parts, and both '
        'parts as two arguments), the numeric+error cells alone, and with ignorable cells replaced; via formula/wb also '
        'SUBTOTAL(n) for n in 1,2,4,5,9,101,102,104,105,109.  hostile block: 32 text spellings next to every classification boundary (error / numeric / logical look-alikes, #EMPTY!, empty text) before, after and without a genuine error, via lib/formula/wb, and inside SUMPRODUCT; numpy-typed rects and chain workbooks whose range holds formula cells.  sp cases: SUMPRODUCT of 1-3 ranges (equal shapes, shape '
        'mismatch, errors, scalars).  sub cases: every function number -3..13, 98..113, 201, 209.  scal cases: direct '
        'scalar arguments (lib and formula literals).  A rect case is non-trivial when it has >= 2 cells of >= 2 different kinds; distinct = '
        'distinct case dict.')
ASSUMPTIONS = [
    'numbers are dyadic rationals of moderate size so Python/numpy float sums and products are exact; AVERAGE is '
    'compared as correctly rounded float of the exact quotient (or relative 1e-12)',
    'COUNT ignores error cells (Excel and pycel); the first-error clause is applied to SUM/AVERAGE/MIN/MAX',
    '"first" error = first in row-major order of the range, arguments left to right (flatten order)',
    'in pycel an error value IS its text: a text cell spelling one of the seven standard codes is that error (not '
    'generated as text); the text #GETTING_DATA is in the live ERROR_CODES and is generated and treated as an error; '
    'every other text (error / number / logical look-alikes, #EMPTY!, the empty text) is ignorable text',
    'SUMPRODUCT with error cells / unequal shapes / scalar arguments is outside the statement: the model follows the '
    'code there (first error; #VALUE!)',
    'ragged or empty tuples are never produced by a range read and are not generated',
]
TRUSTED = ['modelled, not verified: flatten(), Python sum/min/max/math.prod, numpy prod/sum, openpyxl in-memory '
           'workbook, the formula compiler path from "=SUM(A1:C3)" to sum_(_R_("A1:C3"))']
REQUIRED_BUCKETS = [
    'rect:mixed:lib', 'rect:numbers-only:lib', 'rect:one-error:lib', 'rect:two-errors:lib', 'rect:nothing-numeric:lib',
    'rect:mixed:formula', 'rect:one-error:formula', 'rect:two-errors:formula', 'rect:nothing-numeric:formula',
    'rect:mixed:wb', 'rect:one-error:wb', 'rect:nothing-numeric:wb',
    'sp:equal:lib', 'sp:equal:formula', 'sp:equal:wb', 'sp:mismatch:lib', 'sp:mismatch:formula', 'sp:error:lib',
    'sp:scalars:lib', 'sp:scalars:formula', 'sub:named', 'sub:other', 'scal:lib', 'scal:formula',
    'rect:any:lib:np-f', 'rect:any:lib:np-all', 'chain:np-int', 'chain:np-float', 'chain:plain',
    'rect:hostile:lib', 'rect:hostile:formula', 'rect:hostile:wb', 'sp:hostile:lib', 'sp:hostile:formula']
EXHAUSTIVE = False

FNS = ('sum', 'average', 'min', 'max', 'count')
PYNAME = {'sum': 'sum_', 'average': 'average', 'min': 'min_', 'max': 'max_', 'count': 'count'}
XLNAME = {'sum': 'SUM', 'average': 'AVERAGE', 'min': 'MIN', 'max': 'MAX', 'count': 'COUNT'}
SUBNUM = {'average': 1, 'count': 2, 'max': 4, 'min': 5, 'sum': 9}      # Excel's documented numbering
ERRS = ['e:' + t for t in core.TAG_ERRS]      # + the text '#GETTING_DATA', appended below
s_ = core.enc_text


def n_(k, j=0):
    f = Fraction(k, 2 ** j)
    return f'n:{f.numerator}/{f.denominator}'


POOL8 = [n_(1), n_(-5, 1), s_('12'), s_('abc'), 'b:1', 'z', 'e:na', 'e:div0']
NUMTEXT = [s_(t) for t in ('12', '2.5', '-3', '1e2', ' 4 ', '0')]
TEXT = [s_(t) for t in ('abc', 'x y', 'TRUE', 'é', '')]
LOGICAL = ['b:1', 'b:0']
# hostile spellings around every classification boundary the aggregates make: all of these are plain TEXT
HOSTILE = ['#TODO', '#12', '#REF', '#N/A ', ' #N/A', '#n/a', '#N/A!', '#VALUE', '#DIV/0', '# NULL!', '#NULL', '#NAME',
           '#NUM', '#EMPTY!', '#SPILL!', '#CALC!', '#GETTING_DATA!', '#getting_data', '#',       # error look-alikes
           '1_0', ' 3 ', '1e3', 'inf', 'nan', '-1', '0x10', '1,5',                                  # numeric look-alikes
           'TRUE', 'true', 'False', 'FALSE',                                                        # logical look-alikes
           '']
TEXT += [s_(t) for t in HOSTILE if s_(t) not in TEXT]
ERR_TEXT_TOKENS = frozenset([s_('#GETTING_DATA')])
ERRS.append(s_('#GETTING_DATA'))
FIXEDNUM = [n_(0), n_(1), n_(-1), n_(5, 1), n_(1, 1), n_(3), n_(-29, 2), n_(100), n_(1024), n_(-2048), n_(1, 4)]


def rnd_num(rng):
    if rng.random() < 0.3:
        return rng.choice(FIXEDNUM)
    return n_(rng.randint(-2048, 2048), rng.choice((0, 0, 0, 1, 2, 3, 4)))


def rnd_ign(rng, wb=False):
    t = rng.choice(NUMTEXT + TEXT + LOGICAL + ['z', 'z', 'z'])
    while wb and t == 's:':
        t = rng.choice(NUMTEXT + TEXT + LOGICAL + ['z'])
    return t


def is_num(t):
    return t.startswith('n:')


def is_err(t):
    """an Excel error value: one of the seven codes or a text that IS an error code (ERROR_CODES of the unchanged
    tree also holds '#GETTING_DATA'); every other text, however error-like it looks, is text"""
    return t.startswith('e:') or t in ERR_TEXT_TOKENS


def is_ign(t):
    return not is_num(t) and not is_err(t)


def fill(rng, n, style, wb=False):
    if style == 'numbers':
        return [rnd_num(rng) for _ in range(n)]
    if style == 'nothing':
        return [rnd_ign(rng, wb) for _ in range(n)]
    cells = []
    for _ in range(n):
        x = rng.random()
        if x < 0.5:
            cells.append(rnd_num(rng))
        elif x < 0.92 or style in ('noerr', 'one', 'two'):
            cells.append(rnd_ign(rng, wb))
        else:
            cells.append(rng.choice(ERRS))
    if style == 'one':
        cells[rng.randrange(n)] = rng.choice(ERRS)
    if style == 'two':
        if n < 2:
            cells[0] = rng.choice(ERRS)
        else:
            i, j = rng.sample(range(n), 2)
            e1, e2 = rng.sample(ERRS, 2)
            cells[i], cells[j] = e1, e2
            if n > 2 and rng.random() < 0.3:
                cells[rng.randrange(n)] = rng.choice((e1, e2))
    return cells


def rect_case(rng, via, r, c, cells, all_perms=False, n_perms=3, fl=False):
    n = r * c
    if all_perms:
        perms = [list(p) for p in itertools.permutations(range(n))][1:]
    else:
        perms = [list(range(n))[::-1]] if n > 1 else []
        for _ in range(n_perms - 1 if n > 2 else 0):
            p = list(range(n))
            rng.shuffle(p)
            perms.append(p)
    shapes = [(a, n // a) for a in range(1, n + 1) if n % a == 0 and a <= 25 and n // a <= 25 and (a, n // a) != (r, c)]
    r2, c2 = rng.choice(shapes) if shapes else (r, c)
    mask = [rng.randint(0, 1) for _ in range(n)]
    if n >= 2 and len(set(mask)) == 1:
        mask[rng.randrange(n)] ^= 1
    repl = [rnd_ign(rng, via == 'wb') if is_ign(t) else t for t in cells]
    case = {'k': 'rect', 'via': via, 'r': r, 'c': c, 'cells': cells, 'perms': perms, 'r2': r2, 'c2': c2, 'mask': mask,
            'repl': repl}
    if fl:
        case['fl'] = True
    return case


CHAIN_KINDS = ('sp2', 'sp2', 'sp1', 'mul', 'add', 'div', 'sum', 'max', 'min', 'cnt', 'gt', 'cat', 'err')


def _n0(t):
    return _frac(t) if is_num(t) else Fraction(0)


def _integral(t):
    return is_num(t) and _frac(t).denominator == 1


def chain_value(kind, i, j, X, Y):
    """(expected value token, is the implementation's value a numpy integer) of an inner formula, from the statement:
    SUMPRODUCT = sum of pointwise products with non-numbers 0, SUM/MAX/MIN/COUNT over the numeric cells, arithmetic"""
    nums = [_frac(t) for t in X + Y if is_num(t)]
    if kind == 'sp2':
        return core.enc(sum((_n0(a) * _n0(b) for a, b in zip(X, Y)), Fraction(0))), \
            all(_integral(t) for t in X + Y if is_num(t))
    if kind == 'sp1':
        return core.enc(sum((_n0(a) for a in X), Fraction(0))), all(_integral(t) for t in X if is_num(t))
    v = {'mul': lambda: _frac(X[i]) * 2, 'add': lambda: _frac(X[i]) + _frac(Y[j]), 'div': lambda: _frac(X[i]) / 4,
         'sum': lambda: sum(nums, Fraction(0)), 'max': lambda: max(nums), 'min': lambda: min(nums),
         'cnt': lambda: Fraction(len(nums))}.get(kind)
    if v:
        return core.enc(v()), False
    if kind == 'gt':
        return ('b:1' if _frac(X[i]) > 0 else 'b:0'), False
    if kind == 'cat':
        return s_(str(int(_frac(X[i])))), False
    return 'e:div0', False


def chain_case(rng, i):
    n = rng.randint(2, 4)
    ints = i % 3 == 0                    # all-integer data: SUMPRODUCT then yields a numpy.int64
    num = (lambda: n_(rng.randint(-40, 40))) if ints else (lambda: rnd_num(rng))
    X = [num() for _ in range(n)]
    Y = [num() for _ in range(n)]
    X[0] = n_(rng.randint(1, 30)) if i % 2 else n_(-rng.randint(1, 30))      # integral: the operand of 'cat'
    for t in (X, Y):
        if rng.random() < 0.3:
            t[rng.randrange(1, n)] = rnd_ign(rng, True)
    r, c = rng.randint(1, 4), rng.randint(1, 4)
    src, cells, npint = [], [], []
    allow_err = i % 4 == 0
    for k in range(r * c):
        x = rng.random()
        if x < 0.45 or (k == 0):
            kind = rng.choice(CHAIN_KINDS if allow_err else CHAIN_KINDS[:-1])
            ii = rng.choice([a for a in range(n) if is_num(X[a])]) if kind != 'cat' else 0
            jj = rng.choice([a for a in range(n) if is_num(Y[a])])
            v, npi = chain_value(kind, ii, jj, X, Y)
            src.append(['f', kind, ii, jj])
            cells.append(v)
            if npi:
                npint.append(k)
        else:
            t = rnd_num(rng) if x < 0.75 else rnd_ign(rng, True)
            src.append(['lit', t])
            cells.append(t)
    return {'k': 'chain', 'via': 'wb', 'n': n, 'X': X, 'Y': Y, 'r': r, 'c': c, 'src': src, 'cells': cells,
            'npint': npint}


def cases(tier, rng):
    thorough = tier == 'thorough'
    # 1. small scope, exhaustive: all fills of <= 3 cells over POOL8, all permutations
    for (r, c) in ((1, 1), (1, 2), (2, 1), (1, 3), (3, 1)):
        for cells in itertools.product(POOL8, repeat=r * c):
            yield rect_case(rng, 'lib', r, c, list(cells), all_perms=True)
            if r * c <= 2 or thorough:
                yield rect_case(rng, 'formula', r, c, list(cells), all_perms=True)
    if thorough:
        for (r, c) in ((2, 2), (1, 4)):
            for cells in itertools.product(POOL8[1:], repeat=4):
                yield rect_case(rng, 'lib', r, c, list(cells), all_perms=True)
    # 1b. hostile text, deterministic: every look-alike before / after / without a genuine error
    for t in [s_(h) for h in HOSTILE]:
        for via in ('lib', 'formula', 'wb'):
            if via == 'wb' and t == 's:':
                continue
            for r, c, cells in ((1, 3, [t, 'e:ref', n_(2)]), (3, 1, [n_(2), t, s_('#GETTING_DATA')]),
                                (2, 2, [t, n_(5, 1), 'e:na', 'e:div0']), (1, 2, [t, n_(5, 1)]), (1, 1, [t])):
                if via != 'lib' and (r, c) in ((2, 2), (1, 1)):
                    continue
                case = rect_case(rng, via, r, c, cells, all_perms=True)
                case['hostile'] = True
                yield case
        for via in ('lib', 'formula'):
            yield {'k': 'sp', 'via': via, 'hostile': True,
                   'args': [['a', 1, 2, [t, n_(3)]], ['a', 1, 2, [n_(2), n_(4)]]]}
            yield {'k': 'sp', 'via': via, 'hostile': True,
                   'args': [['a', 2, 1, [t, 'e:num']], ['a', 2, 1, [n_(2), n_(4)]]]}
    # 2. every shape up to 5x5, six fill styles
    styles = ('mixed', 'numbers', 'noerr', 'one', 'nothing', 'two')
    reps = {'lib': 60 if thorough else 2, 'formula': 12 if thorough else 1, 'wb': 6 if thorough else 0}
    for r in range(1, 6):
        for c in range(1, 6):
            for style in styles:
                for via, k in reps.items():
                    for _ in range(k):
                        yield rect_case(rng, via, r, c, fill(rng, r * c, style, via == 'wb'),
                                        all_perms=r * c <= 4, fl=rng.random() < 0.2)
    # workbook sample (quick: a fixed number spread over shapes and styles)
    for i in range(0 if thorough else 36):
        r, c = rng.randint(1, 5), rng.randint(1, 5)
        yield rect_case(rng, 'wb', r, c, fill(rng, r * c, styles[i % 6], True), all_perms=r * c <= 3, n_perms=2)
    # 2b. the same through lib_call with numpy-typed numbers (what function results leave in cells)
    for i in range(600 if thorough else 60):
        r, c = rng.randint(1, 5), rng.randint(1, 5)
        case = rect_case(rng, 'lib', r, c, fill(rng, r * c, styles[i % 6]), all_perms=r * c <= 3, n_perms=2)
        case['np'] = 'f' if i % 3 else 'all'
        yield case
    # 2c. workbooks whose aggregated range holds FORMULA cells (SUMPRODUCT -> numpy.float64 / numpy.int64, division,
    #     products, inner aggregates, a logical, a numeric text, an error) next to literals
    for i in range(1500 if thorough else 150):
        yield chain_case(rng, i)
    # 3. SUMPRODUCT
    for via, k in (('lib', 1500 if thorough else 60), ('formula', 500 if thorough else 25), ('wb', 200 if thorough else 12)):
        for i in range(k):
            r, c = rng.randint(1, 5), rng.randint(1, 5)
            nargs = rng.choice((1, 2, 2, 2, 3))
            style = ('noerr', 'numbers', 'noerr', 'mixed')[i % 4]
            args = [['a', r, c, fill(rng, r * c, style, via == 'wb')] for _ in range(nargs)]
            yield {'k': 'sp', 'via': via, 'args': args}
    for via in ('lib', 'formula', 'wb'):           # single cells (1x1 ranges), every pair over POOL8 without errors
        for a in POOL8[:6]:
            for b in POOL8[:6]:
                yield {'k': 'sp', 'via': via, 'args': [['a', 1, 1, [a]], ['a', 1, 1, [b]]]}
    for via, k in (('lib', 120 if thorough else 30), ('formula', 40 if thorough else 10)):
        for i in range(k):                          # shape mismatch, with and without errors
            shp = rng.sample([(a, b) for a in range(1, 5) for b in range(1, 5)], 2)
            style = 'noerr' if i % 3 else 'mixed'
            yield {'k': 'sp', 'via': via,
                   'args': [['a', a, b, fill(rng, a * b, style)] for (a, b) in shp + shp[:i % 2]]}
    for i in range(200 if thorough else 40):        # scalar arguments and scalar/array mixes (lib only)
        sc = [['s', rng.choice([rnd_num(rng), rnd_num(rng), rnd_ign(rng), rng.choice(ERRS) if i % 5 == 0 else n_(2)])]
              for _ in range(rng.randint(1, 3))]
        if i % 3 == 0:
            sc.insert(rng.randint(0, len(sc)), ['a', 1, 2, fill(rng, 2, 'noerr')])
        yield {'k': 'sp', 'via': 'lib', 'args': sc}
    yield {'k': 'sp', 'via': 'lib', 'args': []}
    for i in range(60 if thorough else 12):         # the same through a formula (literals; no blank literal exists)
        sc = [['s', rng.choice([rnd_num(rng), rng.choice(NUMTEXT + TEXT + LOGICAL)])] for _ in range(rng.randint(1, 3))]
        if i % 2 == 0:
            sc.insert(rng.randint(0, len(sc)), ['a', 2, 2, fill(rng, 4, 'noerr')])
        yield {'k': 'sp', 'via': 'formula', 'args': sc}
    # 4. SUBTOTAL function numbers (compile time), every number around the table
    probe = [n_(3), s_('7'), 'b:1', 'z', n_(-1, 1), n_(8)]
    for n in list(range(-3, 14)) + list(range(98, 114)) + [201, 209, 1009]:
        yield {'k': 'sub', 'via': 'formula', 'n': n, 'r': 2, 'c': 3, 'cells': probe}
        yield {'k': 'sub', 'via': 'formula', 'n': n, 'r': 1, 'c': 2, 'cells': ['e:num', n_(1)]}
    for n in (1, 2, 4, 5, 9, 101, 109, 3, 12):
        yield {'k': 'sub', 'via': 'wb', 'n': n, 'r': 2, 'c': 3, 'cells': probe}
    # 5. direct scalar arguments (outside the statement: the model follows the code)
    for f in FNS:
        for a in POOL8 + [s_('')]:
            yield {'k': 'scal', 'via': 'lib', 'fn': f, 'args': [a]}
        for _ in range(60 if thorough else 12):
            yield {'k': 'scal', 'via': 'lib', 'fn': f,
                   'args': [rng.choice([rnd_num(rng), rnd_ign(rng), rng.choice(ERRS)]) for _ in range(rng.randint(1, 4))]}
        yield {'k': 'scal', 'via': 'lib', 'fn': f, 'args': []}
        for _ in range(30 if thorough else 6):
            yield {'k': 'scal', 'via': 'formula', 'fn': f,
                   'args': [rng.choice([rnd_num(rng), rng.choice(NUMTEXT + TEXT + LOGICAL), rng.choice(ERRS)])
                            for _ in range(rng.randint(1, 4))]}


# ---------------------------------------------------------------------------------------------------------------
# expansion of a case into evaluations: (label, op, args) with op = fn name | 'sumproduct' | ('subtotal', n)
# arg = ['a', r, c, [tokens]] | ['s', token]

def queries(c):
    k = c['k']
    if k == 'rect':
        cells, r, cc = c['cells'], c['r'], c['c']
        n = r * cc
        arrs = [('W', [['a', r, cc, cells]])]
        for i, p in enumerate(c['perms']):
            arrs.append((f'P{i}', [['a', r, cc, [cells[j] for j in p]]]))
        if (c['r2'], c['c2']) != (r, cc):
            arrs.append(('R', [['a', c['r2'], c['c2'], cells]]))
        x = [t for t, m in zip(cells, c['mask']) if m == 0]
        y = [t for t, m in zip(cells, c['mask']) if m == 1]
        if x and y:
            arrs.append(('X', [['a', 1, len(x), x]]))
            arrs.append(('Y', [['a', len(y), 1, y]]))
            arrs.append(('XY', [['a', 1, len(x), x], ['a', len(y), 1, y]]))
        if r > 1:
            arrs.append(('ROWS', [['a', 1, cc, cells[:cc]], ['a', r - 1, cc, cells[cc:]]]))
        nn = [t for t in cells if not is_ign(t)]
        if nn and len(nn) < n:
            arrs.append(('N', [['a', 1, len(nn), nn]]))
        if c['repl'] != cells:
            arrs.append(('Z', [['a', r, cc, c['repl']]]))
        qs = [(f'{f}:{lab}', f, args) for lab, args in arrs for f in FNS]
        if c['via'] != 'lib':
            for f in FNS:
                qs.append((f'sub{SUBNUM[f]}', ('subtotal', SUBNUM[f]), arrs[0][1]))
                qs.append((f'sub{SUBNUM[f] + 100}', ('subtotal', SUBNUM[f] + 100), arrs[0][1]))
        return qs
    if k == 'sp':
        qs = [('sp', 'sumproduct', c['args'])]
        filled = [[a[0], a[1], a[2], [n_(0) if is_ign(t) else t for t in a[3]]] if a[0] == 'a' else a for a in c['args']]
        if filled != c['args'] and all(a[0] == 'a' for a in c['args']):
            qs.append(('sp:fill', 'sumproduct', filled))
        return qs
    if k == 'sub':
        return [('sub', ('subtotal', c['n']), [['a', c['r'], c['c'], c['cells']]])]
    if k == 'scal':
        return [('scal', c['fn'], [['s', t] for t in c['args']])]
    if k == 'chain':
        return _chain_queries(c, c['cells'])
    raise ValueError(k)


def _first_formula(c):
    return next(i for i, s in enumerate(c['src']) if s[0] == 'f')


def _chain_queries(c, cells):
    """cells = the values the range cells evaluate to (c['cells'] = what the statement expects of the inner formulas)"""
    w = [['a', c['r'], c['c'], cells]]
    qs = [(f'c{i}', 'echo', [['s', t]]) for i, t in enumerate(c['cells'])]
    qs += [(f'{f}:W', f, w) for f in FNS]
    for f in FNS:
        qs.append((f'sub{SUBNUM[f]}', ('subtotal', SUBNUM[f]), w))
        qs.append((f'sub{SUBNUM[f] + 100}', ('subtotal', SUBNUM[f] + 100), w))
    if not any(is_err(t) for t in c['cells']):
        qs.append(('sp:WW', 'sumproduct', w + w))
    k = _first_formula(c)
    qs.append(('count:F', 'count', [['a', 1, 1, [cells[k]]]]))
    qs.append(('sum:F', 'sum', [['a', 1, 1, [cells[k]]]]))
    return qs


def _py(tok, fl=False, npm=None):
    """protocol token -> the Python value handed to pycel.  npm: None = int/float; 'f' = every number a
    numpy.float64; 'all' = integral numbers numpy.int64, the others numpy.float64 (the types function results such as
    SUMPRODUCT's leave in cells)"""
    v = core.dec(tok)
    if isinstance(v, Fraction):
        if npm:
            import numpy as np
            return np.int64(int(v)) if v.denominator == 1 and npm == 'all' else np.float64(float(v))
        return int(v) if v.denominator == 1 and not fl else float(v)
    return v


def _pyarg(a, fl, npm=None):
    if a[0] == 's':
        return _py(a[1], fl, npm)
    _, r, c, toks = a
    return tuple(tuple(_py(toks[i * c + j], fl, npm) for j in range(c)) for i in range(r))


def _col(i):
    from openpyxl.utils import get_column_letter
    return get_column_letter(i)


def _literal(tok):
    """a scalar argument written as a formula literal (a blank has none)"""
    v = core.dec(tok)
    if isinstance(v, Fraction):
        return str(int(v)) if v.denominator == 1 else repr(float(v))
    if isinstance(v, bool):
        return 'TRUE' if v else 'FALSE'
    if isinstance(v, str):
        return v if tok.startswith('e:') else '"' + v.replace('"', '""') + '"'
    raise ValueError('a blank scalar argument can only be sent through lib_call')


def _layout(qs, fl):
    """place every distinct array of the case in Sheet1 (stacked blocks, one empty row between), return (cells, [formula text])"""
    blocks, cells, formulas, free = {}, {}, [], [1]
    for _, op, args in qs:
        refs = []
        for a in args:
            if a[0] != 'a':
                refs.append(_literal(a[1]))
                continue
            key = f'{a[1]}x{a[2]}/' + ' '.join(a[3])
            if key not in blocks:
                top = free[0]
                free[0] += a[1] + 1
                _, r, c, toks = a
                for i in range(r):
                    for j in range(c):
                        v = _py(toks[i * c + j], fl)
                        if v is not None:
                            cells[f'{_col(j + 1)}{top + i}'] = v
                blocks[key] = f'A{top}:{_col(a[2])}{top + a[1] - 1}'
            refs.append(blocks[key])
        if isinstance(op, tuple):
            formulas.append(f'=SUBTOTAL({op[1]},{",".join(refs)})')
        elif op == 'sumproduct':
            formulas.append(f'=SUMPRODUCT({",".join(refs)})')
        else:
            formulas.append(f'={XLNAME[op]}({",".join(refs)})')
    return cells, formulas


def _tok(f):
    try:
        return core.enc(f())
    except RecursionError as exc:
        return core.canon_exc(exc)
    except Exception as exc:   # noqa
        return core.canon_exc(exc)


CH_X, CH_Y, CH_W = 1, 2, 4          # chain workbooks: data in columns A and B, the aggregated range from column D


def _chain_formula(src, n):
    kind, i, j = src[1], src[2], src[3]
    xs, ys, both = f'A1:A{n}', f'B1:B{n}', f'A1:B{n}'
    return {'sp2': f'=SUMPRODUCT({xs},{ys})', 'sp1': f'=SUMPRODUCT({xs})', 'mul': f'=A{i + 1}*2',
            'add': f'=A{i + 1}+B{j + 1}', 'div': f'=A{i + 1}/4', 'sum': f'=SUM({both})', 'max': f'=MAX({both})',
            'min': f'=MIN({both})', 'cnt': f'=COUNT({both})', 'gt': f'=A{i + 1}>0', 'cat': f'=A{i + 1}&""',
            'err': f'=A{i + 1}/0'}[kind]


def _impl_chain(c):
    n, r, cc = c['n'], c['r'], c['c']
    book = {}
    for k in range(n):
        for col, toks in (('A', c['X']), ('B', c['Y'])):
            v = _py(toks[k])
            if v is not None:
                book[f'Sheet1!{col}{k + 1}'] = v
    addr = [f'{_col(CH_W + k % cc)}{k // cc + 1}' for k in range(r * cc)]
    for k, src in enumerate(c['src']):
        v = _py(src[1]) if src[0] == 'lit' else _chain_formula(src, n)
        if v is not None:
            book[f'Sheet1!{addr[k]}'] = v
    whole = f'{addr[0]}:{addr[-1]}'
    targets = []
    for lab, op, args in queries(c):
        if op == 'echo':
            targets.append(f'Sheet1!{addr[int(lab[1:])]}')
            continue
        ref = f'{addr[_first_formula(c)]}:{addr[_first_formula(c)]}' if lab in ('count:F', 'sum:F') else whole
        refs = ','.join([ref] * len(args))
        f = f'=SUBTOTAL({op[1]},{refs})' if isinstance(op, tuple) else \
            f'=SUMPRODUCT({refs})' if op == 'sumproduct' else f'={XLNAME[op]}({refs})'
        book[f'Sheet1!AB{len(targets) + 1}'] = f
        targets.append(f'Sheet1!AB{len(targets) + 1}')
    comp = pyc.compiler_from(book)
    return '|'.join(_tok(lambda: comp.evaluate(t)) for t in targets)


def impl(c):
    if c['k'] == 'chain':
        return _impl_chain(c)
    qs = queries(c)
    fl = bool(c.get('fl'))
    via = c['via']
    if via == 'lib':
        outs = []
        for _, op, args in qs:
            name = 'sumproduct' if op == 'sumproduct' else PYNAME[op]
            pargs = [_pyarg(a, fl, c.get('np')) for a in args]
            outs.append(_tok(lambda: pyc.lib_call(name, *pargs)))
        return '|'.join(outs)
    cells, formulas = _layout(qs, fl)
    if via == 'formula':
        return '|'.join(_tok(lambda: pyc.eval_formula(f, cells)) for f in formulas)
    if via == 'wb':
        book = {f'Sheet1!{a}': v for a, v in cells.items()}
        for i, f in enumerate(formulas):
            book[f'Sheet1!AB{i + 1}'] = f
        comp = pyc.compiler_from(book)
        return '|'.join(_tok(lambda: comp.evaluate(f'Sheet1!AB{i + 1}')) for i in range(len(formulas)))
    raise ValueError(via)


def _argtoks(a):
    if a[0] == 's':
        return a[1]
    return f'a:{a[1]}:{a[2]} ' + ' '.join(a[3])


def model_lines(c):
    lines = []
    for _, op, args in queries(c):
        head = f'c14 subtotal {op[1]}' if isinstance(op, tuple) else f'c14 {op}'     # op 'echo': the token itself
        lines.append(' '.join([head] + [_argtoks(a) for a in args]))
    return lines


def _close(a, b):
    if a == b:
        return True
    if a.startswith('n:') and b.startswith('n:'):
        return float(core.dec(a)) == float(core.dec(b)) or core.num_close(a, b)
    return False


def same(impl_out, model_out):
    if impl_out is None or model_out is None:
        return False
    a, b = impl_out.split('|'), model_out.split('|')
    return len(a) == len(b) and all(_close(x, y) for x, y in zip(a, b))


# ---------------------------------------------------------------------------------------------------------------

def _has_err(args):
    return any(is_err(t) for a in args for t in (a[3] if a[0] == 'a' else [a[1]]))


def sp_class(c):
    args = c['args']
    if any(a[0] == 's' for a in args) or not args:
        return 'scalars'
    if _has_err(args):
        return 'error'
    if len({(a[1], a[2]) for a in args}) != 1:
        return 'mismatch'
    return 'equal'


def governed(c):
    k = c['k']
    if k in ('rect', 'chain'):
        return True
    if k == 'sp':
        return sp_class(c) == 'equal'
    if k == 'sub':
        return c['n'] in SUBNUM.values() or c['n'] - 100 in SUBNUM.values()
    return False


def rect_class(c):
    cells = c['cells']
    if c.get('np'):
        return 'any'
    errs = {t for t in cells if is_err(t)}
    if len(errs) >= 2:
        return 'two-errors'
    if errs:
        return 'one-error'
    if not any(is_num(t) for t in cells):
        return 'nothing-numeric'
    if all(is_num(t) for t in cells):
        return 'numbers-only'
    return 'mixed'


def bucket(c):
    k = c['k']
    if c.get('hostile'):
        return f'{k}:hostile:{c["via"]}'
    if k == 'rect':
        return f'rect:{rect_class(c)}:{c["via"]}' + (f':np-{c["np"]}' if c.get('np') else '')
    if k == 'chain':
        kinds = {s[1] for s in c['src'] if s[0] == 'f'}
        return 'chain:' + ('np-int' if c['npint'] else 'np-float' if kinds & {'sp1', 'sp2'} else 'plain')
    if k == 'sp':
        return f'sp:{sp_class(c)}:{c["via"]}'
    if k == 'sub':
        return 'sub:named' if governed(c) else 'sub:other'
    return f'scal:{c["via"]}'


def _kind(t):
    return t[0] if t != 's:' else 's'


def nontrivial(c):
    k = c['k']
    if k == 'rect':
        return len(c['cells']) >= 2 and len({_kind(t) for t in c['cells']}) >= 2
    if k == 'sp':
        return sp_class(c) == 'equal' and any(is_num(t) for a in c['args'] for t in a[3])
    if k == 'sub':
        return governed(c)
    if k == 'chain':
        return len(c['cells']) >= 2
    return False


def finding_key(c, impl_out, model_out):
    # SUMPRODUCT over single-cell ranges: the compiler reads a 1x1 range as a scalar cell, and sumproduct's
    # "all scalars" branch answers #VALUE! when one of them is blank instead of counting it as 0
    if c['k'] == 'sp' and c['via'] in ('formula', 'wb') and sp_class(c) == 'equal' \
            and all((a[1], a[2]) == (1, 1) for a in c['args']) and any(a[3][0] == 'z' for a in c['args']) \
            and impl_out is not None and impl_out.split('|')[0] == 'e:value':
        return 'sumproduct.single-cell.blank'
    return None


# ---------------------------------------------------------------------------------------------------------------
# the property restated over implementation outputs

def _frac(tok):
    return core.dec(tok)


def spec(f, cells):
    """what the statement prescribes for aggregate f over these cells: a token, or ('q', Fraction) for a quotient"""
    if f == 'count':
        return n_(sum(1 for t in cells if is_num(t)))
    err = next((t for t in cells if is_err(t)), None)
    if err:
        return err
    nums = [_frac(t) for t in cells if is_num(t)]
    if f == 'sum':
        return core.enc(sum(nums, Fraction(0)))
    if f == 'average':
        return core.enc(sum(nums, Fraction(0)) / len(nums)) if nums else 'e:div0'
    if not nums:
        return n_(0)
    return core.enc(min(nums) if f == 'min' else max(nums))


def _oracle_rect(c, out):
    cells = c['cells']
    flat = {lab: [t for a in args for t in a[3]] for lab, _, args in queries(c)}
    derrs = {t for t in cells if is_err(t)}
    has = lambda lab: f'sum:{lab}' in out   # noqa
    for f in FNS:
        w = out[f'{f}:W']
        if w.startswith('!'):
            yield f'{XLNAME[f]} raised / returned a non-Excel value: {w}'
            continue
        exp = spec(f, cells)
        if not _close(w, exp):
            yield f'{XLNAME[f]} = {core.show(w)}, the statement prescribes {core.show(exp)}'
        for lab in ('N', 'Z'):
            if has(lab) and not _close(out[f'{f}:{lab}'], w):
                yield (f'{XLNAME[f]} changes when ignorable cells are '
                       f'{"removed" if lab == "N" else "replaced by other ignorable cells"}: '
                       f'{core.show(w)} vs {core.show(out[f"{f}:{lab}"])}')
        if has('R') and out[f'{f}:R'] != w:
            yield f'{XLNAME[f]} changes under reshape to {c["r2"]}x{c["c2"]}: {core.show(w)} vs {core.show(out[f"{f}:R"])}'
        if len(derrs) <= 1 or f == 'count':
            for i, p in enumerate(c['perms']):
                if out[f'{f}:P{i}'] != w:
                    yield f'{XLNAME[f]} changes under permutation {p}: {core.show(w)} vs {core.show(out[f"{f}:P{i}"])}'
            for lab in ('XY', 'ROWS'):
                if has(lab) and out[f'{f}:{lab}'] != w:
                    yield f'{XLNAME[f]} over the parts as separate arguments ({lab}) differs: {core.show(out[f"{f}:{lab}"])}'
        else:
            for lab in [f'P{i}' for i in range(len(c['perms']))] + ['XY', 'ROWS']:
                if has(lab):
                    first = next(t for t in flat[f'{f}:{lab}'] if is_err(t))
                    if out[f'{f}:{lab}'] != first:
                        yield f'{XLNAME[f]} over arrangement {lab} is not its first error {first}: {out[f"{f}:{lab}"]}'
    s, cnt, avg = out['sum:W'], out['count:W'], out['average:W']
    if is_num(s) and is_num(cnt):
        if _frac(cnt) == 0:
            if avg != 'e:div0':
                yield f'AVERAGE with nothing numeric is {core.show(avg)}, not #DIV/0!'
        elif not _close(avg, core.enc(_frac(s) / _frac(cnt))):
            yield f'AVERAGE {core.show(avg)} != SUM/COUNT = {core.show(s)}/{core.show(cnt)}'
    elif is_err(s) and avg != s:
        yield f'AVERAGE {core.show(avg)} differs from the error SUM returns {core.show(s)}'
    if has('X'):
        for a, b in (('X', 'Y'),):
            sx, sy = out[f'sum:{a}'], out[f'sum:{b}']
            if is_num(sx) and is_num(sy):
                if not (is_num(s) and _frac(s) == _frac(sx) + _frac(sy)):
                    yield f'SUM not additive over the partition: {core.show(s)} vs {core.show(sx)} + {core.show(sy)}'
            elif not is_err(s):
                yield f'a part sums to an error ({core.show(sx)}, {core.show(sy)}) but the whole to {core.show(s)}'
            cx, cy = out[f'count:{a}'], out[f'count:{b}']
            if not (is_num(cx) and is_num(cy) and is_num(cnt) and _frac(cnt) == _frac(cx) + _frac(cy)):
                yield f'COUNT not additive over the partition: {core.show(cnt)} vs {core.show(cx)} + {core.show(cy)}'
    nums = [_frac(t) for t in cells if is_num(t)]
    for f in ('min', 'max'):
        w = out[f'{f}:W']
        if not derrs and is_num(w):
            if not nums:
                if _frac(w) != 0:
                    yield f'{XLNAME[f]} of nothing numeric is {core.show(w)}, not 0'
            elif _frac(w) not in nums or any((x < _frac(w)) if f == 'min' else (x > _frac(w)) for x in nums):
                yield f'{XLNAME[f]} = {core.show(w)} is not a bounding member of the numeric cells'
    if c['via'] != 'lib':
        for f in FNS:
            for n in (SUBNUM[f], SUBNUM[f] + 100):
                if out[f'sub{n}'] != out[f'{f}:W']:
                    yield f'SUBTOTAL({n},…) = {core.show(out[f"sub{n}"])} but {XLNAME[f]} = {core.show(out[f"{f}:W"])}'


def _oracle_sp(c, out):
    w = out['sp']
    if w.startswith('!'):
        yield f'SUMPRODUCT raised / returned a non-Excel value: {w}'
        return
    if sp_class(c) != 'equal':
        return
    cols = [[_frac(t) if is_num(t) else Fraction(0) for t in a[3]] for a in c['args']]
    total = Fraction(0)
    for i in range(len(cols[0])):
        p = Fraction(1)
        for col in cols:
            p *= col[i]
        total += p
    if w != core.enc(total):
        yield f'SUMPRODUCT = {core.show(w)}, the sum of pointwise products (non-numbers as 0) is {core.show(core.enc(total))}'
    if 'sp:fill' in out and out['sp:fill'] != w:
        yield f'SUMPRODUCT changes when non-numbers are replaced by 0: {core.show(w)} vs {core.show(out["sp:fill"])}'


def _oracle_chain(c, out):
    """over implementation outputs only: the range cells as the implementation evaluates them vs its aggregates"""
    ev = [out[f'c{i}'] for i in range(len(c['cells']))]
    bad = [t for t in list(out.values()) if t.startswith('!')]
    if bad:
        yield f'an evaluation raised / returned a non-Excel value: {bad[0]}'
        return
    nnum = sum(1 for t in ev if is_num(t))
    for f in FNS:
        exp = spec(f, ev)
        if not _close(out[f'{f}:W'], exp):
            yield (f'{XLNAME[f]} over cells evaluating to {[core.show(t) for t in ev]} = {core.show(out[f"{f}:W"])}, '
                   f'the statement prescribes {core.show(exp)}')
        for n in (SUBNUM[f], SUBNUM[f] + 100):
            if out[f'sub{n}'] != out[f'{f}:W']:
                yield f'SUBTOTAL({n},…) = {core.show(out[f"sub{n}"])} but {XLNAME[f]} = {core.show(out[f"{f}:W"])}'
    s, cnt, avg = out['sum:W'], out['count:W'], out['average:W']
    if not (is_num(cnt) and _frac(cnt) == nnum):
        yield f'COUNT = {core.show(cnt)} but {nnum} cells of the range evaluate to numbers'
    if is_num(s) and is_num(cnt):
        if _frac(cnt) == 0:
            if avg != 'e:div0':
                yield f'AVERAGE = {core.show(avg)} although COUNT = 0'
        elif not _close(avg, core.enc(_frac(s) / _frac(cnt))):
            yield f'AVERAGE {core.show(avg)} != SUM/COUNT = {core.show(s)}/{core.show(cnt)}'
    elif is_err(s) and avg != s:
        yield f'AVERAGE {core.show(avg)} differs from the error SUM returns {core.show(s)}'
    k = _first_formula(c)
    if out['count:F'] != n_(1 if is_num(ev[k]) else 0):
        yield f'COUNT of the single formula cell evaluating to {core.show(ev[k])} is {core.show(out["count:F"])}'
    if is_num(ev[k]) and out['sum:F'] != ev[k]:
        yield f'SUM of the single formula cell evaluating to {core.show(ev[k])} is {core.show(out["sum:F"])}'
    if 'sp:WW' in out:
        exp = core.enc(sum((_n0(t) ** 2 for t in ev), Fraction(0)))
        if not _close(out['sp:WW'], exp):      # squares of products may exceed 53 bits: compared as floats
            yield f'SUMPRODUCT(W,W) = {core.show(out["sp:WW"])}, sum of squares of the numeric cells is {core.show(exp)}'


def oracles(results):
    for r in results:
        c = r.case
        if c['k'] not in ('rect', 'sp', 'sub', 'chain'):
            continue
        qs = queries(c)
        toks = (r.impl or '').split('|')
        if len(toks) != len(qs):
            if governed(c):
                yield c, f'evaluation failed as a whole: {r.impl}'
            continue
        out = {lab: t for (lab, _, _), t in zip(qs, toks)}
        if c['k'] == 'rect':
            for text in _oracle_rect(c, out):
                yield c, text
                break
        elif c['k'] == 'sp':
            for text in _oracle_sp(c, out):
                yield c, text
                break
        elif c['k'] == 'chain':
            for text in _oracle_chain(c, out):
                yield c, text
                break
        elif governed(c):
            f = next(f for f in FNS if SUBNUM[f] in (c['n'], c['n'] - 100))
            exp = spec(f, c['cells'])
            if not _close(out['sub'], exp):
                yield c, f'SUBTOTAL({c["n"]},…) = {core.show(out["sub"])}, {XLNAME[f]} prescribes {core.show(exp)}'

"""C06 — iterative calculation (excelcompiler.py:875-899, 1137-1187; excelutil.py:1280-1325).  DESIGN.md §7 C06.

A case is a workbook (cells with explicit addresses, input values or formulas over a tiny eager expression language,
optional stored results), an iterative-calculation configuration and a history of operations:

    {'fam': 'lin'|'acyc'|'fixture'|'odd',
     'cells': [{'a': 'A1', 'v': tok} | {'a': 'B1', 'f': expr, 'v': stored-tok}, ...],
     'mode': 'nodata' | 'stored' | 'fixture',          how the real workbook is produced
     'cfg': {'how': 'true'|'dict'|'wb', 'it': int|None, 'tol': tok|None},
     'ops': [{'op': 'set', 'c': i, 'v': tok} | {'op': 'ev', 't': [i, ...], 'it': int|None, 'tol': tok|None, 'cnt': i|None}],
     'xstar': {...} (lin only: q and the rational fixed point, for the oracle)}

  expr ::= ['n', tok] | ['r', i] | ['S', [i,...], 'A1:A3'] | ['+'|'-'|'*', e, e] | ['E'|'L', e, e, e, e] | ['P', e]

The implementation is driven only through ExcelCompiler(...), evaluate(addr, iterations=, tolerance=), set_value and a
counting plugin function (COUNT_PASS) placed in a formula; nothing internal is read.
"""
import itertools
import sys
import os
from fractions import Fraction

from harness import core, pyc

ID = 'C06'
LEAN_MODULE = 'Pycel.Props.C06'
NS = 'Pycel.Iter.'
THEOREMS = [NS + t for t in (
    'C06_consts', 'C06_default_limits', 'C06_bounded', 'C06_bounded_generic', 'C06_stop_honest', 'C06_fixed_point_bound', 'C06_fixed_point_bound_cells',
    'C06_pass_contracts', 'C06_result_bound_partial', 'C06_result_bound', 'C06_acyclic', 'C06_acyclic_history', 'C06_bounded_arg')]
DESIGN_REF = 'DESIGN.md §7 C06'
RULE = ('whole histories (set_value / evaluate(addr(s), iterations, tolerance)) over small workbooks in iterative mode: '
        'every 2-cell linear circular system over a coefficient pool x the (iterations, tolerance) grid (exhaustive), '
        'random 2-4 cell contracting systems incl. cycles through SUM(range), non-contracting and degenerate '
        'configurations, random acyclic workbooks with ranges under set_value histories, the shipped circular.xlsx; '
        'workbooks without and with stored results, configuration by cycles=True / cycles=dict / workbook settings; '
        'exact ties of close_enough (change = (1+rel)*tol, = tol, one unit either side); reference-returning formulas '
        '(OFFSET, INDIRECT as the whole formula) beside and inside the cycle and read through a range built during the '
        'pass — the constructs through which evaluation can re-enter the public API / the shared tracker mid-pass; '
        'passes observed through a counting plugin function; every evaluate runs under a 5 s watchdog (a run that '
        'does not return is reported as a failing input). Non-trivial = at least one evaluate reaches a formula.')
ASSUMPTIONS = [
    'values are numbers or blank; formulas are +,-,*,SUM(range),IF(a=b|a<b,…) over cells (all eager in pycel)',
    'float arithmetic of the implementation is compared with exact rationals up to a relative 1e-9; tolerances and '
    'coefficients are dyadic so that pass-count decisions are exact except on sub-ulp ties',
    'set_value only on input cells; targets are single cells or lists of single cells',
    'the Lean model has no computed references: a reference-valued formula naming an INPUT cell is modelled as a plain '
    'read of it (exact correspondence); one naming a FORMULA cell is an oracle-only case (bucket reent:oracle-only: '
    'pass bound through the plugin count, termination under the watchdog, no exception), not compared with the model',
    'one thread; the tracker is thread-local and shared by all compilers of the thread (cleared at each pass start)',
]
TRUSTED = ['modelled, not verified: compilation of a formula to its read order (Python left-to-right evaluation), '
           'openpyxl workbook access, IEEE arithmetic']
REQUIRED_BUCKETS = ['tie', 'reent', 'reent:oracle-only', 'lin:nodata', 'lin:stored', 'lin:range', 'acyc', 'acyc:range',
                    'fixture', 'odd', 'lin:dictcfg', 'lin:wbcfg']
PLUGIN = 'harness.props.c06'

_COUNT = [0]
sys.set_int_max_str_digits(0)     # exact rationals of long non-converging runs have many digits


class _Timeout(BaseException):
    """raised by the watchdog inside a non-terminating evaluate (BaseException: pycel's `except Exception` clauses
    must not swallow it)"""


_WATCHDOG_S = [5.0]


class _watchdog:
    """every evaluate runs under a 5 s interval timer (solo cost: milliseconds); after the first timeout of a run the
    budget drops to 1.5 s so that a change that makes many cases hang still ends the check quickly"""

    def __enter__(self):
        import signal

        def on_alarm(*_):
            raise _Timeout()
        self._old = signal.signal(signal.SIGALRM, on_alarm)
        signal.setitimer(signal.ITIMER_REAL, _WATCHDOG_S[0])

    def __exit__(self, et, ev, tb):
        import signal
        signal.setitimer(signal.ITIMER_REAL, 0)
        signal.signal(signal.SIGALRM, self._old)
        if et is _Timeout:
            _WATCHDOG_S[0] = 1.5
        return False


_OTHER = []


def handover(x):
    """plugin function HANDOVER(x): returns its argument after ANOTHER THREAD has run a complete iterative evaluation
    of an unrelated workbook (A1 = 0.5*B1 + 1, B1 = A1) — a deterministic 'second evaluation in the middle of a
    pass'.  With a per-thread tracker this is invisible to the evaluation in progress."""
    import threading
    if not _OTHER:
        _OTHER.append(pyc.compiler_from({'Sheet1!A1': '=0.5*B1+1', 'Sheet1!B1': '=A1'},
                                        cycles={'iterations': 50, 'tolerance': 1e-6}))
    t = threading.Thread(target=lambda: _OTHER[0].evaluate('Sheet1!A1'))
    t.start()
    t.join()
    return x


def count_pass(x):
    """plugin function COUNT_PASS(x): returns its argument, counts its calls"""
    _COUNT[0] += 1
    return x


# ---------------------------------------------------------------------------------------------------------------
# expressions

def F(tok):
    return core.dec(tok)


def tok_of(x):
    x = Fraction(x)
    return f'n:{x.numerator}/{x.denominator}'


def _numtext(tok):
    v = F(tok)
    f = float(v)
    assert Fraction(f) == v, tok
    s = repr(f)
    if s.endswith('.0'):
        s = s[:-2]
    if 'e' in s or 'E' in s:
        s = f'{f:.25f}'.rstrip('0')
    return f'({s})' if f < 0 else s


def expr_text(e, cells):
    k = e[0]
    if k == 'n':
        return _numtext(e[1])
    if k == 'r':
        return cells[e[1]]['a']
    if k == 'S':
        return f'SUM({e[2]})'
    if k == 'O':        # a formula part that evaluates to a REFERENCE to cell e[2]
        a = cells[e[2]]['a']
        return f'OFFSET({a},0,0)' if e[1] == 'offset' else f'INDIRECT("{a}")'
    if k in '+-*':
        return f'({expr_text(e[1], cells)}{k}{expr_text(e[2], cells)})'
    if k in 'EL':
        op = '=' if k == 'E' else '<'
        return (f'IF({expr_text(e[1], cells)}{op}{expr_text(e[2], cells)},'
                f'{expr_text(e[3], cells)},{expr_text(e[4], cells)})')
    if k == 'P':
        return f'COUNT_PASS({expr_text(e[1], cells)})'
    if k == 'H':
        return f'HANDOVER({expr_text(e[1], cells)})'
    if k == 'X':        # a call of a function that does not exist: evaluating the cell raises (oracle-only cases)
        return f'NOSUCHFN6({expr_text(e[1], cells)})'
    raise ValueError(k)


def expr_toks(e):
    k = e[0]
    if k == 'n':
        return [e[1]]
    if k == 'O':
        return [f'r{e[2]}']
    if k == 'r':
        return [f'r{e[1]}']
    if k == 'S':
        return ['S:' + ','.join(str(i) for i in e[1])]
    if k in '+-*':
        return [k] + expr_toks(e[1]) + expr_toks(e[2])
    if k in 'EL':
        return [k] + expr_toks(e[1]) + expr_toks(e[2]) + expr_toks(e[3]) + expr_toks(e[4])
    if k in 'PH':        # both plugin functions return their argument
        return ['P'] + expr_toks(e[1])
    raise ValueError(k)


def expr_reads(e):
    k = e[0]
    if k == 'n':
        return []
    if k == 'O':
        return [e[2]]
    if k == 'r':
        return [e[1]]
    if k == 'S':
        return list(e[1])
    out = []
    for sub in e[1:]:
        out += expr_reads(sub)
    return out


def has_range(e):
    return e[0] == 'S' or (e[0] not in 'nrO' and any(has_range(s) for s in e[1:]))


# ---------------------------------------------------------------------------------------------------------------
# implementation side

def _py(tok):
    v = core.dec(tok)
    if isinstance(v, Fraction):
        return int(v) if v.denominator == 1 else float(v)
    return v


FIXTURE = os.path.join(core.REPO, 'tests', 'fixtures', 'circular.xlsx')


def _compiler(case):
    from pycel import ExcelCompiler
    cfg = case['cfg']
    cells = case['cells']
    if case['mode'] == 'fixture':
        return ExcelCompiler(FIXTURE, cycles=True, plugins=PLUGIN)
    cyc = True
    if cfg['how'] == 'dict':
        cyc = {'iterations': cfg['it'], 'tolerance': None if cfg['tol'] is None else _py(cfg['tol'])}
    if case['mode'] == 'nodata' and cfg['how'] != 'wb':
        wbcells = {}
        for c in cells:
            wbcells['Sheet1!' + c['a']] = ('=' + expr_text(c['f'], cells)) if 'f' in c else _py(c['v'])
        return pyc.compiler_from({k: v for k, v in wbcells.items() if v is not None} or wbcells, cycles=cyc,
                                 plugins=PLUGIN)
    import openpyxl
    from pycel.excelwrapper import ExcelOpxWrapper, ExcelOpxWrapperNoData
    wb, wbv = openpyxl.Workbook(), openpyxl.Workbook()
    wb.active.title = wbv.active.title = 'Sheet1'
    for c in cells:
        v = _py(c['v'])
        if 'f' in c:
            wb.active[c['a']] = '=' + expr_text(c['f'], cells)
        elif v is not None:
            wb.active[c['a']] = v
        if v is not None:
            wbv.active[c['a']] = v
    if cfg['how'] == 'wb':
        wb.calculation.iterate = True
        wb.calculation.iterateCount = cfg['it']
        wb.calculation.iterateDelta = None if cfg['tol'] is None else _py(cfg['tol'])
        cyc = None
    if case['mode'] == 'nodata':
        return ExcelCompiler(excel=ExcelOpxWrapperNoData(wb), cycles=cyc, plugins=PLUGIN)
    wrapper = ExcelOpxWrapper(filename='c06-mem.xlsx')
    wrapper.workbook, wrapper.workbook_dataonly = wb, wbv
    wrapper.load_array_formulas()
    return ExcelCompiler(excel=wrapper, cycles=cyc, plugins=PLUGIN)


def _fixture_ok(case):
    import openpyxl
    ws = openpyxl.load_workbook(FIXTURE).active
    for c in case['cells']:
        have = ws[c['a']].value
        if 'f' in c:
            want = '=' + expr_text(c['f'], case['cells'])
            norm = lambda s: str(s).replace(' ', '').replace('(', '').replace(')', '')   # noqa
            if norm(have) != norm(want):
                return False
    return True


def impl(case):
    if case['mode'] == 'fixture' and not _fixture_ok(case):
        return '!fixture-mismatch'
    comp = _compiler(case)
    cells = case['cells']
    out = []
    for op in case['ops']:
        if op['op'] == 'set':
            comp.set_value('Sheet1!' + cells[op['c']]['a'], _py(op['v']))
            continue
        addrs = ['Sheet1!' + cells[i]['a'] for i in op['t']]
        kw = {}
        if op.get('it') is not None:
            kw['iterations'] = op['it']
        if op.get('tol') is not None:
            kw['tolerance'] = _py(op['tol'])
        _COUNT[0] = 0
        try:
            with _watchdog():
                res = comp.evaluate(addrs[0] if len(addrs) == 1 else addrs, **kw)
        except _Timeout:
            return (f'!timeout: evaluate({",".join(addrs)}, {kw}) did not return within {_WATCHDOG_S[0]} s '
                    f'({_COUNT[0]} passes counted so far)')
        except Exception as exc:   # noqa
            if not op.get('fails'):
                raise
            out.append('raised:' + type(exc).__name__ + '/0')
            continue
        if len(addrs) == 1:
            res = (res,)
        n = _COUNT[0] if op.get('cnt') is not None else 0
        out.append(','.join(core.enc(v) for v in res) + f'/{n}')
    return ';'.join(out)


def _needed(e, out):
    """ExcelFormula.needed_addresses: cells / ranges in formula order, duplicates removed"""
    k = e[0]
    if k == 'r':
        if ('c', e[1]) not in out:
            out.append(('c', e[1]))
    elif k == 'S':
        if ('R', tuple(e[1])) not in out:
            out.append(('R', tuple(e[1])))
    elif k == 'O':
        if e[1] == 'offset' and ('c', e[2]) not in out:      # INDIRECT("A2") names no address at build time
            out.append(('c', e[2]))
    elif k != 'n':
        for sub in e[1:]:
            _needed(sub, out)
    return out


def build_pre(case, st, target):
    """Cells that graph construction evaluates when `target` is first brought into the model: _gen_graph builds the
    precedents depth-first (LIFO todo list) and then evaluates every newly built range, latest first
    (ExcelCompiler._process_gen_graph).  In iterative mode these evaluations are part of the running pass."""
    cells = case['cells']
    if target in st['cells']:
        return []
    graph_todos, range_todos = [], []

    def make_cell(i):
        st['cells'].add(i)
        if 'f' in cells[i]:
            graph_todos.append(i)

    def make_range(r):
        st['ranges'].add(r)
        range_todos.append(r)
        for i in r:
            if i not in st['cells']:
                make_cell(i)

    make_cell(target)
    while graph_todos:
        x = graph_todos.pop()
        for kk, y in _needed(cells[x]['f'], []):
            if kk == 'c' and y not in st['cells']:
                make_cell(y)
            elif kk == 'R' and y not in st['ranges']:
                make_range(y)
    pre = []
    for r in reversed(range_todos):
        pre += list(r)
    return pre


def model_lines(case):
    if case.get('oracle_only'):
        return ['ping']      # no model (computed references to formula cells): answered 'pong', oracles only
    cfg = case['cfg']
    toks = ['c06', 'cfg', '_' if cfg['it'] is None else str(cfg['it']), cfg['tol'] or '_', 'cells',
            str(len(case['cells']))]
    for c in case['cells']:
        if 'f' in c:
            toks += ['f', c['v']] + expr_toks(c['f'])
        else:
            toks += ['v', c['v']]
    toks.append('ops')
    st = {'cells': set(), 'ranges': set()}
    for op in case['ops']:
        if op['op'] == 'set':
            toks += ['set', str(op['c']), op['v']]
        else:
            pre = []
            for t in op['t']:
                pre += build_pre(case, st, t) + [t]
            pre = pre[:-1]
            toks += ['ev', '_' if op.get('it') is None else str(op['it']), op.get('tol') or '_',
                     '_' if op.get('cnt') is None else str(op['cnt']), str(len(pre))] + [str(i) for i in pre] + \
                    [str(len(op['t']))] + [str(i) for i in op['t']]
    return [' '.join(toks)]


def _split(out):
    """'v,v/c;v/c # diag' -> [( [v...], c )]"""
    body = out.split(' # ')[0]
    items = []
    for it in body.split(';'):
        vs, _, c = it.rpartition('/')
        items.append((vs.split(','), c))
    return items


def same(a, b):
    if b == 'pong':
        return True          # oracle-only case
    if a is None or b is None or a.startswith('!') or b.startswith('!'):
        return a == b
    try:
        x, y = _split(a), _split(b)
    except Exception:   # noqa
        return False
    if len(x) != len(y):
        return False
    for (va, ca), (vb, cb) in zip(x, y):
        if ca != cb or len(va) != len(vb):
            return False
        for p, q in zip(va, vb):
            if p != q and not _close(p, q):
                return False
    return True


def _close(p, q):
    """float vs exact: relative 1e-9, or absolute 1e-9 (residuals of a system whose fixed point is near 0 carry the
    absolute rounding error of the O(1) operands they were computed from)"""
    if core.num_close(p, q, rel=1e-9):
        return True
    if p.startswith('n:') and q.startswith('n:'):
        return abs(core.dec(p) - core.dec(q)) <= Fraction(1, 10 ** 9)
    return False


# ---------------------------------------------------------------------------------------------------------------
# generators

def _addr(i, width=1):
    return f'{"ABCD"[i % width]}{i // width + 1}'


def lin_expr(terms, b, plug):
    """terms: [(coef Fraction, ('r', i) | ('S', [i..], addr))]"""
    e = None
    for a, t in terms:
        ref = ['r', t[1]] if t[0] == 'r' else ['S', t[1], t[2]]
        te = ['*', ['n', tok_of(a)], ref]
        e = te if e is None else ['+', e, te]
    be = ['n', tok_of(b)]
    e = be if e is None else ['+', e, be]
    return ['P', e] if plug else e


def solve(A, b):
    """(I - A) x = b over Fractions; None when singular"""
    n = len(b)
    M = [[(Fraction(1) if i == j else Fraction(0)) - A[i][j] for j in range(n)] + [b[i]] for i in range(n)]
    for col in range(n):
        piv = next((r for r in range(col, n) if M[r][col] != 0), None)
        if piv is None:
            return None
        M[col], M[piv] = M[piv], M[col]
        pv = M[col][col]
        M[col] = [x / pv for x in M[col]]
        for r in range(n):
            if r != col and M[r][col] != 0:
                f = M[r][col]
                M[r] = [x - f * y for x, y in zip(M[r], M[col])]
    return [M[i][n] for i in range(n)]


def lin_case(rows, bs, inputs, mode, cfg, ops, width=1, stored=None, fam='lin'):
    """rows[i] = [(coef, target)] with target ('r', j) / ('S', [j..]) over ALL cells (formula cells first, then inputs);
    the plugin counter sits in formula cell 0."""
    n = len(rows)
    cells = []
    total = n + len(inputs)
    addr = [_addr(i, width) for i in range(total)]
    for i in range(n):
        terms = []
        for a, t in rows[i]:
            if t[0] == 'S':
                terms.append((a, ('S', t[1], f'{addr[t[1][0]]}:{addr[t[1][-1]]}')))
            else:
                terms.append((a, t))
        cells.append({'a': addr[i], 'f': lin_expr(terms, bs[i], i == 0),
                      'v': 'z' if stored is None else tok_of(stored[i])})
    for k, v in enumerate(inputs):
        cells.append({'a': addr[n + k], 'v': 'z' if v is None else tok_of(v)})
    return {'fam': fam, 'cells': cells, 'mode': mode, 'cfg': cfg, 'ops': ops, 'n': n}


def lin_matrix(case, inputs_now):
    """dense A (over formula cells) and effective b (inputs folded in) of a lin case"""
    n = case['n']
    A = [[Fraction(0)] * n for _ in range(n)]
    b = [Fraction(0)] * n

    def walk(e, i, coef):
        k = e[0]
        if k == 'P':
            walk(e[1], i, coef)
        elif k == '+':
            walk(e[1], i, coef)
            walk(e[2], i, coef)
        elif k == 'n':
            b[i] += coef * F(e[1])
        elif k == '*':
            a = F(e[1][1])
            ref = e[2]
            for j in ([ref[1]] if ref[0] == 'r' else ref[1]):
                if j < n:
                    A[i][j] += coef * a
                else:
                    b[i] += coef * a * (inputs_now.get(j, F(case['cells'][j]['v'])) or 0)
    for i in range(n):
        walk(case['cells'][i]['f'], i, Fraction(1))
    return A, b


COEFS = [Fraction(x) for x in ('0', '1/2', '-1/2', '1/4', '3/4', '-3/8', '1', '-1', '3/2')]
GRID_IT = [None, 1, 2, 3, 5, 12, 60]
GRID_TOL = [None, 'n:1/2', 'n:1/8', 'n:1/128', 'n:1/1048576', 'n:1/1000000000']


def _cfg(how='true', it=None, tol=None):
    return {'how': how, 'it': it, 'tol': tol}


def _ev(t, it=None, tol=None, cnt=None):
    return {'op': 'ev', 't': list(t), 'it': it, 'tol': tol, 'cnt': cnt}


def _set(c, v):
    return {'op': 'set', 'c': c, 'v': tok_of(v)}


def small_scope():
    """every 2-cell system  A1 = a*B1 + 1 (counted), B1 = c*A1 + d*B1 + 2  over the pool, a few grid points each"""
    k = 0
    for a, c, d in itertools.product(COEFS[1:], COEFS, COEFS[:5]):
        rows = [[(a, ('r', 1))], [(c, ('r', 0)), (d, ('r', 1))]]
        rows[1] = [t for t in rows[1] if t[0] != 0]
        q = max(abs(a), abs(c) + abs(d))
        it = GRID_IT[k % len(GRID_IT)]
        tol = GRID_TOL[(k // 2) % len(GRID_TOL)]
        k += 1
        if q >= 1 and (it is None or it > 12):
            it = 7
        mode = 'nodata' if k % 3 else 'stored'
        ops = [_ev([0], it, tol, 0), _ev([1, 0], it, tol, 0), _ev([0], 1, tol, 0)]
        yield lin_case(rows, [Fraction(1), Fraction(2)], [], mode, _cfg(), ops,
                       stored=None if mode == 'nodata' else [Fraction(k % 5), Fraction(3)],
                       fam='lin' if q < 1 else 'odd')


def grid_cases():
    """the recon system A1 = 0.5*B1 + 1, B1 = A1 and a 3-cell one through a range over the whole grid"""
    for it, tol in itertools.product(GRID_IT, GRID_TOL):
        for mode in ('nodata', 'stored'):
            rows = [[(Fraction(1, 2), ('r', 1))], [(Fraction(1), ('r', 0))]]
            yield lin_case(rows, [Fraction(1), Fraction(0)], [], mode, _cfg(),
                           [_ev([0], it, tol, 0), _ev([1], it, tol, 0)],
                           stored=None if mode == 'nodata' else [Fraction(7), Fraction(-3)])
            # A1 = 0.25*SUM(A1:A4) + 1 (range contains the cell itself, another formula and two inputs)
            rows = [[(Fraction(1, 4), ('S', [0, 1, 2, 3]))], [(Fraction(1, 2), ('r', 0)), (Fraction(1, 4), ('r', 2))]]
            yield lin_case(rows, [Fraction(1), Fraction(-1)], [Fraction(2), Fraction(8)], mode, _cfg(),
                           [_ev([0], it, tol, 0), _set(2, 6), _ev([1, 0], it, tol, 0)],
                           stored=None if mode == 'nodata' else [Fraction(1), Fraction(1)])
        for how in ('dict', 'wb'):
            rows = [[(Fraction(3, 4), ('r', 1))], [(Fraction(-1, 2), ('r', 0)), (Fraction(1, 4), ('r', 1))]]
            yield lin_case(rows, [Fraction(1), Fraction(2)], [], 'nodata' if how == 'dict' else 'stored',
                           _cfg(how, it, tol), [_ev([0], None, None, 0), _ev([0], 2, None, 0),
                                                _ev([1, 0], None, 'n:1/8', 0)],
                           stored=None if how == 'dict' else [Fraction(0), Fraction(0)])


def random_lin(rng, count):
    for _ in range(count):
        n = rng.randint(2, 4)
        n_in = rng.randint(0, 2)
        width = rng.choice([1, 1, 2])
        total = n + n_in
        q = rng.choice([Fraction(1, 2), Fraction(3, 4), Fraction(7, 8)])
        rows = []
        use_range = rng.random() < 0.5
        for i in range(n):
            budget = q
            terms = []
            if use_range and (i == 0 or rng.random() < 0.3):
                lo = rng.randint(0, total - 2)
                hi = rng.randint(lo + 1, total - 1)
                if width == 2:      # full rows only
                    lo, hi = lo - lo % 2, hi | 1
                    hi = min(hi, total - 1 if total % 2 == 0 else total - 2)
                    if hi <= lo:
                        lo, hi = 0, 1
                idx = list(range(lo, hi + 1))
                nf = sum(1 for j in idx if j < n)
                a = Fraction(rng.choice([1, -1, 1]), rng.choice([4, 8, 16]))
                if nf * abs(a) <= budget:
                    terms.append((a, ('S', idx)))
                    budget -= nf * abs(a)
            # make sure every cell is on a cycle: read the next formula cell
            nxt = (i + 1) % n
            a = rng.choice([Fraction(1, 2), Fraction(1, 4), Fraction(-1, 4), Fraction(3, 8), Fraction(-1, 8)])
            if abs(a) <= budget:
                terms.append((a, ('r', nxt)))
                budget -= abs(a)
            for _k in range(rng.randint(0, 2)):
                j = rng.randrange(total)
                a = Fraction(rng.choice([1, -1]), rng.choice([4, 8, 16]))
                if j >= n or abs(a) <= budget:
                    terms.append((a, ('r', j)))
                    if j < n:
                        budget -= abs(a)
            rng.shuffle(terms)
            rows.append(terms)
        bs = [Fraction(rng.randint(-8, 8), rng.choice([1, 2])) for _ in range(n)]
        inputs = [rng.choice([None, Fraction(rng.randint(-6, 6))]) for _ in range(n_in)]
        mode = rng.choice(['nodata', 'stored', 'stored'])
        how = rng.choice(['true', 'true', 'dict', 'wb'])
        cfg = _cfg(how, rng.choice([None, 3, 40, 200]) if how != 'true' else None,
                   rng.choice(GRID_TOL) if how != 'true' else None)
        if how == 'wb':
            mode = rng.choice(['stored', 'nodata'])
        ops = []
        for _k in range(rng.randint(1, 5)):
            if n_in and rng.random() < 0.35:
                ops.append(_set(n + rng.randrange(n_in), Fraction(rng.randint(-8, 8), rng.choice([1, 2, 4]))))
            t = rng.sample(range(total), rng.randint(1, min(3, total)))
            if 0 not in t and rng.random() < 0.8:
                t[rng.randrange(len(t))] = 0
            ops.append(_ev(t, rng.choice(GRID_IT), rng.choice(GRID_TOL), 0))
        stored = None if mode == 'nodata' else [Fraction(rng.randint(-4, 4)) for _ in range(n)]
        yield lin_case(rows, bs, inputs, mode, cfg, ops, width=width, stored=stored)


def _acyc_expr(rng, i, avail, addr, width):
    """formula of cell i over earlier cells `avail`"""
    def leaf():
        r = rng.random()
        if r < 0.6 and avail:
            return ['r', rng.choice(avail)]
        return ['n', tok_of(Fraction(rng.randint(-6, 6), rng.choice([1, 2, 4])))]

    def rng_sum():
        lo = rng.randint(0, len(avail) - 2)
        hi = rng.randint(lo + 1, len(avail) - 1)
        if width == 2:
            lo, hi = lo - lo % 2, hi | 1
            if hi >= i:
                hi = (i - 1) if (i - 1) % 2 == 1 else i - 2
            if hi <= lo:
                return None
        idx = list(range(lo, hi + 1))
        return ['S', idx, f'{addr[idx[0]]}:{addr[idx[-1]]}']

    r = rng.random()
    if r < 0.3 and len(avail) >= 2:
        s = rng_sum()
        if s:
            return ['+', s, leaf()] if rng.random() < 0.5 else s
    if r < 0.45:
        return [rng.choice('EL'), leaf(), leaf(), ['+', leaf(), leaf()], leaf()]
    if r < 0.55 and avail:
        return ['r', rng.choice(avail)]
    return [rng.choice('+-*'), leaf(), [rng.choice('+-*'), leaf(), leaf()]]


def random_acyc(rng, count):
    for _ in range(count):
        total = rng.randint(4, 9)
        width = rng.choice([1, 1, 2])
        addr = [_addr(i, width) for i in range(total)]
        n_in = rng.randint(2, 3)
        cells = []
        for i in range(total):
            if i < n_in or rng.random() < 0.15:
                cells.append({'a': addr[i], 'v': rng.choice(['z'] + [tok_of(Fraction(rng.randint(-5, 9)))] * 4)})
            else:
                cells.append({'a': addr[i], 'f': _acyc_expr(rng, i, list(range(i)), addr, width), 'v': 'z'})
        mode = rng.choice(['nodata', 'stored'])
        ins = [i for i, c in enumerate(cells) if 'f' not in c]
        fs = [i for i, c in enumerate(cells) if 'f' in c]
        if not fs:
            continue
        ops = []
        for _k in range(rng.randint(2, 7)):
            if rng.random() < 0.45:
                ops.append(_set(rng.choice(ins), Fraction(rng.randint(-6, 9), rng.choice([1, 1, 2]))))
            else:
                t = [rng.choice(fs)] + rng.sample(range(total), rng.randint(0, 2))
                rng.shuffle(t)
                ops.append(_ev(t, rng.choice([None, None, 1, 2, 5]), rng.choice([None, None, 'n:1/8', 'n:1/1048576'])))
        if not any(o['op'] == 'ev' for o in ops):
            ops.append(_ev([fs[-1]]))
        case = {'fam': 'acyc', 'cells': cells, 'mode': mode, 'cfg': _cfg(rng.choice(['true', 'true', 'dict']),
                                                                        rng.choice([None, 1, 3, 50]), None),
                'ops': ops}
        if case['cfg']['how'] == 'true':
            case['cfg']['it'] = None
        if mode == 'stored':
            # stored results as Excel would have saved them: the from-scratch values (or deliberately stale ones)
            vals = _denote(case, {})
            stale = rng.random() < 0.3
            for i in fs:
                v = vals[i]
                cells[i]['v'] = 'z' if v is None else tok_of(v + (1 if stale else 0))
        yield case


FIX_CELLS = [
    {'a': 'B1', 'f': ['-', ['r', 3], ['r', 2]], 'v': 'n:0/1'},
    {'a': 'A2', 'v': tok_of(Fraction(0.2))},
    {'a': 'B2', 'f': ['E', ['r', 3], ['n', 'n:0/1'], ['n', 'n:0/1'], ['*', ['r', 1], ['r', 0]]], 'v': 'n:0/1'},
    {'a': 'B3', 'v': 'n:0/1'},
    {'a': 'A5', 'v': 'n:50/1'},
    {'a': 'B5', 'v': tok_of(Fraction(0.01))},
    {'a': 'A6', 'f': ['r', 7], 'v': 'n:50/1'},
    {'a': 'B6', 'f': ['E', ['r', 3], ['n', 'n:0/1'], ['r', 4],
                      ['L', ['r', 6], ['n', 'n:0/1'], ['r', 4], ['-', ['r', 6], ['r', 5]]]], 'v': 'n:50/1'},
    {'a': 'B8', 'f': ['-', ['r', 0], ['r', 7]], 'v': 'n:-50/1'},
    {'a': 'B10', 'f': ['E', ['r', 3], ['n', 'n:0/1'], ['n', 'n:0/1'], ['+', ['r', 9], ['n', tok_of(Fraction(0.001))]]],
     'v': 'n:0/1'},
]


def fixture_cases(rng, count):
    base = {'fam': 'fixture', 'cells': FIX_CELLS, 'mode': 'fixture', 'cfg': _cfg('wb', 10000, tok_of(Fraction(0.01)))}
    # the histories of tests/test_excelcompiler.py
    yield dict(base, ops=[_ev([2, 7], 1), _set(1, Fraction(0.2)), _set(3, 100), _ev([2], 3, tok_of(Fraction(1, 2 ** 60)))])
    yield dict(base, ops=[_ev([8], 1), _set(3, 0), _ev([8], 500, tok_of(Fraction(1, 2 ** 60))), _set(3, 100),
                          _ev([8], 500, tok_of(Fraction(0.01))), _ev([7, 8], 500, tok_of(Fraction(0.01))),
                          _ev([9], 5), _ev([9])])
    for _ in range(count):
        ops = []
        for _k in range(rng.randint(2, 6)):
            r = rng.random()
            if r < 0.25:
                ops.append(_set(3, rng.choice([0, 100, 200, 8])))
            elif r < 0.35:
                ops.append(_set(1, Fraction(rng.choice([0.2, 0.5, 0.125, 0.75]))))
            elif r < 0.45:
                ops.append(_set(rng.choice([4, 5]), Fraction(rng.choice([50, 8, 0.5, 0.25]))))
            else:
                t = rng.sample([0, 2, 6, 7, 8, 9], rng.randint(1, 3))
                it = rng.choice([None, 1, 2, 3, 5, 30, 300])
                tol = rng.choice([None, 'n:1/8', 'n:1/1024', tok_of(Fraction(1, 2 ** 40))])
                if tol not in (None, 'n:1/8') and it is None:
                    # B6 steps by B5 forever below this tolerance: 10000 passes whose float sum crosses the A6<0
                    # test at a rounding-dependent pass; keep such runs short (exactly comparable)
                    it = 30
                ops.append(_ev(t, it, tol))
        if not any(o['op'] == 'ev' for o in ops):
            ops.append(_ev([8]))
        yield dict(base, ops=ops)


def odd_cases():
    """degenerate configurations: iterations 0 / negative, tolerance 0 / negative, constant-only targets, self loop"""
    rows = [[(Fraction(1, 2), ('r', 1))], [(Fraction(1), ('r', 0))]]
    for it, tol in [(0, None), (-1, None), (-5, 'n:1/8'), (3, 'n:0/1'), (3, 'n:-1/8'), (1, 'n:-1/8'), (0, 'n:0/1')]:
        for mode in ('nodata', 'stored'):
            yield lin_case(rows, [Fraction(1), Fraction(0)], [], mode, _cfg(), [_ev([0], it, tol, 0), _ev([1, 0], it, tol, 0)],
                           stored=None if mode == 'nodata' else [Fraction(1), Fraction(1)], fam='odd')
    # self loop A1 = 0.5*A1 + 1 and an input-only evaluate
    yield lin_case([[(Fraction(1, 2), ('r', 0))]], [Fraction(1)], [Fraction(4)], 'nodata', _cfg(),
                   [_ev([1]), _ev([0], None, None, 0), _ev([1, 0], 4, None, 0)], fam='odd')
    # divergent system, explicit small iteration counts
    rows = [[(Fraction(3, 2), ('r', 1))], [(Fraction(1), ('r', 0))]]
    for it in (1, 2, 9):
        yield lin_case(rows, [Fraction(1), Fraction(0)], [], 'stored', _cfg('dict', it, None),
                       [_ev([0], None, None, 0), _ev([0], it + 1, None, 0)], stored=[Fraction(1), Fraction(1)], fam='odd')


def _built_only(case):
    """set_value needs the cell in the model: drop `set` operations on cells no earlier evaluate has reached"""
    built = set()
    ops = []
    for op in case['ops']:
        if op['op'] == 'ev':
            built |= _reach(case, op['t'])
            ops.append(op)
        elif op['c'] in built:
            ops.append(op)
    case = dict(case, ops=ops)
    return case if any(o['op'] == 'ev' for o in ops) else None


def cases(tier, rng):
    for c in _cases(tier, rng):
        c = _built_only(c)
        if c:
            yield c


def tie_cases():
    """Exact ties of close_enough.  A1 = 1*B1 + D (counted), B1 = A1: A1 moves by exactly D in every pass.
    With tol = 100000 * 2^k the bound (1 + rel) * tol = 100001 * 2^k is exact in the float arithmetic of the code
    ((1 + 0.00001) * 100000.0 == 100001.0) and in the model, so D = bound is a true tie (stops: `<=`), one unit above
    continues to the limit, D = tol and one unit below stop.  Both signs, decimal and dyadic scales, tolerance given
    as argument and as configuration, stored (0 -> D is a number/number change) workbooks."""
    assert (1 + 0.00001) * 100000.0 == 100001.0
    for k in (0, -20, -7):
        sc = Fraction(2) ** k
        tol = 100000 * sc
        bound = 100001 * sc
        eps = sc / 1024
        for sign in (1, -1):
            for D in (bound, bound + eps, bound - eps, tol, 2 * bound):
                rows = [[(Fraction(1), ('r', 1))], [(Fraction(1), ('r', 0))]]
                for how in ('arg', 'dict'):
                    cfg = _cfg() if how == 'arg' else _cfg('dict', 6, tok_of(tol))
                    ta = tok_of(tol) if how == 'arg' else None
                    ops = [_ev([0], 5 if how == 'arg' else None, ta, 0), _ev([1, 0], 4, ta, 0), _ev([0], 1, ta, 0)]
                    yield lin_case(rows, [sign * D, Fraction(0)], [], 'stored', cfg, ops,
                                   stored=[Fraction(0), Fraction(0)], fam='tie')


def reent_cases(rng, extra):
    """Constructs through which evaluation can RE-ENTER the public API / the shared tracker in the middle of a pass:
    cells whose whole formula evaluates to a reference (OFFSET, INDIRECT), placed beside and inside the cycle, also
    read through a range that is built during the pass.  When the reference names an input cell the model treats it
    as a plain read (exact correspondence of values and pass counts); when it names a formula cell the case is
    oracle-only (pass bound, termination, no exception) — the Lean model has no computed references."""
    tiny = 'n:1/1000000000'
    grid = [(1, tiny), (2, tiny), (3, tiny), (5, tiny), (3, None), (None, 'n:1/1024'), (7, 'n:1/8')]

    def ev_all(cnt, targets, grid_):
        return [_ev(targets, it, tol, cnt) for it, tol in grid_]

    for kind in ('offset', 'indirect'):
        for mode in ('nodata', 'stored'):
            z = (lambda v: 'z') if mode == 'nodata' else (lambda v: tok_of(v))
            for cfg in (_cfg(), _cfg('dict', 100, 'n:1/1024')):
                # (a) beside the cycle: A1, A2 inputs; A3 = 0.5*A3 + A1 (counted); A4 -> ref A2; A5 = A3 + A4
                cells = [{'a': 'A1', 'v': 'n:1/1'}, {'a': 'A2', 'v': 'n:7/1'},
                         {'a': 'A3', 'f': ['P', ['+', ['*', ['n', 'n:1/2'], ['r', 2]], ['r', 0]]], 'v': z(0)},
                         {'a': 'A4', 'f': ['O', kind, 1], 'v': z(7)},
                         {'a': 'A5', 'f': ['+', ['r', 2], ['r', 3]], 'v': z(0)}]
                yield {'fam': 'reent', 'cells': cells, 'mode': mode, 'cfg': cfg,
                       'ops': ev_all(2, [4], grid) + [_set(1, 9), _ev([4, 3], 2, tiny, 2)]}
                # (b) a cell that never converges: A3 = A3 + 1 (counted), A5 = A3 + A4: only the limit stops it
                cells = [{'a': 'A1', 'v': 'n:1/1'}, {'a': 'A2', 'v': 'n:7/1'},
                         {'a': 'A3', 'f': ['P', ['+', ['r', 2], ['n', 'n:1/1']]], 'v': z(0)},
                         {'a': 'A4', 'f': ['O', kind, 1], 'v': z(7)},
                         {'a': 'A5', 'f': ['+', ['r', 2], ['r', 3]], 'v': z(0)}]
                yield {'fam': 'reent', 'cells': cells, 'mode': mode, 'cfg': cfg,
                       'ops': [_ev([4], 5, None, 2), _ev([3, 4], 2, None, 2), _ev([4], 1, tiny, 2)]}
                # (c) the reference cell is read through a range built during the pass: A5 = A3 + SUM(A1:A4)*0
                cells = [{'a': 'A1', 'v': 'n:1/1'}, {'a': 'A2', 'v': 'n:7/1'},
                         {'a': 'A3', 'f': ['P', ['+', ['*', ['n', 'n:1/2'], ['r', 2]], ['r', 0]]], 'v': z(0)},
                         {'a': 'A4', 'f': ['O', kind, 1], 'v': z(7)},
                         {'a': 'A5', 'f': ['+', ['r', 2], ['*', ['n', 'n:1/8'], ['S', [0, 1, 2, 3], 'A1:A4']]], 'v': z(0)}]
                yield {'fam': 'reent', 'cells': cells, 'mode': mode, 'cfg': cfg,
                       'ops': ev_all(2, [4], grid[:5])}
                # (d) oracle-only: the reference names a formula cell inside the cycle (A1 = 0.5*A2 + 1, A2 -> ref A1)
                cells = [{'a': 'A1', 'f': ['P', ['+', ['*', ['n', 'n:1/2'], ['r', 1]], ['n', 'n:1/1']]], 'v': z(0)},
                         {'a': 'A2', 'f': ['O', kind, 0], 'v': z(0)},
                         {'a': 'A3', 'f': ['+', ['r', 0], ['r', 1]], 'v': z(0)}]
                yield {'fam': 'reent', 'cells': cells, 'mode': mode, 'cfg': cfg, 'oracle_only': True,
                       'ops': ev_all(0, [2], grid) + ev_all(0, [1, 0], grid[:3])}
                # (e) oracle-only: the reference names an acyclic formula beside the cycle; a non-converging counter
                cells = [{'a': 'A1', 'v': 'n:3/1'},
                         {'a': 'A2', 'f': ['*', ['r', 0], ['n', 'n:2/1']], 'v': z(6)},
                         {'a': 'A3', 'f': ['P', ['+', ['r', 2], ['n', 'n:1/1']]], 'v': z(0)},
                         {'a': 'A4', 'f': ['O', kind, 1], 'v': z(6)},
                         {'a': 'A5', 'f': ['+', ['r', 2], ['r', 3]], 'v': z(0)}]
                yield {'fam': 'reent', 'cells': cells, 'mode': mode, 'cfg': cfg, 'oracle_only': True,
                       'ops': [_ev([4], 5, None, 2), _set(0, 4), _ev([3, 4], 3, None, 2)]}
    # (g) oracle-only: an evaluate with its OWN iterations/tolerance fails (unknown function) part-way; later calls
    #     without overrides must run under the model's settings again (pass bound through the plugin count)
    for mode in ('nodata', 'stored'):
        z = (lambda v: 'z') if mode == 'nodata' else (lambda v: tok_of(v))
        for how in ('dict', 'wb'):
            cells = [{'a': 'A1', 'f': ['P', ['+', ['r', 0], ['n', 'n:1/1']]], 'v': z(0)},
                     {'a': 'B1', 'f': ['+', ['X', ['r', 0]], ['n', 'n:1/1']], 'v': z(0)}]
            for big in (40, 7):
                yield {'fam': 'reent', 'cells': cells, 'mode': mode, 'cfg': _cfg(how, 5, 'n:1/2'), 'oracle_only': True,
                       'ops': [_ev([0], None, None, 0), dict(_ev([1], big, 'n:1/1024'), fails=True),
                               _ev([0], 1, None, 0), _ev([0], None, None, 0),
                               dict(_ev([1, 0], big, None), fails=True), _ev([0], None, None, 0)]}
    # (f) another thread evaluates an unrelated iterative workbook in the middle of every pass (HANDOVER plugin)
    for mode in ('nodata', 'stored'):
        z = (lambda v: 'z') if mode == 'nodata' else (lambda v: tok_of(v))
        cells = [{'a': 'A1', 'f': ['P', ['+', ['r', 0], ['n', 'n:1/1']]], 'v': z(0)},
                 {'a': 'A2', 'f': ['+', ['H', ['r', 0]], ['r', 0]], 'v': z(0)}]
        yield {'fam': 'reent', 'cells': cells, 'mode': mode, 'cfg': _cfg('dict', 3, 'n:1/1024'),
               'ops': [_ev([1], None, None, 0), _ev([1], 5, None, 0), _ev([0], 1, None, 0)]}
        cells = [{'a': 'A1', 'f': ['P', ['+', ['*', ['n', 'n:1/2'], ['H', ['r', 1]]], ['n', 'n:1/1']]], 'v': z(0)},
                 {'a': 'A2', 'f': ['+', ['r', 0], ['n', 'n:0/1']], 'v': z(0)}]
        yield {'fam': 'reent', 'cells': cells, 'mode': mode, 'cfg': _cfg(),
               'ops': ev_all(0, [0], grid[:6])}
    # random: contracting systems with a reference cell (to an input) spliced into a row
    for _ in range(extra):
        n = rng.randint(2, 3)
        rows = []
        for i in range(n):
            rows.append([(rng.choice([Fraction(1, 2), Fraction(1, 4), Fraction(-3, 8)]), ('r', (i + 1) % n))])
        case = lin_case(rows, [Fraction(rng.randint(-4, 4)) for _ in range(n)],
                        [Fraction(rng.randint(1, 6)), Fraction(rng.randint(1, 6))],
                        rng.choice(['nodata', 'stored']), _cfg(), [], stored=[Fraction(0)] * n, fam='reent')
        if case['mode'] == 'nodata':
            for c in case['cells'][:n]:
                c['v'] = 'z'
        kind = rng.choice(['offset', 'indirect'])
        refcell = {'a': _addr(n + 2), 'f': ['O', kind, n + rng.randrange(2)], 'v': 'z'}
        case['cells'].append(refcell)
        j = rng.randrange(n)
        f = case['cells'][j]['f']
        inner = f[1] if f[0] == 'P' else f
        inner = ['+', inner, ['*', ['n', 'n:1/4'], ['r', n + 2]]]
        case['cells'][j]['f'] = ['P', inner] if f[0] == 'P' else inner
        case['ops'] = [_ev(rng.sample(range(n), rng.randint(1, n)), rng.choice([1, 2, 3, 5, None]),
                           rng.choice([tiny, 'n:1/1024', None]), 0) for _k in range(rng.randint(1, 3))]
        yield case


def _cases(tier, rng):
    thorough = tier == 'thorough'
    yield from tie_cases()
    yield from reent_cases(rng, 200 if thorough else 30)
    yield from odd_cases()
    yield from grid_cases()
    yield from small_scope()
    yield from fixture_cases(rng, 60 if thorough else 12)
    yield from random_lin(rng, 1500 if thorough else 150)
    yield from random_acyc(rng, 2500 if thorough else 250)


# ---------------------------------------------------------------------------------------------------------------
# oracles (implementation outputs only)

def _eval_expr(e, val):
    k = e[0]
    n_ = lambda v: Fraction(0) if v is None else v     # noqa
    if k == 'n':
        return F(e[1])
    if k == 'r':
        return val(e[1])
    if k == 'O':
        return val(e[2])
    if k == 'S':
        return sum((n_(val(j)) for j in e[1]), Fraction(0))
    if k in 'PH':
        return _eval_expr(e[1], val)
    if k in '+-*':
        a, b = n_(_eval_expr(e[1], val)), n_(_eval_expr(e[2], val))
        return a + b if k == '+' else a - b if k == '-' else a * b
    a, b = n_(_eval_expr(e[1], val)), n_(_eval_expr(e[2], val))
    x, y = _eval_expr(e[3], val), _eval_expr(e[4], val)
    return x if (a == b if k == 'E' else a < b) else y


def _denote(case, inputs_now):
    """from-scratch values of an acyclic case (cells only read earlier cells)"""
    vals = {}
    for i, c in enumerate(case['cells']):
        if 'f' in c:
            vals[i] = _eval_expr(c['f'], lambda j: vals[j])
        else:
            vals[i] = inputs_now.get(i, F(c['v']))
    return vals


def _noniter(case, inputs_now, targets):
    """what a freshly built NON-iterative compiler returns for the same workbook with the current inputs"""
    cells = case['cells']
    wbcells = {}
    for i, c in enumerate(cells):
        if 'f' in c:
            wbcells['Sheet1!' + c['a']] = '=' + expr_text(c['f'], cells)
        else:
            v = inputs_now.get(i, F(c['v']))
            if v is not None:
                wbcells['Sheet1!' + c['a']] = int(v) if v.denominator == 1 else float(v)
    comp = pyc.compiler_from(wbcells, plugins=PLUGIN)
    return [core.enc(comp.evaluate('Sheet1!' + cells[i]['a'])) for i in targets]


def eff_it(case, op):
    return op.get('it') or case['cfg']['it'] or 10000


def eff_tol(case, op):
    t = (F(op['tol']) if op.get('tol') else None) or (F(case['cfg']['tol']) if case['cfg']['tol'] else None)
    return t or Fraction(1, 100)


def oracles(results):
    for r in results:
        case = r.case
        if r.model and '!oof' in r.model:
            yield case, 'the model ran out of recursion fuel (hypothesis of C06_result_bound_partial violated)'
        if r.impl.startswith('!'):
            yield case, f'evaluate raised / returned a non-value: {r.impl}'
            continue
        items = _split(r.impl)
        evs = [op for op in case['ops'] if op['op'] == 'ev']
        if len(items) != len(evs):
            yield case, 'wrong number of outputs'
            continue
        inputs_now = {}
        k = 0
        for op in case['ops']:
            if op['op'] == 'set':
                inputs_now[op['c']] = F(op['v'])
                continue
            vals, cnt = items[k]
            k += 1
            N = eff_it(case, op)
            if op.get('cnt') is not None:
                c = int(cnt)
                if c > max(1, N):
                    yield case, f'op {k}: {c} passes for iterations={N}'
                if c < 1 and op['cnt'] in _reach(case, op['t']):
                    yield case, f'op {k}: no pass evaluated the counted cell'
            if case['fam'] == 'acyc':
                want = _noniter(case, inputs_now, op['t'])
                for i, (a, b) in enumerate(zip(vals, want)):
                    if a != b and not _close(a, b):
                        yield case, (f'op {k}: acyclic workbook, iterative evaluate({case["cells"][op["t"][i]]["a"]}) = '
                                     f'{core.show(a)} but non-iterative evaluation gives {core.show(b)}')
            if case['fam'] == 'lin' and op.get('cnt') is not None:
                A, b = lin_matrix(case, inputs_now)
                q = max(sum(abs(x) for x in row) for row in A)
                xs = solve(A, b)
                tol = eff_tol(case, op)
                if q < 1 and xs is not None and int(cnt) < N and tol > 0 and 0 in op['t']:
                    bound = q / (1 - q) * (1 + Fraction(1, 100000)) * tol
                    for i, v in zip(op['t'], vals):
                        if i < case['n'] and i in _reach(case, [0]) and v.startswith('n:'):
                            err = abs(F(v) - xs[i])
                            if err > bound * (1 + Fraction(1, 10 ** 6)) + Fraction(1, 10 ** 9):
                                yield case, (f'op {k}: stopped after {cnt} < {N} passes but {case["cells"][i]["a"]} is '
                                             f'{float(err):.3g} from the fixed point (bound {float(bound):.3g})')


def _reach(case, targets):
    seen = set()
    todo = list(targets)
    while todo:
        i = todo.pop()
        if i in seen:
            continue
        seen.add(i)
        c = case['cells'][i]
        if 'f' in c:
            todo += expr_reads(c['f'])
    return seen


# ---------------------------------------------------------------------------------------------------------------

def governed(case):
    return case['fam'] in ('acyc', 'lin')


def finding_key(case, impl_out, model_out):
    return None


def nontrivial(case):
    return any(op['op'] == 'ev' and any('f' in case['cells'][i] for i in op['t']) for op in case['ops'])


def bucket(case):
    fam = case['fam']
    if fam == 'reent':
        return 'reent:oracle-only' if case.get('oracle_only') else 'reent'
    if fam == 'lin':
        if case['cfg']['how'] == 'dict':
            return 'lin:dictcfg'
        if case['cfg']['how'] == 'wb':
            return 'lin:wbcfg'
        if any('f' in c and has_range(c['f']) for c in case['cells']):
            return 'lin:range'
        return 'lin:' + case['mode']
    if fam == 'acyc':
        return 'acyc:range' if any('f' in c and has_range(c['f']) for c in case['cells']) else 'acyc'
    return fam
